#!/usr/bin/env python3
"""Build-and-run driver for the /verif checks.

  driver.py run <harness> [args...]     build harness from /repo's working tree (overlay) and run it
  driver.py build <harness> <out>       build only
  driver.py setup                       build the instrumenter, warm the build cache

A harness is a directory /verif/harness/<name>/ holding a virtual main package
(injected at /repo/internal/verif/h/<name>) and an optional verif.json:
  {"instrument": "all" | "none" | ["internal/pkg/reactor", ...], "race": false}
"""
import json, os, shutil, subprocess, sys, tempfile, hashlib, time, glob

VERIF = "/verif"
REPO = os.environ.get("VERIF_REPO", "/repo")
GO = "/root/go/pkg/mod/golang.org/toolchain@v0.0.1-go1.24.2.linux-amd64/bin/go"
MODULE = "github.com/internetarchive/Zeno"
CACHE = os.path.join(VERIF, ".cache")

EXCLUDE_INSTR = ("internal/pkg/log", "internal/pkg/ui", "internal/pkg/api", "internal/pkg/consul",
                 "internal/pkg/config", "internal/pkg/source/lq/sqlc_model")


def goenv():
    e = dict(os.environ)
    e.update({"GOTOOLCHAIN": "local", "GOFLAGS": "-mod=mod", "GOPROXY": "off", "GODEBUG": "goindex=0",
              "CGO_ENABLED": "1"})
    e.pop("GOSUMDB", None)
    return e


def sh(cmd, cwd=None, env=None, check=True, capture=False):
    r = subprocess.run(cmd, cwd=cwd, env=env or goenv(), stdout=subprocess.PIPE if capture else None,
                       stderr=subprocess.STDOUT if capture else None, text=True)
    if check and r.returncode != 0:
        if capture:
            sys.stderr.write(r.stdout)
        sys.stderr.write("engine error: command failed: %s\n" % " ".join(cmd))
        sys.exit(2)
    return r


def build_instr():
    os.makedirs(CACHE, exist_ok=True)
    out = os.path.join(CACHE, "instr")
    src = os.path.join(VERIF, "engine/instr/main.go")
    if not os.path.exists(out) or os.path.getmtime(out) < os.path.getmtime(src):
        sh([GO, "build", "-o", out, "."], cwd=os.path.join(VERIF, "engine/instr"))
    return out


def all_instr_pkgs():
    pkgs = []
    for root in ("pkg/models", "internal/pkg"):
        for d, _, files in os.walk(os.path.join(REPO, root)):
            rel = os.path.relpath(d, REPO)
            if any(rel == x or rel.startswith(x + "/") for x in EXCLUDE_INSTR):
                continue
            if any(f.endswith(".go") and not f.endswith("_test.go") for f in files):
                pkgs.append(rel)
    return sorted(pkgs)


def add_tree(overlay, src_dir, virt_dir):
    for d, _, files in os.walk(src_dir):
        for f in files:
            if f.endswith(".go") or f.endswith(".s"):
                rel = os.path.relpath(os.path.join(d, f), src_dir)
                overlay[os.path.join(virt_dir, rel)] = os.path.join(d, f)


def warc_dir():
    r = sh([GO, "list", "-m", "-f", "{{.Dir}}", "github.com/CorentinB/warc"], cwd=REPO, capture=True)
    return r.stdout.strip().splitlines()[-1]


def make_overlay(harness, tmp):
    hdir = os.path.join(VERIF, "harness", harness)
    if not os.path.isdir(hdir):
        sys.stderr.write("engine error: no harness %s\n" % hdir)
        sys.exit(2)
    cfg = {}
    cf = os.path.join(hdir, "verif.json")
    if os.path.exists(cf):
        cfg = json.load(open(cf))
    overlay = {}
    # runtime + harness as virtual packages inside the module
    add_tree(overlay, os.path.join(VERIF, "engine/vrt"), os.path.join(REPO, "internal/verif/vrt"))
    # goroutine identity (assembly) must sit in a directory that exists on disk
    overlay[os.path.join(REPO, "internal/zz_verif_getg.go")] = os.path.join(VERIF, "engine/vgid/getg.go")
    overlay[os.path.join(REPO, "internal/zz_verif_getg_amd64.s")] = os.path.join(VERIF, "engine/vgid/getg_amd64.s")
    for f in os.listdir(hdir):
        if f.endswith(".go"):
            overlay[os.path.join(REPO, "internal/verif/h", harness, f)] = os.path.join(hdir, f)
    # shared harness libraries
    for lib in cfg.get("libs", []):
        add_tree(overlay, os.path.join(VERIF, "harness/lib", lib), os.path.join(REPO, "internal/verif/lib", lib))
    # files added to Zeno packages (accessors for package-private state)
    inpkg = os.path.join(VERIF, "engine/inpkg")
    inpkg_files = []
    for d, _, files in os.walk(inpkg):
        for f in files:
            if not f.endswith(".go"):
                continue
            rel = os.path.relpath(os.path.join(d, f), inpkg)
            # common accessors (zz_verif.go) plus the ones owned by this harness
            if f != "zz_verif.go" and f != "zz_verif_%s.go" % harness and f not in cfg.get("inpkg_extra", []):
                continue
            if rel.startswith("_warc/"):
                if cfg.get("warc_overlay"):
                    overlay[os.path.join(warc_dir(), rel[len("_warc/"):])] = os.path.join(d, f)
                continue
            overlay[os.path.join(REPO, rel)] = os.path.join(d, f)
            inpkg_files.append((os.path.join(d, f), os.path.dirname(rel)))
    instr = cfg.get("instrument", "none")
    if instr != "none" or cfg.get("instrument_harness"):
        pkgs = all_instr_pkgs() if instr == "all" else ([] if instr == "none" else list(instr))
        excl = cfg.get("instrument_exclude", [])
        pkgs = [p for p in pkgs if not any(p == e or p.startswith(e + "/") for e in excl)]
        # inpkg files of instrumented packages are instrumented with them
        pkgs += ["+%s=%s" % (f, d) for f, d in inpkg_files if d in pkgs]
        for lib in cfg.get("libs", []):
            if cfg.get("instrument_libs", True):
                pkgs.append("@%s=%s" % (os.path.join(VERIF, "harness/lib", lib), os.path.join("internal/verif/lib", lib)))
        exp = os.path.join(tmp, "exports.json")
        r = sh([GO, "list", "-export", "-deps", "-f", "{{if .Export}}{{.ImportPath}} {{.Export}}{{end}}", "./..."],
               cwd=REPO, capture=True)
        m = {}
        for line in r.stdout.splitlines():
            parts = line.split(" ", 1)
            if len(parts) == 2 and parts[1].startswith("/"):
                m[parts[0]] = parts[1]
        json.dump(m, open(exp, "w"))
        outd = os.path.join(tmp, "instr")
        os.makedirs(outd, exist_ok=True)
        if cfg.get("instrument_harness"):
            pkgs.append("@%s=%s" % (hdir, os.path.join("internal/verif/h", harness)))
        sh([build_instr(), "-repo", REPO, "-out", outd, "-export", exp] + pkgs)
        frag = json.load(open(os.path.join(outd, "overlay-fragment.json")))
        overlay.update(frag)
        # inpkg files of instrumented packages are plain Go and stay as they are
    ov = os.path.join(tmp, "overlay.json")
    json.dump({"Replace": overlay}, open(ov, "w"), indent=1)
    return ov, cfg


def build(harness, out, tmp, race=False):
    ov, cfg = make_overlay(harness, tmp)
    cmd = [GO, "build", "-overlay", ov, "-o", out]
    if race or cfg.get("race"):
        cmd.append("-race")
    cmd.append("./internal/verif/h/" + harness)
    r = subprocess.run(cmd, cwd=REPO, env=goenv(), stdout=subprocess.PIPE, stderr=subprocess.STDOUT, text=True)
    if r.returncode != 0:
        sys.stderr.write(r.stdout)
        sys.stderr.write("engine error: build of harness %s failed (exit 2)\n" % harness)
        sys.exit(2)
    return cfg


def mktmp():
    base = "/dev/shm" if os.path.isdir("/dev/shm") else None
    return tempfile.mkdtemp(prefix="verif-", dir=base)


# properties decided by several harnesses (parts); each part writes evidence/<ID>.part-<name>.json
PARTS = {
    "C02": ["c02", "c02b", "c02c"],
    "C03": ["c03", "c03b", "c03c"],
    "C04": ["c04", "c04b"],
    "C07": ["c07", "c07c"],
    "C10": ["c10", "c10b", "c10c"],
    "C11": ["c11", "c11b"],
    "C13": ["c13", "c13b"],
    "C14": ["c14", "c14b"],
    "C15": ["c15", "c15b"],
    "C16": ["c16", "c16b", "c16c", "c16d"],
    "C17": ["c17", "c17b"],
    "C18": ["c18", "c18b", "c18c"],
}


def run_parts(prop, args):
    """Runs every existing part of a property, merges the evidence, exits with the worst code."""
    parts = [h for h in PARTS.get(prop, [prop.lower()]) if os.path.isdir(os.path.join(VERIF, "harness", h))]
    if "--replay" in args:
        # a replay artefact names the harness that produced it
        try:
            h = json.load(open(args[args.index("--replay") + 1])).get("harness", "")
        except Exception:
            h = ""
        if h in parts:
            parts = [h]
        else:
            parts = parts[:1]
    if len(parts) <= 1:
        os.execv(sys.executable, [sys.executable, __file__, "run", parts[0] if parts else prop.lower()] + args)
    worst = 0
    t0 = time.time()
    broken = []
    for h in parts:
        pf = os.path.join(VERIF, "evidence", "%s.part-%s.json" % (prop, h))
        if os.path.exists(pf):
            os.remove(pf)
        env = dict(os.environ)
        env["VERIF_PART"] = h
        r = subprocess.run([sys.executable, __file__, "run", h] + args, env=env)
        if r.returncode not in (0, 1):
            # an engine error of one part does not take back a violation another part has reported (or will report)
            broken.append(h)
            continue
        worst = max(worst, r.returncode)
    if broken and worst == 0:
        sys.exit(2)
    merged = None
    for h in parts:
        pf = os.path.join(VERIF, "evidence", "%s.part-%s.json" % (prop, h))
        if not os.path.exists(pf):
            if h in broken:
                continue
            sys.stderr.write("engine error: part %s wrote no evidence\n" % h)
            sys.exit(2)
        ev = json.load(open(pf))
        os.remove(pf)
        cov = ev.get("coverage", {})
        if merged is None:
            merged = ev
            merged["coverage"] = dict(cov)
            merged["coverage"]["parts"] = {h: cov}
            merged["assumptions"] = list(ev.get("assumptions") or [])
            continue
        mc = merged["coverage"]
        mc["parts"][h] = cov
        for k in ("states", "transitions", "traces_validated_against_impl", "evaluations", "distinct_nontrivial"):
            if k in cov:
                mc[k] = mc.get(k, 0) + cov[k]
        # a fault-enumeration part counts its executed cases as traces on the implementation
        if "traces_validated_against_impl" not in cov and "evaluations" in cov:
            mc["traces_validated_against_impl"] = mc.get("traces_validated_against_impl", 0) + cov["evaluations"]
        mc["samples"] = list(mc.get("samples") or []) + list(cov.get("samples") or [])[:3]
        mc["exhaustive"] = bool(mc.get("exhaustive", True)) and bool(cov.get("exhaustive", True))
        merged["assumptions"] += list(ev.get("assumptions") or [])
        merged["violations"] = merged.get("violations", 0) + ev.get("violations", 0)
    merged["wall_s"] = time.time() - t0
    json.dump(merged, open(os.path.join(VERIF, "evidence", prop + ".json"), "w"), indent=1)
    sys.exit(worst)


def main():
    if len(sys.argv) < 2:
        print(__doc__)
        sys.exit(2)
    cmd = sys.argv[1]
    if cmd == "setup":
        build_instr()
        sh([GO, "build", "./..."], cwd=REPO)
        return
    if cmd == "build":
        tmp = mktmp()
        try:
            build(sys.argv[2], sys.argv[3], tmp, race="--race" in sys.argv)
        finally:
            shutil.rmtree(tmp, ignore_errors=True)
        return
    if cmd == "check":
        run_parts(sys.argv[2], sys.argv[3:])
    if cmd == "run":
        harness = sys.argv[2]
        args = sys.argv[3:]
        race = False
        if "--race" in args:
            args.remove("--race")
            race = True
        tmp = mktmp()
        try:
            binp = os.path.join(tmp, "harness.bin")
            build(harness, binp, tmp, race=race)
            env = dict(os.environ)
            env["VERIF_TMP"] = tmp
            env["VERIF_DIR"] = VERIF
            env["VERIF_HARNESS"] = harness
            r = subprocess.run([binp] + args, cwd=VERIF, env=env)
            sys.exit(r.returncode)
        finally:
            shutil.rmtree(tmp, ignore_errors=True)
    print(__doc__)
    sys.exit(2)


if __name__ == "__main__":
    main()
