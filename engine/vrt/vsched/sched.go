// Package vsched is the controlled scheduler injected into instrumented Zeno
// code. In controlled mode exactly the threads released by the scheduler run
// between two scheduling decisions; every decision is taken when all live
// threads are parked at a hook, by the explorer's chooser.
package vsched

import (
	"fmt"
	"hash/fnv"
	"runtime"
	"runtime/debug"
	"sort"
	"strconv"
	"strings"
	"sync"
	"sync/atomic"
	"time"

	vgid "github.com/internetarchive/Zeno/internal"
)

// Mode of the runtime, fixed per execution.
const (
	ModeFree       int32 = iota // hooks fall through (real pipeline runs, E4)
	ModeControlled              // scheduler owns every thread
	ModeSeq                     // single goroutine; only Choose/MapOrder are driven
)

var mode atomic.Int32

// Controlled reports whether the scheduler owns the calling code.
func Controlled() bool { return mode.Load() == ModeControlled }

type opKind uint8

const (
	opNone   opKind = iota
	opChan          // send / receive / select
	opPoint         // always-enabled interleaving point
	opBlock         // model-level blocking (mutex, waitgroup, once)
	opSleep         // virtual-time sleep
	opChoose        // environment answer
	opStart         // freshly spawned thread, has not run yet
	opCont          // partner of a rendezvous waiting to continue
)

type chanCase struct {
	ch   hchan
	send bool
}

type wakeMsg struct {
	abort  bool
	chosen int
}

type thread struct {
	path  []int
	name  string
	gid   uint64
	wake  chan wakeMsg
	nkids int

	state int // 0 running, 1 parked, 2 finished

	op       opKind
	pid      string
	obj      any
	read     bool // the pending operation only reads obj
	cases    []chanCase
	hasDef   bool
	enabled  func() bool
	deadline time.Duration
	nchoice  int
	idle     bool

	pidHash  uint64
	pathHash uint64
	hash     uint64 // hash of the causal past of this thread
	nsteps   int
	fn       func()
}

// Step is one scheduler transition, as recorded in a trace.
type Step struct {
	Thread  string `json:"thread"`
	Point   string `json:"point"`
	Case    int    `json:"case"`
	Partner string `json:"partner,omitempty"`
	NOpts   int    `json:"nopts"`
	Choice  int    `json:"choice"`
	VTimeMs int64  `json:"vtime_ms"`
}

type option struct {
	t       *thread
	ci      int // case index (-1 default)
	partner *thread
	pci     int
	clock   bool // advance the clock to the next timer
	val     int  // Choose value
	pcost   int
	fcost   int
}

// End states of an execution.
const (
	EndQuiescent = "quiescent"
	EndDone      = "done"
	EndDeadlock  = "deadlock"
	EndHorizon   = "horizon"
	EndSteps     = "step-limit"
	EndCrash     = "crash"
	EndPruned    = "pruned"
	EndEngine    = "engine-error"
)

type timer struct {
	when   time.Duration
	period time.Duration
	ch     chan time.Time
	fn     func()
	active bool
	seq    int
	obj    any
}

// Exec is one execution under the scheduler.
type Exec struct {
	sc      *Scenario
	mu      sync.Mutex
	threads []*thread
	byGid   sync.Map
	running int
	cur     *thread

	now    time.Duration
	timers []*timer
	tseq   int

	prefix   []int
	Choices  []int
	Costs    [][2]int // per decision: cost (P,F) of the choice taken
	OptCosts [][][2]int
	Steps    []Step
	FPs      []uint64 // fingerprint of the state at each decision
	Curs     []string

	objHash   map[any]uint64   // hash of the last write event per object
	objReads  map[any][]uint64 // reads since the last write
	clockHash uint64

	End      string
	EndInfo  string
	Crash    string
	aborting atomic.Bool
	inDecide atomic.Uint64 // goroutine id of the thread running decide (0 = none)
	done     chan struct{}
	ended    bool
	exited   sync.WaitGroup

	prune func(step int, fp uint64, cur string) bool

	optBuf   []option
	lastOpts []option

	sqlTxOwner *thread // holder of the (single-connection) database transaction, see Ext

	key       uint64 // sum of the per-thread terms of the state key
	expectKey uint64
	OptKeys   [][]uint64 // per decision: predicted state key after each option
	OptCurs   [][]string // per decision: thread that is current after each option

	Data any // harness-owned observations
}

var current atomic.Pointer[Exec]

// Cur returns the running execution (nil outside controlled mode).
func Cur() *Exec { return current.Load() }

// getg returns the address of the running goroutine's descriptor; it is the
// identity under which owned threads are registered (implemented in assembly:
// parsing runtime.Stack costs ~20us per hook).
func goid() uint64 { return uint64(vgid.Getg()) }

func (x *Exec) self() *thread {
	if v, ok := x.byGid.Load(goid()); ok {
		return v.(*thread)
	}
	return nil
}

type abortSentinel struct{}

func pathName(p []int) string {
	var sb strings.Builder
	for i, v := range p {
		if i > 0 {
			sb.WriteByte('.')
		}
		sb.WriteString(strconv.Itoa(v))
	}
	return sb.String()
}

func pathLess(a, b []int) bool {
	for i := 0; i < len(a) && i < len(b); i++ {
		if a[i] != b[i] {
			return a[i] < b[i]
		}
	}
	return len(a) < len(b)
}

func mix(h uint64, vs ...uint64) uint64 {
	for _, v := range vs {
		h ^= v + 0x9e3779b97f4a7c15 + (h << 6) + (h >> 2)
		h *= 0xff51afd7ed558ccd
		h ^= h >> 33
	}
	return h
}

func strHash(s string) uint64 {
	f := fnv.New64a()
	f.Write([]byte(s))
	return f.Sum64()
}

// spawn registers a new thread as child of parent (nil for the root).
func (x *Exec) spawn(parent *thread, name string, f func()) *thread {
	x.mu.Lock()
	t := x.spawnLocked(parent, name, f)
	x.mu.Unlock()
	return t
}

// spawnLocked is spawn for callers that hold x.mu (a timer function that comes due while the clock is advanced).
func (x *Exec) spawnLocked(parent *thread, name string, f func()) *thread {
	t := &thread{wake: make(chan wakeMsg, 1), fn: f}
	if parent == nil {
		t.path = []int{0}
	} else {
		t.path = append(append([]int{}, parent.path...), parent.nkids)
		parent.nkids++
	}
	t.name = pathName(t.path)
	if name != "" {
		t.name += "(" + name + ")"
	}
	t.state = 1
	t.op = opStart
	t.pid = "start " + name
	t.hash = mix(strHash(pathName(t.path)), 1)
	if parent != nil {
		t.hash = mix(t.hash, parent.hash)
	}
	pos := sort.Search(len(x.threads), func(i int) bool { return pathLess(t.path, x.threads[i].path) })
	x.threads = append(x.threads, nil)
	copy(x.threads[pos+1:], x.threads[pos:])
	x.threads[pos] = t
	t.pidHash = strHash(t.pid)
	t.pathHash = strHash(pathName(t.path))
	x.exited.Add(1)
	go func() {
		t.gid = goid()
		x.byGid.Store(t.gid, t)
		defer x.exited.Done()
		defer x.threadExit(t)
		m := <-t.wake
		if m.abort {
			return
		}
		t.fn()
	}()
	return t
}

func (x *Exec) threadExit(t *thread) {
	r := recover()
	x.byGid.Delete(t.gid)
	if r != nil {
		if _, ok := r.(abortSentinel); !ok && !x.aborting.Load() {
			x.mu.Lock()
			if x.Crash == "" {
				x.Crash = fmt.Sprintf("panic in thread %s: %v\n%s", t.name, r, trimStack(debug.Stack()))
			}
			x.mu.Unlock()
		}
	}
	x.mu.Lock()
	t.state = 2
	t.op = opNone
	x.running--
	last := x.running == 0
	x.mu.Unlock()
	if x.aborting.Load() {
		return
	}
	if last {
		x.decide()
	}
}

func trimStack(b []byte) string {
	lines := strings.Split(string(b), "\n")
	var out []string
	for i := 0; i < len(lines) && len(out) < 40; i++ {
		l := lines[i]
		if strings.Contains(l, "runtime/debug.Stack") || strings.Contains(l, "vsched.(*Exec).threadExit") {
			i++
			continue
		}
		out = append(out, l)
	}
	return strings.Join(out, "\n")
}

// park records the pending operation of the calling thread and blocks until
// the scheduler releases it. Returns the chosen case / value.
func (x *Exec) park(t *thread, fill func(t *thread)) int {
	if x.aborting.Load() {
		panic(abortSentinel{})
	}
	x.mu.Lock()
	fill(t)
	t.pidHash = strHash(t.pid)
	t.state = 1
	x.running--
	last := x.running == 0
	x.mu.Unlock()
	if last {
		x.decide()
	}
	m := <-t.wake
	if m.abort {
		if t.op == opPoint {
			// parked in front of a non-blocking operation (possibly inside a deferred call): the
			// operation is carried out and the thread unwinds at its next blocking operation, see Point
			return 0
		}
		panic(abortSentinel{})
	}
	return m.chosen
}

func (x *Exec) caseEnabled(t *thread, c chanCase) (ok bool, partners []*thread, pcis []int) {
	if c.ch == nil {
		return false, nil, nil
	}
	if hcClosed(c.ch) {
		return true, nil, nil // send panics, receive yields zero: both proceed
	}
	if hcDataqsiz(c.ch) > 0 {
		if c.send {
			return hcQcount(c.ch) < hcDataqsiz(c.ch), nil, nil
		}
		return hcQcount(c.ch) > 0, nil, nil
	}
	// unbuffered: needs a parked partner with the opposite operation
	for _, o := range x.threads {
		if o == t || o.state != 1 || o.op != opChan {
			continue
		}
		for j, oc := range o.cases {
			if oc.ch == c.ch && oc.send != c.send {
				partners = append(partners, o)
				pcis = append(pcis, j)
			}
		}
	}
	if len(partners) > 0 {
		return true, partners, pcis
	}
	// a foreign (unowned) goroutine blocked on the other side
	if c.send && hcRecvWaiter(c.ch) || !c.send && hcSendWaiter(c.ch) {
		return true, nil, nil
	}
	return false, nil, nil
}

// options computes the enabled transitions in canonical order.
func (x *Exec) options() []option {
	opts := x.optBuf[:0]
	for _, t := range x.threads {
		if t.state != 1 {
			continue
		}
		switch t.op {
		case opStart, opPoint, opCont:
			opts = append(opts, option{t: t})
		case opChoose:
			for v := 0; v < t.nchoice; v++ {
				o := option{t: t, val: v}
				if v > 0 {
					o.fcost = 1
				}
				opts = append(opts, o)
			}
		case opBlock:
			if t.enabled() {
				opts = append(opts, option{t: t})
			}
		case opSleep:
			if x.now >= t.deadline {
				opts = append(opts, option{t: t})
			}
		case opChan:
			any := false
			for i, c := range t.cases {
				ok, ps, pcis := x.caseEnabled(t, c)
				if !ok {
					continue
				}
				any = true
				if len(ps) == 0 {
					opts = append(opts, option{t: t, ci: i})
					continue
				}
				if !c.send {
					continue // joint transitions are listed once, on the sender
				}
				for k := range ps {
					opts = append(opts, option{t: t, ci: i, partner: ps[k], pci: pcis[k]})
				}
			}
			if !any && t.hasDef {
				opts = append(opts, option{t: t, ci: -1})
			}
		}
	}
	// options that continue the current thread come first and are free;
	// switching away from a still-enabled current thread is a preemption.
	cur := x.cur
	curEnabled := false
	for _, o := range opts {
		if o.t == cur || o.partner == cur {
			curEnabled = true
			break
		}
	}
	if curEnabled {
		sort.SliceStable(opts, func(i, j int) bool {
			ci := opts[i].t == cur || opts[i].partner == cur
			cj := opts[j].t == cur || opts[j].partner == cur
			return ci && !cj
		})
		for i := range opts {
			if !(opts[i].t == cur || opts[i].partner == cur) {
				opts[i].pcost = 1
			}
		}
	} else if x.sc.DelayBounding && len(opts) > 0 {
		// delay bounding: when the current thread cannot continue, the canonical
		// scheduler runs the first enabled thread (in creation-path order);
		// running any other thread instead is a deviation. The alternatives of
		// that first thread (select clauses, answers) stay free.
		first := opts[0].t
		for i := range opts {
			if opts[i].t != first {
				opts[i].pcost = 1
			}
		}
	}
	x.optBuf = opts
	return opts
}

func (x *Exec) nextTimer() *timer {
	var best *timer
	for _, tm := range x.timers {
		if !tm.active {
			continue
		}
		if best == nil || tm.when < best.when || tm.when == best.when && tm.seq < best.seq {
			best = tm
		}
	}
	return best
}

func (x *Exec) nextSleeper() (time.Duration, bool) {
	var d time.Duration
	found := false
	for _, t := range x.threads {
		if t.state == 1 && t.op == opSleep && t.deadline > x.now {
			if !found || t.deadline < d {
				d, found = t.deadline, true
			}
		}
	}
	return d, found
}

// nextClockEvent returns the next instant at which something time-driven can
// happen.
func (x *Exec) nextClockEvent() (time.Duration, bool) {
	d, ok := x.nextSleeper()
	if tm := x.nextTimer(); tm != nil {
		if !ok || tm.when < d {
			d, ok = tm.when, true
		}
	}
	return d, ok
}

func (x *Exec) advanceClock() {
	to, ok := x.nextClockEvent()
	if !ok {
		return
	}
	x.clockHash = x.nextClockHash()
	if to > x.now {
		x.now = to
	}
	// fire every timer due at this instant, in (when, seq) order
	for {
		tm := x.nextTimer()
		if tm == nil || tm.when > x.now {
			break
		}
		if tm.period > 0 {
			tm.when += tm.period
		} else {
			tm.active = false
		}
		if tm.ch != nil {
			select {
			case tm.ch <- time.Unix(0, 0).Add(baseOffset + x.now):
				x.noteWrite(any(hchan(chanPtr(tm.ch))), mix(x.clockHash, 5))
			default:
			}
		}
		if tm.fn != nil {
			x.spawnLocked(nil2(x.cur, x), "afterfunc", tm.fn)
		}
	}
}

func nil2(t *thread, x *Exec) *thread {
	if t != nil {
		return t
	}
	return x.threads[0]
}

const baseOffset = 1_700_000_000 * time.Second

// The state key is the sum, over the threads that have executed at least one
// event, of a hash of each thread's causal past (its own events and, through
// the per-object hashes, the events of other threads they depended on), plus
// the clock. Two prefixes with the same key contain the same events with the
// same dependencies, hence lead to the same state. Because the key changes
// only through scheduler transitions, the key of every successor can be
// computed at the decision, without executing it (see optKey).
func (x *Exec) term(t *thread, h uint64) uint64 { return mix(t.pathHash, h) }

func clockTerm(ch uint64) uint64 { return mix(ch, 0x5eed) }

func (x *Exec) stateKey() uint64 { return x.key + clockTerm(x.clockHash) }

func (x *Exec) noteWrite(obj any, h uint64) {
	x.objHash[obj] = h
	delete(x.objReads, obj)
}

// evHash is the hash a thread's causal past takes after executing an operation.
func (x *Exec) evHash(t *thread, ci int, obj any, read bool, extra uint64) uint64 {
	h := mix(t.hash, t.pidHash, uint64(ci+2), extra, x.clockHash)
	if obj != nil {
		h = mix(h, x.objHash[obj])
		if !read {
			for _, r := range x.objReads[obj] {
				h = mix(h, r)
			}
		}
	}
	return h
}

// optHashes returns the new causal hashes of the thread (and partner) of an option.
func (x *Exec) optHashes(o option) (ht, hp uint64, obj any, read bool) {
	t := o.t
	switch t.op {
	case opChoose:
		return x.evHash(t, o.val, nil, false, 3), 0, nil, false
	case opChan:
		if o.ci >= 0 {
			obj = t.cases[o.ci].ch
			if !t.cases[o.ci].send && hcClosed(t.cases[o.ci].ch) {
				read = true
			}
		}
		if o.partner != nil {
			p := o.partner
			h := mix(t.hash, p.hash, t.pidHash, p.pidHash, uint64(o.ci+2), uint64(o.pci+2), x.objHash[obj], x.clockHash)
			for _, r := range x.objReads[obj] {
				h = mix(h, r)
			}
			return mix(h, 1), mix(h, 2), obj, false
		}
		return x.evHash(t, o.ci, obj, read, 0), 0, obj, read
	case opSleep:
		return x.evHash(t, 0, nil, false, uint64(x.now)), 0, nil, false
	}
	return x.evHash(t, 0, t.obj, t.read, 0), 0, t.obj, t.read
}

func (x *Exec) nextClockHash() uint64 {
	to, ok := x.nextClockEvent()
	if !ok || to < x.now {
		to = x.now
	}
	return mix(x.clockHash, uint64(to), 77)
}

// optKey predicts the state key after taking option o.
func (x *Exec) optKey(o option) uint64 {
	if o.clock {
		return x.key + clockTerm(x.nextClockHash())
	}
	ht, hp, _, _ := x.optHashes(o)
	k := x.key
	if o.t.nsteps > 0 {
		k -= x.term(o.t, o.t.hash)
	}
	k += x.term(o.t, ht)
	if o.partner != nil {
		if o.partner.nsteps > 0 {
			k -= x.term(o.partner, o.partner.hash)
		}
		k += x.term(o.partner, hp)
	}
	return k + clockTerm(x.clockHash)
}

// apply folds the executed option into the causal hashes and the key.
func (x *Exec) apply(o option) {
	ht, hp, obj, read := x.optHashes(o)
	set := func(t *thread, h uint64) {
		if t.nsteps > 0 {
			x.key -= x.term(t, t.hash)
		}
		t.hash = h
		t.nsteps++
		x.key += x.term(t, h)
	}
	set(o.t, ht)
	if o.partner != nil {
		set(o.partner, hp)
	}
	if obj != nil {
		if read {
			x.objReads[obj] = append(x.objReads[obj], ht)
		} else {
			x.noteWrite(obj, ht)
		}
	}
}

// sideEvent records a non-scheduling operation on obj (unlock, WaitGroup.Done):
// later operations on obj depend on the caller's causal past.
func (x *Exec) sideEvent(t *thread, id string, obj any) {
	if obj != nil {
		x.noteWrite(obj, mix(t.hash, strHash(id), x.objHash[obj]))
	}
}

const maxSteps = 200000

// decide is called with every live thread parked (or finished).
func (x *Exec) decide() {
	x.mu.Lock()
	defer x.mu.Unlock()
	if x.ended || x.aborting.Load() {
		return
	}
	x.inDecide.Store(goid())
	defer x.inDecide.Store(0)
	for {
		if x.Crash != "" {
			x.end(EndCrash, x.Crash)
			return
		}
		if len(x.Steps) >= maxSteps {
			x.end(EndSteps, fmt.Sprintf("more than %d steps", maxSteps))
			return
		}
		opts := x.options()
		x.lastOpts = opts
		if x.sc.AtStep != nil {
			if err := x.sc.AtStep(x); err != nil {
				x.end(EndCrash, "invariant: "+err.Error())
				return
			}
		}
		clockAt, clockOK := x.nextClockEvent()
		if len(opts) == 0 {
			if x.sc.Done != nil && x.sc.Done(x) {
				x.end(EndDone, "")
				return
			}
			if clockOK {
				if x.sc.Horizon > 0 && clockAt > x.sc.Horizon {
					x.end(EndHorizon, fmt.Sprintf("virtual time would pass the horizon %v", x.sc.Horizon))
					return
				}
				x.recordStep(Step{Thread: "clock", Point: "advance", NOpts: 1, VTimeMs: int64(clockAt / time.Millisecond)}, [2]int{}, nil)
				x.OptKeys = append(x.OptKeys, nil)
				x.OptCurs = append(x.OptCurs, nil)
				x.expectKey = 0
				x.advanceClock()
				continue
			}
			if x.allIdle() {
				x.end(EndQuiescent, "")
			} else {
				x.end(EndDeadlock, x.describeBlocked())
			}
			return
		}
		// early timer firing is a deviation
		if clockOK && x.sc.TimerDeviations && (x.sc.Horizon == 0 || clockAt <= x.sc.Horizon) {
			opts = append(opts, option{clock: true, fcost: 1})
		}
		step := len(x.Choices)
		fp := x.stateKey()
		if x.expectKey != 0 && fp != x.expectKey {
			x.end(EndEngine, fmt.Sprintf("state key diverged from its prediction at step %d (%x vs %x): an operation outside the scheduler changed a causal hash", step, fp, x.expectKey))
			return
		}
		curName := ""
		if x.cur != nil {
			curName = x.cur.name
		}
		if step >= len(x.prefix) && x.prune != nil && x.prune(step, fp, curName) {
			x.end(EndPruned, "")
			return
		}
		choice := 0
		if step < len(x.prefix) {
			choice = x.prefix[step]
			if choice >= len(opts) {
				var have []string
				for _, o := range opts {
					if o.t != nil {
						have = append(have, o.t.name+" at "+o.t.pid)
					}
				}
				x.end(EndEngine, fmt.Sprintf("replay divergence at step %d: choice %d of %d options (the run that recorded this prefix had more): state outside the scenario's Setup survived an execution; options now: %s; blocked: %s", step, choice, len(opts), strings.Join(have, " | "), x.describeBlocked()))
				return
			}
		}
		o := opts[choice]
		oc := make([][2]int, len(opts))
		ok := make([]uint64, len(opts))
		on := make([]string, len(opts))
		for i := range opts {
			oc[i] = [2]int{opts[i].pcost, opts[i].fcost}
			ok[i] = x.optKey(opts[i])
			if opts[i].clock {
				on[i] = curName
			} else {
				on[i] = opts[i].t.name
			}
		}
		x.OptKeys = append(x.OptKeys, ok)
		x.OptCurs = append(x.OptCurs, on)
		x.expectKey = ok[choice]
		x.FPs = append(x.FPs, fp)
		x.Curs = append(x.Curs, curName)
		if o.clock {
			x.recordStep(Step{Thread: "clock", Point: "advance-early", NOpts: len(opts), Choice: choice, VTimeMs: int64(clockAt / time.Millisecond)}, [2]int{0, 1}, oc)
			x.advanceClock()
			continue
		}
		st := Step{Thread: o.t.name, Point: o.t.pid, Case: o.ci, NOpts: len(opts), Choice: choice, VTimeMs: int64(x.now / time.Millisecond)}
		if o.partner != nil {
			st.Partner = o.partner.name
		}
		if o.t.op == opChoose {
			st.Case = o.val
		}
		x.recordStep(st, [2]int{o.pcost, o.fcost}, oc)
		x.release(o)
		return
	}
}

func (x *Exec) recordStep(st Step, cost [2]int, oc [][2]int) {
	x.Steps = append(x.Steps, st)
	x.Choices = append(x.Choices, st.Choice)
	x.Costs = append(x.Costs, cost)
	x.OptCosts = append(x.OptCosts, oc)
	if len(x.FPs) < len(x.Choices) {
		x.FPs = append(x.FPs, 0)
		x.Curs = append(x.Curs, "")
	}
}

func (x *Exec) release(o option) {
	t := o.t
	chosen := o.ci
	if t.op == opChoose {
		chosen = o.val
	}
	// A select with a default clause does not wait: when its chosen case is a rendezvous on an unbuffered channel,
	// the other side must really be queued on the channel before the select runs, or the default clause wins the
	// race in the Go runtime although the scheduler decided otherwise.
	var ch hchan
	tSends := false
	if o.partner != nil && t.op == opChan && o.ci >= 0 && o.ci < len(t.cases) {
		ch, tSends = t.cases[o.ci].ch, t.cases[o.ci].send
	}
	tDef, pDef := t.hasDef, o.partner != nil && o.partner.hasDef
	x.apply(o)
	t.state = 0
	t.op = opNone
	t.idle = false
	x.cur = t
	x.running++
	if o.partner == nil {
		t.wake <- wakeMsg{chosen: chosen}
		return
	}
	p := o.partner
	p.state = 0
	p.op = opNone
	x.running++
	first, second := p, t
	firstMsg, secondMsg := wakeMsg{chosen: o.pci}, wakeMsg{chosen: chosen}
	ordered, waitSender := false, false
	switch {
	case tDef && !pDef && ch != nil:
		ordered, waitSender = true, !tSends // the partner, who does the opposite operation, goes first
	case pDef && !tDef && ch != nil:
		first, second, firstMsg, secondMsg = t, p, secondMsg, firstMsg
		ordered, waitSender = true, tSends
	}
	if !ordered {
		first.wake <- firstMsg
		second.wake <- secondMsg
		return
	}
	// not on this goroutine: it may be the very thread that has to go and queue itself on the channel
	go func() {
		first.wake <- firstMsg
		for i := 0; i < 400000; i++ {
			if waitSender && hcSendWaiter(ch) || !waitSender && hcRecvWaiter(ch) || hcClosed(ch) {
				break
			}
			if i < 1000 {
				runtime.Gosched()
			} else {
				time.Sleep(25 * time.Microsecond)
			}
		}
		second.wake <- secondMsg
	}()
}

func (x *Exec) allIdle() bool {
	for _, t := range x.threads {
		if t.state == 1 && !t.idle {
			return false
		}
	}
	return true
}

func (x *Exec) describeBlocked() string {
	var sb strings.Builder
	for _, t := range x.threads {
		if t.state == 1 {
			fmt.Fprintf(&sb, "thread %s blocked at %s", t.name, t.pid)
			if t.idle {
				sb.WriteString(" (idle)")
			}
			sb.WriteString("; ")
		}
	}
	return sb.String()
}

// Blocked lists the threads that are parked and not at an idle point.
func (x *Exec) Blocked() []string {
	var out []string
	for _, t := range x.threads {
		if t.state == 1 && !t.idle {
			out = append(out, t.name+" at "+t.pid)
		}
	}
	return out
}

// Parked lists every parked thread with its point.
func (x *Exec) Parked() []string {
	var out []string
	for _, t := range x.threads {
		if t.state == 1 {
			out = append(out, t.name+" at "+t.pid)
		}
	}
	return out
}

// LiveThreads is the number of threads that have not finished.
func (x *Exec) LiveThreads() int {
	n := 0
	for _, t := range x.threads {
		if t.state != 2 {
			n++
		}
	}
	return n
}

// ThreadInfo describes a parked thread (for invariants).
type ThreadInfo struct {
	Name, Point string
	Enabled     bool
	Idle        bool
}

// ParkedThreads lists the parked threads and whether each has an enabled
// transition. Only valid inside AtStep/Done/AtEnd.
func (x *Exec) ParkedThreads() []ThreadInfo {
	en := map[*thread]bool{}
	for _, o := range x.lastOpts {
		en[o.t] = true
		if o.partner != nil {
			en[o.partner] = true
		}
	}
	var out []ThreadInfo
	for _, t := range x.threads {
		if t.state == 1 {
			out = append(out, ThreadInfo{t.name, t.pid, en[t], t.idle})
		}
	}
	return out
}

// StepIndex is the number of scheduler steps taken so far: a logical clock
// for harness-side histories (events of the same step are concurrent).
func (x *Exec) StepIndex() int {
	if x.inDecide.Load() == goid() {
		return len(x.Steps)
	}
	x.mu.Lock()
	defer x.mu.Unlock()
	return len(x.Steps)
}

// Now is the virtual time elapsed since the start of the execution.
func (x *Exec) Now() time.Duration { return x.now }

func (x *Exec) end(kind, info string) {
	x.ended = true
	x.End = kind
	x.EndInfo = info
	close(x.done)
}

// abortAll unwinds every parked thread.
func (x *Exec) abortAll() error {
	x.aborting.Store(true)
	x.mu.Lock()
	for _, t := range x.threads {
		if t.state == 1 {
			select {
			case t.wake <- wakeMsg{abort: true}:
			default:
			}
		}
	}
	x.mu.Unlock()
	ch := make(chan struct{})
	go func() { x.exited.Wait(); close(ch) }()
	select {
	case <-ch:
		return nil
	case <-time.After(30 * time.Second):
		return fmt.Errorf("lost control: threads did not unwind within 30s: %s", x.describeBlocked())
	}
}
