package vsched

import (
	"cmp"
	"fmt"
	"os"
	"reflect"
	"sort"
	"strings"
	"sync"
	"sync/atomic"
	"syscall"
	"time"
)

// ---------------------------------------------------------------------------
// free-mode triggers (E4): "at the n-th hit of a point matching m, call f"

type trigger struct {
	match func(id string) bool
	n     int64
	hits  atomic.Int64
	f     func()
}

var (
	trigMu   sync.RWMutex
	triggers []*trigger
	hitCount sync.Map // id -> *atomic.Int64 (only when profiling)
	Profile  atomic.Bool
)

// OnPoint registers a free-mode trigger.
func OnPoint(match func(id string) bool, n int, f func()) {
	trigMu.Lock()
	triggers = append(triggers, &trigger{match: match, n: int64(n), f: f})
	trigMu.Unlock()
}

// Hits returns the per-point hit counts collected while Profile is set.
func Hits() map[string]int64 {
	out := map[string]int64{}
	hitCount.Range(func(k, v any) bool {
		out[k.(string)] = v.(*atomic.Int64).Load()
		return true
	})
	return out
}

func hit(id string) {
	if Profile.Load() {
		v, _ := hitCount.LoadOrStore(id, new(atomic.Int64))
		v.(*atomic.Int64).Add(1)
	}
	trigMu.RLock()
	ts := triggers
	trigMu.RUnlock()
	for _, t := range ts {
		if t.match(id) {
			if t.hits.Add(1) == t.n {
				t.f()
			}
		}
	}
}

// ---------------------------------------------------------------------------

// ctx returns the execution and thread of the caller when it is owned by the
// scheduler and the point is visible.
func ctx(id string) (*Exec, *thread) {
	if mode.Load() != ModeControlled {
		return nil, nil
	}
	x := current.Load()
	if x == nil {
		return nil, nil
	}
	g := goid()
	if x.inDecide.Load() == g {
		return nil, nil
	}
	v, ok := x.byGid.Load(g)
	if !ok {
		return nil, nil
	}
	t := v.(*thread)
	if x.sc.Visible != nil && !x.sc.Visible(id) {
		return nil, nil
	}
	return x, t
}

func (x *Exec) isIdle(id string) bool { return x.sc.Idle != nil && x.sc.Idle(id) }

// Go starts f as an owned thread.
func Go(id string, f func()) {
	if mode.Load() != ModeControlled {
		if mode.Load() == ModeFree {
			hit(id)
		}
		go f()
		return
	}
	x := current.Load()
	var parent *thread
	if x != nil {
		parent = x.self()
	}
	if x == nil || parent == nil {
		go f()
		return
	}
	if x.aborting.Load() {
		panic(abortSentinel{})
	}
	x.spawn(parent, shortID(id), f)
}

func shortID(id string) string {
	if i := strings.LastIndexByte(id, '/'); i >= 0 {
		return id[i+1:]
	}
	return id
}

// S is the point before a channel send; it returns ch.
func S[C any](id string, ch C) C {
	if mode.Load() == ModeFree {
		hit(id)
		return ch
	}
	x, t := ctx(id)
	if x == nil {
		return ch
	}
	p := chanPtr(ch)
	x.park(t, func(t *thread) {
		t.op, t.pid, t.cases, t.hasDef = opChan, id, []chanCase{{p, true}}, false
		t.idle = false
	})
	return ch
}

// R is the point before a channel receive; it returns ch.
func R[C any](id string, ch C) C {
	if mode.Load() == ModeFree {
		hit(id)
		return ch
	}
	x, t := ctx(id)
	if x == nil {
		return ch
	}
	p := chanPtr(ch)
	x.park(t, func(t *thread) {
		t.op, t.pid, t.cases, t.hasDef = opChan, id, []chanCase{{p, false}}, false
		t.idle = x.isIdle(id)
	})
	return ch
}

// Case describes one communication clause of a select.
type Case struct {
	ch   hchan
	send bool
}

// CR describes a receive clause, CS a send clause.
func CR(ch any) Case { return Case{chanPtr(ch), false} }
func CS(ch any) Case { return Case{chanPtr(ch), true} }

// All is returned by Sel when the scheduler does not own the caller: every
// clause keeps its channel and Go's own select decides.
const All = -2

// Sel is the point before a select; it returns the index of the clause the
// scheduler chose, -1 for default, or All.
func Sel(id string, hasDefault bool, cs ...Case) int {
	if mode.Load() == ModeFree {
		hit(id)
		return All
	}
	x, t := ctx(id)
	if x == nil {
		return All
	}
	cc := make([]chanCase, len(cs))
	for i, c := range cs {
		cc[i] = chanCase{c.ch, c.send}
	}
	return x.park(t, func(t *thread) {
		t.op, t.pid, t.cases, t.hasDef = opChan, id, cc, hasDefault
		t.idle = x.isIdle(id)
	})
}

// Pick keeps ch for the chosen clause and replaces it by the nil channel for
// the others.
func Pick[C any](k, i int, ch C) C {
	if k == All || k == i {
		return ch
	}
	var zero C
	return zero
}

// Close is the point before close(ch), then closes it.
func Close(id string, ch any) {
	if mode.Load() == ModeFree {
		hit(id)
	} else if x, t := ctx(id); x != nil {
		p := chanPtr(ch)
		x.park(t, func(t *thread) {
			t.op, t.pid, t.obj, t.read, t.idle = opPoint, id, p, false, false
		})
	}
	reflect.ValueOf(ch).Close()
}

// Point is an always-enabled interleaving point on obj.
func Point(id string, obj any) {
	if mode.Load() == ModeFree {
		hit(id)
		return
	}
	x, t := ctx(id)
	if x == nil {
		return
	}
	if x.aborting.Load() {
		// the execution is over and this thread is unwinding: a non-blocking operation met in a deferred
		// function (a claim released, a counter decremented) is carried out, so that state the scenario's
		// Setup does not know about is left as a completed run leaves it; blocking operations and spawns
		// still unwind (park, Go)
		return
	}
	x.park(t, func(t *thread) {
		t.op, t.pid, t.obj, t.read, t.idle = opPoint, id, obj, false, false
	})
}

// ReadPoint is a Point whose operation only reads obj.
func ReadPoint(id string, obj any) {
	if mode.Load() == ModeFree {
		hit(id)
		return
	}
	x, t := ctx(id)
	if x == nil {
		return
	}
	if x.aborting.Load() {
		// the execution is over and this thread is unwinding: a non-blocking operation met in a deferred
		// function (a claim released, a counter decremented) is carried out, so that state the scenario's
		// Setup does not know about is left as a completed run leaves it; blocking operations and spawns
		// still unwind (park, Go)
		return
	}
	x.park(t, func(t *thread) {
		t.op, t.pid, t.obj, t.read, t.idle = opPoint, id, obj, true, false
	})
}

// Event records an operation on obj that can only enable other threads
// (unlock, WaitGroup.Done): no scheduling decision is needed before it.
func Event(id string, obj any) {
	if mode.Load() == ModeFree {
		return
	}
	x, t := ctx(id)
	if x == nil {
		return
	}
	x.mu.Lock()
	x.sideEvent(t, id, obj)
	x.mu.Unlock()
}

// Block parks until enabled() holds (evaluated by the scheduler with every
// thread parked). It returns true when the scheduler owns the caller; false
// means the caller must fall back to the real primitive.
func Block(id string, obj any, enabled func() bool) bool {
	if mode.Load() == ModeFree {
		hit(id)
		return false
	}
	x, t := ctx(id)
	if x == nil {
		return false
	}
	x.park(t, func(t *thread) {
		t.op, t.pid, t.obj, t.read, t.enabled = opBlock, id, obj, false, enabled
		t.idle = x.isIdle(id)
	})
	return true
}

// Owned reports whether the caller is a thread owned by the scheduler (shims
// use it to decide between model state and the real primitive).
func Owned() bool {
	if mode.Load() != ModeControlled {
		return false
	}
	x := current.Load()
	return x != nil && x.self() != nil
}

// seqChooser drives Choose/MapOrder in ModeSeq.
var seqChooser func(id string, n int) int

// Choose is an environment answer: 0 is the default, every other value is a
// deviation.
func Choose(id string, n int) int {
	switch mode.Load() {
	case ModeFree:
		hit(id)
		return 0
	case ModeSeq:
		if seqChooser != nil && n > 1 {
			return seqChooser(id, n)
		}
		return 0
	}
	if n <= 1 {
		return 0
	}
	x, t := ctx(id)
	if x == nil {
		return 0
	}
	return x.park(t, func(t *thread) {
		t.op, t.pid, t.nchoice, t.idle = opChoose, id, n, false
	})
}

// Keys returns the keys of m in sorted order.
func Keys[K cmp.Ordered, V any](m map[K]V) []K {
	ks := make([]K, 0, len(m))
	for k := range m {
		ks = append(ks, k)
	}
	sort.Slice(ks, func(i, j int) bool { return ks[i] < ks[j] })
	return ks
}

// MapOrder makes the iteration order of a map a choice: the default is the
// sorted order, the deviations are the other permutations (all of them for up
// to 4 keys, the rotations and the reversal beyond that).
func MapOrder[K cmp.Ordered](id string, keys []K) []K {
	n := len(keys)
	if n < 2 || mode.Load() == ModeFree {
		return keys
	}
	var nperm int
	if n <= 4 {
		nperm = 1
		for i := 2; i <= n; i++ {
			nperm *= i
		}
	} else {
		nperm = n + 1
	}
	c := Choose(id, nperm)
	if c == 0 {
		return keys
	}
	out := make([]K, n)
	if n <= 4 {
		// c-th permutation in lexicographic order (factorial number system)
		pool := append([]K{}, keys...)
		f := nperm
		for i := 0; i < n; i++ {
			f /= n - i
			j := c / f
			c %= f
			out[i] = pool[j]
			pool = append(pool[:j], pool[j+1:]...)
		}
		return out
	}
	if c == n {
		for i := range keys {
			out[i] = keys[n-1-i]
		}
		return out
	}
	for i := range keys {
		out[i] = keys[(i+c)%n]
	}
	return out
}

// StatfsAnswer lets a harness supply the disk reading in controlled/seq mode.
var StatfsAnswer func(path string, st *syscall.Statfs_t) error

// Statfs replaces syscall.Statfs in instrumented code.
func Statfs(path string, st *syscall.Statfs_t) error {
	if mode.Load() != ModeFree && StatfsAnswer != nil {
		return StatfsAnswer(path, st)
	}
	return syscall.Statfs(path, st)
}

// ---------------------------------------------------------------------------
// virtual time (used by the vtime shim)

// VNow returns the virtual wall clock, or the real one when not controlled.
func VNow() time.Time {
	if mode.Load() == ModeControlled {
		if x := current.Load(); x != nil {
			if x.inDecide.Load() == goid() {
				return time.Unix(0, 0).Add(baseOffset + x.now)
			}
			x.mu.Lock()
			n := x.now
			x.mu.Unlock()
			return time.Unix(0, 0).Add(baseOffset + n)
		}
	}
	if mode.Load() == ModeSeq && SeqClock != nil {
		return SeqClock()
	}
	return time.Now()
}

// SeqClock supplies the time in ModeSeq (manual clock of a harness).
var SeqClock func() time.Time

// SeqSleep is called instead of sleeping in ModeSeq.
var SeqSleep func(d time.Duration)

// VSleep sleeps in virtual time.
func VSleep(id string, d time.Duration) {
	switch mode.Load() {
	case ModeFree:
		hit(id)
		time.Sleep(d)
		return
	case ModeSeq:
		if SeqSleep != nil {
			SeqSleep(d)
			return
		}
		time.Sleep(d)
		return
	}
	x, t := ctx(id)
	if x == nil {
		if Owned() {
			return // invisible package: sleeping takes no virtual time
		}
		time.Sleep(d)
		return
	}
	x.park(t, func(t *thread) {
		t.op, t.pid, t.deadline = opSleep, id, x.now+d
		t.idle = x.isIdle(id)
	})
}

// VTimer is a virtual timer or ticker.
type VTimer struct {
	C  chan time.Time
	tm *timer
	x  *Exec
}

// NewVTimer registers a timer with the running execution; period 0 = one-shot.
// fn, when not nil, is started as a new thread instead of sending on C.
func NewVTimer(d, period time.Duration, fn func()) *VTimer {
	x := current.Load()
	v := &VTimer{x: x}
	if fn == nil {
		v.C = make(chan time.Time, 1)
	}
	if x == nil {
		return v
	}
	x.mu.Lock()
	x.tseq++
	v.tm = &timer{when: x.now + d, period: period, ch: v.C, fn: fn, active: true, seq: x.tseq}
	x.timers = append(x.timers, v.tm)
	x.mu.Unlock()
	return v
}

// Stop deactivates the timer; reports whether it was active.
func (v *VTimer) Stop() bool {
	if v.tm == nil {
		return false
	}
	v.x.mu.Lock()
	was := v.tm.active
	v.tm.active = false
	v.x.mu.Unlock()
	return was
}

// Reset re-arms the timer.
func (v *VTimer) Reset(d time.Duration) bool {
	if v.tm == nil {
		return false
	}
	v.x.mu.Lock()
	was := v.tm.active
	v.tm.active = true
	v.tm.when = v.x.now + d
	if v.tm.period > 0 {
		v.tm.period = d
	}
	v.x.mu.Unlock()
	return was
}

// Ext is the point before a call into an external package whose shared state
// the scheduler cannot see (database handles, remote clients): it wraps the
// callee, parks, and returns it.
//
// database/sql is given a little more model: Zeno's handles run with one
// connection (SetMaxOpenConns(1)), so an open transaction is a lock - Begin
// acquires it (parks until no other thread holds it), Commit/Rollback by the
// holder release it, and every other call into the database by a thread that
// does not hold it waits. Without this a thread preempted inside a transaction
// would make another thread's call block for real, outside the scheduler.
func Ext[F any](id, pkg string, f F) F {
	if mode.Load() != ModeControlled || (pkg != "database/sql" && !strings.HasSuffix(pkg, "sqlc_model")) {
		Point(id, "ext:"+pkg)
		return f
	}
	x, t := ctx(id)
	if x == nil {
		return f
	}
	free := func() bool { return x.sqlTxOwner == nil || x.sqlTxOwner == t }
	switch {
	case strings.HasSuffix(id, ".Begin") || strings.HasSuffix(id, ".BeginTx"):
		ok := Block(id, "ext:sql", free)
		if os.Getenv("VERIF_DEBUG_SQL") != "" {
			fmt.Fprintf(os.Stderr, "SQL begin by %s (blocked-ok=%v) owner-before=%v\n", t.name, ok, x.sqlTxOwner != nil)
		}
		x.sqlTxOwner = t
	case strings.HasSuffix(id, ".Commit") || strings.HasSuffix(id, ".Rollback"):
		Point(id, "ext:sql")
		if os.Getenv("VERIF_DEBUG_SQL") != "" {
			fmt.Fprintf(os.Stderr, "SQL end %s by %s owner-is-me=%v\n", id, t.name, x.sqlTxOwner == t)
		}
		if x.sqlTxOwner == t {
			x.sqlTxOwner = nil
		}
	default:
		Block(id, "ext:sql", free)
	}
	return f
}
