package vsched

import (
	"encoding/json"
	"fmt"
	"os"
	"runtime"
	"sort"
	"strings"
	"time"
)

// Scenario is one closed system to explore.
type Scenario struct {
	Name            string
	Setup           func(x *Exec)           // reset singletons, build fakes (explorer goroutine)
	Body            func()                  // thread 0
	Done            func(x *Exec) bool      // goal test when no thread is enabled (before the clock moves)
	Idle            func(point string) bool // a thread parked here is quiescent, not deadlocked
	Visible         func(point string) bool // nil = every point is a scheduling point
	AtStep          func(x *Exec) error     // invariant at every decision (all threads parked)
	AtEnd           func(x *Exec) error     // oracle at the end of the execution (threads still parked)
	Outcome         func(x *Exec) string    // observable outcome, for the distinct-outcome count
	Cleanup         func(x *Exec)           // after the threads are unwound
	Horizon         time.Duration           // virtual-time horizon (0 = none)
	TimerDeviations bool                    // allow "timer fires although threads are enabled" (costs F)
	OKEnds          []string                // end kinds that are acceptable (default: quiescent, done)
	// DelayBounding makes the budget P count every deviation from the canonical
	// scheduler (continue the current thread; when it blocks, run the first
	// enabled thread in creation order) instead of preemptions only. Much
	// smaller spaces for many-thread scenarios; select outcomes stay free.
	DelayBounding bool
	// Signature classifies a violation (specific failing call site / history
	// class); violations with the same signature are reported once. KnownSig
	// tells whether a signature is a listed finding: those never stop the search.
	Signature func(v *Violation) string
	KnownSig  func(sig string) bool
}

// Bounds of an exploration.
type Bounds struct {
	P, F      int
	MaxExecs  int           // 0 = no cap
	MaxWall   time.Duration // 0 = no cap
	Shard, Of int           // this process explores the frontier subtrees with index%Of==Shard
	NoCache   bool
}

// Violation is a failing execution.
type Violation struct {
	Scenario string `json:"scenario"`
	Kind     string `json:"kind"`
	Message  string `json:"message"`
	Choices  []int  `json:"choices"`
	Steps    []Step `json:"steps"`
	End      string `json:"end"`
	Sig      string `json:"sig,omitempty"`
	Count    int    `json:"count"`
}

// Report of an exploration.
type Report struct {
	Scenario    string         `json:"scenario"`
	P           int            `json:"p"`
	F           int            `json:"f"`
	Executions  int            `json:"executions"`
	Pruned      int            `json:"pruned"`
	Skipped     int            `json:"skipped"` // alternatives not run: successor state already explored with at least the same budget
	States      int            `json:"states"`
	Transitions int            `json:"transitions"`
	MaxSteps    int            `json:"max_steps"`
	Outcomes    map[string]int `json:"outcomes"`
	Ends        map[string]int `json:"ends"`
	Exhaustive  bool           `json:"exhaustive"`
	CapHit      string         `json:"cap_hit,omitempty"`
	Violations  []Violation    `json:"violations,omitempty"`
	Sample      []Step         `json:"sample,omitempty"`
	WallS       float64        `json:"wall_s"`
}

// Merge adds r2 into r (for shard aggregation).
func (r *Report) Merge(r2 *Report) {
	r.Executions += r2.Executions
	r.Pruned += r2.Pruned
	r.Skipped += r2.Skipped
	r.States += r2.States
	r.Transitions += r2.Transitions
	if r2.MaxSteps > r.MaxSteps {
		r.MaxSteps = r2.MaxSteps
	}
	if r.Outcomes == nil {
		r.Outcomes = map[string]int{}
	}
	for k, v := range r2.Outcomes {
		r.Outcomes[k] += v
	}
	if r.Ends == nil {
		r.Ends = map[string]int{}
	}
	for k, v := range r2.Ends {
		r.Ends[k] += v
	}
	r.Exhaustive = r.Exhaustive && r2.Exhaustive
	if r2.CapHit != "" {
		r.CapHit = r2.CapHit
	}
	r.Violations = append(r.Violations, r2.Violations...)
	if len(r.Sample) == 0 {
		r.Sample = r2.Sample
	}
}

type cacheKey struct {
	fp  uint64
	cur string
}

type explorer struct {
	sc    *Scenario
	b     Bounds
	rep   *Report
	cache map[cacheKey][2]int // best remaining (P,F) seen
	start time.Time
	stop  bool
	front int // frontier subtree counter (sharding)
}

// EngineError is raised (panic) for failures of the machinery itself.
type EngineError struct{ Msg string }

func (e EngineError) Error() string { return "engine error: " + e.Msg }

var selfTested bool

// RunOnce executes one schedule: the prefix, then default choices.
func RunOnce(sc *Scenario, prefix []int, prune func(step int, fp uint64, cur string) bool) *Exec {
	if !selfTested {
		if err := selfTest(); err != nil {
			panic(EngineError{err.Error()})
		}
		selfTested = true
	}
	x := &Exec{sc: sc, prefix: prefix, done: make(chan struct{}), prune: prune,
		objHash: map[any]uint64{}, objReads: map[any][]uint64{}}
	mode.Store(ModeControlled)
	current.Store(x)
	if sc.Setup != nil {
		sc.Setup(x)
	}
	x.spawn(nil, "main", sc.Body)
	go x.decide()
	select {
	case <-x.done:
	case <-time.After(120 * time.Second):
		x.mu.Lock()
		info := x.describeBlocked()
		n := len(x.Steps)
		var last Step
		if n > 0 {
			last = x.Steps[n-1]
		}
		x.mu.Unlock()
		buf := make([]byte, 1<<20)
		buf = buf[:runtime.Stack(buf, true)]
		os.WriteFile("/tmp/vsched-lost-control.txt", buf, 0o644)
		panic(EngineError{fmt.Sprintf("lost control in %s: no decision for 120s after %d steps (last %+v); parked: %s", sc.Name, n, last, info)})
	}
	return x
}

// Finish evaluates nothing; it unwinds the threads of x and runs Cleanup.
func Finish(x *Exec) {
	if err := x.abortAll(); err != nil {
		panic(EngineError{err.Error()})
	}
	if x.sc.Cleanup != nil {
		x.sc.Cleanup(x)
	}
	current.Store(nil)
	mode.Store(ModeFree)
}

func (sc *Scenario) endOK(kind string) bool {
	if len(sc.OKEnds) == 0 {
		return kind == EndQuiescent || kind == EndDone
	}
	for _, k := range sc.OKEnds {
		if k == kind {
			return true
		}
	}
	return false
}

// judge returns the violation of one finished execution, if any.
func judge(sc *Scenario, x *Exec) *Violation {
	mk := func(kind, msg string) *Violation {
		return &Violation{Scenario: sc.Name, Kind: kind, Message: msg,
			Choices: append([]int{}, x.Choices...), Steps: append([]Step{}, x.Steps...), End: x.End}
	}
	switch x.End {
	case EndPruned:
		return nil
	case EndEngine:
		panic(EngineError{sc.Name + ": " + x.EndInfo})
	case EndCrash:
		return mk("crash", x.EndInfo)
	}
	if !sc.endOK(x.End) {
		return mk(x.End, x.EndInfo)
	}
	if sc.AtEnd != nil {
		if err := sc.AtEnd(x); err != nil {
			return mk("oracle", err.Error())
		}
	}
	return nil
}

// Explore runs the bounded depth-first search.
func Explore(sc *Scenario, b Bounds) *Report {
	if b.Of == 0 {
		b.Of = 1
	}
	e := &explorer{sc: sc, b: b, cache: map[cacheKey][2]int{}, start: time.Now(),
		rep: &Report{Scenario: sc.Name, P: b.P, F: b.F, Outcomes: map[string]int{}, Ends: map[string]int{}, Exhaustive: true}}
	e.explore(nil, 0, 0, 0)
	e.rep.States = len(e.cache)
	e.rep.WallS = time.Since(e.start).Seconds()
	return e.rep
}

func (e *explorer) capped() bool {
	if e.stop {
		return true
	}
	if e.b.MaxExecs > 0 && e.rep.Executions >= e.b.MaxExecs {
		e.stop, e.rep.Exhaustive, e.rep.CapHit = true, false, fmt.Sprintf("execution cap %d", e.b.MaxExecs)
	}
	if e.b.MaxWall > 0 && time.Since(e.start) > e.b.MaxWall {
		e.stop, e.rep.Exhaustive, e.rep.CapHit = true, false, fmt.Sprintf("wall cap %v", e.b.MaxWall)
	}
	unknown := 0
	for i := range e.rep.Violations {
		v := &e.rep.Violations[i]
		if e.sc.KnownSig == nil || v.Sig == "" || !e.sc.KnownSig(v.Sig) {
			unknown++
		}
	}
	if unknown >= 3 {
		e.stop = true
	}
	return e.stop
}

// explore runs prefix and branches on every later decision within budget.
// depth is the number of non-default choices in prefix (sharding frontier = 2).
func (e *explorer) explore(prefix []int, usedP, usedF, depth int) {
	if e.capped() {
		return
	}
	// sharding: subtrees at depth 2 are dealt round-robin; shallower nodes are
	// run by every shard (needed to enumerate) but judged by shard 0 only.
	mine := true
	if e.b.Of > 1 {
		if depth == 2 {
			idx := e.front
			e.front++
			if idx%e.b.Of != e.b.Shard {
				return
			}
		} else if depth < 2 {
			mine = e.b.Shard == 0
		}
	}
	remP, remF := e.b.P-usedP, e.b.F-usedF
	var prune func(step int, fp uint64, cur string) bool
	if !e.b.NoCache {
		prune = func(step int, fp uint64, cur string) bool {
			k := cacheKey{fp, cur}
			if v, ok := e.cache[k]; ok && v[0] >= remP && v[1] >= remF {
				return true
			}
			if v, ok := e.cache[k]; !ok || (remP >= v[0] && remF >= v[1]) {
				e.cache[k] = [2]int{remP, remF}
			}
			return false
		}
	}
	x := RunOnce(e.sc, prefix, prune)
	e.rep.Transitions += len(x.Steps) - len(prefix)
	if len(x.Steps) > e.rep.MaxSteps {
		e.rep.MaxSteps = len(x.Steps)
	}
	if x.End == EndPruned {
		e.rep.Pruned++
	} else if mine {
		e.rep.Executions++
		e.rep.Ends[x.End]++
		if v := judge(e.sc, x); v != nil {
			if e.sc.Signature != nil {
				v.Sig = e.sc.Signature(v)
			}
			dup := false
			for i := range e.rep.Violations {
				if v.Sig != "" && e.rep.Violations[i].Sig == v.Sig {
					e.rep.Violations[i].Count++
					dup = true
				}
			}
			if !dup {
				v.Count = 1
				e.rep.Violations = append(e.rep.Violations, *v)
			}
		} else if e.sc.Outcome != nil {
			e.rep.Outcomes[e.sc.Outcome(x)]++
		}
		if len(e.rep.Sample) == 0 {
			e.rep.Sample = append([]Step{}, x.Steps...)
		}
	}
	choices := append([]int{}, x.Choices...)
	optCosts := x.OptCosts
	optKeys, optCurs := x.OptKeys, x.OptCurs
	nsteps := len(x.Choices)
	Finish(x)
	if e.b.NoCache && e.rep.States >= 0 {
		// without the cache, count distinct fingerprints anyway
		for i, fp := range x.FPs {
			if fp != 0 {
				e.cache[cacheKey{fp, x.Curs[i]}] = [2]int{}
			}
		}
	}
	for i := len(prefix); i < nsteps; i++ {
		for alt := 1; alt < len(optCosts[i]); alt++ {
			cp, cf := optCosts[i][alt][0], optCosts[i][alt][1]
			if usedP+cp > e.b.P || usedF+cf > e.b.F {
				continue
			}
			// look-ahead: the key of the successor state is known without running it
			if !e.b.NoCache && i < len(optKeys) && alt < len(optKeys[i]) {
				if v, ok := e.cache[cacheKey{optKeys[i][alt], optCurs[i][alt]}]; ok && v[0] >= e.b.P-usedP-cp && v[1] >= e.b.F-usedF-cf {
					e.rep.Skipped++
					continue
				}
			}
			np := append(append(make([]int, 0, i+1), choices[:i]...), alt)
			e.explore(np, usedP+cp, usedF+cf, depth+1)
			if e.stop {
				return
			}
		}
	}
}

// Replay re-executes one recorded schedule and judges it.
func Replay(sc *Scenario, choices []int) (*Violation, *Exec) {
	x := RunOnce(sc, choices, nil)
	v := judge(sc, x)
	Finish(x)
	return v, x
}

// Confirm replays a violation twice and checks that it fails the same way.
func Confirm(sc *Scenario, v *Violation) error {
	for i := 0; i < 2; i++ {
		v2, x := Replay(sc, v.Choices)
		if v2 == nil {
			return fmt.Errorf("replay %d of a %s violation did not fail (end %s)", i, v.Kind, x.End)
		}
		if v2.Kind != v.Kind {
			return fmt.Errorf("replay %d failed differently: %s vs %s", i, v2.Kind, v.Kind)
		}
	}
	return nil
}

// DeterminismCheck runs the default schedule twice and compares the traces.
func DeterminismCheck(sc *Scenario) error {
	var tr [2]string
	var out [2]string
	for i := 0; i < 2; i++ {
		x := RunOnce(sc, nil, nil)
		if x.End == EndEngine {
			Finish(x)
			return fmt.Errorf("%s", x.EndInfo)
		}
		b, _ := json.Marshal(x.Steps)
		tr[i] = string(b)
		if sc.Outcome != nil {
			out[i] = sc.Outcome(x)
		}
		Finish(x)
	}
	if tr[0] != tr[1] {
		return fmt.Errorf("default schedule of %s is not deterministic:\n%s\n%s", sc.Name, clip(tr[0]), clip(tr[1]))
	}
	if out[0] != out[1] {
		return fmt.Errorf("default schedule of %s gives different outcomes: %q vs %q", sc.Name, out[0], out[1])
	}
	return nil
}

func clip(s string) string {
	if len(s) > 4000 {
		return s[:4000] + "..."
	}
	return s
}

// SortedKeys helper for reports.
func SortedKeys(m map[string]int) []string {
	ks := make([]string, 0, len(m))
	for k := range m {
		ks = append(ks, k)
	}
	sort.Strings(ks)
	return ks
}

// ---------------------------------------------------------------------------
// ModeSeq: enumerate every combination of Choose/MapOrder answers of a
// sequential function (no threads).

// EnumerateSeq calls f once per combination of choice answers; f must be
// deterministic apart from those choices. Returns the number of runs.
func EnumerateSeq(f func(), maxRuns int) int {
	old := mode.Load()
	mode.Store(ModeSeq)
	defer mode.Store(old)
	var stack []int // current answers
	var sizes []int
	runs := 0
	for {
		pos := 0
		seqChooser = func(id string, n int) int {
			if pos < len(stack) {
				if sizes[pos] != n {
					panic(EngineError{fmt.Sprintf("seq enumeration diverged at %s: %d vs %d", id, sizes[pos], n)})
				}
				v := stack[pos]
				pos++
				return v
			}
			stack = append(stack, 0)
			sizes = append(sizes, n)
			pos++
			return 0
		}
		f()
		runs++
		stack, sizes = stack[:pos], sizes[:pos]
		// next combination (odometer from the back)
		i := len(stack) - 1
		for i >= 0 && stack[i]+1 >= sizes[i] {
			i--
		}
		if i < 0 || (maxRuns > 0 && runs >= maxRuns) {
			break
		}
		stack[i]++
		stack, sizes = stack[:i+1], sizes[:i+1]
	}
	seqChooser = nil
	return runs
}

// DefaultSignature classifies a violation by kind, the message with digits
// removed, and - for crashes - the innermost Zeno function on the stack.
func DefaultSignature(v *Violation) string {
	msg := v.Message
	fn := ""
	if v.Kind == "crash" {
		for _, l := range strings.Split(msg, "\n") {
			if i := strings.Index(l, "github.com/internetarchive/Zeno/"); i >= 0 && !strings.Contains(l, "/internal/verif/") && !strings.HasPrefix(strings.TrimSpace(l), "/") {
				f := l[i+len("github.com/internetarchive/Zeno/"):]
				if j := strings.IndexByte(f, '('); j > 0 && !strings.HasPrefix(f[j:], "(*") {
					f = f[:j]
				} else if j := strings.LastIndexByte(f, '('); j > 0 {
					f = f[:j]
				}
				fn = f
				break
			}
		}
	}
	if i := strings.IndexByte(msg, '\n'); i >= 0 {
		msg = msg[:i]
	}
	var sb strings.Builder
	for _, r := range msg {
		if r >= '0' && r <= '9' {
			continue
		}
		if r == ' ' || r == '\t' {
			r = '-'
		}
		sb.WriteRune(r)
	}
	m := sb.String()
	if len(m) > 90 {
		m = m[:90]
	}
	s := v.Kind + ":" + m
	if fn != "" {
		s += "@" + fn
	}
	return s
}

// SeqMode switches the runtime into (or out of) sequential mode: no threads are
// owned, Choose answers 0 unless driven by EnumerateSeq, and the clock comes
// from SeqClock/SeqSleep when set.
func SeqMode(on bool) {
	if on {
		mode.Store(ModeSeq)
	} else {
		mode.Store(ModeFree)
	}
}
