package vsched

import (
	"fmt"
	"unsafe"
)

// Layout of runtime.hchan for go1.24 (checked by selfTest at start-up):
//
//	qcount   uint   @0
//	dataqsiz uint   @8
//	buf      ptr    @16
//	elemsize uint16 @24
//	closed   uint32 @28
//	...
//	recvq.first     @64
//	sendq.first     @80
const (
	offQcount   = 0
	offDataqsiz = 8
	offClosed   = 28
	offRecvq    = 64
	offSendq    = 80
)

type hchan = unsafe.Pointer

// chanPtr returns the *hchan behind a channel value of any channel type
// (nil for a nil channel or a non-channel).
func chanPtr(ch any) hchan {
	if ch == nil {
		return nil
	}
	e := (*[2]unsafe.Pointer)(unsafe.Pointer(&ch))
	return e[1]
}

func hcQcount(c hchan) uint   { return *(*uint)(unsafe.Add(c, offQcount)) }
func hcDataqsiz(c hchan) uint { return *(*uint)(unsafe.Add(c, offDataqsiz)) }
func hcClosed(c hchan) bool   { return *(*uint32)(unsafe.Add(c, offClosed)) != 0 }
func hcRecvWaiter(c hchan) bool {
	return *(*unsafe.Pointer)(unsafe.Add(c, offRecvq)) != nil
}
func hcSendWaiter(c hchan) bool {
	return *(*unsafe.Pointer)(unsafe.Add(c, offSendq)) != nil
}

// selfTest aborts the check (engine error, never a property verdict) when the
// channel header does not look the way the offsets above assume.
func selfTest() error {
	c := make(chan int, 3)
	p := chanPtr(c)
	if p == nil {
		return fmt.Errorf("hchan: nil pointer for a live channel")
	}
	if hcQcount(p) != 0 || hcDataqsiz(p) != 3 || hcClosed(p) {
		return fmt.Errorf("hchan: fresh chan reads q=%d siz=%d closed=%v", hcQcount(p), hcDataqsiz(p), hcClosed(p))
	}
	c <- 1
	c <- 2
	if hcQcount(p) != 2 {
		return fmt.Errorf("hchan: qcount after 2 sends = %d", hcQcount(p))
	}
	close(c)
	if !hcClosed(p) {
		return fmt.Errorf("hchan: closed flag not set after close")
	}
	u := make(chan struct{})
	if hcDataqsiz(chanPtr(u)) != 0 {
		return fmt.Errorf("hchan: unbuffered dataqsiz != 0")
	}
	var nilc chan int
	if chanPtr(nilc) != nil {
		return fmt.Errorf("hchan: nil channel gives non-nil pointer")
	}
	var ro <-chan int = c
	if chanPtr(ro) != p {
		return fmt.Errorf("hchan: directional view gives another pointer")
	}
	return nil
}
