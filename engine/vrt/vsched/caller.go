package vsched

import (
	"runtime"
	"strconv"
	"strings"
	"sync"
)

var callerCache sync.Map // pc -> string

// CallerID names a shim operation by its call site: "op file.go:line".
// skip counts frames above the shim method (0 = the caller of the shim).
func CallerID(op string, skip int) string {
	if mode.Load() != ModeControlled && !Profile.Load() && !haveTriggers() {
		return op
	}
	var pcs [1]uintptr
	if runtime.Callers(3+skip, pcs[:]) == 0 {
		return op
	}
	if v, ok := callerCache.Load(pcs[0]); ok {
		return op + " " + v.(string)
	}
	fr, _ := runtime.CallersFrames(pcs[:]).Next()
	file := fr.File
	if i := strings.Index(file, "/internal/pkg/"); i >= 0 {
		file = file[i+1:]
	} else if i := strings.Index(file, "/pkg/models/"); i >= 0 {
		file = file[i+1:]
	} else if i := strings.LastIndexByte(file, '/'); i >= 0 {
		file = file[i+1:]
	}
	s := file + ":" + strconv.Itoa(fr.Line)
	callerCache.Store(pcs[0], s)
	return op + " " + s
}

func haveTriggers() bool {
	trigMu.RLock()
	n := len(triggers)
	trigMu.RUnlock()
	return n > 0
}
