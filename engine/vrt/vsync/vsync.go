// Package vsync is the drop-in replacement for "sync" in instrumented code:
// every operation is a scheduling point with model-level blocking when the
// caller is owned by the scheduler, and the real primitive otherwise.
package vsync

import (
	"reflect"
	"sync"
	"sync/atomic"

	"github.com/internetarchive/Zeno/internal/verif/vrt/vsched"
)

type (
	Locker = sync.Locker
	Cond   = sync.Cond
)

// Pool is the most adversarial pool the contract of sync.Pool allows, made deterministic:
// Get hands out the object that was Put last (maximal reuse), and Put poisons what it can see of
// the object - the elements of a slice (or of the slice a pointer points to) up to its capacity -
// because after Put the object belongs to whoever Gets it next. Code that keeps using a buffer it
// has given back therefore reads poison at once, in a sequential run, instead of only under the
// one interleaving in which another goroutine has already refilled the buffer.
type Pool struct {
	New   func() any
	mu    sync.Mutex
	items []any
}

// PoolPoison is what string elements of a returned buffer are overwritten with.
const PoolPoison = "\x00vsync.Pool: used after Put"

func (p *Pool) Get() any {
	vsched.Point(vsched.CallerID("Pool.Get", 0), p)
	p.mu.Lock()
	var x any
	if n := len(p.items); n > 0 {
		x, p.items = p.items[n-1], p.items[:n-1]
	}
	p.mu.Unlock()
	if x == nil && p.New != nil {
		x = p.New()
	}
	return x
}

func (p *Pool) Put(x any) {
	vsched.Point(vsched.CallerID("Pool.Put", 0), p)
	if x == nil {
		return
	}
	poison(x)
	p.mu.Lock()
	p.items = append(p.items, x)
	p.mu.Unlock()
}

func poison(x any) {
	v := reflect.ValueOf(x)
	if v.Kind() == reflect.Ptr && !v.IsNil() && v.Elem().Kind() == reflect.Slice {
		v = v.Elem()
	}
	if v.Kind() != reflect.Slice || v.Cap() == 0 {
		return
	}
	full := v.Slice3(0, v.Cap(), v.Cap())
	var fill reflect.Value
	switch full.Type().Elem().Kind() {
	case reflect.String:
		fill = reflect.ValueOf(PoolPoison).Convert(full.Type().Elem())
	case reflect.Uint8:
		fill = reflect.ValueOf(uint8(0xDB)).Convert(full.Type().Elem())
	default:
		fill = reflect.Zero(full.Type().Elem())
	}
	for i := 0; i < full.Len(); i++ {
		full.Index(i).Set(fill)
	}
}

func NewCond(l Locker) *Cond { return sync.NewCond(l) }

// ---------------------------------------------------------------- Mutex

type Mutex struct {
	mu   sync.Mutex
	held atomic.Bool
}

func (m *Mutex) Lock() {
	vsched.Block(vsched.CallerID("Mutex.Lock", 0), m, func() bool { return !m.held.Load() })
	m.mu.Lock()
	m.held.Store(true)
}

func (m *Mutex) TryLock() bool {
	vsched.Point(vsched.CallerID("Mutex.TryLock", 0), m)
	if m.mu.TryLock() {
		m.held.Store(true)
		return true
	}
	return false
}

func (m *Mutex) Unlock() {
	vsched.Event("Mutex.Unlock", m)
	m.held.Store(false)
	m.mu.Unlock()
}

// ---------------------------------------------------------------- RWMutex

type RWMutex struct {
	mu      sync.RWMutex
	writer  atomic.Bool
	readers atomic.Int64
}

func (m *RWMutex) Lock() {
	vsched.Block(vsched.CallerID("RWMutex.Lock", 0), m, func() bool { return !m.writer.Load() && m.readers.Load() == 0 })
	m.mu.Lock()
	m.writer.Store(true)
}

func (m *RWMutex) Unlock() {
	vsched.Event("RWMutex.Unlock", m)
	m.writer.Store(false)
	m.mu.Unlock()
}

func (m *RWMutex) RLock() {
	vsched.Block(vsched.CallerID("RWMutex.RLock", 0), m, func() bool { return !m.writer.Load() })
	m.mu.RLock()
	m.readers.Add(1)
}

func (m *RWMutex) RUnlock() {
	vsched.Event("RWMutex.RUnlock", m)
	m.readers.Add(-1)
	m.mu.RUnlock()
}

func (m *RWMutex) RLocker() Locker { return (*rlocker)(m) }

type rlocker RWMutex

func (r *rlocker) Lock()   { (*RWMutex)(r).RLock() }
func (r *rlocker) Unlock() { (*RWMutex)(r).RUnlock() }

// ---------------------------------------------------------------- WaitGroup

type WaitGroup struct {
	wg sync.WaitGroup
	n  atomic.Int64
}

func (w *WaitGroup) Add(d int) {
	vsched.Point(vsched.CallerID("WaitGroup.Add", 0), w)
	w.n.Add(int64(d))
	w.wg.Add(d)
}

func (w *WaitGroup) Done() {
	vsched.Event("WaitGroup.Done", w)
	w.n.Add(-1)
	w.wg.Done()
}

func (w *WaitGroup) Wait() {
	vsched.Block(vsched.CallerID("WaitGroup.Wait", 0), w, func() bool { return w.n.Load() <= 0 })
	w.wg.Wait()
}

func (w *WaitGroup) Go(f func()) {
	w.Add(1)
	vsched.Go("WaitGroup.Go", func() { defer w.Done(); f() })
}

// ---------------------------------------------------------------- Once

type Once struct {
	real  sync.Once
	state atomic.Int32 // 0 not run, 1 running, 2 done
}

func (o *Once) Do(f func()) {
	if !vsched.Controlled() {
		o.real.Do(f)
		return
	}
	vsched.Point(vsched.CallerID("Once.Do", 0), o)
	switch o.state.Load() {
	case 2:
		return
	case 1:
		if !vsched.Block("Once.Do(wait)", o, func() bool { return o.state.Load() == 2 }) {
			return
		}
		return
	}
	o.state.Store(1)
	defer o.state.Store(2)
	f()
}

// ---------------------------------------------------------------- Map

type Map struct {
	mu    sync.Mutex
	m     map[any]any
	order []any
}

func (m *Map) Load(key any) (any, bool) {
	vsched.ReadPoint(vsched.CallerID("Map.Load", 0), m)
	m.mu.Lock()
	defer m.mu.Unlock()
	v, ok := m.m[key]
	return v, ok
}

func (m *Map) storeLocked(key, value any) {
	if m.m == nil {
		m.m = map[any]any{}
	}
	if _, ok := m.m[key]; !ok {
		m.order = append(m.order, key)
	}
	m.m[key] = value
}

func (m *Map) deleteLocked(key any) {
	if _, ok := m.m[key]; !ok {
		return
	}
	delete(m.m, key)
	for i, k := range m.order {
		if k == key {
			m.order = append(m.order[:i:i], m.order[i+1:]...)
			break
		}
	}
}

func (m *Map) Store(key, value any) {
	vsched.Point(vsched.CallerID("Map.Store", 0), m)
	m.mu.Lock()
	defer m.mu.Unlock()
	m.storeLocked(key, value)
}

func (m *Map) LoadOrStore(key, value any) (any, bool) {
	vsched.Point(vsched.CallerID("Map.LoadOrStore", 0), m)
	m.mu.Lock()
	defer m.mu.Unlock()
	if v, ok := m.m[key]; ok {
		return v, true
	}
	m.storeLocked(key, value)
	return value, false
}

func (m *Map) LoadAndDelete(key any) (any, bool) {
	vsched.Point(vsched.CallerID("Map.LoadAndDelete", 0), m)
	m.mu.Lock()
	defer m.mu.Unlock()
	v, ok := m.m[key]
	if ok {
		m.deleteLocked(key)
	}
	return v, ok
}

func (m *Map) Delete(key any) {
	vsched.Point(vsched.CallerID("Map.Delete", 0), m)
	m.mu.Lock()
	defer m.mu.Unlock()
	m.deleteLocked(key)
}

func (m *Map) Swap(key, value any) (any, bool) {
	vsched.Point(vsched.CallerID("Map.Swap", 0), m)
	m.mu.Lock()
	defer m.mu.Unlock()
	v, ok := m.m[key]
	m.storeLocked(key, value)
	return v, ok
}

func (m *Map) CompareAndSwap(key, old, new any) bool {
	vsched.Point(vsched.CallerID("Map.CompareAndSwap", 0), m)
	m.mu.Lock()
	defer m.mu.Unlock()
	v, ok := m.m[key]
	if !ok || v != old {
		return false
	}
	m.m[key] = new
	return true
}

func (m *Map) CompareAndDelete(key, old any) bool {
	vsched.Point(vsched.CallerID("Map.CompareAndDelete", 0), m)
	m.mu.Lock()
	defer m.mu.Unlock()
	v, ok := m.m[key]
	if !ok || v != old {
		return false
	}
	m.deleteLocked(key)
	return true
}

// Range visits a snapshot in insertion order (any order is legal Go).
func (m *Map) Range(f func(key, value any) bool) {
	vsched.ReadPoint(vsched.CallerID("Map.Range", 0), m)
	m.mu.Lock()
	keys := append([]any{}, m.order...)
	vals := make([]any, len(keys))
	for i, k := range keys {
		vals[i] = m.m[k]
	}
	m.mu.Unlock()
	for i, k := range keys {
		if !f(k, vals[i]) {
			return
		}
	}
}

func (m *Map) Clear() {
	vsched.Point(vsched.CallerID("Map.Clear", 0), m)
	m.mu.Lock()
	m.m, m.order = nil, nil
	m.mu.Unlock()
}

// OnceFunc and friends pass through.
func OnceFunc(f func()) func() { return sync.OnceFunc(f) }

func OnceValue[T any](f func() T) func() T { return sync.OnceValue(f) }

func OnceValues[T1, T2 any](f func() (T1, T2)) func() (T1, T2) { return sync.OnceValues(f) }
