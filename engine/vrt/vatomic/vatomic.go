// Package vatomic replaces "sync/atomic" in instrumented code: the same
// operations, each preceded by a scheduling point on the word's address.
package vatomic

import (
	"sync/atomic"
	"unsafe"

	"github.com/internetarchive/Zeno/internal/verif/vrt/vsched"
)

func w(op string, p any) { vsched.Point(vsched.CallerID(op, 1), p) }
func r(op string, p any) { vsched.ReadPoint(vsched.CallerID(op, 1), p) }

type Bool struct{ v atomic.Bool }

func (x *Bool) Load() bool         { r("atomic.Bool.Load", x); return x.v.Load() }
func (x *Bool) Store(val bool)     { w("atomic.Bool.Store", x); x.v.Store(val) }
func (x *Bool) Swap(new bool) bool { w("atomic.Bool.Swap", x); return x.v.Swap(new) }
func (x *Bool) CompareAndSwap(o, n bool) bool {
	w("atomic.Bool.CAS", x)
	return x.v.CompareAndSwap(o, n)
}

type Int32 struct{ v atomic.Int32 }

func (x *Int32) Load() int32          { r("atomic.Int32.Load", x); return x.v.Load() }
func (x *Int32) Store(val int32)      { w("atomic.Int32.Store", x); x.v.Store(val) }
func (x *Int32) Swap(new int32) int32 { w("atomic.Int32.Swap", x); return x.v.Swap(new) }
func (x *Int32) Add(d int32) int32    { w("atomic.Int32.Add", x); return x.v.Add(d) }
func (x *Int32) CompareAndSwap(o, n int32) bool {
	w("atomic.Int32.CAS", x)
	return x.v.CompareAndSwap(o, n)
}

type Int64 struct{ v atomic.Int64 }

func (x *Int64) Load() int64          { r("atomic.Int64.Load", x); return x.v.Load() }
func (x *Int64) Store(val int64)      { w("atomic.Int64.Store", x); x.v.Store(val) }
func (x *Int64) Swap(new int64) int64 { w("atomic.Int64.Swap", x); return x.v.Swap(new) }
func (x *Int64) Add(d int64) int64    { w("atomic.Int64.Add", x); return x.v.Add(d) }
func (x *Int64) CompareAndSwap(o, n int64) bool {
	w("atomic.Int64.CAS", x)
	return x.v.CompareAndSwap(o, n)
}

type Uint32 struct{ v atomic.Uint32 }

func (x *Uint32) Load() uint32           { r("atomic.Uint32.Load", x); return x.v.Load() }
func (x *Uint32) Store(val uint32)       { w("atomic.Uint32.Store", x); x.v.Store(val) }
func (x *Uint32) Swap(new uint32) uint32 { w("atomic.Uint32.Swap", x); return x.v.Swap(new) }
func (x *Uint32) Add(d uint32) uint32    { w("atomic.Uint32.Add", x); return x.v.Add(d) }
func (x *Uint32) CompareAndSwap(o, n uint32) bool {
	w("atomic.Uint32.CAS", x)
	return x.v.CompareAndSwap(o, n)
}

type Uint64 struct{ v atomic.Uint64 }

func (x *Uint64) Load() uint64           { r("atomic.Uint64.Load", x); return x.v.Load() }
func (x *Uint64) Store(val uint64)       { w("atomic.Uint64.Store", x); x.v.Store(val) }
func (x *Uint64) Swap(new uint64) uint64 { w("atomic.Uint64.Swap", x); return x.v.Swap(new) }
func (x *Uint64) Add(d uint64) uint64    { w("atomic.Uint64.Add", x); return x.v.Add(d) }
func (x *Uint64) CompareAndSwap(o, n uint64) bool {
	w("atomic.Uint64.CAS", x)
	return x.v.CompareAndSwap(o, n)
}

type Value struct{ v atomic.Value }

func (x *Value) Load() any        { r("atomic.Value.Load", x); return x.v.Load() }
func (x *Value) Store(val any)    { w("atomic.Value.Store", x); x.v.Store(val) }
func (x *Value) Swap(new any) any { w("atomic.Value.Swap", x); return x.v.Swap(new) }
func (x *Value) CompareAndSwap(o, n any) bool {
	w("atomic.Value.CAS", x)
	return x.v.CompareAndSwap(o, n)
}

type Pointer[T any] struct{ v atomic.Pointer[T] }

func (x *Pointer[T]) Load() *T       { r("atomic.Pointer.Load", x); return x.v.Load() }
func (x *Pointer[T]) Store(val *T)   { w("atomic.Pointer.Store", x); x.v.Store(val) }
func (x *Pointer[T]) Swap(new *T) *T { w("atomic.Pointer.Swap", x); return x.v.Swap(new) }
func (x *Pointer[T]) CompareAndSwap(o, n *T) bool {
	w("atomic.Pointer.CAS", x)
	return x.v.CompareAndSwap(o, n)
}

func AddInt32(p *int32, d int32) int32     { w("atomic.AddInt32", p); return atomic.AddInt32(p, d) }
func AddInt64(p *int64, d int64) int64     { w("atomic.AddInt64", p); return atomic.AddInt64(p, d) }
func AddUint32(p *uint32, d uint32) uint32 { w("atomic.AddUint32", p); return atomic.AddUint32(p, d) }
func AddUint64(p *uint64, d uint64) uint64 { w("atomic.AddUint64", p); return atomic.AddUint64(p, d) }

func LoadInt32(p *int32) int32    { r("atomic.LoadInt32", p); return atomic.LoadInt32(p) }
func LoadInt64(p *int64) int64    { r("atomic.LoadInt64", p); return atomic.LoadInt64(p) }
func LoadUint32(p *uint32) uint32 { r("atomic.LoadUint32", p); return atomic.LoadUint32(p) }
func LoadUint64(p *uint64) uint64 { r("atomic.LoadUint64", p); return atomic.LoadUint64(p) }
func LoadPointer(p *unsafe.Pointer) unsafe.Pointer {
	r("atomic.LoadPointer", p)
	return atomic.LoadPointer(p)
}

func StoreInt32(p *int32, v int32)    { w("atomic.StoreInt32", p); atomic.StoreInt32(p, v) }
func StoreInt64(p *int64, v int64)    { w("atomic.StoreInt64", p); atomic.StoreInt64(p, v) }
func StoreUint32(p *uint32, v uint32) { w("atomic.StoreUint32", p); atomic.StoreUint32(p, v) }
func StoreUint64(p *uint64, v uint64) { w("atomic.StoreUint64", p); atomic.StoreUint64(p, v) }
func StorePointer(p *unsafe.Pointer, v unsafe.Pointer) {
	w("atomic.StorePointer", p)
	atomic.StorePointer(p, v)
}

func SwapInt32(p *int32, v int32) int32 { w("atomic.SwapInt32", p); return atomic.SwapInt32(p, v) }
func SwapInt64(p *int64, v int64) int64 { w("atomic.SwapInt64", p); return atomic.SwapInt64(p, v) }
func SwapUint32(p *uint32, v uint32) uint32 {
	w("atomic.SwapUint32", p)
	return atomic.SwapUint32(p, v)
}
func SwapUint64(p *uint64, v uint64) uint64 {
	w("atomic.SwapUint64", p)
	return atomic.SwapUint64(p, v)
}

func CompareAndSwapInt32(p *int32, o, n int32) bool {
	w("atomic.CASInt32", p)
	return atomic.CompareAndSwapInt32(p, o, n)
}
func CompareAndSwapInt64(p *int64, o, n int64) bool {
	w("atomic.CASInt64", p)
	return atomic.CompareAndSwapInt64(p, o, n)
}
func CompareAndSwapUint32(p *uint32, o, n uint32) bool {
	w("atomic.CASUint32", p)
	return atomic.CompareAndSwapUint32(p, o, n)
}
func CompareAndSwapUint64(p *uint64, o, n uint64) bool {
	w("atomic.CASUint64", p)
	return atomic.CompareAndSwapUint64(p, o, n)
}

type Uintptr struct{ v atomic.Uintptr }

func (x *Uintptr) Load() uintptr            { r("atomic.Uintptr.Load", x); return x.v.Load() }
func (x *Uintptr) Store(val uintptr)        { w("atomic.Uintptr.Store", x); x.v.Store(val) }
func (x *Uintptr) Swap(new uintptr) uintptr { w("atomic.Uintptr.Swap", x); return x.v.Swap(new) }
func (x *Uintptr) Add(d uintptr) uintptr    { w("atomic.Uintptr.Add", x); return x.v.Add(d) }
func (x *Uintptr) CompareAndSwap(o, n uintptr) bool {
	w("atomic.Uintptr.CompareAndSwap", x)
	return x.v.CompareAndSwap(o, n)
}

func (x *Int32) And(m int32) int32    { w("atomic.Int32.And", x); return x.v.And(m) }
func (x *Int32) Or(m int32) int32     { w("atomic.Int32.Or", x); return x.v.Or(m) }
func (x *Int64) And(m int64) int64    { w("atomic.Int64.And", x); return x.v.And(m) }
func (x *Int64) Or(m int64) int64     { w("atomic.Int64.Or", x); return x.v.Or(m) }
func (x *Uint32) And(m uint32) uint32 { w("atomic.Uint32.And", x); return x.v.And(m) }
func (x *Uint32) Or(m uint32) uint32  { w("atomic.Uint32.Or", x); return x.v.Or(m) }
func (x *Uint64) And(m uint64) uint64 { w("atomic.Uint64.And", x); return x.v.And(m) }
func (x *Uint64) Or(m uint64) uint64  { w("atomic.Uint64.Or", x); return x.v.Or(m) }

func AddUintptr(p *uintptr, d uintptr) uintptr {
	w("atomic.AddUintptr", p)
	return atomic.AddUintptr(p, d)
}
func LoadUintptr(p *uintptr) uintptr     { r("atomic.LoadUintptr", p); return atomic.LoadUintptr(p) }
func StoreUintptr(p *uintptr, v uintptr) { w("atomic.StoreUintptr", p); atomic.StoreUintptr(p, v) }
func SwapUintptr(p *uintptr, v uintptr) uintptr {
	w("atomic.SwapUintptr", p)
	return atomic.SwapUintptr(p, v)
}
func CompareAndSwapUintptr(p *uintptr, o, n uintptr) bool {
	w("atomic.CompareAndSwapUintptr", p)
	return atomic.CompareAndSwapUintptr(p, o, n)
}
func SwapPointer(p *unsafe.Pointer, v unsafe.Pointer) unsafe.Pointer {
	w("atomic.SwapPointer", p)
	return atomic.SwapPointer(p, v)
}
func CompareAndSwapPointer(p *unsafe.Pointer, o, n unsafe.Pointer) bool {
	w("atomic.CompareAndSwapPointer", p)
	return atomic.CompareAndSwapPointer(p, o, n)
}
