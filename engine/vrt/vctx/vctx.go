// Package vctx replaces "context" in instrumented code. Contexts are the real
// ones (so they can be handed to libraries); only cancellation becomes a
// scheduling point and deadlines run on the virtual clock.
package vctx

import (
	"context"
	"time"

	"github.com/internetarchive/Zeno/internal/verif/vrt/vsched"
)

type (
	Context         = context.Context
	CancelFunc      = context.CancelFunc
	CancelCauseFunc = context.CancelCauseFunc
)

var (
	Canceled         = context.Canceled
	DeadlineExceeded = context.DeadlineExceeded
)

func Background() Context { return context.Background() }
func TODO() Context       { return context.TODO() }

func WithValue(parent Context, key, val any) Context { return context.WithValue(parent, key, val) }
func WithoutCancel(parent Context) Context           { return context.WithoutCancel(parent) }
func Cause(c Context) error                          { return context.Cause(c) }

func WithCancel(parent Context) (Context, CancelFunc) {
	ctx, cancel := context.WithCancel(parent)
	return ctx, func() {
		vsched.Point(vsched.CallerID("ctx.cancel", 0), ctx.Done())
		cancel()
	}
}

func WithCancelCause(parent Context) (Context, CancelCauseFunc) {
	ctx, cancel := context.WithCancelCause(parent)
	return ctx, func(err error) {
		vsched.Point(vsched.CallerID("ctx.cancel", 0), ctx.Done())
		cancel(err)
	}
}

func WithTimeout(parent Context, d time.Duration) (Context, CancelFunc) {
	if !vsched.Controlled() {
		return context.WithTimeout(parent, d)
	}
	ctx, cancel := context.WithCancelCause(parent)
	t := vsched.NewVTimer(d, 0, func() { cancel(context.DeadlineExceeded) })
	return ctx, func() {
		vsched.Point(vsched.CallerID("ctx.cancel", 0), ctx.Done())
		t.Stop()
		cancel(context.Canceled)
	}
}

func WithDeadline(parent Context, at time.Time) (Context, CancelFunc) {
	if !vsched.Controlled() {
		return context.WithDeadline(parent, at)
	}
	return WithTimeout(parent, at.Sub(vsched.VNow()))
}

func AfterFunc(ctx Context, f func()) (stop func() bool) { return context.AfterFunc(ctx, f) }
