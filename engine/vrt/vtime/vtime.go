// Package vtime replaces the clock-reading and waiting functions of "time" in
// instrumented code with the scheduler's virtual clock.
package vtime

import (
	"time"

	"github.com/internetarchive/Zeno/internal/verif/vrt/vsched"
)

func Now() time.Time                  { return vsched.VNow() }
func Since(t time.Time) time.Duration { return vsched.VNow().Sub(t) }
func Until(t time.Time) time.Duration { return t.Sub(vsched.VNow()) }

func Sleep(d time.Duration) { vsched.VSleep(vsched.CallerID("time.Sleep", 0), d) }

// Ticker mirrors time.Ticker.
type Ticker struct {
	C    <-chan time.Time
	real *time.Ticker
	v    *vsched.VTimer
}

func NewTicker(d time.Duration) *Ticker {
	if d <= 0 {
		panic("non-positive interval for NewTicker")
	}
	if !vsched.Controlled() {
		r := time.NewTicker(d)
		return &Ticker{C: r.C, real: r}
	}
	v := vsched.NewVTimer(d, d, nil)
	return &Ticker{C: v.C, v: v}
}

func (t *Ticker) Stop() {
	if t.real != nil {
		t.real.Stop()
		return
	}
	t.v.Stop()
}

func (t *Ticker) Reset(d time.Duration) {
	if t.real != nil {
		t.real.Reset(d)
		return
	}
	t.v.Reset(d)
}

// Timer mirrors time.Timer.
type Timer struct {
	C    <-chan time.Time
	real *time.Timer
	v    *vsched.VTimer
}

func NewTimer(d time.Duration) *Timer {
	if !vsched.Controlled() {
		r := time.NewTimer(d)
		return &Timer{C: r.C, real: r}
	}
	v := vsched.NewVTimer(d, 0, nil)
	return &Timer{C: v.C, v: v}
}

func AfterFunc(d time.Duration, f func()) *Timer {
	if !vsched.Controlled() {
		return &Timer{real: time.AfterFunc(d, f)}
	}
	return &Timer{v: vsched.NewVTimer(d, 0, f)}
}

func (t *Timer) Stop() bool {
	if t.real != nil {
		return t.real.Stop()
	}
	return t.v.Stop()
}

func (t *Timer) Reset(d time.Duration) bool {
	if t.real != nil {
		return t.real.Reset(d)
	}
	return t.v.Reset(d)
}

func After(d time.Duration) <-chan time.Time { return NewTimer(d).C }
func Tick(d time.Duration) <-chan time.Time  { return NewTicker(d).C }
