// Package hkit is the small harness kit shared by all checks: argument
// parsing, evidence files, replay artefacts, known findings, process shards.
package hkit

import (
	"bufio"
	"crypto/sha1"
	"encoding/hex"
	"encoding/json"
	"fmt"
	"os"
	"os/exec"
	"path/filepath"
	"runtime"
	"runtime/pprof"
	"sort"
	"strconv"
	"strings"
	"sync"
	"time"
)

var (
	Dir   = envOr("VERIF_DIR", "/verif")
	start = time.Now()
)

func envOr(k, d string) string {
	if v := os.Getenv(k); v != "" {
		return v
	}
	return d
}

// Args: <tier> [--replay file] [--shard i/n]
type Args struct {
	Tier   string
	Replay string
	Shard  int
	Of     int
	Extra  map[string]string
}

func ParseArgs() Args {
	if pf := os.Getenv("VERIF_CPUPROFILE"); pf != "" {
		f, _ := os.Create(pf)
		pprof.StartCPUProfile(f)
		go func() { time.Sleep(20 * time.Second); pprof.StopCPUProfile(); f.Close() }()
	}
	a := Args{Tier: "quick", Of: 1, Extra: map[string]string{}}
	if t := os.Getenv("VERIF_TIER"); t != "" {
		a.Tier = t
	}
	av := os.Args[1:]
	for i := 0; i < len(av); i++ {
		switch {
		case av[i] == "quick" || av[i] == "thorough":
			if os.Getenv("VERIF_TIER") == "" {
				a.Tier = av[i]
			}
		case av[i] == "--replay" && i+1 < len(av):
			a.Replay = av[i+1]
			i++
		case av[i] == "--shard" && i+1 < len(av):
			fmt.Sscanf(av[i+1], "%d/%d", &a.Shard, &a.Of)
			i++
		case strings.HasPrefix(av[i], "--") && strings.Contains(av[i], "="):
			kv := strings.SplitN(av[i][2:], "=", 2)
			a.Extra[kv[0]] = kv[1]
		}
	}
	return a
}

func Seed() int {
	n, _ := strconv.Atoi(os.Getenv("VERIF_SEED"))
	return n
}

// Wall seconds since process start.
func Wall() float64 { return time.Since(start).Seconds() }

// Evidence writes /verif/evidence/<id>.json.
func Evidence(id, tier, level string, coverage map[string]any, assumptions []string, violations int) {
	ev := map[string]any{
		"property_id": id, "tier": tier, "seed": Seed(), "level": level,
		"coverage": coverage, "assumptions": assumptions, "wall_s": Wall(), "violations": violations,
	}
	b, _ := json.MarshalIndent(ev, "", " ")
	os.MkdirAll(filepath.Join(Dir, "evidence"), 0o755)
	name := id + ".json"
	if part := os.Getenv("VERIF_PART"); part != "" {
		// one part of a multi-part check: the driver merges the parts into <id>.json
		name = id + ".part-" + part + ".json"
	}
	if err := os.WriteFile(filepath.Join(Dir, "evidence", name), b, 0o644); err != nil {
		EngineError("cannot write evidence: %v", err)
	}
}

// EngineError reports a failure of the machinery (exit 2, never a verdict).
func EngineError(format string, a ...any) {
	fmt.Fprintf(os.Stderr, "engine error: "+format+"\n", a...)
	os.Exit(2)
}

// SaveReplay writes a replay artefact and returns its path.
func SaveReplay(id string, payload any) string {
	b, _ := json.MarshalIndent(payload, "", " ")
	h := sha1.Sum(b)
	p := filepath.Join(Dir, "replays", id+"-"+hex.EncodeToString(h[:])[:10]+".json")
	os.MkdirAll(filepath.Dir(p), 0o755)
	os.WriteFile(p, b, 0o644)
	return p
}

var vioMu sync.Mutex
var vioCount int

// Violation prints the VIOLATION line for an unlisted violation.
func Violation(id string, payload any, human string) {
	p := SaveReplay(id, payload)
	vioMu.Lock()
	vioCount++
	vioMu.Unlock()
	fmt.Printf("violation detail: %s\n", human)
	fmt.Printf("VIOLATION property=%s replay=%s\n", id, p)
}

func Violations() int { vioMu.Lock(); defer vioMu.Unlock(); return vioCount }

// Exit with the contract's code.
func Exit() {
	if Violations() > 0 {
		os.Exit(1)
	}
	os.Exit(0)
}

// ---------------------------------------------------------------- known findings

type finding struct{ prop, sig, text string }

var (
	kfOnce  sync.Once
	kfList  []finding
	kfShown = map[string]bool{}
)

func loadKF() {
	f, err := os.Open(filepath.Join(Dir, "KNOWN_FINDINGS.txt"))
	if err != nil {
		return
	}
	defer f.Close()
	sc := bufio.NewScanner(f)
	for sc.Scan() {
		l := strings.TrimSpace(sc.Text())
		if !strings.HasPrefix(l, "finding:") {
			continue
		}
		var fd finding
		rest := strings.Fields(strings.TrimSpace(l[len("finding:"):]))
		var text []string
		for _, w := range rest {
			switch {
			case strings.HasPrefix(w, "property=") && fd.prop == "":
				fd.prop = w[len("property="):]
			case strings.HasPrefix(w, "sig=") && fd.sig == "":
				fd.sig = w[len("sig="):]
			default:
				text = append(text, w)
			}
		}
		fd.text = strings.Join(text, " ")
		kfList = append(kfList, fd)
	}
}

// Known reports whether (id, sig) is a listed finding; the first time it is
// observed it prints the KNOWN-FINDING line.
func Known(id, sig string) bool {
	kfOnce.Do(loadKF)
	for _, f := range kfList {
		if f.prop == id && f.sig == sig {
			vioMu.Lock()
			if !kfShown[id+sig] {
				kfShown[id+sig] = true
				fmt.Printf("KNOWN-FINDING: property=%s sig=%s %s\n", id, sig, f.text)
			}
			vioMu.Unlock()
			return true
		}
	}
	return false
}

// IsListed reports whether (id, sig) is a listed finding, without printing.
func IsListed(id, sig string) bool {
	kfOnce.Do(loadKF)
	for _, f := range kfList {
		if f.prop == id && f.sig == sig {
			return true
		}
	}
	return false
}

// Report routes a violation: listed finding -> KNOWN-FINDING line, else VIOLATION.
func Report(id, sig string, payload any, human string) {
	if sig != "" && Known(id, sig) {
		return
	}
	if sig != "" {
		human = "[sig=" + sig + "] " + human
	}
	Violation(id, payload, human)
}

// ---------------------------------------------------------------- shards

// Shards re-executes this binary n times with "--shard i/n" plus extra args
// and returns each shard's stdout (expected: one JSON document on the last line
// prefixed "SHARD-RESULT ").
func Shards(n int, extra ...string) [][]byte {
	self, err := os.Executable()
	if err != nil {
		EngineError("%v", err)
	}
	out := make([][]byte, n)
	var wg sync.WaitGroup
	sem := make(chan struct{}, runtime.NumCPU())
	var failed sync.Map
	for i := 0; i < n; i++ {
		wg.Add(1)
		go func(i int) {
			defer wg.Done()
			sem <- struct{}{}
			defer func() { <-sem }()
			args := append([]string{}, os.Args[1:]...)
			args = append(args, "--shard", fmt.Sprintf("%d/%d", i, n))
			args = append(args, extra...)
			c := exec.Command(self, args...)
			c.Stderr = os.Stderr
			c.Env = append(os.Environ(), "GOMAXPROCS=2")
			b, err := c.Output()
			if err != nil {
				failed.Store(i, fmt.Sprintf("%v", err))
			}
			out[i] = b
		}(i)
	}
	wg.Wait()
	failed.Range(func(k, v any) bool {
		os.Stdout.Write(out[k.(int)])
		EngineError("shard %v failed: %v", k, v)
		return false
	})
	return out
}

// ShardResult extracts the JSON after the "SHARD-RESULT " marker.
func ShardResult(b []byte, v any) {
	for _, l := range strings.Split(string(b), "\n") {
		if strings.HasPrefix(l, "SHARD-RESULT ") {
			if err := json.Unmarshal([]byte(l[len("SHARD-RESULT "):]), v); err != nil {
				EngineError("bad shard result: %v", err)
			}
			return
		}
	}
	EngineError("shard produced no result: %s", string(b))
}

// EmitShardResult prints the marker line.
func EmitShardResult(v any) {
	b, _ := json.Marshal(v)
	fmt.Printf("SHARD-RESULT %s\n", b)
}

// SortedKeys of a string-keyed map.
func SortedKeys[V any](m map[string]V) []string {
	ks := make([]string, 0, len(m))
	for k := range m {
		ks = append(ks, k)
	}
	sort.Strings(ks)
	return ks
}

// Mutex and RWMutex are the real primitives under a name the instrumenter does
// not rewrite: harness-internal bookkeeping locks must not become scheduling points.
type (
	Mutex   = sync.Mutex
	RWMutex = sync.RWMutex
)

// Jobs distributes n independent jobs over worker processes (re-executions of
// this binary with "--shard w/W"). In a worker it runs the jobs j with
// j%W==w, prints one "JOB-RESULT j <json>" line per job and exits; in the
// parent it returns the raw JSON of every job, in job order.
func Jobs(a Args, n int, run func(job int) any) [][]byte {
	if a.Of > 1 {
		for j := a.Shard; j < n; j += a.Of {
			b, err := json.Marshal(run(j))
			if err != nil {
				EngineError("job %d: %v", j, err)
			}
			fmt.Printf("JOB-RESULT %d %s\n", j, b)
		}
		os.Exit(0)
	}
	w := runtime.NumCPU()
	if w > n {
		w = n
	}
	if v := os.Getenv("VERIF_WORKERS"); v != "" {
		if k, err := strconv.Atoi(v); err == nil && k > 0 && k < w {
			w = k
		}
	}
	if w < 2 {
		w = 2 // always go through a worker process: isolation from crashes and leaks
	}
	outs := Shards(w)
	res := make([][]byte, n)
	for _, o := range outs {
		for _, l := range strings.Split(string(o), "\n") {
			if !strings.HasPrefix(l, "JOB-RESULT ") {
				continue
			}
			rest := l[len("JOB-RESULT "):]
			sp := strings.IndexByte(rest, ' ')
			j, err := strconv.Atoi(rest[:sp])
			if err != nil || j < 0 || j >= n {
				EngineError("bad job result line: %s", l)
			}
			res[j] = []byte(rest[sp+1:])
		}
	}
	for j := range res {
		if res[j] == nil {
			EngineError("job %d produced no result", j)
		}
	}
	return res
}
