#!/usr/bin/env python3
"""Regenerates /verif/MANIFEST.json from the table below (kept next to the code so that it stays valid)."""
import json, os
V = "/verif"
checks = {
 "C12": dict(level="model_checking", engine="explore",
   technique="stateless DFS model checking of the real reactor under a controlled scheduler (preemption-bounded, happens-before state cache) + brute-force linearizability check",
   text="Every schedule of 2 producers, a consumer, a controller and the reactor's own goroutine on the real reactor code, with at most P preemptions (quick P=1, thorough P=2) and all select outcomes, is executed; each complete call history is checked for linearizability against the sequential specification, the token/state-table accounting is checked whenever no call is in flight, feedback is checked never to be disabled, and deadlock/panic end the run as violations.",
   note="Scheduling points are the channel, sync, atomic and context operations of internal/pkg/reactor as found by the instrumenter in the working tree; data races between those points are not explored. sync.Map.Range order fixed to insertion order. Token counts 1 and 2, three seeds.",
   ref="4/C12"),
}
na = []
man = {
 "version": 1,
 "setup_cmd": "python3 /verif/engine/driver.py setup",
 "hooks": {
   "guard": "verif-overlay",
   "enable": "no source hooks: every check regenerates instrumented copies of the Zeno packages from /repo's working tree (engine/instr) and injects them, the vsched runtime and the harness with `go build -overlay`; /repo is never written",
   "baseline_off_cmd": "cd /repo && GOFLAGS=-mod=mod GOPROXY=off go test -vet=off -count=1 ./...",
   "source_commits": [],
   "add_only": True,
 },
 "engines": [
   {"name": "explore", "path": "engine/vrt/vsched", "kind_free_text": "controlled scheduler + stateless depth-first search over schedules/select outcomes/environment answers of instrumented real code, preemption- and deviation-bounded, happens-before state cache", "serves_properties": []},
   {"name": "instr", "path": "engine/instr", "kind_free_text": "AST instrumenter (go/ast + go/types): rewrites go/select/send/recv/close/range/sync/atomic/context/time of Zeno packages into vsched hooks, output used through go build -overlay", "serves_properties": []},
 ],
 "checks": [],
 "not_applicable": na,
 "notes": "Exit codes: 0 held, 1 VIOLATION, 2 engine/build error. Known findings: /verif/KNOWN_FINDINGS.txt.",
}
for pid in sorted(checks):
    c = checks[pid]
    man["checks"].append({
      "property_id": pid,
      "quick_cmd": "./check %s quick" % pid,
      "thorough_cmd": "./check %s thorough" % pid,
      "evidence_file": "/verif/evidence/%s.json" % pid,
      "replay_cmd_template": "./check %s quick --replay {path}" % pid,
      "engine": c["engine"],
      "level_claimed": {"category": c["level"], "text": c["text"], "design_ref": c["ref"]},
      "level_note": c["note"],
      "technique": c["technique"],
    })
    for e in man["engines"]:
        if e["name"] in (c["engine"], "instr"):
            e["serves_properties"].append(pid)
props = [json.loads(l)["id"] for l in open(os.path.join(V, "properties.jsonl"))]
for p in props:
    if p not in checks:
        na.append({"property_id": p, "reason": "check not built yet (work in progress; see DESIGN.md section 4 for the planned check)"})
json.dump(man, open(os.path.join(V, "MANIFEST.json"), "w"), indent=1)
print("checks:", sorted(checks), "not claimed:", [x["property_id"] for x in na])
