#!/usr/bin/env python3
"""Regenerates /verif/MANIFEST.json from the table below (kept next to the code so that it stays valid)."""
import json, os
V = "/verif"
checks = {
 "C01": dict(level="model_checking", engine="explore",
   technique="stateless model checking of the real five-stage pipeline (instrumented from the working tree) on fake sites under a controlled scheduler: exhaustive DFS over schedules within a delay bound and over all select outcomes, happens-before state cache; reference crawler as oracle",
   text="488 (quick) scenarios = every seed kind x every multiset of <=2 asset kinds x 2 worker/asset-concurrency configurations plus four colliding multi-seed sites x 3 configurations; for each, every schedule of reactor, stage workers, per-asset goroutines, WARC-write threads and the source sink with at most D deviations from the canonical scheduler (quick D=1 sweep / 2 depth, thorough D=2 / 3) is executed on the real code. Oracle per execution: each inserted seed finished exactly once; no node of the finished tree awaits work; every URL of an independent reference crawler's tree fetched with the reference attempt count and its fetch closed before the finish message; nothing else fetched; reactor empty; no panic, no deadlock.",
   note="Fake transport (immediate answers; WARC write = separate scheduled thread started at body close); seencheck against an in-memory fake crawl HQ; pkg/models, stats, domainscrawl points are not scheduling points; delay bounding explores all schedules within D deviations, not all schedules.",
   ref="4/C01"),
 "C02": dict(level="model_checking", engine="explore",
   technique="part A: stateless model checking of the real pipeline with the WARC write of every response as its own scheduled thread (delay-bounded schedules, one slow write as environment deviation); part B (when present): exhaustive boundary-response x configuration grid on the real WARC writer in child processes, independent WARC reader as oracle",
   text="Part A: 21 (quick) scenarios incl. retried failures and responses the real discard hook chain rejects; every schedule with at most D deviations (quick 2, thorough 3) and at most one slow write; at each finish message every accepted response fetched for the seed has been written and no rejected response is ever written.",
   note="Part A's writer is a fake that marks a response written and then signals feedback; byte-exactness, record completeness and the real library's flush-before-feedback are decided by part B on the real writer.",
   ref="4/C02"),
 "C03": dict(level="model_checking", engine="explore",
   technique="stateless model checking of the real stop sequence against the running real pipeline (fake transport) under the controlled scheduler: the stop request is a thread that every schedule within the delay bound places before any step of the run; configuration matrix enumerated",
   text="Part A: 23 scenarios = seeds in flight {0,1,2} x workers {1,2} x rate limiter on/off x paused-for-good or not, plus proxy, async WARC, seencheck hq/local/off; every schedule with at most D deviations (quick 1, thorough 2) and all select outcomes; oracle: the stop sequence returns, every thread has exited, worker gauges are zero, no panic.",
   note="Part A uses a fake transport and a fake WARC client: that WARC files are closed, renamed and consist of complete records is decided by the real-process part (E4) when present, not by part A. Source = harness sink + feeder.",
   ref="4/C03"),
 "C05": dict(level="exploration", engine="grid",
   technique="exhaustive input-grid enumeration (URL text x tree position x all 32 filter configurations) through the real preprocess(), independent scope predicate as oracle",
   text="3.8 M (quick) / 25 M (thorough) cases: every URL text of the grammar product in seed, redirect-target and asset position under every on/off combination of the five filter kinds goes through the real preprocess(); every request that leaves the stage is judged by a predicate written from the property's words only.",
   note="Archiver sends GetRequest() unchanged and never follows redirects itself (read from the code); literal readings (localhost., 127.0.0.2) counted, not alarmed.",
   ref="4/C05"),
 "C06": dict(level="model_checking", engine="explore",
   technique="exhaustive enumeration of adversarial server families x settings through the real pipeline under the controlled scheduler and virtual clock (canonical schedule with all select outcomes; thorough: every schedule within 2 deviations); bounds read from the transport log and the produce channel",
   text="1 260 scenarios = 9 families (endless redirect chain, redirect loop, self-redirect, endlessly nested playlists, JSON->JSON, self-embedding page, always-500, 429-then-200, hub with in-site/off-site links and a redirecting asset) x max-redirect {0..3} x max-retry {0,1,2} x max-hops {0,1,2} x domains-crawl {off, matching, other} x seed hops; oracle: the seed finishes; requests along a redirect chain <= max-redirect+1; no embedded resource deeper than three levels (domains-crawl off); attempts per URL per visit <= max-retry+1; every queued outlink obeys the hop rules; assets and redirect targets carry the page's hops.",
   note="Nested families only with --domains-crawl off (the property exempts the depth bound otherwise; with it active they never end). Completeness of outlink queueing is C07's business, only the bound is judged here.",
   ref="4/C06"),
 "C07": dict(level="exploration", engine="grid",
   technique="exhaustive enumeration of generated HTML documents (carrier x quoting x reference form x nesting x page URL x settings, plus all carrier pairs) through the real ProcessBody, postprocess() and preprocess(); expected URLs from a table cross-checked against net/url.ResolveReference",
   text="281 k (quick) / 2.36 M (thorough) evaluations; every planted reference must be requested as an asset (or handed over as an outlink) exactly when none of the property's exceptions applies, and must not be when a listed exception applies.",
   note="Extra extracted URLs are not errors; seen-store is real LevelDB with per-evaluation unique tokens.",
   ref="4/C07"),
 "C09": dict(level="exploration", engine="grid",
   technique="exhaustive URL-grammar product through the real NormalizeURL/URL.String with every iteration order of the query map enumerated (instrumented pkg/models, EnumerateSeq), RFC 3986 reference resolver as oracle",
   text="462 k (quick) / 6.4 M (thorough) URL texts x parents; determinism under every map order and repeated evaluation, idempotence of Raw and String(), shape of accepted results, agreement with net/url.ResolveReference for relative forms, order and multiplicity of query pairs.",
   note="Loopback read literally (localhost, 127.0.0.1); empty reference rejected by ada carries no demand.",
   ref="4/C09"),
 "C10": dict(level="exploration", engine="grid",
   technique="exhaustive enumeration of all token strings up to length N per input format and of the complete 1-mutation (thorough: partly 2-mutation) neighbourhood of valid samples, each through the real ProcessBody -> postprocessItem -> NormalizeURL path in crash-isolating worker processes",
   text="1.12 M (quick) / 22.6 M (thorough) distinct cases over 15 dispatch profiles (content-type x server x URL): no panic, no fatal error, every case returns within the watchdog; malformed input costs at most that URL.",
   note="Decides the property for the enumerated token languages and mutation neighbourhoods only (arbitrary byte strings cannot be enumerated; coverage-guided search is a different family). max-hops 1 so that the outlink extractors are reachable.",
   ref="4/C10"),
 "C11": dict(level="model_checking", engine="opbfs",
   technique="explicit-state breadth-first search over stage-shaped operation sequences on the real item tree with a reference tree run in lock-step, plus exhaustive small-scope enumeration of reachable tree shapes",
   text="All histories of preprocess/archive/postprocess/finisher passes from a fresh seed up to 6 (quick) / 8 (thorough) nodes: 60 k / 2 M canonical states; in every state CheckConsistency, direct structural checks, dedupe exactness (one node per URL, no URL lost), completion <=> nothing pending, equality with the reference tree.",
   note="URLs compared only for equality (states canonical up to URL renaming); stage passes transcribed from the stage code (guards included).",
   ref="4/C11"),
 "C19": dict(level="exploration", engine="grid",
   technique="exhaustive enumeration of generated JSON/XML/RSS/sitemap/M3U8 documents with planted URLs through the real NormalizeURL, ProcessBody and postprocessItem; explicit-state walk of simulated S3 buckets (all key sets x page sizes x API versions) through the real S3 extractor until the frontier empties",
   text="183 k (quick) / 2.1 M (thorough) documents and 2 916 / 32 805 bucket walks; planted URLs must be discovered, those with a file extension become assets and the others outlinks iff the hop limit allows; every non-empty object of a bucket must be queued and the walk must terminate.",
   note="Planted and extracted URLs compared modulo Zeno's own NormalizeURL; RSS/sitemap judged for discovery only; each listing page evaluated at hops 0 with max-hops 1; path-style buckets outside the grid.",
   ref="4/C19"),
 "C12": dict(level="model_checking", engine="explore",
   technique="stateless DFS model checking of the real reactor under a controlled scheduler (preemption-bounded, happens-before state cache) + brute-force linearizability check",
   text="Every schedule of 2 producers, a consumer, a controller and the reactor's own goroutine on the real reactor code, with at most P preemptions (quick P=1, thorough P=2) and all select outcomes, is executed; each complete call history is checked for linearizability against the sequential specification, the token/state-table accounting is checked whenever no call is in flight, feedback is checked never to be disabled, and deadlock/panic end the run as violations.",
   note="Scheduling points are the channel, sync, atomic and context operations of internal/pkg/reactor as found by the instrumenter in the working tree; data races between those points are not explored. sync.Map.Range order fixed to insertion order. Token counts 1 and 2, three seeds.",
   ref="4/C12"),
 "C13": dict(level="model_checking", engine="opbfs",
   technique="explicit-state breadth-first search over event histories (acquire / failure(status) / success / advance) on the real token bucket under a manual virtual clock, every stored state re-derived from scratch; plus controlled-scheduler exploration of two concurrent waiters and an adjuster on the real BucketManager (preemption- and timer-deviation-bounded)",
   text="All histories to depth 7 (quick) / 10 (thorough) over 12 symbols (every status 100-599 at the first two positions) for capacity {1,2,3} x rate {0.2,0.5,1,4}/s (+0.1, 50, defaults in thorough) plus failure streaks up to 70: 0.8 M / 11 M canonical states; oracle on every state and release list: tokens in [0,capacity], refill rate within [min(0.5,rate), rate], pairwise window bound, no release inside a penalty computed by an independent counter, 5xx never raises and success never overshoots. Concurrent part: P<=1 F<=1 (quick), P<=2 (thorough).",
   note="Penalty counter k read in the weakest way (failures since the last success); 1e-6 token slack for float arithmetic; LFU eviction of a penalised host beyond maxBuckets is reported as an observation only.",
   ref="4/C13"),
 "C14": dict(level="model_checking", engine="explore",
   technique="stateless model checking of the real pause manager and the four real stage worker loops (full pipeline on a fake site) under the controlled scheduler: every Pause/Resume script of two independent controllers up to length 2 each (3 for one) x optional stop sequence, all schedules within a delay bound, all select outcomes",
   text="42 scenarios; every schedule with at most D deviations (quick D=1, thorough D=2). Oracle: every Pause()/Resume()/stop call returns and no worker is parked outside its idle point unless the history legitimately ends paused; a worker that acknowledged a pause takes no seed before it is resumed; a Resume() that found the pipeline paused releases every worker that had acknowledged before it started; an unpaused pipeline finishes its seeds; no panic.",
   note="Controllers start after every worker has subscribed (Subscribe concurrent with Pause is outside the alphabet, as in Zeno where the first watchdog tick comes seconds after start-up); sync.Map.Range in insertion order.",
   ref="4/C14"),
 "C17": dict(level="model_checking", engine="explore",
   technique="unbounded stateless model checking (all interleavings, happens-before state cache) of 1-3 threads of real stats operations under the controlled scheduler, brute-force sequential-order oracle; plus a free-running -race pass over the same bodies",
   text="1 909 (quick) / 46 479 (thorough) scenarios = every multiset of thread programs over the per-metric alphabets; every interleaving of the package's atomic and mutex operations is executed; final totals, gauges and means must equal those of some program-order-respecting sequential order on an atomic reference model, and two reporting paths of one metric must agree. A data race inside internal/pkg/stats reported by the race pass is a violation.",
   note="Scheduling points only at atomic/mutex operations (plain accesses are covered by the -race pass, which is a sample of schedules); worker gauges vs live workers are checked in the pipeline harnesses.",
   ref="4/C17"),
 "C18": dict(level="exploration", engine="grid",
   technique="exhaustive boundary-grid enumeration of (total, free, min-space) through checkThreshold/CheckDiskUsage with exact rational oracle (math/big), every operator flag value through the real flag/viper path, and all 3-tick reading sequences of the real WatchDiskSpace under the virtual clock",
   text="199 k (quick) / 55.6 M (thorough) distinct triples incl. every byte around each threshold, the 256 GiB switch and float64 edges; refusal <=> free < threshold exactly, monotone in free; 1 084 / 20 082 flag settings resolved through the real CLI path; 506 watcher executions.",
   note="Thresholds <= 2^63 bytes; statfs readings supplied by the harness (Bavail != Bfree on purpose).",
   ref="4/C18"),
}
na = []
man = {
 "version": 1,
 "setup_cmd": "python3 /verif/engine/driver.py setup",
 "hooks": {
   "guard": "verif-overlay",
   "enable": "no source hooks: every check regenerates instrumented copies of the Zeno packages from /repo's working tree (engine/instr) and injects them, the vsched runtime and the harness with `go build -overlay`; /repo is never written",
   "baseline_off_cmd": "cd /repo && GOFLAGS=-mod=mod GOPROXY=off go test -vet=off -count=1 ./...",
   "source_commits": [],
   "add_only": True,
 },
 "engines": [
   {"name": "explore", "path": "engine/vrt/vsched", "kind_free_text": "controlled scheduler + stateless depth-first search over schedules/select outcomes/environment answers of instrumented real code, preemption- and deviation-bounded, happens-before state cache", "serves_properties": []},
   {"name": "opbfs", "path": "harness/c11", "kind_free_text": "explicit-state breadth-first search over operation sequences, real object rebuilt by replay, canonical state key", "serves_properties": []},
   {"name": "grid", "path": "engine/vrt/hkit", "kind_free_text": "exhaustive product enumeration of small alphabets through real sequential code against a reference predicate, sharded over processes", "serves_properties": []},
   {"name": "instr", "path": "engine/instr", "kind_free_text": "AST instrumenter (go/ast + go/types): rewrites go/select/send/recv/close/range/sync/atomic/context/time of Zeno packages into vsched hooks, output used through go build -overlay", "serves_properties": []},
 ],
 "checks": [],
 "not_applicable": na,
 "notes": "Exit codes: 0 held, 1 VIOLATION, 2 engine/build error. Known findings: /verif/KNOWN_FINDINGS.txt.",
}
for pid in sorted(checks):
    c = checks[pid]
    man["checks"].append({
      "property_id": pid,
      "quick_cmd": "./check %s quick" % pid,
      "thorough_cmd": "./check %s thorough" % pid,
      "evidence_file": "/verif/evidence/%s.json" % pid,
      "replay_cmd_template": "./check %s quick --replay {path}" % pid,
      "engine": c["engine"],
      "level_claimed": {"category": c["level"], "text": c["text"], "design_ref": c["ref"]},
      "level_note": c["note"],
      "technique": c["technique"],
    })
    for e in man["engines"]:
        if e["name"] in (c["engine"], "instr"):
            e["serves_properties"].append(pid)
props = [json.loads(l)["id"] for l in open(os.path.join(V, "properties.jsonl"))]
for p in props:
    if p not in checks:
        na.append({"property_id": p, "reason": "check not built yet (work in progress; see DESIGN.md section 4 for the planned check)"})
json.dump(man, open(os.path.join(V, "MANIFEST.json"), "w"), indent=1)
print("checks:", sorted(checks), "not claimed:", [x["property_id"] for x in na])
