#include "textflag.h"

// func Getg() uintptr
TEXT ·Getg(SB),NOSPLIT,$0-8
	MOVQ (TLS), AX
	MOVQ AX, ret+0(FP)
	RET
