// Package vgid returns the identity of the running goroutine. It is injected
// by overlay into /repo/internal (a directory that exists on disk: the
// assembler changes into the package directory, so a package with an assembly
// file cannot live in a purely virtual directory).
package vgid

// Getg returns the address of the running goroutine's descriptor.
func Getg() uintptr
