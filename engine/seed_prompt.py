import json,sys
pid,n=sys.argv[1],sys.argv[2]
props={json.loads(l)['id']:json.loads(l) for l in open('/verif/properties.jsonl')}
p=props[pid]
wt=f"/tmp/seed-{pid}-{n}"
import glob
tried=[]
for mp in sorted(glob.glob(f'/verif/seeded/{pid}-*/meta.json')):
    m=json.load(open(mp))
    tried.append(f"- changed {', '.join(m.get('source_files',[]))}; needed: {m.get('needs_to_manifest','?')}")
already=""
if tried:
    already="\nALREADY TRIED by previous adversaries (do not repeat any of these):\n"+"\n".join(tried)+"\nChoose a DIFFERENT mechanism - a different clause of the property, a different function or code path, a different kind of trigger (if the earlier ones were inputs, prefer an interleaving, a fault point or a configuration; and vice versa) - so that your change has as little in common with them as possible. Prefer a clause or a dimension of the 'for all' text that none of them touched. Do not introduce sync.Pool buffer reuse (tried already).\n"
print(f"""You are given a scratch git worktree of the Go web crawler internetarchive/Zeno at {wt} (a staged pipeline - reactor, preprocessor, archiver, postprocessor, finisher - that records traffic to WARC files). Work ONLY inside {wt}. Do not read, list or touch /verif or /repo, do not run git commands that affect other worktrees, do not commit.

Below is a semantic property that Zeno is supposed to satisfy. Your job is to play the adversary: make a realistic change to Zeno's source in {wt} that BREAKS this property while the code still compiles and the repository's existing test suite still passes - the kind of regression a plausible refactoring, optimisation or "small fix" could introduce and that code review could miss.

PROPERTY
title: {p['title']}
statement: {p['statement']}
for all: {p['quantifier']['text']}
code it is anchored in: {', '.join(p['anchors']['files'])}
{already}
REQUIREMENTS
1. The change must need something SPECIFIC to manifest: a particular interleaving of goroutines, a crash or fault at a particular point, a multi-step sequence of operations, an unusual input or configuration, or two cooperating code sites that each look fine alone. Do NOT make a change that ordinary use would expose at once (for example: always dropping the item, breaking the default path, making every run crash). Prefer subtle: a condition inverted only on a rare branch, an off-by-one at a boundary, an operation moved before/after the synchronisation that protected it, a cleanup skipped on one error path, state updated before the check that guards it, a cache/shortcut that is wrong for one input shape.
2. It must compile: `cd {wt} && GOFLAGS=-mod=mod GOPROXY=off go build ./...` (no network is available; everything needed is in the module cache).
3. The existing tests must still pass: `cd {wt} && GOFLAGS=-mod=mod GOPROXY=off go test -vet=off -count=1 ./...` (takes about 20-60 s; three tests in internal/pkg/archiver/ratelimiter and internal/pkg/controler/pause are timing-sensitive and may fail under machine load - re-run those packages alone before concluding). Do not edit, delete or skip existing tests.
4. Write a DEMONSTRATION that shows the breakage against the real code: a new Go test file (name it zz_seed_demo_test.go, in whichever package is most convenient, internal test so it can reach unexported names) or a small program, that FAILS (or prints a clearly wrong result) with your change and PASSES without it. Make it deterministic: if the failure needs a particular interleaving, force it (channels/hooks inside the test, a fake clock, a stubbed transport ...) rather than hoping for it; bounded runtime (< 60 s). Verify both directions yourself: run it with the change, then take the source change out with `git diff -- <changed files> > /tmp/<your worktree name>.patch && git apply -R /tmp/<your worktree name>.patch` (keep the demo file), run it again, and put the change back with `git apply /tmp/<your worktree name>.patch`. Do NOT use `git stash`: the stash is shared by every worktree of the repository and other people are working in sibling worktrees right now.
5. Leave the worktree with your source change and the demo file in place (uncommitted). Write {wt}/SEED_REPORT.md with: the files and lines changed and a one-paragraph rationale of why it looks innocent; exactly which clause of the property it breaks; what it needs in order to manifest (interleaving / fault point / input / sequence / configuration); the exact command that runs the demonstration and what it prints with and without the change; the output of the full test suite run with the change.

Keep the change small (ideally < 15 changed lines, one or two files). One change only. When you are done, reply with the contents of SEED_REPORT.md.""")
