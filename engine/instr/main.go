// Command instr rewrites Zeno packages so that every synchronisation
// operation, goroutine creation, select, clock access and map iteration goes
// through the vsched runtime. It never writes into the repository: rewritten
// files go to -out and an overlay fragment maps originals to copies.
//
//	instr -repo /repo -out DIR -export exports.json pkgdir...
package main

import (
	"bytes"
	"encoding/json"
	"flag"
	"fmt"
	"go/ast"
	"go/build/constraint"
	"go/format"
	"go/importer"
	"go/parser"
	"go/token"
	"go/types"
	"io"
	"os"
	"path/filepath"
	"sort"
	"strconv"
	"strings"
)

const (
	module   = "github.com/internetarchive/Zeno"
	vrt      = module + "/internal/verif/vrt/"
	pVsched  = vrt + "vsched"
	pVsync   = vrt + "vsync"
	pVatomic = vrt + "vatomic"
	pVctx    = vrt + "vctx"
	pVtime   = vrt + "vtime"
)

var timeFuncs = map[string]bool{"Now": true, "Since": true, "Until": true, "Sleep": true, "After": true,
	"AfterFunc": true, "NewTicker": true, "NewTimer": true, "Tick": true, "Ticker": true, "Timer": true}

// packages whose functions/methods are "external visible calls": a point is
// inserted before each call into them (shared state the scheduler cannot see).
var externPkgs = []string{
	"database/sql",
	"github.com/philippgille/gokv",
	"github.com/internetarchive/gocrawlhq",
	"github.com/internetarchive/Zeno/internal/pkg/source/lq/sqlc_model",
}

type fileCtx struct {
	fset    *token.FileSet
	file    *ast.File
	rel     string // path relative to the repository
	info    *types.Info
	src     []byte
	counter int
	needVS  bool // needs the vsched import
	needVT  bool // needs the vtime import
	errs    []string
	timeNm  string // local name of "time"
	sysNm   string // local name of "syscall"
}

func main() {
	repo := flag.String("repo", "/repo", "repository root")
	out := flag.String("out", "", "output directory")
	exports := flag.String("export", "", "JSON file: import path -> export data file")
	flag.Parse()
	if *out == "" || flag.NArg() == 0 {
		fmt.Fprintln(os.Stderr, "usage: instr -repo R -out D -export E pkgdir...")
		os.Exit(2)
	}
	exp := map[string]string{}
	if *exports != "" {
		b, err := os.ReadFile(*exports)
		if err != nil {
			die(err)
		}
		if err := json.Unmarshal(b, &exp); err != nil {
			die(err)
		}
	}
	fset := token.NewFileSet()
	imp := importer.ForCompiler(fset, "gc", func(path string) (io.ReadCloser, error) {
		f, ok := exp[path]
		if !ok || f == "" {
			return nil, fmt.Errorf("no export data for %s", path)
		}
		return os.Open(f)
	})
	overlay := map[string]string{}
	// "+/abs/file.go=rel/dir": an extra file that belongs to package rel/dir
	extra := map[string][]string{}
	var dirs []string
	for _, a := range flag.Args() {
		if strings.HasPrefix(a, "+") {
			kv := strings.SplitN(a[1:], "=", 2)
			extra[kv[1]] = append(extra[kv[1]], kv[0])
			continue
		}
		dirs = append(dirs, a)
	}
	for _, dir := range dirs {
		abs := filepath.Join(*repo, dir)
		// "@/abs/dir=virtual/rel/dir": sources outside the repository that are
		// injected at a virtual place inside it (harness packages)
		if strings.HasPrefix(dir, "@") {
			kv := strings.SplitN(dir[1:], "=", 2)
			abs, dir = kv[0], kv[1]
		}
		ents, err := os.ReadDir(abs)
		if err != nil {
			die(err)
		}
		var files []*ast.File
		var names []string
		var srcs [][]byte
		for _, e := range ents {
			n := e.Name()
			if e.IsDir() || !strings.HasSuffix(n, ".go") || strings.HasSuffix(n, "_test.go") {
				continue
			}
			src, err := os.ReadFile(filepath.Join(abs, n))
			if err != nil {
				die(err)
			}
			if !buildOK(src) {
				continue
			}
			f, err := parser.ParseFile(fset, filepath.Join(abs, n), src, parser.ParseComments)
			if err != nil {
				die(err)
			}
			files = append(files, f)
			names = append(names, n)
			srcs = append(srcs, src)
		}
		for _, xf := range extra[dir] {
			src, err := os.ReadFile(xf)
			if err != nil {
				die(err)
			}
			f, err := parser.ParseFile(fset, xf, src, parser.ParseComments)
			if err != nil {
				die(err)
			}
			files = append(files, f)
			names = append(names, filepath.Base(xf))
			srcs = append(srcs, src)
		}
		if len(files) == 0 {
			continue
		}
		info := &types.Info{Types: map[ast.Expr]types.TypeAndValue{}, Uses: map[*ast.Ident]types.Object{},
			Selections: map[*ast.SelectorExpr]*types.Selection{}}
		conf := types.Config{Importer: imp, Error: func(err error) {}}
		_, terr := conf.Check(module+"/"+dir, fset, files, info)
		if terr != nil && os.Getenv("INSTR_STRICT_TYPES") != "" {
			die(fmt.Errorf("type-check of %s: %v", dir, terr))
		}
		for i, f := range files {
			fc := &fileCtx{fset: fset, file: f, rel: filepath.ToSlash(filepath.Join(dir, names[i])), info: info, src: srcs[i]}
			fc.rewrite()
			if len(fc.errs) > 0 {
				for _, e := range fc.errs {
					fmt.Fprintf(os.Stderr, "instr: %s: %s\n", fc.rel, e)
				}
				os.Exit(2)
			}
			var buf bytes.Buffer
			if err := format.Node(&buf, fset, f); err != nil {
				die(fmt.Errorf("%s: %v", fc.rel, err))
			}
			dst := filepath.Join(*out, dir, names[i])
			if err := os.MkdirAll(filepath.Dir(dst), 0o755); err != nil {
				die(err)
			}
			if err := os.WriteFile(dst, buf.Bytes(), 0o644); err != nil {
				die(err)
			}
			overlay[filepath.Join(*repo, dir, names[i])] = dst
		}
	}
	b, _ := json.MarshalIndent(overlay, "", " ")
	if err := os.WriteFile(filepath.Join(*out, "overlay-fragment.json"), b, 0o644); err != nil {
		die(err)
	}
}

func die(err error) {
	fmt.Fprintln(os.Stderr, "instr:", err)
	os.Exit(2)
}

func buildOK(src []byte) bool {
	// honour //go:build lines for the default linux/amd64 build without extra tags
	for _, line := range strings.Split(string(src), "\n") {
		l := strings.TrimSpace(line)
		if strings.HasPrefix(l, "package ") {
			break
		}
		if constraint.IsGoBuild(l) {
			ex, err := constraint.Parse(l)
			if err != nil {
				return true
			}
			return ex.Eval(func(tag string) bool {
				return tag == "linux" || tag == "amd64" || tag == "unix" || tag == "cgo" || strings.HasPrefix(tag, "go1.")
			})
		}
	}
	return true
}

// ---------------------------------------------------------------------------

func (fc *fileCtx) errf(n ast.Node, format string, a ...any) {
	fc.errs = append(fc.errs, fmt.Sprintf("%s: %s", fc.fset.Position(n.Pos()), fmt.Sprintf(format, a...)))
}

func (fc *fileCtx) text(n ast.Node) string {
	s, e := fc.fset.Position(n.Pos()).Offset, fc.fset.Position(n.End()).Offset
	if s < 0 || e > len(fc.src) || s > e {
		return "?"
	}
	t := strings.Join(strings.Fields(string(fc.src[s:e])), " ")
	if len(t) > 80 {
		t = t[:80]
	}
	return t
}

// id builds the stable point id: "<file>:<line> <kind> <operand text>".
func (fc *fileCtx) id(n ast.Node, kind, operand string) ast.Expr {
	p := fc.fset.Position(n.Pos())
	s := fmt.Sprintf("%s:%d %s %s", fc.rel, p.Line, kind, operand)
	return &ast.BasicLit{Kind: token.STRING, Value: strconv.Quote(strings.TrimSpace(s))}
}

func vs(name string) ast.Expr {
	return &ast.SelectorExpr{X: ast.NewIdent("vsched"), Sel: ast.NewIdent(name)}
}

func call(fn ast.Expr, args ...ast.Expr) *ast.CallExpr { return &ast.CallExpr{Fun: fn, Args: args} }

func (fc *fileCtx) fresh(prefix string) string {
	fc.counter++
	return fmt.Sprintf("_v%s%d", prefix, fc.counter)
}

func (fc *fileCtx) typeOf(e ast.Expr) types.Type {
	if tv, ok := fc.info.Types[e]; ok && tv.Type != nil {
		return tv.Type
	}
	return nil
}

func (fc *fileCtx) isConst(e ast.Expr) bool {
	if tv, ok := fc.info.Types[e]; ok {
		return tv.Value != nil || tv.IsNil()
	}
	_, lit := e.(*ast.BasicLit)
	return lit
}

func (fc *fileCtx) rewrite() {
	f := fc.file
	// 1. imports
	for _, is := range f.Imports {
		p, _ := strconv.Unquote(is.Path.Value)
		local := ""
		if is.Name != nil {
			local = is.Name.Name
		}
		switch p {
		case "sync":
			is.Path.Value = strconv.Quote(pVsync)
			if local == "" {
				is.Name = ast.NewIdent("sync")
			}
		case "sync/atomic":
			is.Path.Value = strconv.Quote(pVatomic)
			if local == "" {
				is.Name = ast.NewIdent("atomic")
			}
		case "context":
			is.Path.Value = strconv.Quote(pVctx)
			if local == "" {
				is.Name = ast.NewIdent("context")
			}
		case "time":
			fc.timeNm = "time"
			if local != "" {
				fc.timeNm = local
			}
		case "syscall":
			fc.sysNm = "syscall"
			if local != "" {
				fc.sysNm = local
			}
		}
	}
	// 2. statements and expressions
	for _, d := range f.Decls {
		if fd, ok := d.(*ast.FuncDecl); ok && fd.Body != nil {
			fc.block(fd.Body)
		} else if gd, ok := d.(*ast.GenDecl); ok {
			fc.exprsIn(gd)
		}
	}
	// 3. time.X / syscall.Statfs selectors everywhere
	ast.Inspect(f, func(n ast.Node) bool {
		se, ok := n.(*ast.SelectorExpr)
		if !ok {
			return true
		}
		x, ok := se.X.(*ast.Ident)
		if !ok {
			return true
		}
		if fc.timeNm != "" && x.Name == fc.timeNm && x.Obj == nil && timeFuncs[se.Sel.Name] && fc.isPkg(x, "time") {
			se.X = ast.NewIdent("vtime")
			fc.needVT = true
		}
		if fc.sysNm != "" && x.Name == fc.sysNm && se.Sel.Name == "Statfs" && fc.isPkg(x, "syscall") {
			se.X = ast.NewIdent("vsched")
			fc.needVS = true
		}
		return true
	})
	// 4. add imports, keep "time" used
	if fc.needVS {
		fc.addImport("vsched", pVsched)
	}
	if fc.needVT {
		fc.addImport("vtime", pVtime)
	}
	if fc.timeNm != "" && fc.timeNm != "_" && fc.timeNm != "." {
		f.Decls = append(f.Decls, &ast.GenDecl{Tok: token.VAR, Specs: []ast.Spec{&ast.ValueSpec{
			Names: []*ast.Ident{ast.NewIdent("_")},
			Type:  &ast.SelectorExpr{X: ast.NewIdent(fc.timeNm), Sel: ast.NewIdent("Duration")}}}})
	}
	if fc.sysNm != "" && fc.sysNm != "_" && fc.sysNm != "." {
		f.Decls = append(f.Decls, &ast.GenDecl{Tok: token.VAR, Specs: []ast.Spec{&ast.ValueSpec{
			Names: []*ast.Ident{ast.NewIdent("_")},
			Type:  &ast.SelectorExpr{X: ast.NewIdent(fc.sysNm), Sel: ast.NewIdent("Statfs_t")}}}})
	}
}

func (fc *fileCtx) isPkg(x *ast.Ident, path string) bool {
	if o, ok := fc.info.Uses[x]; ok {
		if pn, ok := o.(*types.PkgName); ok {
			return pn.Imported().Path() == path
		}
		return false
	}
	return true // no type info: trust the name
}

func (fc *fileCtx) addImport(name, path string) {
	for _, is := range fc.file.Imports {
		if p, _ := strconv.Unquote(is.Path.Value); p == path {
			if is.Name == nil || is.Name.Name == name {
				return
			}
		}
	}
	spec := &ast.ImportSpec{Name: ast.NewIdent(name), Path: &ast.BasicLit{Kind: token.STRING, Value: strconv.Quote(path)}}
	for _, d := range fc.file.Decls {
		if gd, ok := d.(*ast.GenDecl); ok && gd.Tok == token.IMPORT {
			gd.Specs = append(gd.Specs, spec)
			if !gd.Lparen.IsValid() {
				gd.Lparen = gd.Pos()
				gd.Rparen = gd.End()
			}
			fc.file.Imports = append(fc.file.Imports, spec)
			return
		}
	}
	gd := &ast.GenDecl{Tok: token.IMPORT, Specs: []ast.Spec{spec}}
	fc.file.Decls = append([]ast.Decl{gd}, fc.file.Decls...)
	fc.file.Imports = append(fc.file.Imports, spec)
}

// exprsIn rewrites expressions (function literals, receives) inside a node
// that is not a statement list.
func (fc *fileCtx) exprsIn(n ast.Node) {
	ast.Inspect(n, func(m ast.Node) bool {
		if fl, ok := m.(*ast.FuncLit); ok {
			fc.block(fl.Body)
			return false
		}
		return true
	})
}

func (fc *fileCtx) block(b *ast.BlockStmt) {
	if b == nil {
		return
	}
	b.List = fc.stmts(b.List)
}

func (fc *fileCtx) stmts(list []ast.Stmt) []ast.Stmt {
	out := make([]ast.Stmt, 0, len(list))
	for _, s := range list {
		out = append(out, fc.stmt(s))
	}
	return out
}

// stmt rewrites one statement and returns its replacement.
func (fc *fileCtx) stmt(s ast.Stmt) ast.Stmt {
	switch n := s.(type) {
	case nil:
		return nil
	case *ast.BlockStmt:
		fc.block(n)
	case *ast.LabeledStmt:
		inner := fc.stmt(n.Stmt)
		// a rewritten select/range becomes a block that must carry the label inside
		if bs, ok := inner.(*ast.BlockStmt); ok && isHoist(bs) {
			last := bs.List[len(bs.List)-1]
			bs.List[len(bs.List)-1] = &ast.LabeledStmt{Label: n.Label, Stmt: last}
			return bs
		}
		n.Stmt = inner
	case *ast.IfStmt:
		n.Init = fc.stmt(n.Init)
		n.Cond = fc.expr(n.Cond)
		fc.block(n.Body)
		n.Else = fc.stmt(n.Else)
	case *ast.ForStmt:
		n.Init = fc.stmt(n.Init)
		if n.Cond != nil {
			n.Cond = fc.expr(n.Cond)
		}
		n.Post = fc.stmt(n.Post)
		fc.block(n.Body)
	case *ast.RangeStmt:
		return fc.rangeStmt(n)
	case *ast.SwitchStmt:
		n.Init = fc.stmt(n.Init)
		if n.Tag != nil {
			n.Tag = fc.expr(n.Tag)
		}
		fc.caseBodies(n.Body)
	case *ast.TypeSwitchStmt:
		n.Init = fc.stmt(n.Init)
		n.Assign = fc.stmt(n.Assign)
		fc.caseBodies(n.Body)
	case *ast.SelectStmt:
		return fc.selectStmt(n)
	case *ast.GoStmt:
		return fc.goStmt(n)
	case *ast.SendStmt:
		n.Value = fc.expr(n.Value)
		ch := fc.expr(n.Chan)
		fc.needVS = true
		n.Chan = call(vs("S"), fc.id(n, "send", fc.text(n.Chan)), ch)
	case *ast.ExprStmt:
		n.X = fc.expr(n.X)
	case *ast.AssignStmt:
		for i := range n.Rhs {
			n.Rhs[i] = fc.expr(n.Rhs[i])
		}
		for i := range n.Lhs {
			n.Lhs[i] = fc.expr(n.Lhs[i])
		}
	case *ast.ReturnStmt:
		for i := range n.Results {
			n.Results[i] = fc.expr(n.Results[i])
		}
	case *ast.DeferStmt:
		// the callee of a defer is evaluated at the defer statement: wrapping it (external
		// call point, close) would run the hook now instead of at function exit. Hoist the
		// arguments and defer a closure instead.
		_, isLit := n.Call.Fun.(*ast.FuncLit)
		isClose := false
		if id, ok := n.Call.Fun.(*ast.Ident); ok && id.Name == "close" && fc.isBuiltin(id) {
			isClose = true
		}
		if !isLit && (isClose || fc.externCallee(n.Call) != "") {
			var pre []ast.Stmt
			args := make([]ast.Expr, len(n.Call.Args))
			for i, a := range n.Call.Args {
				a = fc.expr(a)
				if fc.isConst(a) {
					args[i] = a
					continue
				}
				nm := fc.fresh("d")
				pre = append(pre, &ast.AssignStmt{Lhs: []ast.Expr{ast.NewIdent(nm)}, Tok: token.DEFINE, Rhs: []ast.Expr{a}})
				args[i] = ast.NewIdent(nm)
			}
			inner := &ast.CallExpr{Fun: n.Call.Fun, Args: args, Ellipsis: n.Call.Ellipsis}
			body := &ast.BlockStmt{List: []ast.Stmt{&ast.ExprStmt{X: fc.expr(inner)}}}
			n.Call = &ast.CallExpr{Fun: &ast.FuncLit{Type: &ast.FuncType{Params: &ast.FieldList{}}, Body: body}}
			if len(pre) == 0 {
				return n
			}
			// the temporaries live in the enclosing block: emit them as siblings through a marker block is
			// not possible for defer (a block would not change defer semantics, defers are function-scoped)
			return &ast.BlockStmt{List: append(pre, n)}
		}
		n.Call = fc.expr(n.Call).(*ast.CallExpr)
	case *ast.DeclStmt:
		if gd, ok := n.Decl.(*ast.GenDecl); ok {
			for _, sp := range gd.Specs {
				if v, ok := sp.(*ast.ValueSpec); ok {
					for i := range v.Values {
						v.Values[i] = fc.expr(v.Values[i])
					}
				}
			}
		}
	case *ast.IncDecStmt:
		n.X = fc.expr(n.X)
	case *ast.BranchStmt, *ast.EmptyStmt:
	default:
		fc.errf(s, "statement kind %T has no rewrite rule", s)
	}
	return s
}

func isHoist(b *ast.BlockStmt) bool {
	if len(b.List) < 2 {
		return false
	}
	if as, ok := b.List[0].(*ast.AssignStmt); ok && len(as.Lhs) > 0 {
		if id, ok := as.Lhs[0].(*ast.Ident); ok && strings.HasPrefix(id.Name, "_v") {
			return true
		}
	}
	return false
}

func (fc *fileCtx) caseBodies(b *ast.BlockStmt) {
	for _, c := range b.List {
		if cc, ok := c.(*ast.CaseClause); ok {
			for i := range cc.List {
				cc.List[i] = fc.expr(cc.List[i])
			}
			cc.Body = fc.stmts(cc.Body)
		}
	}
}

// expr rewrites receives, closes, external calls and function literals inside e.
func (fc *fileCtx) expr(e ast.Expr) ast.Expr {
	switch n := e.(type) {
	case nil:
		return nil
	case *ast.UnaryExpr:
		n.X = fc.expr(n.X)
		if n.Op == token.ARROW {
			fc.needVS = true
			n.X = call(vs("R"), fc.id(n, "recv", fc.text(n.X)), n.X)
		}
	case *ast.BinaryExpr:
		n.X = fc.expr(n.X)
		n.Y = fc.expr(n.Y)
	case *ast.ParenExpr:
		n.X = fc.expr(n.X)
	case *ast.CallExpr:
		n.Fun = fc.expr(n.Fun)
		for i := range n.Args {
			n.Args[i] = fc.expr(n.Args[i])
		}
		if id, ok := n.Fun.(*ast.Ident); ok && id.Name == "close" && len(n.Args) == 1 && fc.isBuiltin(id) {
			fc.needVS = true
			return call(vs("Close"), fc.id(n, "close", fc.text(n.Args[0])), n.Args[0])
		}
		if pkg := fc.externCallee(n); pkg != "" {
			fc.needVS = true
			// (func() T { vsched.Point(id, pkg); return call })() would change
			// evaluation order; a comma-free way is to wrap the callee:
			// vsched.X(id, pkg, f)(args) evaluates f first (as Go does) and
			// parks just before the call.
			n.Fun = call(vs("Ext"), fc.id(n, "call", fc.text(n.Fun)), &ast.BasicLit{Kind: token.STRING, Value: strconv.Quote(pkg)}, n.Fun)
		}
	case *ast.FuncLit:
		fc.block(n.Body)
	case *ast.SelectorExpr:
		n.X = fc.expr(n.X)
	case *ast.IndexExpr:
		n.X = fc.expr(n.X)
		n.Index = fc.expr(n.Index)
	case *ast.SliceExpr:
		n.X = fc.expr(n.X)
		n.Low, n.High, n.Max = fc.expr(n.Low), fc.expr(n.High), fc.expr(n.Max)
	case *ast.StarExpr:
		n.X = fc.expr(n.X)
	case *ast.TypeAssertExpr:
		n.X = fc.expr(n.X)
	case *ast.CompositeLit:
		for i := range n.Elts {
			n.Elts[i] = fc.expr(n.Elts[i])
		}
	case *ast.KeyValueExpr:
		n.Value = fc.expr(n.Value)
	}
	return e
}

func (fc *fileCtx) isBuiltin(id *ast.Ident) bool {
	if o, ok := fc.info.Uses[id]; ok {
		_, b := o.(*types.Builtin)
		return b
	}
	return id.Obj == nil
}

// externCallee returns the package path when the call goes into one of the
// configured external packages.
func (fc *fileCtx) externCallee(c *ast.CallExpr) string {
	var obj types.Object
	switch f := c.Fun.(type) {
	case *ast.SelectorExpr:
		if sel, ok := fc.info.Selections[f]; ok {
			obj = sel.Obj()
		} else {
			obj = fc.info.Uses[f.Sel]
		}
	case *ast.Ident:
		obj = fc.info.Uses[f]
	}
	fn, ok := obj.(*types.Func)
	if !ok || fn.Pkg() == nil {
		return ""
	}
	p := fn.Pkg().Path()
	for _, e := range externPkgs {
		if p == e || strings.HasPrefix(p, e+"/") {
			return e
		}
	}
	return ""
}

// ---------------------------------------------------------------------------

func (fc *fileCtx) goStmt(g *ast.GoStmt) ast.Stmt {
	fc.needVS = true
	c := g.Call
	goText := fc.text(c.Fun)
	if _, isLit := c.Fun.(*ast.FuncLit); isLit {
		goText = "func"
	}
	id := fc.id(g, "go", goText)
	var pre []ast.Stmt
	// hoist the callee unless it is a function literal
	var fun ast.Expr
	if fl, ok := c.Fun.(*ast.FuncLit); ok {
		fc.block(fl.Body)
		fun = fl
	} else {
		if idn, ok := c.Fun.(*ast.Ident); ok && fc.isBuiltin(idn) && fc.info.Uses[idn] != nil {
			fc.errf(g, "go statement on a builtin has no rewrite rule")
			return g
		}
		nm := fc.fresh("f")
		pre = append(pre, &ast.AssignStmt{Lhs: []ast.Expr{ast.NewIdent(nm)}, Tok: token.DEFINE, Rhs: []ast.Expr{fc.expr(c.Fun)}})
		fun = ast.NewIdent(nm)
	}
	args := make([]ast.Expr, len(c.Args))
	for i, a := range c.Args {
		a = fc.expr(a)
		if fc.isConst(a) {
			args[i] = a
			continue
		}
		nm := fc.fresh("a")
		pre = append(pre, &ast.AssignStmt{Lhs: []ast.Expr{ast.NewIdent(nm)}, Tok: token.DEFINE, Rhs: []ast.Expr{a}})
		args[i] = ast.NewIdent(nm)
	}
	inner := &ast.CallExpr{Fun: fun, Args: args, Ellipsis: c.Ellipsis}
	if c.Ellipsis.IsValid() {
		inner.Ellipsis = 1
	}
	closure := &ast.FuncLit{Type: &ast.FuncType{Params: &ast.FieldList{}}, Body: &ast.BlockStmt{List: []ast.Stmt{&ast.ExprStmt{X: inner}}}}
	pre = append(pre, &ast.ExprStmt{X: call(vs("Go"), id, closure)})
	return &ast.BlockStmt{List: pre}
}

func (fc *fileCtx) selectStmt(s *ast.SelectStmt) ast.Stmt {
	fc.needVS = true
	k := fc.fresh("k")
	var names []string
	var inits []ast.Expr
	var descs []ast.Expr
	var texts []string
	hasDefault := false
	idx := 0
	for _, c := range s.Body.List {
		cc := c.(*ast.CommClause)
		cc.Body = fc.stmts(cc.Body)
		if cc.Comm == nil {
			hasDefault = true
			continue
		}
		var chp *ast.Expr
		send := false
		switch m := cc.Comm.(type) {
		case *ast.SendStmt:
			m.Value = fc.expr(m.Value)
			chp, send = &m.Chan, true
		case *ast.ExprStmt:
			u, ok := unparen(m.X).(*ast.UnaryExpr)
			if !ok || u.Op != token.ARROW {
				fc.errf(cc, "select clause is not a receive")
				return s
			}
			chp = &u.X
		case *ast.AssignStmt:
			u, ok := unparen(m.Rhs[0]).(*ast.UnaryExpr)
			if !ok || u.Op != token.ARROW {
				fc.errf(cc, "select clause is not a receive")
				return s
			}
			for i := range m.Lhs {
				m.Lhs[i] = fc.expr(m.Lhs[i])
			}
			chp = &u.X
		default:
			fc.errf(cc, "select clause %T has no rewrite rule", cc.Comm)
			return s
		}
		txt := fc.text(*chp)
		nm := fc.fresh("c")
		names = append(names, nm)
		inits = append(inits, fc.expr(*chp))
		if send {
			descs = append(descs, call(vs("CS"), ast.NewIdent(nm)))
			texts = append(texts, "send "+txt)
		} else {
			descs = append(descs, call(vs("CR"), ast.NewIdent(nm)))
			texts = append(texts, "recv "+txt)
		}
		*chp = call(vs("Pick"), ast.NewIdent(k), &ast.BasicLit{Kind: token.INT, Value: strconv.Itoa(idx)}, ast.NewIdent(nm))
		idx++
	}
	var pre []ast.Stmt
	if len(names) > 0 {
		lhs := make([]ast.Expr, len(names))
		for i, n := range names {
			lhs[i] = ast.NewIdent(n)
		}
		pre = append(pre, &ast.AssignStmt{Lhs: lhs, Tok: token.DEFINE, Rhs: inits})
	}
	def := "false"
	if hasDefault {
		def = "true"
	}
	args := append([]ast.Expr{fc.id(s, "select", strings.Join(texts, " | ")), ast.NewIdent(def)}, descs...)
	pre = append(pre, &ast.AssignStmt{Lhs: []ast.Expr{ast.NewIdent(k)}, Tok: token.DEFINE, Rhs: []ast.Expr{call(vs("Sel"), args...)}})
	pre = append(pre, &ast.AssignStmt{Lhs: []ast.Expr{ast.NewIdent("_")}, Tok: token.ASSIGN, Rhs: []ast.Expr{ast.NewIdent(k)}})
	pre = append(pre, s)
	// the hoisted block must start with an assignment to a _v name (isHoist)
	if len(names) == 0 {
		first := &ast.AssignStmt{Lhs: []ast.Expr{ast.NewIdent(fc.fresh("z"))}, Tok: token.DEFINE, Rhs: []ast.Expr{ast.NewIdent("0")}}
		pre = append([]ast.Stmt{first, &ast.AssignStmt{Lhs: []ast.Expr{ast.NewIdent("_")}, Tok: token.ASSIGN, Rhs: []ast.Expr{first.Lhs[0]}}}, pre...)
	}
	return &ast.BlockStmt{List: pre}
}

func unparen(e ast.Expr) ast.Expr {
	for {
		p, ok := e.(*ast.ParenExpr)
		if !ok {
			return e
		}
		e = p.X
	}
}

func (fc *fileCtx) rangeStmt(r *ast.RangeStmt) ast.Stmt {
	t := fc.typeOf(r.X)
	r.X = fc.expr(r.X)
	fc.block(r.Body)
	if t == nil {
		return r
	}
	switch u := t.Underlying().(type) {
	case *types.Chan:
		fc.needVS = true
		c := fc.fresh("c")
		v, ok := fc.fresh("x"), fc.fresh("ok")
		recv := &ast.UnaryExpr{Op: token.ARROW, X: call(vs("R"), fc.id(r, "range", fc.text(r.X)), ast.NewIdent(c))}
		body := []ast.Stmt{
			&ast.AssignStmt{Lhs: []ast.Expr{ast.NewIdent(v), ast.NewIdent(ok)}, Tok: token.DEFINE, Rhs: []ast.Expr{recv}},
			&ast.IfStmt{Cond: &ast.UnaryExpr{Op: token.NOT, X: ast.NewIdent(ok)}, Body: &ast.BlockStmt{List: []ast.Stmt{&ast.BranchStmt{Tok: token.BREAK}}}},
		}
		if r.Key != nil && !isBlank(r.Key) {
			body = append(body, &ast.AssignStmt{Lhs: []ast.Expr{r.Key}, Tok: r.Tok, Rhs: []ast.Expr{ast.NewIdent(v)}})
			if r.Tok == token.DEFINE {
				body = append(body, &ast.AssignStmt{Lhs: []ast.Expr{ast.NewIdent("_")}, Tok: token.ASSIGN, Rhs: []ast.Expr{r.Key}})
			}
		} else {
			body = append(body, &ast.AssignStmt{Lhs: []ast.Expr{ast.NewIdent("_")}, Tok: token.ASSIGN, Rhs: []ast.Expr{ast.NewIdent(v)}})
		}
		body = append(body, r.Body.List...)
		loop := &ast.ForStmt{Body: &ast.BlockStmt{List: body}}
		return &ast.BlockStmt{List: []ast.Stmt{
			&ast.AssignStmt{Lhs: []ast.Expr{ast.NewIdent(c)}, Tok: token.DEFINE, Rhs: []ast.Expr{r.X}},
			loop,
		}}
	case *types.Map:
		if r.Tok != token.DEFINE && (r.Key != nil || r.Value != nil) {
			return r // assignment form: left alone (not present in Zeno)
		}
		if !ordered(u.Key()) {
			return r
		}
		fc.needVS = true
		m := fc.fresh("m")
		keyName := fc.fresh("k")
		userKey := r.Key != nil && !isBlank(r.Key)
		if userKey {
			keyName = r.Key.(*ast.Ident).Name
		}
		order := call(vs("MapOrder"), fc.id(r, "maprange", fc.text(r.X)), call(vs("Keys"), ast.NewIdent(m)))
		var body []ast.Stmt
		okn := fc.fresh("ok")
		valName := "_"
		if r.Value != nil && !isBlank(r.Value) {
			valName = r.Value.(*ast.Ident).Name
		}
		body = append(body,
			&ast.AssignStmt{Lhs: []ast.Expr{ast.NewIdent(valName), ast.NewIdent(okn)}, Tok: token.DEFINE,
				Rhs: []ast.Expr{&ast.IndexExpr{X: ast.NewIdent(m), Index: ast.NewIdent(keyName)}}},
			&ast.IfStmt{Cond: &ast.UnaryExpr{Op: token.NOT, X: ast.NewIdent(okn)}, Body: &ast.BlockStmt{List: []ast.Stmt{&ast.BranchStmt{Tok: token.CONTINUE}}}},
		)
		if valName != "_" {
			body = append(body, &ast.AssignStmt{Lhs: []ast.Expr{ast.NewIdent("_")}, Tok: token.ASSIGN, Rhs: []ast.Expr{ast.NewIdent(valName)}})
		}
		body = append(body, r.Body.List...)
		loop := &ast.RangeStmt{Key: ast.NewIdent("_"), Value: ast.NewIdent(keyName), Tok: token.DEFINE, X: order, Body: &ast.BlockStmt{List: body}}
		if !userKey {
			body0 := append([]ast.Stmt{&ast.AssignStmt{Lhs: []ast.Expr{ast.NewIdent("_")}, Tok: token.ASSIGN, Rhs: []ast.Expr{ast.NewIdent(keyName)}}}, loop.Body.List...)
			loop.Body.List = body0
		}
		return &ast.BlockStmt{List: []ast.Stmt{
			&ast.AssignStmt{Lhs: []ast.Expr{ast.NewIdent(m)}, Tok: token.DEFINE, Rhs: []ast.Expr{r.X}},
			loop,
		}}
	}
	return r
}

func isBlank(e ast.Expr) bool {
	id, ok := e.(*ast.Ident)
	return ok && id.Name == "_"
}

func ordered(t types.Type) bool {
	b, ok := t.Underlying().(*types.Basic)
	if !ok {
		return false
	}
	return b.Info()&(types.IsInteger|types.IsFloat|types.IsString) != 0
}

var _ = sort.Strings
