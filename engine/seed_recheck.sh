#!/bin/sh
# seed_recheck.sh <ID> <n> [check-id]: run the (strengthened) check again against a stored seeded change whose
# worktree /tmp/seed-<ID>-<n> still exists; keeps the first run as check-first.log and records both verdicts.
set -u
id=$1; n=$2; chk=${3:-$1}
wt=/tmp/seed-$id-$n
out=/verif/seeded/$id-$n
cd /verif
[ -f $out/check-first.log ] || cp $out/check.log $out/check-first.log
cp evidence/$chk.json /tmp/ev-keep-$chk-$$.json 2>/dev/null
VERIF_REPO=$wt timeout -k 10 2400 ./check $chk quick > $out/check.log 2>&1; c=$?
# the evidence file describes /repo, not a seeded tree: put the last one back
[ -f /tmp/ev-keep-$chk-$$.json ] && mv /tmp/ev-keep-$chk-$$.json evidence/$chk.json
grep -v "^JOB-RESULT" $out/check.log | grep "violation detail\|^C[0-9][0-9] " | cut -c1-300 | head -4
echo "check_exit=$c"
python3 - <<PY
import json
p="$out/meta.json"; m=json.load(open(p))
if "first_run" not in m:
    m["first_run"]={"check_exit":m["check_exit"],"caught":m["caught"]}
m["check_exit"]=$c; m["caught"]= $c == 1
m["check_cmd"]="VERIF_REPO=$wt ./check $chk quick"
json.dump(m,open(p,"w"),indent=1)
PY
