#!/bin/sh
N=$1; shift
cd /verif
for id in "$@"; do
  engine/seed_eval.sh $id $N > /tmp/seedeval-$id-$N.log 2>&1
  echo "$id: $(grep 'demo_with_exit' /tmp/seedeval-$id-$N.log) $(tail -1 /tmp/seedeval-$id-$N.log)" >> /tmp/eval$N-summary.txt
done
