package cmd

import (
	"github.com/spf13/cobra"
	"github.com/spf13/pflag"
)

// VerifGetFlagsC18 parses args with Zeno's real `get` flag definitions
// (getCMDsFlags) on a fresh command and returns the flag set, ready for
// config.BindFlags. Added by overlay for the C18 harness only.
func VerifGetFlagsC18(args []string) (*pflag.FlagSet, error) {
	c := &cobra.Command{Use: "get"}
	getCMDsFlags(c)
	fs := c.PersistentFlags()
	err := fs.Parse(args)
	return fs, err
}
