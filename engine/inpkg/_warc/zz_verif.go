package warc

import "net/http"

// NewVerifClient builds a CustomHTTPClient around a caller-supplied transport: no
// sockets, no WARC files, no library goroutines. Redirects are not followed (as
// in the real client) and Close() works.
func NewVerifClient(rt http.RoundTripper, hook DiscardHook) *CustomHTTPClient {
	c := new(CustomHTTPClient)
	c.WaitGroup = new(WaitGroupWithCount)
	c.ErrChan = make(chan *Error)
	c.WARCWriter = make(chan *RecordBatch)
	c.DiscardHook = hook
	c.closeDNSCache = func() {}
	c.Client = http.Client{
		Transport: rt,
		CheckRedirect: func(req *http.Request, via []*http.Request) error {
			return http.ErrUseLastResponse
		},
	}
	return c
}

// VerifWait, when set, stands in for Wait: a real sync.WaitGroup that blocks is invisible to the
// controlled scheduler (the harness waits on Size() in virtual time instead). Nil: the real Wait.
var VerifWait func(wg *WaitGroupWithCount)

// Wait shadows the method promoted from the embedded sync.WaitGroup.
func (wg *WaitGroupWithCount) Wait() {
	if VerifWait != nil {
		VerifWait(wg)
		return
	}
	wg.WaitGroup.Wait()
}
