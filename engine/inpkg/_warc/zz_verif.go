package warc

import "net/http"

// NewVerifClient builds a CustomHTTPClient around a caller-supplied transport: no
// sockets, no WARC files, no library goroutines. Redirects are not followed (as
// in the real client) and Close() works.
func NewVerifClient(rt http.RoundTripper, hook DiscardHook) *CustomHTTPClient {
	c := new(CustomHTTPClient)
	c.WaitGroup = new(WaitGroupWithCount)
	c.ErrChan = make(chan *Error)
	c.WARCWriter = make(chan *RecordBatch)
	c.DiscardHook = hook
	c.closeDNSCache = func() {}
	c.Client = http.Client{
		Transport: rt,
		CheckRedirect: func(req *http.Request, via []*http.Request) error {
			return http.ErrUseLastResponse
		},
	}
	return c
}
