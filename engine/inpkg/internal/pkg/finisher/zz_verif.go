package finisher

var verifZeroOnce = once

// VerifReset forgets the singleton so that Start can be called again.
func VerifReset() {
	globalFinisher = nil
	once = verifZeroOnce
}
