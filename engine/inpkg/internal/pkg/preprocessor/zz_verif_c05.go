package preprocessor

import "github.com/internetarchive/Zeno/pkg/models"

// VerifC05Preprocess runs the real, unexported preprocess() on a seed tree (C05 harness; added by overlay).
func VerifC05Preprocess(seed *models.Item) { preprocess("c05", seed) }
