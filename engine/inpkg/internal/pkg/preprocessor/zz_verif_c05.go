package preprocessor

import (
	"context"

	"github.com/internetarchive/Zeno/internal/pkg/stats"
	"github.com/internetarchive/Zeno/pkg/models"
)

// VerifC05Preprocess passes a seed tree through the real stage worker (C05 harness; added by overlay):
// the worker loop runs on the calling goroutine (so that a panic reaches the caller), receives the tree
// on its input channel, runs preprocess() and is stopped when the tree has left on the output channel.
func VerifC05Preprocess(seed *models.Item) {
	stats.Init()
	ctx, cancel := context.WithCancel(context.Background())
	defer cancel()
	p := &preprocessor{ctx: ctx, cancel: cancel, inputCh: make(chan *models.Item, 1), outputCh: make(chan *models.Item)}
	left := make(chan struct{})
	go func() {
		select {
		case <-p.outputCh:
			close(left)
			cancel()
		case <-ctx.Done():
		}
	}()
	p.inputCh <- seed
	p.wg.Add(1)
	p.worker("c05")
	select {
	case <-left:
	default:
		panic("engine: the worker returned without handing the tree on")
	}
}
