package preprocessor

var verifZeroOnce = once

// VerifReset forgets the singleton so that Start can be called again.
func VerifReset() {
	globalPreprocessor = nil
	once = verifZeroOnce
}
