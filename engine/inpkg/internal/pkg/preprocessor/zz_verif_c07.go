package preprocessor

import "github.com/internetarchive/Zeno/pkg/models"

// VerifC07Preprocess runs the real preprocess step on a seed tree (harness C07 only).
func VerifC07Preprocess(seed *models.Item) { preprocess("verif", seed) }
