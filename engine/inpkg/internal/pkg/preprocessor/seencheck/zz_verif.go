package seencheck

// VerifReset forgets the store (after Close).
func VerifReset() { globalSeencheck = nil }

// VerifStarted reports whether a store is open.
func VerifStarted() bool { return globalSeencheck != nil }
