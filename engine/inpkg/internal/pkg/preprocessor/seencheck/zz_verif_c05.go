package seencheck

import (
	"hash/fnv"
	"strconv"
)

// VerifC05Forget removes the given canonical URL strings from the local seen-store, so that one input
// grid case does not make the next one "already seen" (C05 harness; added by overlay). It returns how
// many of them were present; the harness checks that number to notice a changed key scheme.
func VerifC05Forget(urls []string) (present int) {
	for _, u := range urls {
		h := fnv.New64a()
		h.Write([]byte(u))
		k := strconv.FormatUint(h.Sum64(), 10)
		var v string
		if found, _ := globalSeencheck.DB.Get(k, &v); found {
			present++
			globalSeencheck.DB.Delete(k)
		}
	}
	return present
}
