package preprocessor

import "github.com/internetarchive/Zeno/pkg/models"

// VerifC08Preprocess runs the real preprocess() on a seed tree (C08 harness; added by overlay).
func VerifC08Preprocess(seed *models.Item) { preprocess("c08", seed) }
