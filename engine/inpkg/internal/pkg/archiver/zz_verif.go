package archiver

import (
	"context"
	"strconv"

	"github.com/CorentinB/warc"
	"github.com/internetarchive/Zeno/internal/pkg/archiver/ratelimiter"
	"github.com/internetarchive/Zeno/internal/pkg/config"
	"github.com/internetarchive/Zeno/internal/pkg/log"
	"github.com/internetarchive/Zeno/internal/pkg/stats"
	"github.com/internetarchive/Zeno/pkg/models"
)

var verifZeroOnce = once

// VerifReset forgets the singletons so that a start function can be called again.
func VerifReset() {
	globalArchiver = nil
	globalBucketManager = nil
	once = verifZeroOnce
}

// VerifStart is archiver.Start with one difference: instead of startWARCWriter()
// (sockets, files, library goroutines) it installs the given client(s). Everything
// else - worker(), archive(), the retry loop, Stop() - is the production code.
func VerifStart(inputChan, outputChan chan *models.Item, client, proxied *warc.CustomHTTPClient) error {
	var done bool

	log.Start()
	logger = log.NewFieldedLogger(&log.Fields{
		"component": "archiver",
	})

	stats.Init()

	once.Do(func() {
		ctx, cancel := context.WithCancel(context.Background())
		globalArchiver = &archiver{
			ctx:      ctx,
			cancel:   cancel,
			inputCh:  inputChan,
			outputCh: outputChan,
		}
		if !config.Get().DisableRateLimit {
			globalBucketManager = ratelimiter.NewBucketManager(ctx,
				config.Get().WorkersCount*config.Get().MaxConcurrentAssets,
				config.Get().RateLimitCapacity,
				config.Get().RateLimitRefillRate,
				config.Get().RateLimitCleanupFrequency,
			)
		}
		globalArchiver.Client = client
		globalArchiver.ClientWithProxy = proxied

		for i := 0; i < config.Get().WorkersCount; i++ {
			globalArchiver.wg.Add(1)
			go globalArchiver.worker(strconv.Itoa(i))
		}
		done = true
	})

	if !done {
		return ErrArchiverAlreadyInitialized
	}
	return nil
}

// VerifBucketManager exposes the limiter (nil when rate limiting is off).
func VerifBucketManager() *ratelimiter.BucketManager { return globalBucketManager }

// VerifCloseIdleConnections closes the idle keep-alive connections of the WARC-writing clients.
func VerifCloseIdleConnections() {
	if globalArchiver == nil {
		return
	}
	if globalArchiver.Client != nil {
		globalArchiver.Client.CloseIdleConnections()
	}
	if globalArchiver.ClientWithProxy != nil {
		globalArchiver.ClientWithProxy.CloseIdleConnections()
	}
}
