package ratelimiter

import "time"

// Accessors for the C13 harness (added by overlay, never part of the repository).

// VerifBucket names the private bucket type for harnesses.
type VerifBucket = tokenBucket

// VerifState is the bucket's seven fields.
type VerifState struct {
	Tokens, Capacity, RefillRate, IdealRate float64
	LastRefill, PenaltyUntil                time.Time
	FailureCount                            int
}

// VerifNewBucket is newTokenBucket.
func VerifNewBucket(capacity, rate float64) *tokenBucket { return newTokenBucket(capacity, rate) }

// VerifGet reads the fields without locking (callers are sequential or run while every thread is parked).
func (tb *tokenBucket) VerifGet() VerifState {
	return VerifState{tb.tokens, tb.capacity, tb.refillRate, tb.idealRate, tb.lastRefill, tb.penaltyUntil, tb.failureCount}
}

// VerifSet restores a state previously read with VerifGet.
func (tb *tokenBucket) VerifSet(s VerifState) {
	tb.tokens, tb.capacity, tb.refillRate, tb.idealRate = s.Tokens, s.Capacity, s.RefillRate, s.IdealRate
	tb.lastRefill, tb.penaltyUntil, tb.failureCount = s.LastRefill, s.PenaltyUntil, s.FailureCount
}

// VerifFail and VerifSuccess are the two private adjusters.
func (tb *tokenBucket) VerifFail(status int) { tb.adjustOnFailure(status) }
func (tb *tokenBucket) VerifSuccess()        { tb.onSuccess() }

// VerifBucketOf returns the host's bucket without touching the usage statistics (nil when absent).
func (bm *BucketManager) VerifBucketOf(host string) *tokenBucket {
	if mb, ok := bm.buckets[host]; ok {
		return mb.bucket
	}
	return nil
}

// VerifHosts is the number of buckets in the table.
func (bm *BucketManager) VerifHosts() int { return len(bm.buckets) }

// VerifManagedBucket returns a fresh bucket built the way the archiver gets one: through a
// BucketManager configured with these values (table of one entry, so the previous bucket is evicted).
func VerifManagedBucket(bm *BucketManager, host string) *tokenBucket {
	return bm.getBucket(host).bucket
}
