package ratelimiter

// VerifHosts is the current size of the per-host table (C16 part C harness; added by overlay). No locking:
// it is only called while every thread is parked by the scheduler.
func (bm *BucketManager) VerifHosts() int { return len(bm.buckets) }
