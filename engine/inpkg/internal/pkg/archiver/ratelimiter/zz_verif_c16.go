package ratelimiter

// VerifC16Buckets is the current size of the per-host table (C16 harness; added by overlay).
// No locking: it is only called while every thread is parked by the scheduler (a
// thread may be parked inside the manager's critical section).
func (bm *BucketManager) VerifC16Buckets() int { return len(bm.buckets) }

// VerifC16Max is the configured bound of the table.
func (bm *BucketManager) VerifC16Max() int { return bm.maxBuckets }
