package config

// verifZeroOnceC18 is a copy of the unused once taken at package initialisation.
var verifZeroOnceC18 = once

// VerifReinitC18 lets InitConfig run again: the C18 harness resolves the
// --min-space-required flag through the real flag/viper path once per value.
func VerifReinitC18() {
	once = verifZeroOnceC18
	config = nil
}
