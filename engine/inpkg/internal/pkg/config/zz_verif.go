package config

// VerifSet installs a configuration directly (harnesses only; added by overlay).
func VerifSet(c *Config) { config = c }
