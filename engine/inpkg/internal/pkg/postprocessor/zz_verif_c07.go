package postprocessor

import "github.com/internetarchive/Zeno/pkg/models"

// VerifC07Postprocess runs the real postprocess step (postprocessItem on every
// node at the seed's deepest level) and returns the outlink items (harness C07 only).
func VerifC07Postprocess(seed *models.Item) []*models.Item { return postprocess("verif", seed) }
