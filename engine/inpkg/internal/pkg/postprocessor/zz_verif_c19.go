package postprocessor

import "github.com/internetarchive/Zeno/pkg/models"

// VerifC19PostprocessItem exposes postprocessItem to the C19 harness (added by overlay).
func VerifC19PostprocessItem(item *models.Item) []*models.Item { return postprocessItem(item) }
