package postprocessor

import "github.com/internetarchive/Zeno/pkg/models"

// VerifPostprocessItem exposes the per-item post-processing dispatch to the C10 harness (added by overlay).
func VerifPostprocessItem(item *models.Item) []*models.Item { return postprocessItem(item) }
