package postprocessor

var verifZeroOnce = once

// VerifReset forgets the singleton so that Start can be called again.
func VerifReset() {
	globalPostprocessor = nil
	once = verifZeroOnce
}
