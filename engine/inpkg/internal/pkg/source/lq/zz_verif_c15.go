package lq

import "context"

var verifZeroOnce = once

// VerifC15Reset forgets the singleton so that Start can be called again (C15 harness; added by overlay).
func VerifC15Reset() {
	if globalLQ != nil && globalLQ.client != nil && globalLQ.client.dbWrite != nil {
		globalLQ.client.dbWrite.Close()
	}
	globalLQ = nil
	once = verifZeroOnce
}

// VerifC15Row is one row of the urls table.
type VerifC15Row struct {
	ID, Value, Via, Status string
	Hops                   int64
}

// VerifC15Rows dumps the urls table.
func VerifC15Rows() ([]VerifC15Row, error) {
	rows, err := globalLQ.client.dbWrite.QueryContext(context.Background(), "SELECT id, value, via, hops, status FROM urls ORDER BY rowid")
	if err != nil {
		return nil, err
	}
	defer rows.Close()
	var out []VerifC15Row
	for rows.Next() {
		var r VerifC15Row
		if err := rows.Scan(&r.ID, &r.Value, &r.Via, &r.Hops, &r.Status); err != nil {
			return nil, err
		}
		out = append(out, r)
	}
	return out, rows.Err()
}
