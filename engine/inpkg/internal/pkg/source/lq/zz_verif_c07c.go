package lq

import "errors"

// VerifQueueState counts the rows of the queue by status through the adapter's
// own (single) connection, so that it serialises with Zeno's transactions
// instead of competing for SQLite's file lock (harness c04 only; added by overlay).
func VerifQueueState() (fresh, claimed int, err error) {
	l := globalLQ
	if l == nil || l.client == nil || l.client.dbWrite == nil {
		return 0, 0, errors.New("local queue not started")
	}
	rows, err := l.client.dbWrite.Query("SELECT status, count(*) FROM urls GROUP BY status")
	if err != nil {
		return 0, 0, err
	}
	defer rows.Close()
	for rows.Next() {
		var st string
		var n int
		if err := rows.Scan(&st, &n); err != nil {
			return 0, 0, err
		}
		switch st {
		case "FRESH":
			fresh = n
		case "CLAIMED":
			claimed = n
		}
	}
	return fresh, claimed, rows.Err()
}
