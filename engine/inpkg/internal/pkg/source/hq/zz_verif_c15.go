package hq

import (
	"context"

	"github.com/internetarchive/Zeno/internal/pkg/log"
	"github.com/internetarchive/Zeno/pkg/models"
	"github.com/internetarchive/gocrawlhq"
)

// VerifC15Start is hq.Start without gocrawlhq.Init (which dials a websocket)
// and without the identify goroutine: the consumer, producer and finisher
// goroutines are the production ones (C15 harness; added by overlay).
func VerifC15Start(finishChan, produceChan chan *models.Item, client *gocrawlhq.Client) {
	logger = log.NewFieldedLogger(&log.Fields{"component": "hq"})
	ctx, cancel := context.WithCancel(context.Background())
	globalHQ = &hq{ctx: ctx, cancel: cancel, finishCh: finishChan, produceCh: produceChan, client: client}
	globalHQ.wg.Add(3)
	go consumer()
	go producer()
	go finisher()
}

// VerifC15HopsRoundTrip exposes the two path helpers.
func VerifC15HopsRoundTrip(h int) int { return pathToHops(hopsToPath(h)) }
