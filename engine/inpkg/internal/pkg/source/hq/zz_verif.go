package hq

import (
	"github.com/internetarchive/Zeno/internal/pkg/log"
	"github.com/internetarchive/gocrawlhq"
)

var verifZeroOnce = once

// VerifReset forgets the singleton so that Start can be called again.
func VerifReset() {
	globalHQ = nil
	once = verifZeroOnce
}

// VerifSetClient installs a crawl HQ client without starting the source
// goroutines (enough for hq.SeencheckItem).
func VerifSetClient(c *gocrawlhq.Client) {
	logger = log.NewFieldedLogger(&log.Fields{"component": "hq"})
	globalHQ = &hq{client: c}
}
