package watchers

import "context"

var (
	verifZeroDiskWG = diskWatcherWg
	verifZeroWwqWG  = wwqWg
)

// VerifC14Reset gives the two watchers fresh contexts and wait groups so that they can be
// started again in the next execution (C14 harness; added by overlay).
func VerifC14Reset() {
	diskWatcherCtx, diskWatcherCancel = context.WithCancel(context.Background())
	wwqCtx, wwqCancel = context.WithCancel(context.Background())
	diskWatcherWg = verifZeroDiskWG
	wwqWg = verifZeroWwqWG
}
