package watchers

// VerifCheckThresholdC18 exposes the package-private decision function to the
// C18 harness (added by overlay, never part of the repository).
func VerifCheckThresholdC18(total, free uint64, minSpaceRequired float64) error {
	return checkThreshold(total, free, minSpaceRequired)
}
