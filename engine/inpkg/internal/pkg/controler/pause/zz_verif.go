package pause

// VerifReset installs a fresh manager (no subscribers, not paused).
func VerifReset() { manager = &pauseManager{} }

// VerifSubscribers counts the current subscribers.
func VerifSubscribers() int {
	n := 0
	manager.subscribers.Range(func(_, _ any) bool { n++; return true })
	return n
}
