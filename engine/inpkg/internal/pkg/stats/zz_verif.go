package stats

// VerifRoutines returns the worker gauges (preprocessor, archiver, postprocessor).
func VerifRoutines() (uint64, uint64, uint64) {
	return globalStats.PreprocessorRoutines.get(), globalStats.ArchiverRoutines.get(), globalStats.PostprocessorRoutines.get()
}

// VerifTotals returns the running totals of URLs crawled and seeds finished.
func VerifTotals() (urls, seeds uint64) {
	return globalStats.URLsCrawled.getTotal(), globalStats.SeedsFinished.getTotal()
}

// VerifCodeTotals returns the per-status-code totals (no exported getter exists).
func VerifCodeTotals() map[string]uint64 { return globalStats.HTTPReturnCodes.getAllTotal() }
