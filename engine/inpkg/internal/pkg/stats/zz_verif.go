package stats

// VerifRoutines returns the worker gauges (preprocessor, archiver, postprocessor).
func VerifRoutines() (uint64, uint64, uint64) {
	return globalStats.PreprocessorRoutines.get(), globalStats.ArchiverRoutines.get(), globalStats.PostprocessorRoutines.get()
}
