package stats

import (
	"reflect"
	"unsafe"

	"github.com/prometheus/client_golang/prometheus"
)

// Accessors for the C17 harness (added by overlay, never part of the repository).

var verifZeroOnceC17 = doOnce

// VerifResetC17 forgets the singleton so that Init can be called again.
func VerifResetC17() {
	if globalPromStats != nil {
		// the exporter registers its series with the process-wide registry: take them out again
		v := reflect.ValueOf(globalPromStats).Elem()
		for i := 0; i < v.NumField(); i++ {
			f := v.Field(i)
			if f.Kind() == reflect.Ptr && !f.IsNil() {
				if c, ok := reflect.NewAt(f.Type(), unsafe.Pointer(f.UnsafeAddr())).Elem().Interface().(prometheus.Collector); ok {
					prometheus.Unregister(c)
				}
			}
		}
	}
	globalStats = nil
	globalPromStats = nil
	doOnce = verifZeroOnceC17
}

// VerifCodeTotalsC17 returns the per-status-code totals (no exported getter exists).
func VerifCodeTotalsC17() map[string]uint64 { return globalStats.HTTPReturnCodes.getAllTotal() }

// VerifCodeTotalC17 returns the total of one status code through the keyed getter.
func VerifCodeTotalC17(key string) uint64 { return globalStats.HTTPReturnCodes.getTotal(key) }
