package stats

// Accessors for the C17 harness (added by overlay, never part of the repository).

var verifZeroOnceC17 = doOnce

// VerifResetC17 forgets the singleton so that Init can be called again.
func VerifResetC17() {
	globalStats = nil
	globalPromStats = nil
	doOnce = verifZeroOnceC17
}

// VerifCodeTotalsC17 returns the per-status-code totals (no exported getter exists).
func VerifCodeTotalsC17() map[string]uint64 { return globalStats.HTTPReturnCodes.getAllTotal() }

// VerifCodeTotalC17 returns the total of one status code through the keyed getter.
func VerifCodeTotalC17(key string) uint64 { return globalStats.HTTPReturnCodes.getTotal(key) }
