package reactor

// Accessors for harnesses (added by overlay, never part of the repository).

var verifZeroOnce = once

// VerifReset forgets the singleton so that Start can be called again.
func VerifReset() {
	globalReactor = nil
	once = verifZeroOnce
}

// VerifAlive reports whether the singleton exists.
func VerifAlive() bool { return globalReactor != nil }

// VerifTokens is the number of tokens in use.
func VerifTokens() int {
	if globalReactor == nil {
		return 0
	}
	return len(globalReactor.tokenPool)
}

// VerifTracked is the number of entries in the state table.
func VerifTracked() int {
	if globalReactor == nil {
		return 0
	}
	n := 0
	globalReactor.stateTable.Range(func(_, _ any) bool { n++; return true })
	return n
}

// VerifInputLen is the number of items buffered in the input channel.
func VerifInputLen() int {
	if globalReactor == nil {
		return 0
	}
	return len(globalReactor.input)
}
