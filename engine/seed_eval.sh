#!/bin/sh
# seed_eval.sh <ID> <n> [check args...]: confirm a seeded change in /tmp/seed-<ID>-<n>, store it under
# /verif/seeded/<ID>-<n>/, run the property's check against it.
set -u
id=$1; n=$2; shift 2
wt=/tmp/seed-$id-$n
out=/verif/seeded/$id-$n
go="env GOFLAGS=-mod=mod GOPROXY=off go"
mkdir -p $out
cd $wt || exit 2
demo=$(git status --porcelain | grep '^??' | awk '{print $2}' | grep -v SEED_REPORT | head -5 | tr '\n' ' ')
src=$(git diff --name-only | tr '\n' ' ')
echo "source: $src"; echo "demo: $demo"
git diff > $out/patch.diff
for f in $demo; do mkdir -p $out/demo/$(dirname $f); cp -r $f $out/demo/$f; done
cp SEED_REPORT.md $out/ 2>/dev/null
$go build ./... || { echo "BUILD FAILS"; exit 1; }
pk=$(for f in $demo; do dirname $f; done | sort -u | sed 's#^#./#' | tr '\n' ' ')
echo "--- demo WITH change"; $go test -vet=off -count=1 -run 'SeedDemo' $pk > $out/demo-with.log 2>&1; w=$?; tail -3 $out/demo-with.log
git diff -- $src > /tmp/seed-eval-$id-$n.patch; git apply -R /tmp/seed-eval-$id-$n.patch
echo "--- demo WITHOUT change"; $go test -vet=off -count=1 -run 'SeedDemo' $pk > $out/demo-without.log 2>&1; wo=$?; tail -3 $out/demo-without.log
git apply /tmp/seed-eval-$id-$n.patch; rm -f /tmp/seed-eval-$id-$n.patch
echo "--- existing suite with change"; $go test -vet=off -count=1 -skip 'SeedDemo' ./... > $out/suite.log 2>&1; s=$?; grep -v "no test files" $out/suite.log | grep -v "^ok" | head -5
echo "demo_with_exit=$w demo_without_exit=$wo suite_exit=$s"
cd /verif
echo "--- check $id quick against the seeded tree"
cp evidence/$id.json /tmp/ev-keep-$id-$$.json 2>/dev/null
VERIF_REPO=$wt timeout -k 10 2400 ./check $id quick "$@" > $out/check.log 2>&1; c=$?
# the evidence file describes /repo, not a seeded tree: put the last one back
[ -f /tmp/ev-keep-$id-$$.json ] && mv /tmp/ev-keep-$id-$$.json evidence/$id.json
grep -v "^JOB-RESULT" $out/check.log | grep "violation detail\|^C[0-9][0-9] \|KNOWN\|engine error" | cut -c1-300 | head -8
echo "check_exit=$c"
python3 - <<PY
import json
json.dump({"property":"$id","seed":"$id-$n","source_files":"$src".split(),"demo_files":"$demo".split(),
 "demo_fails_with_change": $w != 0, "demo_passes_without_change": $wo == 0, "existing_suite_passes_with_change": $s == 0,
 "check_cmd":"VERIF_REPO=$wt ./check $id quick","check_exit":$c,"caught": $c == 1}, open("$out/meta.json","w"), indent=1)
PY
