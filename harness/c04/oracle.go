package main

import (
	"encoding/base32"
	"encoding/hex"
	"fmt"
	"os"
	"path/filepath"
	"runtime"
	"sort"
	"strings"
	"sync"

	"github.com/internetarchive/Zeno/internal/verif/lib/e2e"
	"github.com/internetarchive/Zeno/internal/verif/lib/e2e/warcread"
)

func b32(hexsha string) string {
	b, _ := hex.DecodeString(hexsha)
	return "sha1:" + base32.StdEncoding.EncodeToString(b)
}

// captured reports whether the files hold a complete response (or identical-payload revisit) record for an exchange.
func captured(files []*warcread.File, e *e2e.Exchange) bool {
	for _, f := range files {
		for _, r := range f.Records {
			if r.TargetURI != e.URL || r.HTTPErr != "" {
				continue
			}
			switch r.Type {
			case "response":
				if r.Status == e.Status && r.EntityErr == "" && r.EntityLen == e.EntityLen && r.EntitySHA1 == e.EntitySHA1 {
					return true
				}
			case "revisit":
				if r.Status == e.Status && r.PayloadDigest == b32(e.EntitySHA1) {
					return true
				}
			}
		}
	}
	return false
}

// judge applies oracle (a)-(c) to one history.
func judge(v *verdict, quickTier bool, o *e2e.Origin, log1, log2 []e2e.Exchange, rows1, rows2 []e2e.LQRow, seen1 map[string]string, files1 []*warcread.File) {
	add := func(sig, detail string) { v.Violations = append(v.Violations, violation{sig, detail}) }
	at := map[string]e2e.LQRow{} // path -> row at the instant
	for _, r := range rows1 {
		at[pathOf(o, r.Value)] = r
	}
	after := map[string]e2e.LQRow{}
	for _, r := range rows2 {
		after[pathOf(o, r.Value)] = r
	}
	served1 := map[string][]*e2e.Exchange{}
	for i := range log1 {
		served1[log1[i].Path] = append(served1[log1[i].Path], &log1[i])
	}
	requested2 := map[string]bool{}
	for _, e := range log2 {
		requested2[e.Path] = true
	}

	// (b) finished => captured: a row absent at the instant was reported finished (its delete was committed)
	rowsKnown := append([]string{}, preloaded...)
	if len(served1["/leaf"]) > 0 {
		rowsKnown = append(rowsKnown, "/leaf") // it was in the queue: only a claimed row is fetched
	}
	for _, p := range rowsKnown {
		if _, present := at[p]; present {
			continue
		}
		if p != badRow && len(served1[p]) == 0 {
			add("finished-without-a-request:"+kindOf(p), fmt.Sprintf("row %s is gone from lq.db at the instant (reported finished), but the origin was never asked for %s in the first run: nothing of it can be in the WARC files", p, p))
		}
		for _, tp := range tree[p] {
			for _, e := range served1[tp] {
				if !e.Sent {
					add("finished-but-response-cut:"+p, fmt.Sprintf("row %s is gone from lq.db (reported finished) although the response for %s was cut by the end of the run", p, tp))
					continue
				}
				if !captured(files1, e) {
					add("finished-without-capture:"+kindOf(p), fmt.Sprintf("row %s is gone from lq.db at the instant (reported finished), the origin served %s (status %d, %d bytes) for it, but the WARC files on disk at that instant (.open included, complete members only) hold no response/revisit record for it; torn tail: %q", p, tp, e.Status, e.EntityLen, v.TornTail))
				}
			}
		}
	}

	// a row leaves the queue only after its finish message: more rows gone than finish messages sent means a
	// row that was not reported finished can never be crawled again
	gone := 0
	for _, p := range preloaded {
		if _, present := at[p]; !present && p != badRow { // the value that does not parse goes from the consumer to the queue's finisher directly
			gone++
		}
	}
	if _, present := at["/leaf"]; !present && len(served1["/leaf"]) > 0 {
		gone++
	}
	if gone > v.Finishes1 {
		add("row-gone-without-finish", fmt.Sprintf("%d rows that were in the queue are absent from lq.db at the instant the first run ended, but only %d finish messages had been sent: a URL that was not reported finished has left the queue and cannot be crawled again (rows at the instant: %v)", gone, v.Finishes1, statuses(v.AtInstant)))
	}

	// (c) every row still queued at the instant is crawled again by the second run
	var paths []string
	for p := range at {
		paths = append(paths, p)
	}
	sort.Strings(paths)
	for _, p := range paths {
		r := at[p]
		if requested2[p] || p == badRow {
			continue // a value that does not parse is never requested: the consumer reports it finished
		}
		left, stillThere := after[p]
		switch {
		case stillThere && left.Status == "CLAIMED":
			add("stranded-claimed", fmt.Sprintf("row %s was %s at the instant the first run ended; the second run never requested %s and the row is still CLAIMED after it: rows handed out by a dead or stopped process are never reset", p, r.Status, p))
		case seen1[r.Value] != "":
			add("resume-skipped-by-seencheck", fmt.Sprintf("row %s was %s at the instant the first run ended and not reported finished; the second run took it from the queue but never requested %s: its URL hash was already in the local seencheck store (%q) at that instant, so the re-queued seed was marked seen and finished without a capture (row after the second run: %s)", p, r.Status, p, seen1[r.Value], orGone(stillThere, left.Status)))
		default:
			add("not-crawled-again:"+kindOf(p)+":"+strings.ToLower(r.Status), fmt.Sprintf("row %s was %s at the instant the first run ended and not reported finished; the second run never requested %s (row after the second run: %s; seen-store had no entry for it)", p, r.Status, p, orGone(stillThere, left.Status)))
		}
	}

	// (a) nothing is left in the queue after the second run
	paths = paths[:0]
	for p := range after {
		paths = append(paths, p)
	}
	sort.Strings(paths)
	for _, p := range paths {
		r := after[p]
		_, wasThere := at[p]
		if r.Status == "CLAIMED" {
			if wasThere && !requested2[p] {
				continue // already reported under (c)
			}
			what := "it was fetched by the second run, yet its row stays CLAIMED"
			if wasThere && at[p].Status == "CLAIMED" && !requested2[p] {
				what = "never handed out again"
			}
			add("stranded-claimed", fmt.Sprintf("row %s is CLAIMED in lq.db after the second run drained the queue (%s): nothing will ever reset it", p, what))
			continue
		}
		if quickTier && p == "/leaf" && r.Status == "FRESH" {
			// the second run of the quick tier is stopped without waiting for the producer's 5 s batch: the outlink may reach the queue during the stop
			v.Notes = append(v.Notes, "outlink queued during the stop of the second run: /leaf is FRESH (not judged)")
			continue
		}
		add("row-left-after-drain:"+strings.ToLower(r.Status), fmt.Sprintf("row %s is still %s in lq.db after the second run", p, r.Status))
	}

	// not judged: an outlink lost in the producer's batch
	hubDone := false
	if _, present := at["/hub"]; !present {
		hubDone = true
	}
	if hubDone && len(served1["/leaf"]) == 0 && !requested2["/leaf"] {
		if _, queued := at["/leaf"]; !queued {
			v.Notes = append(v.Notes, "outlink lost: /hub was finished and deleted, its outlink /leaf never reached the queue (still in the producer's 5 s batch when the run ended)")
		}
	}
}

func orGone(there bool, st string) string {
	if !there {
		return "deleted"
	}
	return st
}

func kindOf(p string) string {
	switch p {
	case "/page":
		return "page-with-assets"
	case "/redir":
		return "redirect"
	case "/missing":
		return "404"
	case "/hub":
		return "page-with-outlink"
	case badRow:
		return "unparsable-value"
	}
	return "outlink"
}

// prefixes reads every prefix of every final WARC file of the undisturbed runs:
// each must yield exactly the records wholly contained in it (oracle d).
func prefixes(dir string) (evals, files int, bad *violation) {
	es, _ := os.ReadDir(dir)
	for _, e := range es {
		b, err := os.ReadFile(filepath.Join(dir, e.Name()))
		if err != nil {
			continue
		}
		full := warcread.ReadBytes(b, warcread.Options{})
		if full.Problem != nil {
			return evals, files, &violation{"final-warc-unreadable:" + full.Problem.Kind, fmt.Sprintf("%s: %v", e.Name(), full.Problem)}
		}
		files++
		boundary := map[int64]bool{0: true}
		for _, m := range full.Members {
			boundary[m.End] = true
		}
		// prefix lengths: all of them for a small file; for a large one every length in the first 16 KiB, every
		// member boundary and its neighbours, and every multiple of 4096 (the writer's buffer size)
		var lengths []int64
		if len(b) <= 64<<10 {
			for n := int64(0); n <= int64(len(b)); n++ {
				lengths = append(lengths, n)
			}
		} else {
			set := map[int64]bool{}
			for n := int64(0); n <= 16<<10; n++ {
				set[n] = true
			}
			for _, m := range full.Members {
				for _, d := range []int64{-1, 0, 1} {
					set[m.End+d] = true
				}
			}
			for n := int64(0); n <= int64(len(b)); n += 4096 {
				set[n] = true
			}
			set[int64(len(b))] = true
			for n := range set {
				if n >= 0 && n <= int64(len(b)) {
					lengths = append(lengths, n)
				}
			}
			sort.Slice(lengths, func(i, j int) bool { return lengths[i] < lengths[j] })
		}
		var mu sync.Mutex
		var wg sync.WaitGroup
		workers := runtime.NumCPU()
		for w := 0; w < workers; w++ {
			wg.Add(1)
			go func(w int) {
				defer wg.Done()
				for i := w; i < len(lengths); i += workers {
					n := lengths[i]
					want, good := 0, int64(0)
					for _, m := range full.Members {
						if m.End <= n {
							want += m.Records
							good = m.End
						}
					}
					f := warcread.ReadBytes(b[:n], warcread.Options{})
					okProblem := (f.Problem == nil) == boundary[n]
					if f.Problem != nil && (f.Problem.Kind != "truncated-member" || f.Problem.Offset != good) {
						okProblem = false
					}
					mu.Lock()
					evals++
					if (len(f.Records) != want || f.GoodUpTo != good || !okProblem) && bad == nil {
						bad = &violation{"prefix-not-readable-up-to-last-complete-record", fmt.Sprintf("%s cut to %d of %d bytes: %d records read, good up to %d, problem %v; %d records end before that offset, the last member boundary is %d", e.Name(), n, len(b), len(f.Records), f.GoodUpTo, f.Problem, want, good)}
					}
					mu.Unlock()
				}
			}(w)
		}
		wg.Wait()
	}
	return
}
