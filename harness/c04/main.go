// Harness for C04 (E4, crash enumeration): a job on the local persistent queue
// is killed (SIGKILL at the n-th hit of an instrumented point) or stopped
// gracefully (controler.Stop() at a stop moment), then started again on the same
// job directory and left to drain. Judged: the queue (lq.db) across the runs,
// the origin's request log across the runs, the WARC files left on disk.
package main

import (
	"encoding/json"
	"fmt"
	"os"
	"os/exec"
	"path/filepath"
	"sort"
	"strings"
	"syscall"
	"time"

	"github.com/internetarchive/Zeno/internal/pkg/reactor"
	"github.com/internetarchive/Zeno/internal/pkg/source/lq"
	"github.com/internetarchive/Zeno/internal/verif/lib/e2e"
	"github.com/internetarchive/Zeno/internal/verif/lib/e2e/warcread"
	"github.com/internetarchive/Zeno/internal/verif/vrt/hkit"
)

const propID = "C04"

type confDim struct {
	Workers   int  `json:"workers"`
	Seencheck bool `json:"seencheck"`
	// TempInJob: --warc-temp-dir names the job directory itself (spool files next to the queue and the WARC directory)
	TempInJob bool `json:"warc_temp_dir_is_the_job_dir,omitempty"`
	// DomainsCrawl: --domains-crawl with a pattern that matches the origin
	DomainsCrawl bool `json:"domains_crawl,omitempty"`
}

func (d confDim) name() string {
	return fmt.Sprintf("w%d seencheck=%v", d.Workers, d.Seencheck) + map[bool]string{true: " warc-temp-dir=job-dir", false: ""}[d.TempInJob] + map[bool]string{true: " domains-crawl", false: ""}[d.DomainsCrawl]
}

var confs = []confDim{{Workers: 1, Seencheck: true}, {Workers: 2, Seencheck: true}, {Workers: 1, Seencheck: false}, {Workers: 2, Seencheck: false}}

// caseSpec is one history: first run ended by a kill or a graceful stop, second run drains.
type caseSpec struct {
	Conf   confDim `json:"conf"`
	Kind   string  `json:"kind"`             // "kill" | "stop" | "pwkill" (SIGKILL at the Occ-th page write of the process, by strace)
	Key    string  `json:"key,omitempty"`    // kill: point id without its line number
	Moment string  `json:"moment,omitempty"` // stop: name of the stop moment (shared with C03 part B)
	Occ    int     `json:"occurrence"`
	Label  string  `json:"occurrence_label"` // "1", "2", "3", "last"
	// DelayUS > 0: the kill comes that many microseconds after the point, i.e. inside the library call that follows it
	DelayUS int  `json:"delay_us,omitempty"`
	Quick   bool `json:"quick_tier,omitempty"` // the second run does not wait for outlinks still in the producer's batch
	// Prelude "stopped-life": the job directory has a history: before the first run of this case an earlier life of the job
	// was started and stopped gracefully while idle (three lives in all: stopped, killed or stopped, drained)
	Prelude string `json:"prelude,omitempty"`
	PwLog   string `json:"-"` // internal: log the page writes of the first run to this file
}

func (c caseSpec) name() string {
	if c.Prelude != "" {
		c2 := c
		c2.Prelude = ""
		return "after an earlier life of the job that was stopped gracefully while idle: " + c2.name()
	}
	if c.Kind == "pwkill" {
		return fmt.Sprintf("[%s] SIGKILL at page write %d (pwrite64) of the process", c.Conf.name(), c.Occ)
	}
	if c.Kind == "kill" {
		if c.DelayUS > 0 {
			return fmt.Sprintf("[%s] SIGKILL %d us after hit %s (%d) of %s", c.Conf.name(), c.DelayUS, c.Label, c.Occ, c.Key)
		}
		return fmt.Sprintf("[%s] SIGKILL at hit %s (%d) of %s", c.Conf.name(), c.Label, c.Occ, c.Key)
	}
	return fmt.Sprintf("[%s] controler.Stop() at hit %d of moment: %s", c.Conf.name(), c.Occ, c.Moment)
}

// ---------------------------------------------------------------- site and history

// tree maps the URL path of a queue row to the paths crawled for it.
var tree = map[string][]string{
	"/page":    {"/page", "/pa1.png", "/pa2.png"},
	"/redir":   {"/redir", "/redir-target"},
	"/missing": {"/missing"},
	"/hub":     {"/hub"},
	"/leaf":    {"/leaf"},
	badRow:     nil,
}

// badRow: a queue value that does not parse (an invalid escape; the producer stores outlink texts as they were found):
// the consumer hands it to the finisher at once. It is the first row, so that everything else is consumed after it.
const badRow = "/%zz"

var preloaded = []string{badRow, "/page", "/redir", "/missing", "/hub"}

func png(tag string, n int) []byte {
	b := append([]byte("\x89PNG\r\n\x1a\n\x00\x00\x00\rIHDR"), tag...)
	for len(b) < n {
		b = append(b, byte(len(b)*7), byte(len(b)>>3))
	}
	return b[:n]
}

func noise(tag string, n int) []byte {
	b := append([]byte("\x89PNG\r\n\x1a\n\x00\x00\x00\rIHDR"), tag...)
	x := uint64(88172645463325252)
	for len(b) < n {
		x ^= x << 13
		x ^= x >> 7
		x ^= x << 17
		b = append(b, byte(x), byte(x>>8), byte(x>>16), byte(x>>24), byte(x>>32), byte(x>>40), byte(x>>48), byte(x>>56))
	}
	return b[:n]
}

func site(o *e2e.Origin, hold *e2e.Hold) []e2e.LQRow {
	html := [][2]string{{"Content-Type", "text/html; charset=utf-8"}}
	img := [][2]string{{"Content-Type", "image/png"}}
	o.Handle("/page", e2e.Resp{Status: 200, Header: html, Entity: e2e.HTMLPage("page", []string{"/pa1.png", "/pa2.png"}, nil)})
	pa1 := e2e.Resp{Status: 200, Header: img, Entity: png("pa1", 4000), Chunked: true}
	if hold != nil {
		pa1.Hold, pa1.HoldAt = hold, 1000
	}
	o.Handle("/pa1.png", pa1)
	// a large incompressible asset: the WARC writer needs tens of milliseconds for its record, far longer than
	// the finish -> delete path of the queue, so "finished => captured" is decided by the archiver's wait and not by luck
	o.Handle("/pa2.png", e2e.Resp{Status: 200, Header: img, Entity: noise("pa2", 2<<20)})
	o.Handle("/redir", e2e.Resp{Status: 301, Header: [][2]string{{"Location", "/redir-target"}, {"Content-Type", "text/plain"}}, Entity: []byte("moved\n")})
	o.Handle("/redir-target", e2e.Resp{Status: 200, Header: html, Entity: e2e.HTMLPage("redirect target", nil, nil)})
	o.Handle("/missing", e2e.Resp{Status: 404, Header: [][2]string{{"Content-Type", "text/plain"}}, Entity: []byte("not here\n")})
	o.Handle("/hub", e2e.Resp{Status: 200, Header: html, Entity: e2e.HTMLPage("hub", nil, []string{"/leaf"})})
	o.Handle("/leaf", e2e.Resp{Status: 200, Header: html, Entity: e2e.HTMLPage("leaf", nil, nil)})
	var rows []e2e.LQRow
	for i, p := range preloaded {
		rows = append(rows, e2e.LQRow{ID: fmt.Sprintf("row-%d%s", i+1, strings.ReplaceAll(p, "/", "-")), Value: o.URL(p)})
	}
	return rows
}

func conf(d confDim) e2e.Conf {
	c := e2e.Conf{Job: "c04", Workers: d.Workers, MaxConcurrentAssets: 1, MaxHops: 1, MaxRetry: 1, WARCPoolSize: 1, DisableSeencheck: !d.Seencheck}
	if d.TempInJob {
		c.WARCTempDir = "jobs/c04"
	}
	if d.DomainsCrawl {
		c.DomainsCrawl = []string{`^http://127\.0\.0\.2:`}
	}
	return c
}

// ---------------------------------------------------------------- one history

type rowState struct {
	Path   string `json:"path"`
	ID     string `json:"id"`
	Status string `json:"status"`
}

type violation struct {
	Sig    string `json:"sig"`
	Detail string `json:"detail"`
}

type verdict struct {
	Case        string           `json:"case"`
	Fired       bool             `json:"fired"` // the kill / stop happened at the enumerated point
	Run1        string           `json:"run1"`  // how the first run ended
	AtInstant   []rowState       `json:"rows_at_the_instant"`
	Seen        []string         `json:"seen_at_the_instant,omitempty"`
	AfterRun2   []rowState       `json:"rows_after_run2"`
	Finishes1   int              `json:"finish_messages_run1"`
	Served1     []string         `json:"served_run1"`
	Served2     []string         `json:"served_run2"`
	Records1    int              `json:"complete_records_at_the_instant"`
	TornTail    string           `json:"torn_tail,omitempty"`
	Notes       []string         `json:"notes,omitempty"`
	Violations  []violation      `json:"violations,omitempty"`
	Hang        bool             `json:"hang,omitempty"`
	WallS       float64          `json:"wall_s"`
	Hits        map[string]int64 `json:"hits,omitempty"` // profile runs only
	HitsPreStop map[string]int64 `json:"hits_prestop,omitempty"`
	FinalWARCs  []string         `json:"-"`
}

func pathOf(o *e2e.Origin, u string) string { return strings.TrimPrefix(u, "http://"+o.Addr()) }

func rowStates(o *e2e.Origin, rows []e2e.LQRow) []rowState {
	var out []rowState
	for _, r := range rows {
		out = append(out, rowState{pathOf(o, r.Value), r.ID, r.Status})
	}
	sort.Slice(out, func(i, j int) bool { return out[i].Path < out[j].Path })
	return out
}

func served(o *e2e.Origin, log []e2e.Exchange) []string {
	var out []string
	for _, e := range log {
		s := fmt.Sprintf("%s=%d", e.Path, e.Status)
		if !e.Sent {
			s += "(cut)"
		}
		out = append(out, s)
	}
	return out
}

func waitEvent(dir, what string, d time.Duration) bool {
	end := time.Now().Add(d)
	for time.Now().Before(end) {
		if b, err := os.ReadFile(filepath.Join(dir, "events.log")); err == nil && strings.Contains(string(b), what) {
			return true
		}
		time.Sleep(20 * time.Millisecond)
	}
	return false
}

// runHistory runs one case. profile: no trigger, first run drains, hits are returned, final WARC files are kept in keepDir.
func runHistory(cs caseSpec, profile bool, keepDir string) (v verdict) {
	v = verdict{Case: cs.name()}
	t0 := time.Now()
	defer func() { v.WallS = time.Since(t0).Seconds() }()
	o, err := e2e.NewOrigin("127.0.0.2")
	if err != nil {
		hkit.EngineError("origin: %v", err)
	}
	defer o.Close()
	var m *e2e.Moment
	var hold *e2e.Hold
	if cs.Kind == "stop" {
		if m = e2e.MomentByName(cs.Moment); m == nil {
			hkit.EngineError("unknown moment %q", cs.Moment)
		}
		if m.Hold != "" {
			hold = e2e.NewHold()
			defer hold.Release()
		}
	}
	rows := site(o, hold)
	dir, err := e2e.Scratch("c04")
	if err != nil {
		hkit.EngineError("%v", err)
	}
	defer func() {
		if d := os.Getenv("E2E_DEBUG_DIR"); d != "" && (len(v.Violations) > 0 || os.Getenv("E2E_DEBUG_ALL") != "") {
			os.MkdirAll(d, 0o755)
			exec.Command("cp", "-r", dir, d).Run()
		}
		os.RemoveAll(dir)
	}()
	c := conf(cs.Conf)
	if err := e2e.PreloadLQ(dir, c.Job, rows); err != nil {
		hkit.EngineError("preload: %v", err)
	}
	// ---- an earlier life of the same job, stopped gracefully
	if cs.Prelude == "stopped-life" {
		idle := e2e.MomentByName("idle: preprocessor worker waits for its first seed")
		spec0 := &e2e.ChildSpec{Dir: dir, Conf: c, Mode: "drain", Quiesce: true, DeadlineS: 50,
			Triggers: []e2e.Trigger{{Name: "end", Match: idle.Match, N: 1, Do: []string{"stop"}}}}
		r0, err := e2e.RunChild(spec0, e2e.RunHooks{})
		if err != nil {
			hkit.EngineError("child: %v", err)
		}
		if r0.Panic != "" || r0.TimedOut || r0.ExitCode != 0 || !r0.Fired("end") {
			v.Notes = append(v.Notes, fmt.Sprintf("the earlier life did not end as planned: fired=%v exit=%d signal=%s timed-out=%v %s", r0.Fired("end"), r0.ExitCode, r0.Signal, r0.TimedOut, r0.Panic))
		}
	}
	// ---- first run
	spec := &e2e.ChildSpec{Dir: dir, Conf: c, Mode: "drain", Quiesce: true, DeadlineS: 50, Profile: profile}
	hooks := e2e.RunHooks{}
	sentByParent := make(chan bool, 1)
	spec.PwriteLog = cs.PwLog
	switch {
	case profile:
	case cs.Kind == "pwkill":
		spec.KillAtPwrite = cs.Occ
	case cs.Kind == "kill":
		do := "sigkill"
		if cs.DelayUS > 0 {
			do = fmt.Sprintf("sigkill-after:%d", cs.DelayUS)
		}
		spec.Triggers = []e2e.Trigger{{Name: "end", Key: cs.Key, N: cs.Occ, Do: []string{do}}}
	case hold != nil:
		hooks.Started = func(pid int, signal func(syscall.Signal)) {
			go func() {
				select {
				case <-hold.Reached():
				case <-time.After(e2e.Watchdog):
					sentByParent <- false
					return
				}
				signal(syscall.SIGUSR1)
				sentByParent <- true
				waitEvent(dir, "stop-begun", 10*time.Second)
				time.Sleep(300 * time.Millisecond)
				hold.Release()
			}()
		}
	case m.Match != nil:
		if m.PauseAt != nil {
			spec.Triggers = append(spec.Triggers, e2e.Trigger{Name: "pause", Match: m.PauseAt, N: 1, Do: []string{"pause"}})
		}
		spec.Triggers = append(spec.Triggers, e2e.Trigger{Name: "end", Match: m.Match, N: cs.Occ, Do: append(append([]string{}, m.Pre...), "stop")})
	default:
		// drained: the run stops by itself once the queue is empty
	}
	r1, err := e2e.RunChild(spec, hooks)
	if err != nil {
		hkit.EngineError("child: %v", err)
	}
	switch {
	case cs.Kind == "pwkill":
		v.Fired = r1.Signal != "" || r1.ExitCode == 137
	case hold != nil:
		select {
		case v.Fired = <-sentByParent:
		default:
		}
	case cs.Kind == "stop" && m.Match == nil:
		v.Fired = r1.HasEvent("work: drained")
	default:
		v.Fired = r1.Fired("end")
	}
	v.Run1 = fmt.Sprintf("exit=%d signal=%s", r1.ExitCode, r1.Signal)
	if r1.TimedOut {
		v.Run1 += " (ended by the watchdog)"
		v.Hang = true
	}
	if r1.Panic != "" {
		v.Violations = append(v.Violations, violation{"first-run-panics:" + norm(r1.Panic), fmt.Sprintf("the first run crashed: %s ... %s", r1.Panic, tail(r1.Stderr, 1500))})
	} else if cs.Kind == "stop" && (r1.ExitCode != 0 || r1.TimedOut) {
		v.Notes = append(v.Notes, "the graceful stop of the first run did not end with exit status 0 (C03's business): "+v.Run1)
	}
	if profile {
		v.Hits = e2e.ReadHits(filepath.Join(dir, "hits.json"))
		v.HitsPreStop = e2e.ReadHits(filepath.Join(dir, "hits-prestop.json"))
	}
	// ---- the instant: what a process opening the job would find
	log1 := o.Log()
	v.Served1 = served(o, log1)
	rows1, err := e2e.ReadLQ(dir, c.Job)
	if err != nil {
		if os.IsNotExist(err) {
			rows1 = nil // killed before the adapter created the table... cannot happen: the harness created it
		}
		if cs.Kind == "pwkill" {
			v.Violations = append(v.Violations, violation{"queue-database-unreadable-after-kill", fmt.Sprintf("lq.db cannot be read after the kill: %v", err)})
			return v
		}
		if _, serr := os.Stat(filepath.Join(dir, "jobs", c.Job, "lq.db")); os.IsNotExist(serr) {
			// the harness created the queue database before the run: it is gone, and every unfinished seed with it
			v.Violations = append(v.Violations, violation{"queue-database-gone-after-the-first-run", fmt.Sprintf("lq.db (pre-loaded before the first run) does not exist after it: no unfinished seed can be resumed (%v)", err)})
			return v
		}
		hkit.EngineError("reading lq.db after the first run: %v", err)
	}
	v.AtInstant = rowStates(o, rows1)
	var urls []string
	for _, ps := range tree {
		for _, p := range ps {
			urls = append(urls, o.URL(p))
		}
	}
	seen1 := map[string]string{}
	if cs.Conf.Seencheck {
		seen1, err = e2e.ReadSeen(dir, c.Job, urls)
		if err != nil {
			v.Notes = append(v.Notes, "the seencheck store of the killed run could not be read: "+err.Error())
			seen1 = map[string]string{}
		}
		for u, t := range seen1 {
			v.Seen = append(v.Seen, pathOf(o, u)+"="+t)
		}
		sort.Strings(v.Seen)
	}
	wd := filepath.Join(dir, "jobs", c.Job, "warcs")
	var files1 []*warcread.File
	es, _ := os.ReadDir(wd)
	for _, e := range es {
		f, err := warcread.ReadFile(filepath.Join(wd, e.Name()), -1, warcread.Options{})
		if err != nil {
			hkit.EngineError("%v", err)
		}
		files1 = append(files1, f)
		v.Records1 += len(f.Records)
		if f.Problem != nil {
			if f.Problem.Kind == "truncated-member" {
				v.TornTail = fmt.Sprintf("%s: %v", e.Name(), f.Problem)
			} else {
				v.Violations = append(v.Violations, violation{"warc-unreadable-before-its-tail:" + f.Problem.Kind, fmt.Sprintf("%s (%d bytes) left by the first run: %v; %d complete records before it", e.Name(), f.Size, f.Problem, len(f.Records))})
			}
		}
		if keepDir != "" {
			b, _ := os.ReadFile(filepath.Join(wd, e.Name()))
			os.WriteFile(filepath.Join(keepDir, cs.Conf.name()+"-"+e.Name()), b, 0o644)
		}
	}
	if profile {
		return v
	}
	// ---- second run on the same job directory
	// Rows the first run left CLAIMED are handed out again by the second run (the queue resets them when it
	// is opened), so the second run is quiescent only with no CLAIMED row at all. (Before that repair the
	// harness tolerated as many CLAIMED rows as the first run had left; with rows being reset that tolerance
	// let the second run be stopped while the outlink of /hub was still in flight - a false alarm of the
	// thorough tier, see DESIGN 0.3a.) On a tree that strands such rows the second run now ends at its
	// deadline and oracle (c) reports them.
	stale := 0
	hold.ReleaseIfSet()
	spec2 := &e2e.ChildSpec{Dir: dir, Conf: c, Mode: "drain", Quiesce: true, IgnoreOutlinks: cs.Quick, StaleClaimed: stale, DeadlineS: 60, WatchdogS: 90}
	r2, err := e2e.RunChild(spec2, e2e.RunHooks{})
	if err != nil {
		hkit.EngineError("child: %v", err)
	}
	log2 := o.Log()[len(log1):]
	v.Served2 = served(o, log2)
	if r2.TimedOut {
		v.Hang = true
		v.Violations = append(v.Violations, violation{"restart-hangs", fmt.Sprintf("the second run was still running after 90 s; events: %v", r2.Events)})
		return v
	}
	if r2.Panic != "" || r2.ExitCode != 0 {
		sig := "restart-fails:" + norm(r2.Panic)
		if strings.Contains(r2.Stderr, "MANIFEST") || strings.Contains(e2e.LogTail(dir, c.Job, 4000), "unable to start seencheck") {
			sig = "restart-fails:seencheck-store-does-not-open"
		}
		v.Violations = append(v.Violations, violation{sig, fmt.Sprintf("the second run on the same job directory ended with exit=%d signal=%s: %s ... %s", r2.ExitCode, r2.Signal, r2.Panic, tail(r2.Stderr, 1500))})
		return v
	}
	if r2.HasEvent("work: drain-deadline") {
		v.Notes = append(v.Notes, "the second run was not quiescent after 60 s and was stopped then")
	}
	rows2, err := e2e.ReadLQ(dir, c.Job)
	if err != nil {
		if cs.Kind == "pwkill" {
			v.Violations = append(v.Violations, violation{"queue-database-unreadable-after-restart", fmt.Sprintf("lq.db cannot be read after the second run: %v", err)})
			return v
		}
		hkit.EngineError("reading lq.db after the second run: %v", err)
	}
	if cs.Kind == "pwkill" {
		if res, err := e2e.CheckLQ(dir, c.Job); err == nil && res != "ok" {
			v.Violations = append(v.Violations, violation{"queue-database-damaged", fmt.Sprintf("after the kill and the second run SQLite's integrity check of lq.db says: %s", res)})
		}
	}
	v.AfterRun2 = rowStates(o, rows2)
	finishes1 := 0
	for _, e := range r1.Events {
		if strings.Contains(e, " finish-message ") {
			finishes1++
		}
	}
	v.Finishes1 = finishes1
	judge(&v, cs.Quick, o, log1, log2, rows1, rows2, seen1, files1)
	return v
}

func tail(s string, n int) string {
	if len(s) > n {
		return s[len(s)-n:]
	}
	return s
}

func norm(p string) string {
	p = strings.TrimPrefix(p, "panic: ")
	if i := strings.Index(p, "0x"); i > 0 {
		p = p[:i]
	}
	if len(p) > 80 {
		p = p[:80]
	}
	return strings.NewReplacer(" ", "-").Replace(strings.TrimSpace(p))
}

// ---------------------------------------------------------------- case list

// interesting reports whether a profiled point belongs to the packages the property names.
func interesting(key string) bool {
	if strings.Contains(key, "zz_verif") {
		return false
	}
	for _, p := range []string{"internal/pkg/source/lq/", "internal/pkg/reactor/", "internal/pkg/finisher/", "internal/pkg/archiver/archiver.go", "internal/pkg/archiver/warc.go", "internal/pkg/postprocessor/postprocessor.go"} {
		if strings.Contains(key, p) {
			return true
		}
	}
	return false
}

// libraryCall reports whether a point is a call into SQLite / LevelDB (a kill shortly after it lands inside the library).
func libraryCall(key string) bool {
	return strings.Contains(key, " call ") && (strings.Contains(key, "source/lq/client.go") || strings.Contains(key, "seencheck/seencheck.go"))
}

func buildCases(tier string, profiles, preStop map[string]map[string]int64) []caseSpec {
	var out []caseSpec
	quick := tier != "thorough"
	// kill points
	keySet := map[string]bool{}
	for _, p := range profiles {
		for k := range p {
			if interesting(k) {
				keySet[k] = true
			}
		}
	}
	keys := hkit.SortedKeys(keySet)
	i, stopPhase := 0, 0
	for _, k := range keys {
		if quick {
			// a point that is only reached by the stop sequence of a drained run ends a finished crawl: one in eight of them
			only := true
			for _, d := range confs {
				if preStop[d.name()][k] > 0 {
					only = false
				}
			}
			if only {
				stopPhase++
				if stopPhase%8 != 1 {
					continue
				}
			}
		}
		for ci, d := range confs {
			n := profiles[d.name()][k]
			if n == 0 {
				continue
			}
			if quick {
				// quick: the first occurrence of each point, configurations taken in rotation
				if ci != i%len(confs) {
					continue
				}
				out = append(out, caseSpec{Conf: d, Kind: "kill", Key: k, Occ: 1, Label: "1", Quick: true})
				continue
			}
			for occ := int64(1); occ <= 3 && occ <= n; occ++ {
				out = append(out, caseSpec{Conf: d, Kind: "kill", Key: k, Occ: int(occ), Label: fmt.Sprint(occ)})
			}
			if n > 3 {
				out = append(out, caseSpec{Conf: d, Kind: "kill", Key: k, Occ: int(n), Label: "last"})
			}
		}
		i++
	}
	// kills inside the library calls of the queue and the seencheck store: a sweep of delays after the point
	for _, d := range confs {
		for _, k := range hkit.SortedKeys(profiles[d.name()]) {
			if !libraryCall(k) {
				continue
			}
			if quick && !(strings.Contains(k, "leveldb.NewStore") && d.Workers == 1) {
				continue
			}
			for _, us := range []int{20, 100, 500, 2500} {
				out = append(out, caseSpec{Conf: d, Kind: "kill", Key: k, Occ: 1, Label: "1", DelayUS: us, Quick: quick})
			}
		}
	}
	// graceful stop moments (the list of C03 part B)
	j := 0
	for i := range e2e.StopMoments {
		m := &e2e.StopMoments[i]
		if m.Early || m.Hold != "" && m.Hold != "release" {
			continue
		}
		for ci, d := range confs {
			if m.Needs == "seencheck" && !d.Seencheck {
				continue
			}
			if quick && ci != j%len(confs) {
				continue
			}
			out = append(out, caseSpec{Conf: d, Kind: "stop", Moment: m.Name, Occ: 1, Label: "1", Quick: quick})
			if tier == "thorough" && m.Match != nil {
				out = append(out, caseSpec{Conf: d, Kind: "stop", Moment: m.Name, Occ: 2, Label: "2"})
			}
		}
		j++
	}
	// a job directory with a history: an earlier life of the job, stopped gracefully while idle, then the kill or the stop
	lives := 0
	for _, k := range keys {
		if !(strings.Contains(k, "archiver/archiver.go") && strings.Contains(k, "send guard") || strings.Contains(k, "reactor/reactor.go") && strings.Contains(k, "send r.output") ||
			strings.Contains(k, "finisher/finisher.go") && strings.Contains(k, "send f.sourceFinishedCh")) {
			continue
		}
		for _, d := range []confDim{{Workers: 2, Seencheck: true}, {Workers: 1, Seencheck: false}} {
			if profiles[d.name()][k] == 0 || quick && lives%2 != d.Workers%2 {
				continue
			}
			out = append(out, caseSpec{Conf: d, Kind: "kill", Key: k, Occ: 1, Label: "1", Quick: quick, Prelude: "stopped-life"})
		}
		lives++
	}
	for _, mn := range []string{"archiver takes an item (before client.Do)", "finisher after MarkAsFinished, before the finish message"} {
		out = append(out, caseSpec{Conf: confDim{Workers: 2, Seencheck: true}, Kind: "stop", Moment: mn, Occ: 1, Label: "1", Quick: quick, Prelude: "stopped-life"})
	}
	// the operator's --warc-temp-dir is the job directory itself: what a graceful stop clears away must be spool files only
	for _, mn := range []string{e2e.DrainedMoment, "finisher after MarkAsFinished, before the finish message", "archiver takes an item (before client.Do)"} {
		out = append(out, caseSpec{Conf: confDim{Workers: 1, Seencheck: false, TempInJob: true}, Kind: "stop", Moment: mn, Occ: 1, Label: "1", Quick: quick})
	}
	// --domains-crawl (with the seen-store switched off by the operator): what a stop drops in flight is crawled again
	for _, mn := range []string{"archiver takes an item (before client.Do)", "mid-fetch: the origin holds the response open, released after the stop has begun"} {
		out = append(out, caseSpec{Conf: confDim{Workers: 1, Seencheck: false, DomainsCrawl: true}, Kind: "stop", Moment: mn, Occ: 1, Label: "1", Quick: quick})
	}
	return out
}

// pwriteCases: a SIGKILL at every page write (pwrite64: SQLite's writes to lq.db and to its rollback journal) of an
// undisturbed first run - the kill points BETWEEN the writes of one commit, which no Go-level point reaches. The
// number of writes is measured on the tree under test by one logged run per configuration.
var pwriteNote string

func pwKillSummary(cs []caseSpec) string {
	if pwriteNote != "" {
		return pwriteNote
	}
	n := 0
	for _, c := range cs {
		if c.Kind == "pwkill" {
			n++
		}
	}
	return fmt.Sprintf("%d histories with a SIGKILL at the n-th pwrite64 of the first run (strace fault injection)", n)
}

func pwriteCases(tier string) []caseSpec {
	if _, err := exec.LookPath("strace"); err != nil {
		pwriteNote = "page-write kills NOT run: strace is not installed"
		return nil
	}
	var out []caseSpec
	ds := confs[:1]
	if tier == "thorough" {
		ds = confs
	}
	for _, d := range ds {
		logf := filepath.Join(os.Getenv("VERIF_TMP"), "c04-pwrites-"+strings.ReplaceAll(d.name(), " ", "_")+".log")
		v := runHistory(caseSpec{Conf: d, Kind: "stop", Moment: e2e.DrainedMoment, Occ: 1, PwLog: logf}, false, "")
		b, err := os.ReadFile(logf)
		n := strings.Count(string(b), "pwrite64(")
		if err != nil || n == 0 {
			// strace is installed but cannot trace here (no ptrace permission): this dimension is not run, and says so
			pwriteNote = fmt.Sprintf("page-write kills NOT run: strace could not trace the child (%v; %d page writes logged)", err, n)
			return nil
		}
		if len(v.Violations) > 0 {
			// the undisturbed history is itself a violation: the stop histories (same moment, same configuration)
			// report it; killing at the page writes of such a run would only repeat it
			pwriteNote = fmt.Sprintf("page-write kills NOT run for %s: its undisturbed history already violates the property (%s), see the stop histories", d.name(), v.Violations[0].Sig)
			continue
		}
		if tier != "thorough" && n > 64 {
			n = 64 // quick: the start-up reset, the first claims and the first deletes; thorough: every write of every configuration
		}
		for k := 1; k <= n; k++ {
			out = append(out, caseSpec{Conf: d, Kind: "pwkill", Occ: k, Label: fmt.Sprint(k), Quick: tier != "thorough"})
		}
	}
	return out
}

func aggregate(hits map[string]int64) map[string]int64 {
	out := map[string]int64{}
	for k, n := range hits {
		out[e2e.PointKey(k)] += n
	}
	return out
}

// ---------------------------------------------------------------- main

type caseFile struct {
	Cases    []caseSpec                  `json:"cases"`
	Profiles map[string]map[string]int64 `json:"profiles"`
	PreStop  map[string]map[string]int64 `json:"profiles_before_the_stop"`
}

func main() {
	// the child reads the queue through Zeno's own connection and the reactor's table to know when the queue is drained
	e2e.QueueState = lq.VerifQueueState
	e2e.ReactorTracked = reactor.VerifTracked
	if e2e.IsChild() {
		e2e.ChildMain()
	}
	a := hkit.ParseArgs()
	if a.Replay != "" {
		replay(a.Replay)
		return
	}
	var cf caseFile
	prefixEvals, prefixFiles := 0, 0
	var prefixViolation *violation
	if a.Of > 1 {
		// worker process: the parent already fixed the case list
		b, err := os.ReadFile(os.Getenv("C04_CASES"))
		if err != nil {
			hkit.EngineError("case list: %v", err)
		}
		if err := json.Unmarshal(b, &cf); err != nil {
			hkit.EngineError("case list: %v", err)
		}
	} else {
		// profile runs: one undisturbed history per configuration (in parallel)
		keep, err := e2e.Scratch("c04-final-warcs")
		if err != nil {
			hkit.EngineError("%v", err)
		}
		cf.Profiles, cf.PreStop = map[string]map[string]int64{}, map[string]map[string]int64{}
		type pr struct {
			d confDim
			v verdict
		}
		ch := make(chan pr, len(confs))
		for _, d := range confs {
			go func(d confDim) {
				ch <- pr{d, runHistory(caseSpec{Conf: d, Kind: "stop", Moment: e2e.DrainedMoment, Occ: 1}, true, keep)}
			}(d)
		}
		for range confs {
			p := <-ch
			if len(p.v.Violations) > 0 || len(p.v.AtInstant) > 0 || len(p.v.Hits) == 0 {
				hkit.EngineError("the undisturbed history of %s is not clean: %+v", p.d.name(), p.v)
			}
			cf.Profiles[p.d.name()] = aggregate(p.v.Hits)
			cf.PreStop[p.d.name()] = aggregate(p.v.HitsPreStop)
		}
		// (d) every prefix of the final WARC files of the undisturbed runs
		prefixEvals, prefixFiles, prefixViolation = prefixes(keep)
		os.RemoveAll(keep)
		cf.Cases = buildCases(a.Tier, cf.Profiles, cf.PreStop)
		cf.Cases = append(cf.Cases, pwriteCases(a.Tier)...)
		if f, ok := a.Extra["only"]; ok {
			var keepc []caseSpec
			for _, c := range cf.Cases {
				if strings.Contains(c.name(), f) {
					keepc = append(keepc, c)
				}
			}
			cf.Cases = keepc
		}
		b, _ := json.Marshal(cf)
		p := filepath.Join(os.Getenv("VERIF_TMP"), "c04-cases.json")
		if err := os.WriteFile(p, b, 0o644); err != nil {
			hkit.EngineError("%v", err)
		}
		os.Setenv("C04_CASES", p)
		if _, ok := a.Extra["list"]; ok {
			for _, c := range cf.Cases {
				fmt.Println(c.name())
			}
			return
		}
	}
	cs := cf.Cases
	res := hkit.Jobs(a, len(cs), func(j int) any { return runHistory(cs[j], false, "") })
	var (
		fired, vacuous int
		reported       = map[string]bool{}
		sigCount       = map[string]int{}
		samples        []any
		distinct       = map[string]bool{}
		kills, stops   int
		hangsDismissed int
		notes          = map[string]int{}
		walls          []any
	)
	if prefixViolation != nil {
		hkit.Report(propID, prefixViolation.Sig, map[string]any{"engine": "e2e", "harness": "c04", "prefix": prefixViolation}, prefixViolation.Detail)
	}
	for j, b := range res {
		var v verdict
		if err := json.Unmarshal(b, &v); err != nil {
			hkit.EngineError("%v", err)
		}
		if v.Hang {
			// believed only when it happens again, alone
			again := 0
			var w verdict
			for k := 0; k < 2; k++ {
				if w = runHistory(cs[j], false, ""); w.Hang {
					again++
				}
			}
			if again == 0 {
				hangsDismissed++
				fmt.Printf("note: %s: a run hit the watchdog once under load, not again in 2 re-runs alone; the re-run is judged\n", v.Case)
				v = w
			}
		}
		if cs[j].Kind == "kill" || cs[j].Kind == "pwkill" {
			kills++
		} else {
			stops++
		}
		if v.Fired {
			fired++
			key := cs[j].Kind + "|" + cs[j].Key + cs[j].Moment + "|" + strings.Join(statuses(v.AtInstant), ",")
			distinct[key] = true
		} else {
			vacuous++
		}
		for _, n := range v.Notes {
			notes[strings.SplitN(n, ":", 2)[0]]++
		}
		walls = append(walls, map[string]any{"history": v.Case, "wall_s": v.WallS, "fired": v.Fired})
		if len(samples) < 3 && v.Fired && j%11 == 3 {
			samples = append(samples, v)
		}
		for _, vi := range v.Violations {
			sigCount[vi.Sig]++
			if reported[vi.Sig] {
				continue
			}
			reported[vi.Sig] = true
			hkit.Report(propID, vi.Sig, map[string]any{"engine": "e2e", "harness": "c04", "case": cs[j], "violation": vi, "verdict": v}, fmt.Sprintf("%s: %s", v.Case, vi.Detail))
		}
	}
	if len(samples) == 0 {
		samples = append(samples, map[string]any{"cases": len(cs)})
	}
	hkit.Evidence(propID, a.Tier, "fault_enumeration", map[string]any{
		"evaluations": len(cs) + prefixEvals, "distinct_nontrivial": len(distinct),
		"rule":    "one evaluation = one history (first run ended by SIGKILL at the n-th hit of a point, or by controler.Stop() at a stop moment; second run drains the same job directory) or one prefix of a final WARC file; non-trivial = the kill/stop happened at the enumerated point; distinct = distinct (point or moment, queue contents at the instant)",
		"samples": samples, "exhaustive": true, "histories": len(cs), "kill_histories": kills, "stop_histories": stops, "ended_at_the_enumerated_point": fired,
		"point_not_reached_run_drained": vacuous, "warc_prefixes_read": prefixEvals, "warc_files_prefixed": prefixFiles, "violations_by_signature": sigCount,
		"hangs_not_reproduced": hangsDismissed, "notes": notes, "page_write_kills": pwKillSummary(cf.Cases), "profiled_points": profileSizes(cf.Profiles), "per_history": walls,
		"explanation": "history: lq.db pre-loaded with five FRESH rows (a value that does not parse, first; page + 2 assets; redirect -> page; 404; page with one outlink, max-hops 1); configurations workers {1,2} x seencheck {on,off}; oracle (a) lq.db is empty after the second run, (b) every row absent at the instant was requested and has complete records for every response served for it in the files on disk at that instant (.open included), (c) every row present at the instant is requested again in the second run, (d) every prefix of a final WARC file yields exactly the records wholly contained in it",
	}, []string{
		"kill points are Zeno's synchronisation points and external calls (instrumented), not every machine instruction, and not points inside the WARC library (its output is covered by the prefix enumeration); the process is killed, the page cache survives (no power loss)",
		"goroutine schedules inside the children are whatever the OS gives",
		"an outlink that is still in the producer's 5 s batch when the run ends was never in the queue; its loss is noted, not judged (C15)",
	}, hkit.Violations())
	fmt.Printf("C04 %s: %d histories (%d kill, %d stop), ended at the enumerated point in %d, %d WARC prefixes read; violations by signature: %v\n", a.Tier, len(cs), kills, stops, fired, prefixEvals, sigCount)
	hkit.Exit()
}

func statuses(rs []rowState) []string {
	var out []string
	for _, r := range rs {
		out = append(out, r.Path+"="+r.Status)
	}
	return out
}

func profileSizes(p map[string]map[string]int64) map[string]int {
	out := map[string]int{}
	for k, m := range p {
		n := 0
		for key := range m {
			if interesting(key) {
				n++
			}
		}
		out[k] = n
	}
	return out
}

func replay(path string) {
	b, err := os.ReadFile(path)
	if err != nil {
		hkit.EngineError("%v", err)
	}
	var r struct {
		Case      caseSpec  `json:"case"`
		Violation violation `json:"violation"`
	}
	if err := json.Unmarshal(b, &r); err != nil {
		hkit.EngineError("%v", err)
	}
	v := runHistory(r.Case, false, "")
	out, _ := json.MarshalIndent(v, "", " ")
	fmt.Println(string(out))
	if len(v.Violations) == 0 {
		fmt.Println("replay: no violation")
		os.Exit(0)
	}
	for _, vi := range v.Violations {
		fmt.Printf("replay: [sig=%s] %s\n", vi.Sig, vi.Detail)
	}
	fmt.Printf("VIOLATION property=%s replay=%s\n", propID, path)
	os.Exit(1)
}
