package main

// The code under test: one server response driven through the real Zeno path
//
//	archiver.ProcessBody -> postprocessor.postprocessItem (dispatch, every extractor)
//	-> preprocessor.NormalizeURL + URL.String + http.NewRequest for every child and outlink
//
// exactly in the order, and with the same guards, as archiver.archive, postprocessor.postprocess
// and preprocessor.preprocess apply them.

import (
	"bytes"
	"fmt"
	"io"
	"log/slog"
	"net/http"
	"regexp"
	"runtime/debug"
	"strings"

	"github.com/internetarchive/Zeno/internal/pkg/archiver"
	"github.com/internetarchive/Zeno/internal/pkg/config"
	"github.com/internetarchive/Zeno/internal/pkg/postprocessor"
	"github.com/internetarchive/Zeno/internal/pkg/postprocessor/domainscrawl"
	"github.com/internetarchive/Zeno/internal/pkg/preprocessor"
	"github.com/internetarchive/Zeno/pkg/models"
)

// A profile is everything that selects an extractor and is not the body: the URL of the
// item being crawled and the Content-Type / Server response headers.
type profile struct {
	URL, CT, Server string
}

var profiles = map[string]profile{
	"html":        {"http://site.example/dir/page", "text/html; charset=utf-8", ""},
	"json":        {"http://site.example/dir/page", "application/json", ""},
	"xml":         {"http://site.example/dir/page", "text/xml", ""},
	"s3":          {"http://bucket.example/?prefix=a", "application/xml", "AmazonS3"},
	"s3v2":        {"http://bucket.example/?list-type=2", "application/xml", "AmazonS3"},
	"m3u8":        {"http://site.example/dir/list.m3u8", "application/vnd.apple.mpegurl", ""},
	"pdf":         {"http://site.example/dir/doc.pdf", "application/pdf", ""},
	"text":        {"http://site.example/dir/page", "text/plain", ""},
	"none":        {"http://site.example/dir/page", "", ""}, // sniffed MIME type only
	"ina":         {"https://apipartner.ina.fr/assets/x", "application/json", ""},
	"ts-status":   {"https://truthsocial.com/api/v1/statuses/123", "application/json", ""},
	"ts-post":     {"https://truthsocial.com/@user/posts/123", "text/html", ""},
	"ts-lookup":   {"https://truthsocial.com/api/v1/accounts/lookup?acct=abc", "application/json", ""},
	"reddit-api":  {"https://www.reddit.com/api/info.json?id=t3_abc", "application/json", ""},
	"reddit-html": {"https://www.reddit.com/r/x/", "text/html", ""},
}

// Case is one server answer. Everything in it is under the control of the remote server,
// except Profile.URL (which URL Zeno was asked to crawl).
type Case struct {
	Space    string `json:"space"`   // enumeration that produced it
	Desc     string `json:"desc"`    // how it was built (tokens / mutation)
	Profile  string `json:"profile"` // key of profiles
	Status   int    `json:"status"`
	Body     []byte `json:"body"` // base64 in JSON
	Link     string `json:"link,omitempty"`
	Location string `json:"location,omitempty"`
	// Conf: the operator's configuration the answer meets: "" = the default one (see setup); "dc" = --domains-crawl
	// active with a domain, a URL and a regular expression (every URL the server names is matched against them);
	// "dac" = --disable-assets-capture
	Conf string `json:"conf,omitempty"`
}

// Outcome of one case. Kind "ok" covers every tolerated behaviour (errors, fewer links).
type Outcome struct {
	Kind       string `json:"kind"` // ok | panic | fatal | hang
	Class      string `json:"class,omitempty"`
	Reached    bool   `json:"reached,omitempty"`    // the extractor dispatch ran on a kept body, or a redirect was followed
	Nontrivial bool   `json:"nontrivial,omitempty"` // ... and at least one URL came out of it and went into NormalizeURL
	Sig        string `json:"sig,omitempty"`
	Message    string `json:"message,omitempty"`
	Stack      string `json:"stack,omitempty"`
}

var tmpDir string

// collect, when non-nil, receives every normalised child / outlink URL (self-test only)
var collect []string

func setup() {
	tmpDir = envOr("VERIF_TMP", "/dev/shm")
	slog.SetDefault(slog.New(slog.NewTextHandler(io.Discard, nil))) // models.URLToString warns through the default logger
	// MaxHops 1: with the default 0 Zeno never extracts outlinks, so PDF, S3, sitemap and
	// <a> extraction would be unreachable. Everything else is the zero (default) configuration:
	// assets captured, no domains crawl, no disabled tags, logging off.
	config.VerifSet(&config.Config{MaxHops: 1, MaxRedirect: 20, WARCTempDir: tmpDir,
		NoStdoutLogging: true, NoStderrLogging: true, NoFileLogging: true})
}

// runCase feeds one case through the real code. ORACLE (the property, literally): the call
// chain returns and does not panic. Returning an error, marking the item failed, dropping a
// child whose URL cannot be normalised, or extracting nothing are all allowed ("malformed
// input costs at most that one URL"). A panic is caught here by recover; a fatal runtime
// error (stack overflow, panic on a library goroutine) or a hang is caught by the
// supervising parent process (see supervise in main.go).
func runCase(c *Case) (o Outcome) {
	stage := "harness-setup"
	defer func() {
		if r := recover(); r != nil {
			if stage == "harness-setup" {
				panic(r) // not server-controlled: an error of this harness
			}
			o = panicOutcome(stage, fmt.Sprint(r), string(debug.Stack()))
		}
	}()
	p, ok := profiles[c.Profile]
	if !ok {
		panic("unknown profile " + c.Profile)
	}
	domainscrawl.Reset()
	config.Get().DisableAssetsCapture = c.Conf == "dac" // --disable-assets-capture: the outlinks of structured documents take a road of their own
	if c.Conf == "dc" {
		if err := domainscrawl.AddElements([]string{"site.example", "http://other.example/dir/", `^https?://re\.example/[a-z]+$`}); err != nil {
			panic(err)
		}
	}
	// the item as preprocess() hands it to the archiver
	u := &models.URL{Raw: p.URL}
	if err := preprocessor.NormalizeURL(u, nil); err != nil {
		panic(err)
	}
	req, err := http.NewRequest(http.MethodGet, u.String(), nil)
	if err != nil {
		panic(err)
	}
	u.SetRequest(req)
	item := models.NewItem("c10-item", u, "")
	item.SetStatus(models.ItemPreProcessed)

	// the response as the HTTP client hands it to archive()
	h := http.Header{}
	if p.CT != "" {
		h.Set("Content-Type", p.CT)
	}
	if p.Server != "" {
		h.Set("Server", p.Server)
	}
	if c.Link != "" {
		h.Set("Link", c.Link)
	}
	if c.Location != "" {
		h.Set("Location", c.Location)
	}
	u.SetResponse(&http.Response{StatusCode: c.Status, Header: h, Request: req,
		Body: io.NopCloser(bytes.NewReader(c.Body))})

	stage = "ProcessBody"
	if err := archiver.ProcessBody(u, false, domainscrawl.Enabled(), config.Get().MaxHops, tmpDir); err != nil {
		return Outcome{Kind: "ok", Class: "processbody-error"} // archive(): item failed, nothing else happens
	}
	item.SetStatus(models.ItemArchived)
	kept := u.GetBody() != nil
	mime := u.GetMIMEType().String()

	stage = "postprocessItem"
	outlinks := postprocessor.VerifPostprocessItem(item)

	// what preprocess() does with every new child (parent = the item) and every outlink (a new seed)
	stage = "NormalizeURL"
	children := item.GetChildren()
	bad := 0
	for _, ch := range children {
		if !normalise(ch.GetURL(), u) {
			bad++
		}
	}
	for _, ol := range outlinks {
		if !normalise(ol.GetURL(), nil) {
			bad++
		}
	}
	redirect := item.GetStatus() == models.ItemGotRedirected
	return Outcome{Kind: "ok",
		Reached:    (kept && c.Status == 200) || redirect,
		Nontrivial: len(children)+len(outlinks) > 0,
		Class: c.Conf + fmt.Sprintf("%s mime=%s body=%v item=%s children=%s outlinks=%s unnormalisable=%s", c.Profile,
			mime, kept, item.GetStatus(), bucket(len(children)), bucket(len(outlinks)), bucket(bad))}
}

func normalise(u, parent *models.URL) bool {
	if err := preprocessor.NormalizeURL(u, parent); err != nil {
		return false
	}
	_ = u.GetParsed().Host
	_ = u.GetParsed().Path
	_, err := http.NewRequest(http.MethodGet, u.String(), nil)
	if collect != nil {
		collect = append(collect, u.String())
	}
	return err == nil
}

func bucket(n int) string {
	if n > 2 {
		return "3+"
	}
	return fmt.Sprint(n)
}

var digits = regexp.MustCompile(`0x[0-9a-f]+|\d+`)

// panicOutcome derives the stable signature of a panic:
// panic:<innermost Zeno function on the stack>><function that panicked>:<message, numbers masked>
func panicOutcome(stage, msg, stack string) Outcome {
	zeno, lib := frames(parseStack(stack, "panic("))
	return Outcome{Kind: "panic", Message: msg, Stack: maskAddrs(stack), Sig: mksig("panic", stage, zeno, lib, msg)}
}

var (
	addrs = regexp.MustCompile(`0x[0-9a-f]{5,}\??`)
	fargs = regexp.MustCompile(`(?m)^(\S.*)\(.*\)$`)
)

// maskAddrs makes a stack dump reproducible: heap addresses and argument words differ from run to run
func maskAddrs(s string) string {
	return addrs.ReplaceAllString(fargs.ReplaceAllString(s, "$1(...)"), "0x_")
}

func mksig(kind, stage, zeno, lib, msg string) string {
	if zeno == "" {
		zeno = stage
	}
	m := digits.ReplaceAllString(msg, "N")
	if i := strings.IndexByte(m, '\n'); i >= 0 {
		m = m[:i]
	}
	if len(m) > 70 {
		m = m[:70]
	}
	sig := kind + ":" + zeno
	if lib != "" && lib != zeno {
		sig += ">" + lib
	}
	if m != "" {
		sig += ":" + m
	}
	return strings.Join(strings.Fields(sig), "_")
}

type frame struct{ fn, loc string }

// parseStack lists the frames (innermost first) of the first goroutine in a Go stack dump,
// starting after the last line that begins with `after` ("" = from the top).
func parseStack(stack, after string) (fs []frame) {
	lines := strings.Split(stack, "\n")
	start := 0
	for i, l := range lines {
		if after != "" && strings.HasPrefix(l, after) {
			start = i + 1
		}
	}
	for k := start; k < len(lines); k++ {
		l := lines[k]
		if l == "" {
			break // end of this goroutine
		}
		if strings.HasPrefix(l, "\t") || strings.HasPrefix(l, "goroutine ") || strings.HasPrefix(l, "...") || strings.HasPrefix(l, "[") {
			continue
		}
		fn := strings.TrimPrefix(l, "created by ")
		if i := strings.LastIndex(fn, "("); i > 0 {
			fn = fn[:i]
		}
		f := frame{fn: fn}
		if k+1 < len(lines) {
			if loc := strings.Fields(strings.TrimSpace(lines[k+1])); len(loc) > 0 {
				f.loc = loc[0][strings.LastIndex(loc[0], "/")+1:]
			}
		}
		fs = append(fs, f)
	}
	return fs
}

// frames returns the innermost Zeno function and the innermost non-runtime function (a
// third-party function with its file:line, which is fixed by the module version; Zeno
// functions without, so that unrelated edits do not rename a finding).
func frames(fs []frame) (zeno, inner string) {
	for _, f := range fs {
		fn := f.fn
		if strings.HasPrefix(fn, "runtime.") || strings.HasPrefix(fn, "runtime/") || strings.HasPrefix(fn, "panic") ||
			strings.Contains(fn, "/verif/") || strings.HasPrefix(fn, "main.") {
			continue
		}
		isZeno := strings.Contains(fn, "internetarchive/Zeno/")
		fn = strings.TrimPrefix(fn, "github.com/internetarchive/Zeno/internal/pkg/")
		fn = strings.TrimPrefix(fn, "github.com/internetarchive/Zeno/")
		fn = strings.TrimPrefix(fn, "github.com/")
		if inner == "" {
			inner = fn
			if !isZeno {
				inner += "@" + f.loc
			}
		}
		if isZeno {
			return fn, inner
		}
	}
	return "", inner
}

// commonOuter keeps the frames shared by all samples (compared from the outermost frame
// inwards): for a spinning goroutine sampled several times the innermost shared frame is
// the function that owns the loop.
func commonOuter(samples [][]frame) []frame {
	if len(samples) == 0 {
		return nil
	}
	c := samples[0]
	for _, s := range samples[1:] {
		n := 0
		for n < len(c) && n < len(s) && c[len(c)-1-n].fn == s[len(s)-1-n].fn {
			n++
		}
		c = c[len(c)-n:]
	}
	return c
}
