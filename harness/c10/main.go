// Harness for C10: no server-controlled input can crash or hang the crawler.
//
// Process layout (crash isolation):
//
//	parent            merges, reports, writes evidence
//	 └ 16 supervisors (hkit.Shards, --shard i/n)     restart the worker after a crash / hang
//	    └ worker      (--exec)  enumerates ALL cases, runs those whose hash falls in its shard
//
// A case is (profile, status, headers, body); equal cases have equal hashes, so every
// distinct case is executed exactly once, in exactly one shard.
package main

import (
	"bufio"
	"bytes"
	"encoding/binary"
	"encoding/json"
	"fmt"
	"hash/crc32"
	"os"
	"os/exec"
	"runtime"
	"runtime/debug"
	"sort"
	"strconv"
	"strings"
	"sync/atomic"
	"syscall"
	"time"

	"github.com/internetarchive/Zeno/internal/verif/vrt/hkit"
)

const (
	propID      = "C10"
	nShards     = 16
	maxRestarts = 3 // per shard; a shard also stops after its first confirmed hang (each costs minutes)
)

// hangLimits: a case running longer than `suspect` seconds is a suspected hang; it is then
// re-run alone with `confirm` seconds before it is reported.
func hangLimits(tier string) (suspect, confirm int) {
	if tier == "thorough" {
		return 30, 120
	}
	return 10, 60
}

func envOr(k, d string) string {
	if v := os.Getenv(k); v != "" {
		return v
	}
	return d
}

func engineError(f string, a ...any) { hkit.EngineError(f, a...) }

// Finding is one violating case with its outcome.
type Finding struct {
	Case    Case    `json:"case"`
	Outcome Outcome `json:"outcome"`
}

// better: the smaller body wins, so that the reported input is the minimal one of its class
func better(a, b *Finding) bool {
	la, lb := len(a.Case.Body)+len(a.Case.Link)+len(a.Case.Location), len(b.Case.Body)+len(b.Case.Link)+len(b.Case.Location)
	if la != lb {
		return la < lb
	}
	ka, _ := json.Marshal(a.Case)
	kb, _ := json.Marshal(b.Case)
	return string(ka) < string(kb)
}

type spaceCount struct {
	Generated, Executed, Reached, Nontrivial int
	CPUms                                    float64 // process CPU time while this space was enumerated
}

// Result of one worker (or the merge of all).
type Result struct {
	Generated  int                    `json:"generated"`
	Executed   int                    `json:"executed"`
	Reached    int                    `json:"reached"`
	Nontrivial int                    `json:"nontrivial"`
	Spaces     map[string]*spaceCount `json:"spaces"`
	Classes    map[string]int         `json:"classes"`
	Findings   map[string]*Finding    `json:"findings"` // by signature
	Samples    []Case                 `json:"samples"`
	Exhaustive bool                   `json:"exhaustive"`
	Restarts   int                    `json:"restarts"`
}

func newResult() *Result {
	return &Result{Spaces: map[string]*spaceCount{}, Classes: map[string]int{}, Findings: map[string]*Finding{}, Exhaustive: true}
}

func (r *Result) add(f *Finding) {
	if old, ok := r.Findings[f.Outcome.Sig]; !ok || better(f, old) {
		r.Findings[f.Outcome.Sig] = f
	}
}

func (r *Result) merge(o *Result) {
	r.Generated = max(r.Generated, o.Generated) // every worker generates the whole space
	r.Executed += o.Executed
	r.Reached += o.Reached
	r.Nontrivial += o.Nontrivial
	r.Restarts += o.Restarts
	r.Exhaustive = r.Exhaustive && o.Exhaustive
	for k, v := range o.Spaces {
		s := r.Spaces[k]
		if s == nil {
			s = &spaceCount{}
			r.Spaces[k] = s
		}
		s.Generated = max(s.Generated, v.Generated)
		s.Executed += v.Executed
		s.Reached += v.Reached
		s.Nontrivial += v.Nontrivial
		s.CPUms += v.CPUms
	}
	for k, v := range o.Classes {
		r.Classes[k] += v
	}
	for _, f := range o.Findings {
		r.add(f)
	}
	r.Samples = append(r.Samples, o.Samples...)
}

var castagnoli = crc32.MakeTable(crc32.Castagnoli)

func caseHash(c *Case) uint64 {
	var m [16]byte
	binary.LittleEndian.PutUint64(m[:], uint64(int64(c.Status)))
	binary.LittleEndian.PutUint64(m[8:], uint64(len(c.Body)))
	meta := c.Profile + "\x00" + c.Link + "\x00" + c.Location
	if c.Conf != "" {
		meta += "\x00" + c.Conf
	}
	a := crc32.Update(crc32.Update(crc32.Checksum(m[:], castagnoli), castagnoli, []byte(meta)), castagnoli, c.Body)
	b := crc32.Update(crc32.Update(crc32.ChecksumIEEE(m[:]), crc32.IEEETable, []byte(meta)), crc32.IEEETable, c.Body)
	return uint64(a)<<32 | uint64(b)
}

func main() {
	a := hkit.ParseArgs()
	setup()
	switch {
	case a.Replay != "":
		replay(a.Replay, a.Extra["deadline"])
	case a.Extra["exec"] != "":
		worker(a)
	case a.Extra["selftest"] != "":
		suspect, _ := hangLimits(a.Tier)
		watchdog(suspect)
		curStart.Store(time.Now().UnixNano())
		selfTest()
	case a.Of > 1:
		supervise(a)
	default:
		parent(a)
	}
}

// ---------------------------------------------------------------- worker

var (
	curStart atomic.Int64 // unix nano of the start of the running case, 0 = none
	curIdx   atomic.Int64
)

// watchdog is the hang half of the oracle: the property says "spin forever"; what is
// observed is "one case did not return within `limit` seconds" (inputs are < 100 KB and
// normally take < 10 ms). It dumps all stacks so that the supervisor can name the function.
func watchdog(limit int) {
	go func() {
		for {
			time.Sleep(500 * time.Millisecond)
			if s := curStart.Load(); s != 0 && time.Since(time.Unix(0, s)) > time.Duration(limit)*time.Second {
				fmt.Fprintf(os.Stderr, "C10-HANG case %d did not return within %d s\n", curIdx.Load(), limit)
				for k := 0; k < 7; k++ { // several samples: the frames they share own the loop
					buf := make([]byte, 1<<20)
					buf = buf[:runtime.Stack(buf, true)]
					fmt.Fprintf(os.Stderr, "\nC10-HANG-SAMPLE\n\n%s\n", buf)
					time.Sleep(time.Duration(37*(k+1)) * time.Millisecond)
				}
				os.Exit(3)
			}
		}
	}()
}

func limitMemory() {
	// Go's default stack limit is 1 GB; inputs here are < 100 KB, so recursion that is bounded by the
	// input stays far below 256 MB, and unbounded recursion is found four times faster
	debug.SetMaxStack(256 << 20)
	// an input of < 100 KB that needs more than 12 GB of address space is reported as a crash, not left to the OOM killer
	lim := syscall.Rlimit{Cur: 12 << 30, Max: 12 << 30}
	syscall.Setrlimit(syscall.RLIMIT_AS, &lim)
}

func timed(c *Case) Outcome {
	curStart.Store(time.Now().UnixNano())
	o := runCase(c)
	curStart.Store(0)
	return o
}

// worker: --exec=1 [--from=K] [--dump=K]. Prints "S <idx>" before every case it runs, "V <json>" for a
// recovered panic, "R <json>" at the end. Of a worker that died only the number of completed cases is kept.
func worker(a hkit.Args) {
	from, _ := strconv.Atoi(a.Extra["from"])
	dump := -1
	if v, ok := a.Extra["dump"]; ok {
		dump, _ = strconv.Atoi(v)
	}
	budget := 42 * time.Second
	if a.Tier == "thorough" {
		budget = 14 * time.Minute
	}
	if v, ok := a.Extra["budget"]; ok {
		s, _ := strconv.Atoi(v)
		budget = time.Duration(s) * time.Second
	}
	began := time.Now()
	debug.SetGCPercent(800) // every case allocates a 64 KB spool buffer; the live heap is small
	limitMemory()
	suspect, _ := hangLimits(a.Tier)
	watchdog(suspect)
	res := newResult()
	seen := map[uint64]struct{}{}
	idx := 0
	line := make([]byte, 0, 32)
	perSpaceSamples := map[string]int{}
	lastCPU, lastSpace := cpuMs(), ""
	emit := func(c *Case) {
		res.Generated++
		sc := res.Spaces[c.Space]
		if sc == nil {
			sc = &spaceCount{}
			res.Spaces[c.Space] = sc
		}
		if c.Space != lastSpace { // process CPU time (generation + execution + GC) is booked per space
			if now := cpuMs(); lastSpace != "" {
				res.Spaces[lastSpace].CPUms += now - lastCPU
				lastCPU = now
			}
			lastSpace = c.Space
		}
		sc.Generated++
		h := caseHash(c)
		if h%uint64(a.Of) != uint64(a.Shard) {
			return
		}
		if _, dup := seen[h]; dup {
			return
		}
		seen[h] = struct{}{}
		i := idx
		idx++
		if i == dump {
			b, _ := json.Marshal(c)
			fmt.Printf("C %s\n", b)
			os.Exit(0)
		}
		if i < from || dump >= 0 || !res.Exhaustive {
			return
		}
		if i%256 == 0 && time.Since(began) > budget {
			res.Exhaustive = false // internal deadline: stop executing, never a verdict
			return
		}
		curIdx.Store(int64(i))
		line = strconv.AppendInt(append(line[:0], 'S', ' '), int64(i), 10)
		os.Stdout.Write(append(line, '\n'))
		o := timed(c)
		res.Executed++
		sc.Executed++
		if o.Kind != "ok" {
			cp := *c
			cp.Body = append([]byte(nil), c.Body...)
			f := &Finding{Case: cp, Outcome: o}
			res.add(f)
			if res.Findings[o.Sig] == f { // new or smaller: tell the supervisor now, this worker may still die
				b, _ := json.Marshal(f)
				fmt.Printf("V %s\n", b)
			}
			return
		}
		res.Classes[o.Class]++
		if o.Reached {
			res.Reached++
			sc.Reached++
		}
		if o.Nontrivial {
			res.Nontrivial++
			sc.Nontrivial++
			if a.Shard == 0 && perSpaceSamples[c.Space] < 2 && len(c.Body) < 400 {
				perSpaceSamples[c.Space]++
				cp := *c
				cp.Body = append([]byte(nil), c.Body...)
				res.Samples = append(res.Samples, cp)
			}
		}
	}
	th := a.Tier == "thorough"
	for _, sp := range spaces() {
		sp.Gen(th, emit)
	}
	if lastSpace != "" {
		res.Spaces[lastSpace].CPUms += cpuMs() - lastCPU
	}
	b, _ := json.Marshal(res)
	fmt.Printf("R %s\n", b)
}

func cpuMs() float64 {
	var ru syscall.Rusage
	syscall.Getrusage(syscall.RUSAGE_SELF, &ru)
	return float64(ru.Utime.Nano()+ru.Stime.Nano()) / 1e6
}

// ---------------------------------------------------------------- supervisor (one per shard)

func self() string {
	p, err := os.Executable()
	if err != nil {
		engineError("%v", err)
	}
	return p
}

func supervise(a hkit.Args) {
	total := newResult()
	from := 0
	shard := fmt.Sprintf("%d/%d", a.Shard, a.Of)
	extra := []string{}
	if v, ok := a.Extra["budget"]; ok {
		extra = append(extra, "--budget="+v)
	}
	for {
		args := append([]string{a.Tier, "--shard", shard, "--exec=1", fmt.Sprintf("--from=%d", from)}, extra...)
		cmd := exec.Command(self(), args...)
		var stderr bytes.Buffer
		cmd.Stderr = &stderr
		out, err := cmd.StdoutPipe()
		if err != nil {
			engineError("%v", err)
		}
		if err := cmd.Start(); err != nil {
			engineError("%v", err)
		}
		last, done := -1, false
		rd := bufio.NewReaderSize(out, 1<<20)
		for {
			l, err := rd.ReadBytes('\n')
			if len(l) > 2 && l[0] == 'S' {
				last, _ = strconv.Atoi(strings.TrimSpace(string(l[2:])))
			} else if len(l) > 2 && l[0] == 'V' {
				var f Finding
				if e := json.Unmarshal(l[2:], &f); e == nil {
					total.add(&f)
				}
			} else if len(l) > 2 && l[0] == 'R' {
				var r Result
				if e := json.Unmarshal(l[2:], &r); e != nil {
					engineError("bad worker result: %v", e)
				}
				total.merge(&r)
				done = true
			}
			if err != nil {
				break
			}
		}
		werr := cmd.Wait()
		if done && werr == nil {
			break
		}
		if last < from {
			engineError("worker %s died before running a case: %v\n%s", shard, werr, tail(stderr.String(), 4000))
		}
		// The worker died inside case `last`: a fatal runtime error, a panic on another
		// goroutine, or the watchdog. Fetch the case, confirm it alone, go on behind it.
		total.Restarts++
		total.Executed += last - from // cases the dead worker completed (its other counters are lost)
		c := dumpCase(a.Tier, shard, last)
		f := confirm(a.Tier, c)
		if f == nil {
			engineError("worker %s died in case %d but the case alone does not fail (%v)\n%s", shard, last, werr, tail(stderr.String(), 4000))
		}
		total.add(f)
		from = last + 1
		if f.Outcome.Kind == "hang" || total.Restarts >= maxRestarts {
			total.Exhaustive = false // give up on this shard: the violation is reported, the rest is not explored
			break
		}
	}
	hkit.EmitShardResult(total)
}

func tail(s string, n int) string {
	if len(s) > n {
		return s[len(s)-n:]
	}
	return s
}

func dumpCase(tier, shard string, idx int) *Case {
	out, err := exec.Command(self(), tier, "--shard", shard, "--exec=1", fmt.Sprintf("--dump=%d", idx)).Output()
	if err != nil {
		engineError("dump of case %d failed: %v", idx, err)
	}
	for _, l := range strings.Split(string(out), "\n") {
		if strings.HasPrefix(l, "C ") {
			var c Case
			if err := json.Unmarshal([]byte(l[2:]), &c); err != nil {
				engineError("%v", err)
			}
			return &c
		}
	}
	engineError("case %d not found in shard %s", idx, shard)
	return nil
}

// confirm re-runs one case alone in a fresh process (hang limit 120 s) and classifies the death.
func confirm(tier string, c *Case) *Finding {
	_, limit := hangLimits(tier)
	f, _ := os.CreateTemp(tmpDir, "c10-case-*.json")
	b, _ := json.Marshal(Finding{Case: *c})
	f.Write(b)
	f.Close()
	defer os.Remove(f.Name())
	cmd := exec.Command(self(), "quick", "--replay", f.Name(), fmt.Sprintf("--deadline=%d", limit))
	var stderr bytes.Buffer
	cmd.Stderr = &stderr
	out, err := cmd.Output()
	if err == nil {
		return nil
	}
	for _, l := range strings.Split(string(out), "\n") {
		if strings.HasPrefix(l, "OUTCOME ") { // an ordinary panic, recovered in the replay process
			var o Outcome
			json.Unmarshal([]byte(l[8:]), &o)
			return &Finding{Case: *c, Outcome: o}
		}
	}
	return &Finding{Case: *c, Outcome: classifyDeath(stderr.String())}
}

// classifyDeath names a process death from the Go runtime's stderr dump.
func classifyDeath(stderr string) Outcome {
	if i := strings.Index(stderr, "C10-HANG "); i >= 0 {
		// the watchdog fired: per sample, the goroutine that runs the case is the one with main.timed
		var samples [][]frame
		keep := ""
		for _, smp := range strings.Split(stderr[i:], "C10-HANG-SAMPLE")[1:] {
			for _, sec := range strings.Split(smp, "\n\n") {
				if strings.Contains(sec, "main.timed(") {
					samples = append(samples, parseStack(sec, ""))
					keep = sec
				}
			}
		}
		zeno, inner := frames(commonOuter(samples))
		return Outcome{Kind: "hang", Message: "did not return", Stack: maskAddrs(tail(keep, 6000)), Sig: mksig("hang", "process", zeno, inner, "")}
	}
	msg := ""
	for _, l := range strings.Split(stderr, "\n") {
		if strings.HasPrefix(l, "fatal error:") || strings.HasPrefix(l, "panic:") || strings.HasPrefix(l, "runtime:") {
			msg = l
			break
		}
	}
	stack := stderr
	if i := strings.Index(stderr, "\ngoroutine "); i >= 0 {
		stack = stderr[i+1:]
	}
	zeno, inner := frames(parseStack(stack, ""))
	if zeno != "" {
		inner = "" // where exactly a stack ran out or the runtime gave up varies; the Zeno function does not
	}
	return Outcome{Kind: "fatal", Message: msg, Stack: maskAddrs(clip(stack, 6000)), Sig: mksig("fatal", "process", zeno, inner, msg)}
}

// ---------------------------------------------------------------- replay

func replay(path, deadline string) {
	b, err := os.ReadFile(path)
	if err != nil {
		engineError("%v", err)
	}
	var f Finding
	if err := json.Unmarshal(b, &f); err != nil {
		engineError("%v", err)
	}
	_, limit := hangLimits("thorough")
	if deadline != "" {
		limit, _ = strconv.Atoi(deadline)
	}
	limitMemory()
	watchdog(limit)
	c := f.Case
	fmt.Printf("replay: space=%s (%s) profile=%s %+v status=%d link=%q location=%q body(%d bytes)=%q\n", c.Space, c.Desc, c.Profile,
		profiles[c.Profile], c.Status, c.Link, c.Location, len(c.Body), clip(string(c.Body), 300))
	o := timed(&c)
	ob, _ := json.Marshal(o)
	fmt.Printf("OUTCOME %s\n", ob)
	if o.Kind == "ok" {
		fmt.Printf("replay: returned normally: %s\n", o.Class)
		os.Exit(0)
	}
	fmt.Printf("replay: %s: %s\n%s\n", o.Kind, o.Message, o.Stack)
	fmt.Printf("VIOLATION property=%s replay=%s\n", propID, path)
	os.Exit(1)
}

func clip(s string, n int) string {
	if len(s) > n {
		return s[:n] + "..."
	}
	return s
}

// ---------------------------------------------------------------- parent

func parent(a hkit.Args) {
	suspect, confirmS := hangLimits(a.Tier)
	// self-test in a process of its own: a crash or hang there is left to the enumeration to report
	if out, err := exec.Command(self(), a.Tier, "--selftest=1").CombinedOutput(); err != nil {
		if ee, ok := err.(*exec.ExitError); ok && ee.ExitCode() == 4 {
			engineError("%s", out)
		}
		fmt.Printf("self-test process died (%v); continuing with the enumeration\n", err)
	} else if len(out) > 0 {
		os.Stdout.Write(out)
	}
	extra := []string{}
	if v, ok := a.Extra["budget"]; ok {
		extra = append(extra, "--budget="+v)
	}
	outs := hkit.Shards(nShards, extra...)
	total := newResult()
	for _, b := range outs {
		var r Result
		hkit.ShardResult(b, &r)
		total.merge(&r)
	}
	for _, sig := range hkit.SortedKeys(total.Findings) {
		f := total.Findings[sig]
		payload := map[string]any{"harness": "c10", "case": f.Case, "outcome": f.Outcome, "body_text": string(f.Case.Body),
			"profile": profiles[f.Case.Profile], "go_test": goTest(&f.Case)}
		hkit.Report(propID, sig, payload, fmt.Sprintf("%s in space %s (%s), profile %s, status %d, link=%q location=%q body(%d bytes)=%q: %s",
			f.Outcome.Kind, f.Case.Space, f.Case.Desc, f.Case.Profile, f.Case.Status, f.Case.Link, f.Case.Location, len(f.Case.Body),
			clip(string(f.Case.Body), 160), clip(f.Outcome.Message, 200)))
	}
	per := map[string]any{}
	abouts := map[string]string{}
	for _, sp := range spaces() {
		abouts[sp.Name] = sp.About
	}
	for _, k := range hkit.SortedKeys(total.Spaces) {
		s := total.Spaces[k]
		per[k] = map[string]any{"enumerates": abouts[k], "generated": s.Generated, "distinct_executed": s.Executed, "reached_extractor": s.Reached, "nontrivial": s.Nontrivial, "cpu_ms_all_workers": int(s.CPUms)}
	}
	var samples []any
	sort.Slice(total.Samples, func(i, j int) bool { return total.Samples[i].Space < total.Samples[j].Space })
	for _, c := range total.Samples {
		samples = append(samples, map[string]any{"space": c.Space, "profile": c.Profile, "status": c.Status, "link": c.Link,
			"location": c.Location, "body": string(c.Body), "built": c.Desc})
	}
	sigs := hkit.SortedKeys(total.Findings)
	hkit.Evidence(propID, a.Tier, "exploration", map[string]any{
		"evaluations":         total.Executed,
		"distinct_nontrivial": total.Nontrivial,
		"rule": "cases are enumerated exhaustively per space (see spaces); a case = (profile, status, Link, Location, body); equal cases are executed once " +
			"(hash partition + per-shard set), so every evaluation is a distinct case; reached_extractor counts the cases where ProcessBody kept the body and the status was 200 " +
			"(the extractor dispatch ran on it) or a redirect was followed; a case is non-trivial when in addition at least one URL came out of the dispatch (asset child, redirect child or outlink) " +
			"and was put through NormalizeURL",
		"samples": samples, "exhaustive": total.Exhaustive, "reached_extractor": total.Reached, "generated_with_duplicates": total.Generated,
		"distinct_outcome_classes": len(total.Classes), "spaces": per, "profiles": profiles,
		"worker_restarts_after_crash_or_hang": total.Restarts, "failure_signatures": sigs,
	}, []string{
		"decides the property for the enumerated token languages and mutation neighbourhoods only, not for arbitrary byte strings",
		"configuration: MaxHops=1 (so that outlink extractors run), everything else default; item is a seed (depth 0)",
		fmt.Sprintf("hang = one case (< 100 KB input) not returning within %d s, confirmed alone with %d s; crash = panic, fatal runtime error, > 256 MB of goroutine stack, or > 12 GB address space", suspect, confirmS),
		"header values are printable strings (Go's HTTP client rejects control bytes before Zeno sees them)",
	}, hkit.Violations())
	if total.Generated == 0 {
		fmt.Println("every shard gave up after repeated crashes / a confirmed hang; counts are those of the completed workers only")
	}
	fmt.Printf("C10 %s: %d cases generated, %d distinct executed, %d reached an extractor, %d non-trivial (yielded URLs), %d outcome classes, %d failure signatures, restarts=%d, exhaustive=%v, %.1fs\n",
		a.Tier, total.Generated, total.Executed, total.Reached, total.Nontrivial, len(total.Classes), len(sigs), total.Restarts, total.Exhaustive, hkit.Wall())
	hkit.Exit()
}

// selfTest: every unmutated sample must reach its extractor and yield its planted URL,
// otherwise the harness is not exercising what it claims (engine error, not a verdict).
func selfTest() {
	for _, s := range samples() {
		if s.Want == "" {
			continue
		}
		collect = []string{}
		o := runCase(&Case{Profile: s.Profiles[0], Status: 200, Body: s.Data})
		got := collect
		collect = nil
		if o.Kind != "ok" {
			continue // reported by the enumeration itself (space "cross" holds the unmutated samples)
		}
		found := false
		for _, g := range got {
			found = found || strings.Contains(g, s.Want) // query order is random (models.encodeQuery)
		}
		if !found && len(got) > 0 {
			// the extractor was reached but no longer yields the planted URL: a functional change, not C10's business
			fmt.Printf("self-test warning: sample %s under profile %s did not yield %s (got %v)\n", s.Name, s.Profiles[0], s.Want, got)
		} else if !found {
			fmt.Printf("self-test: sample %s under profile %s did not yield %s (got %v, %s)\n", s.Name, s.Profiles[0], s.Want, got, o.Class)
			os.Exit(4)
		}
	}
}

func sortedProfiles() []string { return hkit.SortedKeys(profiles) }

// goTest is a plain `go test` file feeding the case (save as
// internal/pkg/postprocessor/zz_c10_replay_test.go in the Zeno tree).
func goTest(c *Case) string {
	p := profiles[c.Profile]
	return fmt.Sprintf(`package postprocessor

import (
	"bytes"
	"io"
	"net/http"
	"testing"

	"github.com/internetarchive/Zeno/internal/pkg/archiver"
	"github.com/internetarchive/Zeno/internal/pkg/config"
	"github.com/internetarchive/Zeno/internal/pkg/preprocessor"
	"github.com/internetarchive/Zeno/pkg/models"
)

func TestC10Replay(t *testing.T) {
	config.InitConfig()
	config.Get().MaxHops = 1
	config.Get().MaxRedirect = 20
	u := &models.URL{Raw: %q}
	if err := preprocessor.NormalizeURL(u, nil); err != nil {
		t.Fatal(err)
	}
	req, _ := http.NewRequest("GET", u.String(), nil)
	u.SetRequest(req)
	item := models.NewItem("c10", u, "")
	h := http.Header{}
	for k, v := range map[string]string{"Content-Type": %q, "Server": %q, "Link": %q, "Location": %q} {
		if v != "" {
			h.Set(k, v)
		}
	}
	u.SetResponse(&http.Response{StatusCode: %d, Header: h, Request: req, Body: io.NopCloser(bytes.NewReader([]byte(%q)))})
	if err := archiver.ProcessBody(u, false, false, 1, t.TempDir()); err != nil {
		return
	}
	item.SetStatus(models.ItemArchived)
	outlinks := postprocessItem(item)
	for _, c := range item.GetChildren() {
		if preprocessor.NormalizeURL(c.GetURL(), u) == nil {
			_ = c.GetURL().String()
		}
	}
	for _, o := range outlinks {
		if preprocessor.NormalizeURL(o.GetURL(), nil) == nil {
			_ = o.GetURL().String()
		}
	}
}
`, p.URL, p.CT, p.Server, c.Link, c.Location, c.Status, string(c.Body))
}
