package main

// The enumerated input spaces. Every space is a finite, deterministic enumeration:
//   tokens:    ALL strings of at most N tokens over a small per-format alphabet
//   mutants:   the COMPLETE 1-mutation (thorough: for small samples 2-mutation) neighbourhood of a
//              valid sample: every truncation point, every single-byte deletion, every
//              substitution of one lexical token by one dictionary token
// each fed with every profile (item URL / Content-Type / Server) listed for the space.

import (
	"bytes"
	"fmt"
	"os"
	"path/filepath"
	"regexp"
	"sort"
	"strings"
)

type space struct {
	Name  string
	About string
	Gen   func(thorough bool, emit func(*Case))
}

// tokenStrings calls f for every concatenation of 0..n tokens of alpha.
func tokenStrings(alpha []string, n int, f func(s string)) {
	var rec func(prefix string, left int)
	rec = func(prefix string, left int) {
		f(prefix)
		if left == 0 {
			return
		}
		for _, t := range alpha {
			rec(prefix+t, left-1)
		}
	}
	rec("", n)
}

func pick(thorough bool, quick, thoroughN int) int {
	if thorough {
		return thoroughN
	}
	return quick
}

func body(sp, profile string, b string) *Case {
	return &Case{Space: sp, Profile: profile, Status: 200, Body: []byte(b), Desc: "token string"}
}

// ---------------------------------------------------------------- alphabets (also the substitution dictionaries)

var alphaHTML = []string{`<a `, `href=`, `"`, `>`, `<style>`, `url(`, `)`, `<script type=json>`, `{`, `=`, `</`,
	`http://a.b/c.png`, `<img srcset=`, ` style=`, `<base `, ` data-item=`, `}`, `,`}
var alphaScript = []string{`{`, `}`, `=`, `"`, `var a`, `http://a.b/c.js`, `:`, `é`, `[`, `]`, `,`, `\u00`}
var alphaJSON = []string{`{`, `}`, `[`, `]`, `"`, `:`, `,`, `\`, `u`, `http://a.b/c`, `1`, "     ", "\n"} // incl. whitespace runs at the length boundaries the extractors test
var alphaTypedJSON = []string{`{`, `}`, `[`, `]`, `,`, `null`, `1`, `"x"`, `"data":`, `"children":`, `"permalink":`, `"id":`,
	`"media_attachments":`, `"external_video_id":`, `"created_at":`, `"resourceUrl":`, `"embedUrl":`, `"credits":`}
var alphaXML = []string{`<a>`, `</a>`, `<a `, `href="http://a.b/c"`, `>`, `/>`, `<![CDATA[`, `]]>`, `&amp;`, `&`, `<?xml version="1.0"?>`,
	`<!--`, `-->`, `<!DOCTYPE x [`, `http://a.b/c.png `, `<urlset xmlns="http://www.sitemaps.org/schemas/sitemap/0.9">`, `<loc>`, `"`}
var alphaS3 = []string{`<Contents><Key>`, `</Key><Size>1</Size></Contents>`, `</Key><Size>0</Size></Contents>`, `a/b.txt`, ` `, `%zz`, `é`, `&amp;`, `../`, `?x=1#f`,
	`<CommonPrefixes><Prefix>`, `</Prefix></CommonPrefixes>`, `<IsTruncated>true</IsTruncated>`, `<NextContinuationToken>t+/=</NextContinuationToken>`, `<Marker>`, `<`}
var alphaURL = []string{`http://`, `a.b`, `/`, `:`, `@`, `[`, `]`, `?`, `#`, `%`, `%zz`, ` `, `..`, `\`, `"`, `é`, `=`, `&`, `xn--`, `1`}
var alphaLink = []string{`<`, `>`, `;`, `, `, `,`, `rel=`, `"`, `=`, ` `, `http://a.b/c`, `x`}
var alphaText = []string{`http://`, `https://a.b/c`, `www.a.b`, ` `, "\n", `.`, `(`, `)`, `<`, `é`, `\`, `@`, `:`}
var alphaM3U8 = []string{`#EXTINF:`, `#EXT-X-KEY:`, `#EXT-X-MAP:`, `#EXT-X-STREAM-INF:`, `URI=`, `"`, `,`, `=`, `@`, `:`, "\n", `#`, `-1`, `99999999999`, ``}
var alphaPDF = []string{`obj`, `endobj`, `stream`, `endstream`, `xref`, `trailer`, `startxref`, `<<`, `>>`, `[`, `]`, `R`, `/Type`,
	`/Annots`, `/Kids`, `/Length`, `0`, `-1`, `99999999999`, `(`, `%`}

// every tag line github.com/grafov/m3u8 decodes: prefix + a valid rest
var m3u8Tags = [][2]string{
	{`#EXT-X-VERSION:`, `3`}, {`#EXT-X-INDEPENDENT-SEGMENTS`, ``},
	{`#EXT-X-MEDIA:`, `TYPE=AUDIO,GROUP-ID="a",NAME="n",DEFAULT=YES,URI="a.m3u8"`},
	{`#EXT-X-STREAM-INF:`, `PROGRAM-ID=1,BANDWIDTH=1,RESOLUTION=1x1,AUDIO="a"`},
	{`#EXT-X-I-FRAME-STREAM-INF:`, `BANDWIDTH=1,URI="i.m3u8"`},
	{``, `v.m3u8`}, {``, `http://a.b/s.ts`},
	{`#EXT-X-ENDLIST`, ``}, {`#EXT-X-TARGETDURATION:`, `10`}, {`#EXT-X-MEDIA-SEQUENCE:`, `0`},
	{`#EXT-X-PLAYLIST-TYPE:`, `VOD`}, {`#EXT-X-DISCONTINUITY-SEQUENCE:`, `0`},
	{`#EXT-X-START:`, `TIME-OFFSET=1.5,PRECISE=YES`}, {`#EXT-X-KEY:`, `METHOD=AES-128,URI="k",IV=0x1`},
	{`#EXT-X-MAP:`, `URI="m",BYTERANGE="1@0"`}, {`#EXT-X-PROGRAM-DATE-TIME:`, `2020-01-02T03:04:05Z`},
	{`#EXT-X-BYTERANGE:`, `1@0`}, {`#EXT-SCTE35:`, `CUE="c",ID="i",TIME=1`}, {`#EXT-OATCLS-SCTE35:`, `c`},
	{`#EXT-X-CUE-OUT:`, `1`}, {`#EXT-X-CUE-OUT-CONT:`, `ElapsedTime=1,Duration=2,SCTE35=c`}, {`#EXT-X-CUE-OUT`, ``},
	{`#EXT-X-CUE-IN`, ``}, {`#EXT-X-DISCONTINUITY`, ``}, {`#EXT-X-I-FRAMES-ONLY`, ``}, {`#EXTINF:`, `1.0,t`},
	{`#WV-AUDIO-CHANNELS`, ` 2`}, {`#WV-AUDIO-FORMAT`, ` 1`}, {`#WV-AUDIO-PROFILE-IDC`, ` 1`}, {`#WV-AUDIO-SAMPLE-SIZE`, ` 1`},
	{`#WV-AUDIO-SAMPLING-FREQUENCY`, ` 1`}, {`#WV-CYPHER-VERSION`, ` 1`}, {`#WV-ECM`, ` e`}, {`#WV-VIDEO-FORMAT`, ` 1`},
	{`#WV-VIDEO-FRAME-RATE`, ` 1`}, {`#WV-VIDEO-LEVEL-IDC`, ` 1`}, {`#WV-VIDEO-PROFILE-IDC`, ` 1`}, {`#WV-VIDEO-RESOLUTION`, ` 1x1`},
	{`#WV-VIDEO-SAR`, ` 1:1`}, {`#comment`, ``},
}

// A body that starts with the bytes "#EXTM3U" is sniffed as application/vnd.apple.mpegurl, which is not
// below text/plain in the mimetype tree, so ProcessBody discards it and the M3U8 extractor never sees it.
// The decoder accepts the start tag on any line; a leading empty line makes the body text/plain.
const m3u8Head = "\n#EXTM3U\n"

// m3u8Lines: every tag x {valid, empty, garbage attribute}
func m3u8Lines(variants bool) []string {
	seen := map[string]bool{}
	var out []string
	add := func(s string) {
		if !seen[s] {
			seen[s] = true
			out = append(out, s+"\n")
		}
	}
	for _, t := range m3u8Tags {
		add(t[0] + t[1])
		if variants && t[0] != "" {
			add(t[0])
			add(t[0] + `x=,"`)
		}
	}
	return out
}

// ---------------------------------------------------------------- valid samples

type sample struct {
	Name      string
	Profiles  []string
	Dict      []string
	Data      []byte
	Small     bool               // 2-mutation neighbourhood in thorough
	Big       bool               // thorough only
	CrossOnly bool               // not mutated, only fed unmodified under every profile
	Subst     func(off int) bool // where token substitution applies (nil = everywhere)
	Want      string             // self-test: this URL must be extracted from the unmutated sample
}

const sampleHTML = `<!DOCTYPE html><html><head><base href="http://b.example/x/"><title>t</title>
<link rel="stylesheet" href="/s.css"><meta property="og:image" content="http://a.example/i.png">
<style>body{background:url('//c.example/bg.png')}</style>
<script type="application/json">{"u":"http://a.example/j.js"}</script>
<script>var cfg = {"v":"https://a.example/v.mp4"};</script><script src="s.js"></script></head>
<body><a href="../p?q=1#f" onclick="window.location='http://a.example/o'">l</a>
<img src="i.png" srcset="a.png 1x, b.png 2x" data-src="d.png">
<div style="background-image:url(&quot;k.png&quot;)" data-item='{"a":"http://a.example/d.jpg"}' data-preview="http://a.example/p.gif"></div>
<video src="v.webm"></video><audio src="a.ogg"></audio><source srcset="s1.png, s2.png 2x"> see http://t.example/plain
</body></html>`

const sampleJSON = `{"a":"http://a.example/x.png","b":["https://b.example/p",{"c":"{\"d\":\"http://c.example/y.jpg\"}"}],"n":1.5e3,"t":true,"z":null}`
const sampleINA = `{"id":"x","dateOfBroadcast":"2020-01-02T03:04:05Z","duration":3,"resourceUrl":"https://a.example/m.mp4","resourceThumbnail":"https://a.example/t.jpg","embedUrl":"/embed/x","uri":"https://a.example/u","credits":[{"@context":{"@vocab":"v"},"attributes":[{"key":"k"}]}]}`
const sampleReddit = `{"kind":"Listing","data":{"dist":1,"children":[{"kind":"t3","data":{"permalink":"/r/x/comments/abc/t/","url":"https://i.redd.it/a.png","preview":{"images":[{"source":{"url":"https://preview.redd.it/a.png?width=1&amp;s=ab"}}]}}}]}}`
const sampleTSStatus = `{"id":"123","created_at":"2024-01-02T03:04:05.000Z","url":"https://truthsocial.com/@u/123","media_attachments":[{"id":"1","type":"video","url":"https://a.example/v.mp4","external_video_id":"v9"}],"account":{"id":"7","created_at":"2022-02-02T00:00:00.000Z"}}`
const sampleTSAccount = `{"id":"107780257626128497","username":"abc","created_at":"2022-02-02T00:00:00.000Z","url":"https://truthsocial.com/@abc"}`
const sampleXML = `<?xml version="1.0" encoding="UTF-8"?><!DOCTYPE r><r xmlns:x="http://n.example/ns"><a href="http://a.example/f.png">t</a><b><![CDATA[http://b.example/c]]></b><c>see https://c.example/d.pdf &amp; more</c><!-- c --></r>`
const sampleSitemap = `<?xml version="1.0"?><urlset xmlns="http://www.sitemaps.org/schemas/sitemap/0.9"><url><loc>http://a.example/p1</loc><lastmod>2020-01-01</lastmod></url><url><loc>http://a.example/i.png</loc></url></urlset>`
const sampleS3 = `<?xml version="1.0"?><ListBucketResult xmlns="http://s3.amazonaws.com/doc/2006-03-01/"><Name>b</Name><Prefix></Prefix><Marker></Marker><IsTruncated>true</IsTruncated><Contents><Key>a/b.txt</Key><LastModified>2020</LastModified><Size>12</Size></Contents><Contents><Key>c d</Key><Size>0</Size></Contents></ListBucketResult>`
const sampleS3v2 = `<?xml version="1.0"?><ListBucketResult><Name>b</Name><Prefix>p/</Prefix><IsTruncated>true</IsTruncated><NextContinuationToken>tok+/=</NextContinuationToken><CommonPrefixes><Prefix>p/q/</Prefix></CommonPrefixes><Contents><Key>p/f.bin</Key><Size>3</Size></Contents></ListBucketResult>`
const sampleMaster = m3u8Head + "#EXT-X-VERSION:3\n#EXT-X-MEDIA:TYPE=AUDIO,GROUP-ID=\"a\",NAME=\"en\",DEFAULT=YES,URI=\"audio/en.m3u8\"\n" +
	"#EXT-X-STREAM-INF:PROGRAM-ID=1,BANDWIDTH=1280000,RESOLUTION=640x360,AUDIO=\"a\"\nlow/index.m3u8\n#EXT-X-I-FRAME-STREAM-INF:BANDWIDTH=86000,URI=\"iframe.m3u8\"\n"
const sampleMedia = m3u8Head + "#EXT-X-VERSION:3\n#EXT-X-TARGETDURATION:10\n#EXT-X-MEDIA-SEQUENCE:0\n#EXT-X-KEY:METHOD=AES-128,URI=\"https://a.example/key\",IV=0x1\n" +
	"#EXT-X-MAP:URI=\"init.mp4\",BYTERANGE=\"10@0\"\n#EXTINF:9.009,title\n#EXT-X-BYTERANGE:100@0\nseg0.ts\n#EXT-X-DISCONTINUITY\n" +
	"#EXT-X-PROGRAM-DATE-TIME:2020-01-02T03:04:05Z\n#EXTINF:3.003,\nhttp://a.example/seg1.ts\n#EXT-X-ENDLIST\n"
const sampleText = "see http://a.example/x and https://b.example/y.png, (www.c.example) mailto:a@b.example\n"

// tinyPDF builds a minimal one-page PDF with one link annotation (the generator's own PDF sample).
func tinyPDF() []byte {
	objs := []string{
		`<< /Type /Catalog /Pages 2 0 R >>`,
		`<< /Type /Pages /Kids [3 0 R] /Count 1 >>`,
		`<< /Type /Page /Parent 2 0 R /MediaBox [0 0 200 200] /Annots [4 0 R] >>`,
		`<< /Type /Annot /Subtype /Link /Rect [10 10 100 30] /Border [0 0 0] /A << /Type /Action /S /URI /URI (http://a.example/from.pdf) >> >>`,
	}
	var b strings.Builder
	b.WriteString("%PDF-1.4\n")
	var offs []int
	for i, o := range objs {
		offs = append(offs, b.Len())
		fmt.Fprintf(&b, "%d 0 obj\n%s\nendobj\n", i+1, o)
	}
	x := b.Len()
	fmt.Fprintf(&b, "xref\n0 %d\n0000000000 65535 f \n", len(objs)+1)
	for _, o := range offs {
		fmt.Fprintf(&b, "%010d 00000 n \n", o)
	}
	fmt.Fprintf(&b, "trailer\n<< /Size %d /Root 1 0 R >>\nstartxref\n%d\n%%%%EOF\n", len(objs)+1, x)
	return []byte(b.String())
}

var streamRE = regexp.MustCompile(`(?s)stream\r?\n.*?endstream`)

// outsideStreams: token substitution in a PDF applies to its clear-text structure only
// (truncation and deletion apply to every byte).
func outsideStreams(data []byte) func(int) bool {
	spans := streamRE.FindAllIndex(data, -1)
	return func(off int) bool {
		for _, s := range spans {
			if off >= s[0]+6 && off < s[1]-9 {
				return false
			}
		}
		return true
	}
}

func repoFile(rel string) []byte {
	b, err := os.ReadFile(filepath.Join(envOr("VERIF_REPO", "/repo"), rel))
	if err != nil {
		engineError("cannot read sample %s: %v", rel, err)
	}
	return b
}

func samples() []sample {
	const td = "internal/pkg/postprocessor/extractor/testdata/"
	pdf := repoFile(td + "InternetArchiveDeveloperPortal.pdf")
	rss := repoFile(td + "rss2.0.xml")
	rssHead := append(append([]byte(nil), rss[:bytes.Index(rss, []byte("</item>"))+7]...), "\n</channel></rss>\n"...)
	return []sample{
		{Name: "html", Profiles: []string{"html", "reddit-html", "ts-post"}, Dict: alphaHTML, Data: []byte(sampleHTML), Want: "http://a.example/j.js"},
		{Name: "json", Profiles: []string{"json", "ts-status"}, Dict: alphaJSON, Data: []byte(sampleJSON), Small: true, Want: "http://c.example/y.jpg"},
		{Name: "json-ina", Profiles: []string{"ina"}, Dict: alphaTypedJSON, Data: []byte(sampleINA), Want: "https://player.ina.fr/embed/x"},
		{Name: "json-reddit", Profiles: []string{"reddit-api"}, Dict: alphaTypedJSON, Data: []byte(sampleReddit), Want: "https://old.reddit.com/r/x/comments/abc/t/"},
		{Name: "json-ts-status", Profiles: []string{"ts-status"}, Dict: alphaTypedJSON, Data: []byte(sampleTSStatus), Want: "https://truthsocial.com/api/v1/truth/videos/v9"},
		{Name: "json-ts-account", Profiles: []string{"ts-lookup"}, Dict: alphaTypedJSON, Data: []byte(sampleTSAccount), Want: "https://truthsocial.com/api/v1/accounts/107780257626128497/statuses?"},
		{Name: "xml", Profiles: []string{"xml", "none"}, Dict: alphaXML, Data: []byte(sampleXML), Small: true, Want: "https://c.example/d.pdf"},
		{Name: "sitemap", Profiles: []string{"xml"}, Dict: alphaXML, Data: []byte(sampleSitemap), Want: "http://a.example/p1"},
		{Name: "s3", Profiles: []string{"s3"}, Dict: alphaS3, Data: []byte(sampleS3), Want: "https://bucket.example/a/b.txt"},
		{Name: "s3v2", Profiles: []string{"s3v2"}, Dict: alphaS3, Data: []byte(sampleS3v2), Want: "prefix=p%2Fq%2F"},
		{Name: "m3u8-master", Profiles: []string{"m3u8"}, Dict: alphaM3U8, Data: []byte(sampleMaster), Small: true, Want: "http://site.example/dir/low/index.m3u8"},
		{Name: "m3u8-media", Profiles: []string{"m3u8"}, Dict: alphaM3U8, Data: []byte(sampleMedia), Small: true, Want: "http://a.example/seg1.ts"},
		{Name: "text", Profiles: []string{"text", "html"}, Dict: alphaText, Data: []byte(sampleText), Want: ""},
		{Name: "pdf-tiny", Profiles: []string{"pdf"}, Dict: alphaPDF, Data: tinyPDF(), Want: "http://a.example/from.pdf"},
		// a full pass over the 88 KB feed costs ~0.1 s (xurls), so the neighbourhood is taken around its channel header + first item (5.4 KB)
		{Name: "testdata/rss2.0.xml[first item]", Profiles: []string{"xml"}, Dict: alphaXML, Data: rssHead, Big: true, Want: "https://blog.archive.org/feed/"},
		{Name: "testdata/rss2.0.xml", Profiles: []string{"xml"}, Data: rss, Big: true, CrossOnly: true},
		{Name: "testdata/InternetArchiveDeveloperPortal.pdf", Profiles: []string{"pdf"}, Dict: alphaPDF, Data: pdf, Big: true, Subst: outsideStreams(pdf), Want: "https://archive.org/about/"},
	}
}

// ---------------------------------------------------------------- mutation neighbourhood

var lexer = regexp.MustCompile(`(?s)[A-Za-z0-9_.\-]+|\s+|.`)

// mutants calls f with every 1-mutation of s. The slice passed to f is reused.
func mutants(s []byte, dict []string, subst func(int) bool, f func(m []byte, desc string)) {
	buf := make([]byte, 0, len(s)+64)
	for i := 0; i < len(s); i++ {
		f(s[:i], fmt.Sprintf("truncated at %d", i))
	}
	for i := 0; i < len(s); i++ {
		buf = append(append(buf[:0], s[:i]...), s[i+1:]...)
		f(buf, fmt.Sprintf("byte %d deleted", i))
	}
	for _, t := range lexer.FindAllIndex(s, -1) {
		if subst != nil && !subst(t[0]) {
			continue
		}
		for _, d := range dict {
			if string(s[t[0]:t[1]]) == d {
				continue
			}
			buf = append(append(append(buf[:0], s[:t[0]]...), d...), s[t[1]:]...)
			f(buf, fmt.Sprintf("token at %d..%d replaced by %q", t[0], t[1], d))
		}
	}
}

// ---------------------------------------------------------------- the spaces

// carriers put a URL-like string into every place a server can put a URL
var carriers = []struct {
	name string
	mk   func(sp, s string) *Case
}{
	{"Location", func(sp, s string) *Case { return &Case{Space: sp, Profile: "html", Status: 302, Location: s} }},
	{"Link", func(sp, s string) *Case {
		return &Case{Space: sp, Profile: "html", Status: 200, Link: "<" + s + `>; rel="next"`, Body: []byte("<html><a href=x>")}
	}},
	{"a-href", func(sp, s string) *Case { return body(sp, "html", `<html><a href="`+s+`">l</a>`) }},
	{"base+img-src", func(sp, s string) *Case {
		return body(sp, "html", `<html><base href="`+s+`"><img src="`+s+`"><a href="p">`)
	}},
	{"json-string", func(sp, s string) *Case { return body(sp, "json", `{"k":"`+s+`"}`) }},
	{"m3u8-uri", func(sp, s string) *Case { return body(sp, "m3u8", m3u8Head+"#EXTINF:1,\n"+s+"\n") }},
	{"xml-text", func(sp, s string) *Case { return body(sp, "xml", `<r><a href="`+s+`">`+s+`</a></r>`) }},
	{"s3-key", func(sp, s string) *Case {
		return body(sp, "s3", `<ListBucketResult><Contents><Key>`+s+`</Key><Size>1</Size></Contents></ListBucketResult>`)
	}},
	{"reddit-img", func(sp, s string) *Case { return body(sp, "reddit-html", `<html><img src="`+s+`">`) }},
}

func tokenSpace(name string, alpha []string, profs []string, nq, nt int, wrap func(string) string) space {
	return space{Name: name,
		About: fmt.Sprintf("all strings of <= N tokens (quick N=%d, thorough N=%d) over %q, profiles %v", nq, nt, alpha, profs),
		Gen: func(th bool, emit func(*Case)) {
			tokenStrings(alpha, pick(th, nq, nt), func(s string) {
				if wrap != nil {
					s = wrap(s)
				}
				for _, p := range profs {
					emit(body(name, p, s))
				}
			})
		}}
}

func mutantSpace(name, about string, sel func(s *sample, th bool) (use, two bool, profs []string)) space {
	return space{Name: name, About: about, Gen: func(th bool, emit func(*Case)) {
		for _, s := range samples() {
			use, two, profs := sel(&s, th)
			if !use || s.CrossOnly {
				continue
			}
			one := func(base []byte, pre string, then func(m []byte, d string)) {
				mutants(base, s.Dict, s.Subst, func(m []byte, d string) {
					for _, p := range profs {
						emit(&Case{Space: name, Desc: s.Name + ": " + pre + d, Profile: p, Status: 200, Body: m})
					}
					if then != nil {
						then(m, d)
					}
				})
			}
			if two {
				one(s.Data, "", func(m []byte, d string) { one(append([]byte(nil), m...), d+", then ", nil) })
			} else {
				one(s.Data, "", nil)
			}
		}
	}}
}

const mutantRule = "every truncation point, every single-byte deletion, every substitution of one lexical token ([A-Za-z0-9_.-]+ | whitespace run | any other byte) by one token of the format's dictionary"

// alphaDCURL: pieces of a URL a page can name while --domains-crawl is active: the configured domain and the host
// of the configured URL in several letter cases, as a suffix, with a port, with user info, the regular expression's host
var alphaDCURL = []string{`http://`, `HTTPS://`, `//`, `site.example`, `SITE.EXAMPLE`, `Site.Example`, `sub.`, `x`, `.`, `/`, `:80`, `u@`, `[::1]`,
	`other.example`, `OTHER.example`, `/dir/`, `re.example`, `?a=b`, `#f`, `%`, ` `}

func spaces() []space {
	sp := []space{
		{Name: "dc-links",
			About: fmt.Sprintf("--domains-crawl active (a domain, a URL, a regular expression): a page whose anchor, image and Link header name every string of <= N tokens (quick N=3, thorough N=4) over %q; plus every valid sample under that configuration", alphaDCURL),
			Gen: func(th bool, emit func(*Case)) {
				tokenStrings(alphaDCURL, pick(th, 3, 4), func(s string) {
					emit(&Case{Space: "dc-links", Desc: "token string " + s, Profile: "html", Status: 200, Conf: "dc",
						Body: []byte(`<html><body><a href="` + s + `">x</a><img src="` + s + `"></body></html>`)})
					emit(&Case{Space: "dc-links", Desc: "token string (text) " + s, Profile: "text", Status: 200, Conf: "dc", Body: []byte("see " + s + " and more")})
				})
				for _, smp := range samples() {
					if smp.Big {
						continue
					}
					for _, p := range sortedProfiles() {
						emit(&Case{Space: "dc-links", Desc: "sample " + smp.Name, Profile: p, Status: 200, Conf: "dc", Body: smp.Data})
					}
				}
			}},
		{Name: "declared-vs-sniffed",
			About: "a body whose bytes are not what the Content-Type header (or the item URL) declares: 9 binary / empty bodies (PNG, GIF, JPEG, gzip, zip, WebAssembly, NUL bytes, 3 KB of high bytes, nothing) and every valid sample x every profile x the configurations {default, --domains-crawl, --disable-assets-capture}",
			Gen: func(th bool, emit func(*Case)) {
				bin := map[string][]byte{
					"png":   append([]byte("\x89PNG\r\n\x1a\n\x00\x00\x00\rIHDR\x00\x00\x00\x01\x00\x00\x00\x01\x08\x06\x00\x00\x00\x1f\x15\xc4\x89"), bytes.Repeat([]byte{0}, 64)...),
					"gif":   []byte("GIF89a\x01\x00\x01\x00\x80\x00\x00\xff\xff\xff\x00\x00\x00!\xf9\x04\x01\x00\x00\x00\x00,\x00\x00\x00\x00\x01\x00\x01\x00\x00\x02\x02D\x01\x00;"),
					"jpeg":  append([]byte("\xff\xd8\xff\xe0\x00\x10JFIF\x00\x01\x01\x00\x00\x01\x00\x01\x00\x00"), bytes.Repeat([]byte{0xff}, 32)...),
					"gzip":  []byte("\x1f\x8b\x08\x00\x00\x00\x00\x00\x00\x03\xcbH\xcd\xc9\xc9\x07\x00\x86\xa6\x106\x05\x00\x00\x00"),
					"zip":   []byte("PK\x03\x04\x14\x00\x00\x00\x08\x00\x00\x00!\x00"),
					"wasm":  []byte("\x00asm\x01\x00\x00\x00"),
					"nul":   bytes.Repeat([]byte{0}, 100),
					"high":  bytes.Repeat([]byte{0xfe, 0x01, 0x80}, 1024),
					"empty": nil,
				}
				var names []string
				for n := range bin {
					names = append(names, n)
				}
				sort.Strings(names)
				for _, conf := range []string{"", "dc", "dac"} {
					for _, p := range sortedProfiles() {
						for _, n := range names {
							emit(&Case{Space: "declared-vs-sniffed", Desc: n + " bytes", Profile: p, Status: 200, Conf: conf, Body: bin[n]})
						}
						if conf == "dac" {
							for _, smp := range samples() {
								if !smp.Big {
									emit(&Case{Space: "declared-vs-sniffed", Desc: "sample " + smp.Name, Profile: p, Status: 200, Conf: conf, Body: smp.Data})
								}
							}
						}
					}
				}
			}},
		{Name: "status-location",
			About: "21 status codes x Location in {absent, valid, relative, scheme-less, garbage...} x body in {empty, html}",
			Gen: func(th bool, emit func(*Case)) {
				for _, st := range []int{-1, 0, 100, 200, 201, 204, 206, 300, 301, 302, 303, 304, 305, 307, 308, 399, 400, 404, 429, 500, 999} {
					for _, loc := range []string{"", "http://a.example/n", "../n?x#y", "//a.example", "a.example/n", "http://[::1", ":", "%", "\"'"} {
						for _, b := range []string{"", sampleHTML} {
							emit(&Case{Space: "status-location", Desc: "grid", Profile: "html", Status: st, Location: loc, Body: []byte(b)})
						}
					}
				}
			}},
		{Name: "cross",
			About: "every valid sample and every truncation of it at a lexical token boundary x every profile (every item URL / Content-Type / Server combination that selects a different extractor); the two testdata files untruncated, thorough only",
			Gen: func(th bool, emit func(*Case)) {
				names := sortedProfiles()
				for _, s := range samples() {
					if s.Big && !th {
						continue
					}
					cuts := []int{len(s.Data)}
					if !s.Big {
						for _, t := range lexer.FindAllIndex(s.Data, -1) {
							cuts = append(cuts, t[0])
						}
					}
					for _, c := range cuts {
						for _, p := range names {
							emit(&Case{Space: "cross", Desc: fmt.Sprintf("%s[:%d]", s.Name, c), Profile: p, Status: 200, Body: s.Data[:c]})
						}
					}
				}
			}},
		mutantSpace("mutants", "complete 1-mutation neighbourhood of every generator sample ("+mutantRule+"), each under the sample's own profiles (quick: first profile only)",
			func(s *sample, th bool) (bool, bool, []string) {
				if th {
					return !s.Big, false, s.Profiles
				}
				return !s.Big, false, s.Profiles[:1]
			}),
		mutantSpace("mutants-testdata", "thorough only: 1-mutation neighbourhood of the two testdata files: the 39 KB PDF (every truncation, every deletion, token substitution outside stream data) and rss2.0.xml cut down to its channel header and first item, 5.4 KB (complete)",
			func(s *sample, th bool) (bool, bool, []string) { return th && s.Big, false, s.Profiles }),
		{Name: "m3u8-lines",
			About: "\\n#EXTM3U\\n followed by all sequences of <= N lines; N=2 (thorough 3) over every tag line the decoder knows x {valid, empty, garbage attribute} and N=3 (thorough 4) over the valid forms",
			Gen: func(th bool, emit func(*Case)) {
				tokenStrings(m3u8Lines(true), pick(th, 2, 3), func(s string) { emit(body("m3u8-lines", "m3u8", m3u8Head+s)) })
				tokenStrings(m3u8Lines(false), pick(th, 3, 4), func(s string) { emit(body("m3u8-lines", "m3u8", m3u8Head+s)) })
			}},
		{Name: "url-tokens",
			About: fmt.Sprintf("all strings of <= N tokens (quick 3, thorough 4) over %q, each placed in: Location (302), Link header, <a href>, <base>+<img src>, JSON string, M3U8 segment URI, XML attribute+text, S3 key, <img src> on a reddit page", alphaURL),
			Gen: func(th bool, emit func(*Case)) {
				tokenStrings(alphaURL, pick(th, 3, 4), func(s string) {
					for _, c := range carriers {
						x := c.mk("url-tokens", s)
						x.Desc = "token string in " + c.name
						emit(x)
					}
				})
			}},
		tokenSpace("json-tokens", alphaJSON, []string{"json"}, 5, 6, nil),
		tokenSpace("typed-json-tokens", alphaTypedJSON, []string{"ina", "ts-status", "ts-lookup", "reddit-api"}, 3, 4, nil),
		tokenSpace("xml-tokens", alphaXML, []string{"xml"}, 3, 5, nil),
		tokenSpace("xml-tokens-sniffed", alphaXML, []string{"none"}, 3, 4, nil),
		tokenSpace("s3-tokens", alphaS3, []string{"s3", "s3v2"}, 3, 5, func(s string) string { return "<ListBucketResult>" + s + "</ListBucketResult>" }),
		tokenSpace("text-tokens", alphaText, []string{"html", "text"}, 4, 5, nil),
		tokenSpace("html-tokens", alphaHTML, []string{"html"}, 4, 5, nil),
		tokenSpace("html-tokens-sites", alphaHTML, []string{"reddit-html", "ts-post", "text", "ina"}, 3, 4, nil),
		tokenSpace("script-tokens", alphaScript, []string{"html"}, 5, 5, func(s string) string { return "<html><script>" + s + "</script>" }),
		tokenSpace("script-json-tokens", alphaScript, []string{"html"}, 4, 5, func(s string) string {
			return `<html><script type="application/json">` + s + `</script><div data-item='` + s + `' style='` + s + `'>`
		}),
		tokenSpace("style-tokens", []string{`url(`, `)`, `(`, `'`, `"`, `//`, `http`, `#wp-`, `%`, `a.png`, "\n", `\`}, []string{"html"}, 4, 5,
			func(s string) string { return `<html><style>` + s + `</style><p style="` + s + `">` }),
		{Name: "link-header-tokens",
			About: fmt.Sprintf("Link header = all strings of <= N tokens (quick 5, thorough 6) over %q", alphaLink),
			Gen: func(th bool, emit func(*Case)) {
				tokenStrings(alphaLink, pick(th, 5, 6), func(s string) {
					emit(&Case{Space: "link-header-tokens", Desc: "token string", Profile: "html", Status: 200, Link: s, Body: []byte("<html><a href=x>")})
				})
			}},
		mutantSpace("mutants-2", "thorough only: complete 2-mutation neighbourhood (a mutation of a mutant) of the small JSON, XML and M3U8 samples, first profile",
			func(s *sample, th bool) (bool, bool, []string) { return th && s.Small, true, s.Profiles[:1] }),
	}
	return sp
}
