// Part 1 of C13: every event history over the real tokenBucket under a manual clock.
package main

import (
	"context"
	"fmt"
	"math"
	"strconv"
	"strings"
	"time"

	"github.com/internetarchive/Zeno/internal/pkg/archiver/ratelimiter"
	"github.com/internetarchive/Zeno/internal/verif/vrt/hkit"
	"github.com/internetarchive/Zeno/internal/verif/vrt/vsched"
)

const (
	nsMs = int64(time.Millisecond)
	nsS  = int64(time.Second)
	// reference-bucket unit: 1 token = 1e12 units = (rate in 1/1000 per s) x (time in ns)
	unit = int64(1e12)
	// 1e-6 token of slack for the limiter's float arithmetic; every exact quantity is a multiple of 1e-5 token
	tol = int64(1e6)
	// a single Wait may not need more virtual time than this (longest penalty 30 s + 1/0.1 s + polling)
	waitHorizon = 120 * nsS
)

type config struct {
	Cap       int   `json:"capacity"`
	RateMilli int64 `json:"rate_milli_per_s"`
	// Fractional: the capacity is CapMilli/1000 tokens instead of Cap
	Fractional bool  `json:"fractional,omitempty"`
	CapMilli   int64 `json:"cap_milli,omitempty"`
}

func (c config) rate() float64 { return float64(c.RateMilli) / 1000 }
func (c config) capF() float64 {
	if c.Fractional {
		return float64(c.CapMilli) / 1000
	}
	return float64(c.Cap)
}
func (c config) capUnits() int64 {
	if c.Fractional {
		return c.CapMilli * (unit / 1000)
	}
	return int64(c.Cap) * unit
}
func (c config) String() string {
	return fmt.Sprintf("cap=%g rate=%g/s", c.capF(), c.rate())
}
func (c config) rateClass() string {
	if c.RateMilli < 500 {
		return "configured<0.5"
	}
	return "configured>=0.5"
}

// ---------------------------------------------------------------- events

type event struct {
	Kind byte  // 'a' acquire, 'f' failure(status), 's' success, 't' advance(ns)
	Arg  int64 // status or nanoseconds
}

func (e event) String() string {
	switch e.Kind {
	case 'a':
		return "acq"
	case 'f':
		return "f" + strconv.FormatInt(e.Arg, 10)
	case 's':
		return "ok"
	}
	return "+" + time.Duration(e.Arg).String()
}

func parseEvent(s string) (event, error) {
	switch {
	case s == "acq":
		return event{Kind: 'a'}, nil
	case s == "ok":
		return event{Kind: 's'}, nil
	case strings.HasPrefix(s, "f"):
		n, err := strconv.Atoi(s[1:])
		return event{'f', int64(n)}, err
	case strings.HasPrefix(s, "+"):
		d, err := time.ParseDuration(s[1:])
		return event{'t', int64(d)}, err
	}
	return event{}, fmt.Errorf("unknown event %q", s)
}

func histStrings(h []event) []string {
	out := make([]string, len(h))
	for i, e := range h {
		out[i] = e.String()
	}
	return out
}

func penalised(status int64) bool {
	return status == 429 || status == 403 || status == 408 || status == 425
}

func evClass(e event) string {
	switch e.Kind {
	case 'a':
		return "acquire"
	case 's':
		return "success"
	case 't':
		return "advance"
	}
	switch {
	case penalised(e.Arg):
		return "penalised-failure"
	case e.Arg >= 500:
		return "5xx"
	}
	return "other-status"
}

// ---------------------------------------------------------------- manual clock

var (
	epoch = time.Unix(1_700_000_000, 0)
	clock int64 // ns since epoch
	slept int64 // virtual time slept inside the current Wait
)

type stuckWait struct{}

// shortHorizon: the configuration's bucket never holds a whole token; a Wait is given up after 2 s of virtual time
var shortHorizon bool

func installClock() {
	vsched.SeqMode(true)
	vsched.SeqClock = func() time.Time { return epoch.Add(time.Duration(clock)) }
	vsched.SeqSleep = func(d time.Duration) {
		clock += int64(d)
		slept += int64(d)
		if slept > waitHorizon || shortHorizon && slept > 2*nsS {
			panic(stuckWait{})
		}
	}
}

func rel(t time.Time) int64 { return int64(t.Sub(epoch)) }

// ---------------------------------------------------------------- oracle (independent of the limiter's code)

// oracle is everything the property's verdict on the future depends on.
type oracle struct {
	// Reference counter k of the penalty clause: the length of the current failure streak = failures (429, 403,
	// 408, 425 or 5xx) since the last success. This is the weakest reading of "doubling with every further failure":
	// the limiter forgets more slowly (one step per success outside a penalty), which only lengthens penalties.
	Streak int
	// No release may happen before BlockedUntil = max over penalised failures of t_fail + penalty(k),
	// penalty(k) = min(5 s * 2^(k-1), 30 s). Only this lower bound is demanded (a longer block is not a violation).
	BlockedUntil int64
	BlockedK     int
	// Reference bucket for the window clause: capacity, configured rate, never penalised, starts full.
	// "every window [t_i,t_j] holds at most capacity + (t_j-t_i)*rate releases" <=> its level never goes below 0.
	// It is the exact summary of the release list (used for the state key); the literal pairwise check is
	// done as well and the two are compared on every release.
	Level   int64
	LevelAt int64
}

func penaltyNs(k int) int64 {
	if k >= 4 { // 5 s * 2^3 = 40 s > 30 s
		return 30 * nsS
	}
	return (5 * nsS) << (k - 1)
}

func (o *oracle) refillTo(c config, now int64) {
	o.Level = min(c.capUnits(), o.Level+(now-o.LevelAt)*c.RateMilli)
	o.LevelAt = now
}

func countClass(k int) string {
	switch {
	case k <= 3:
		return strconv.Itoa(k)
	case k < 10:
		return "4-9"
	case k < 100:
		return "10-99"
	}
	return "100+"
}

type violation struct {
	Sig string `json:"sig"`
	Msg string `json:"msg"`
}

// judge = the oracle state + the release times of the current history. Its methods are the whole verdict; they see
// release/failure/success events in their order of effect and the refill rate around an adjustment.
type judge struct {
	c    config
	or   oracle
	rels []int64
}

func newJudge(c config) judge { return judge{c: c, or: oracle{Level: c.capUnits()}} }

// checkRanges: tokens in [0,capacity]; min(0.5, rate) <= refill rate <= rate (exact comparisons, NaN fails).
func checkRanges(c config, s ratelimiter.VerifState, after string) *violation {
	if !(s.Tokens >= 0 && s.Tokens <= c.capF()) {
		return &violation{"tokens-out-of-range:after-" + after, fmt.Sprintf("tokens=%v outside [0,%g]", s.Tokens, c.capF())}
	}
	if !(s.RefillRate <= c.rate()) {
		return &violation{"refill-rate-above-configured:after-" + after + ":" + c.rateClass(), fmt.Sprintf("refill rate %v/s exceeds the configured %v/s", s.RefillRate, c.rate())}
	}
	if !(s.RefillRate >= math.Min(0.5, c.rate())) {
		return &violation{"refill-rate-below-floor:after-" + after + ":" + c.rateClass(), fmt.Sprintf("refill rate %v/s is below min(0.5, %v)/s", s.RefillRate, c.rate())}
	}
	return nil
}

// release judges a release at time t; fc is the limiter's own failure counter (only names the input class).
func (j *judge) release(t int64, fc int) *violation {
	c := j.c
	// penalty clause: no release in [t_fail, t_fail+penalty)
	if t < j.or.BlockedUntil {
		return &violation{"release-inside-penalty:failureCount=" + countClass(fc),
			fmt.Sprintf("released at t=%v but the penalty of failure number %d of the streak (%v) runs until t=%v",
				time.Duration(t), j.or.BlockedK, time.Duration(penaltyNs(j.or.BlockedK)), time.Duration(j.or.BlockedUntil))}
	}
	// window clause, literal: every window [t_i, t] ending at this release
	var bad string
	n := len(j.rels)
	if unit > c.capUnits()+tol { // the window [t, t]
		bad = fmt.Sprintf("1 release in the window [%v,%v] of length 0, more than the capacity %g", time.Duration(t), time.Duration(t), c.capF())
	}
	for i := n - 1; i >= 0 && bad == ""; i-- {
		count := int64(n - i + 1)
		T := t - j.rels[i]
		if count*unit > c.capUnits()+T*c.RateMilli+tol {
			bad = fmt.Sprintf("%d releases in the window [%v,%v] of length %v, more than capacity + T*rate = %g + %.3f",
				count, time.Duration(j.rels[i]), time.Duration(t), time.Duration(T), c.capF(), float64(T)/1e9*c.rate())
			break
		}
	}
	j.or.refillTo(c, t)
	j.or.Level -= unit
	if (bad != "") != (j.or.Level < -tol) {
		hkit.EngineError("window oracle disagrees with its summary: pairwise=%q level=%d", bad, j.or.Level)
	}
	j.rels = append(j.rels[:n:n], t)
	if bad != "" {
		return &violation{"window-bound-exceeded:" + c.rateClass(), bad}
	}
	return nil
}

// failure judges AdjustOnFailure(status) taking effect at time t.
func (j *judge) failure(status, t int64, preRate, postRate float64) *violation {
	if penalised(status) || status >= 500 {
		j.or.Streak++ // the statuses the property names; it says nothing about any other status
	}
	if penalised(status) {
		if u := t + penaltyNs(j.or.Streak); u >= j.or.BlockedUntil {
			j.or.BlockedUntil, j.or.BlockedK = u, j.or.Streak
		}
	}
	if status >= 500 && !(postRate <= preRate) { // 5xx responses only lower the rate
		return &violation{"5xx-raises-rate:" + j.c.rateClass(), fmt.Sprintf("status %d raised the refill rate from %v/s to %v/s (configured %v/s)", status, preRate, postRate, j.c.rate())}
	}
	return nil
}

// success judges OnSuccess: successes only raise the rate, toward and never above the configured rate.
func (j *judge) success(preRate, postRate float64) *violation {
	j.or.Streak = 0
	if !(postRate >= preRate) {
		return &violation{"success-lowers-rate:" + j.c.rateClass(), fmt.Sprintf("success lowered the refill rate from %v/s to %v/s", preRate, postRate)}
	}
	if postRate != preRate && !(postRate <= j.c.rate()) {
		return &violation{"success-overshoots-rate:" + j.c.rateClass(), fmt.Sprintf("success raised the refill rate from %v/s to %v/s, above the configured %v/s", preRate, postRate, j.c.rate())}
	}
	return nil
}

// world = the real bucket + the judge.
type world struct {
	judge
	tb *ratelimiter.VerifBucket
}

// managers: one BucketManager per configuration, built from the configured values as startPipeline
// does; every world takes a fresh host from it, so that what is judged is the bucket the archiver
// would get - not one made by the bucket constructor behind the manager's back.
var (
	managers  = map[config]*ratelimiter.BucketManager{}
	worldHost int
)

func newWorld(c config) *world {
	clock = 0
	bm := managers[c]
	if bm == nil {
		bm = ratelimiter.NewBucketManager(context.Background(), 1, c.capF(), c.rate(), 5*time.Minute)
		managers[c] = bm
	}
	worldHost++
	return &world{judge: newJudge(c), tb: ratelimiter.VerifManagedBucket(bm, fmt.Sprintf("h%d.example", worldHost))}
}

// apply runs one event on the real bucket and judges it. The bucket and clock must hold the pre-state.
func (w *world) apply(e event) *violation {
	c := w.c
	pre := w.tb.VerifGet()
	var v *violation
	switch e.Kind {
	case 't':
		clock += e.Arg
		w.or.refillTo(c, clock)
		return nil
	case 'a':
		slept = 0
		if stuck := func() (st bool) {
			defer func() {
				if r := recover(); r != nil {
					if _, ok := r.(stuckWait); !ok {
						panic(r)
					}
					st = true
				}
			}()
			w.tb.Wait()
			return false
		}(); stuck && c.capF() < 1 {
			// a bucket that never holds a whole token releases nothing: the bounds hold, the history goes on without a release
			return checkRanges(c, w.tb.VerifGet(), evClass(e))
		} else if stuck {
			return &violation{"acquire-not-released:" + c.rateClass(), fmt.Sprintf("Wait did not return within %v of virtual time although the refill rate may not fall below min(0.5, rate) and penalties end after 30 s", time.Duration(waitHorizon))}
		}
		v = w.release(clock, pre.FailureCount)
	case 'f':
		w.tb.VerifFail(int(e.Arg))
		v = w.failure(e.Arg, clock, pre.RefillRate, w.tb.VerifGet().RefillRate)
	case 's':
		w.tb.VerifSuccess()
		v = w.success(pre.RefillRate, w.tb.VerifGet().RefillRate)
	}
	if v != nil {
		return v
	}
	return checkRanges(c, w.tb.VerifGet(), evClass(e))
}

// ---------------------------------------------------------------- canonical state

type key struct {
	tokens, rate              uint64
	fc                        int
	streak                    int
	lastRel, puRel            int64
	blockedRel, blockedK, lvl int64
}

const none = math.MinInt64

// canon: the seven fields (capacity and ideal rate are fixed per configuration) with times relative to now, plus
// the oracle. A penaltyUntil strictly before lastRefill (<= now) can no longer influence Before/After/elapsed.
func (w *world) canon() key {
	s := w.tb.VerifGet()
	k := key{tokens: math.Float64bits(s.Tokens), rate: math.Float64bits(s.RefillRate), fc: s.FailureCount,
		lastRel: rel(s.LastRefill) - clock, puRel: none, blockedRel: none, streak: min(w.or.Streak, 4)}
	if !s.PenaltyUntil.Before(s.LastRefill) {
		k.puRel = rel(s.PenaltyUntil) - clock
	}
	if w.or.BlockedUntil > clock {
		k.blockedRel, k.blockedK = w.or.BlockedUntil-clock, int64(w.or.BlockedK)
	}
	if s.Capacity != w.c.capF() || s.IdealRate != w.c.rate() {
		hkit.EngineError("capacity/ideal rate changed: %+v", s)
	}
	o := w.or
	o.refillTo(w.c, clock)
	k.lvl = o.Level
	return k
}

// ---------------------------------------------------------------- breadth-first search

type node struct {
	bs     ratelimiter.VerifState
	now    int64
	or     oracle
	rels   []int64
	parent int32
	ev     event
}

type found struct {
	violation
	Config  config   `json:"config"`
	History []string `json:"history"`
}

type seqResult struct {
	Config      config     `json:"config"`
	States      int        `json:"states"`
	Transitions int        `json:"transitions"`
	Replayed    int        `json:"replayed"`
	Acquires    int        `json:"acquires"`
	Waited      int        `json:"acquires_that_waited"`
	InPenalty   int        `json:"acquires_blocked_by_penalty"`
	PerLevel    []int      `json:"new_states_per_depth"`
	StreakRoots int        `json:"streak_roots"`
	StreakNew   []int      `json:"streak_new_states_per_depth"`
	Violations  []found    `json:"violations"`
	PrunedAtVio int        `json:"nodes_not_expanded_after_violation"`
	Samples     [][]string `json:"samples"`
	Exhaustive  bool       `json:"exhaustive"`
}

type search struct {
	c       config
	w       *world
	nodes   []node
	res     *seqResult
	sigs    map[string]bool
	maxWall float64
}

func (s *search) history(i int32) []event {
	var h []event
	for ; i > 1; i = s.nodes[i].parent { // node 1 is the root (empty history)
		h = append(h, s.nodes[i].ev)
	}
	for a, b := 0, len(h)-1; a < b; a, b = a+1, b-1 {
		h[a], h[b] = h[b], h[a]
	}
	return h
}

func (s *search) load(i int32) {
	n := &s.nodes[i]
	s.w.tb.VerifSet(n.bs)
	clock = n.now
	s.w.or, s.w.rels = n.or, n.rels
}

func (s *search) save(parent int32, e event) int32 {
	s.nodes = append(s.nodes, node{s.w.tb.VerifGet(), clock, s.w.or, s.w.rels, parent, e})
	return int32(len(s.nodes) - 1)
}

func (s *search) report(parent int32, e event, v *violation) {
	s.res.PrunedAtVio++
	if s.sigs[v.Sig] {
		return
	}
	s.sigs[v.Sig] = true
	h := append(s.history(parent), e)
	s.res.Violations = append(s.res.Violations, found{*v, s.c, histStrings(h)})
}

// bfs explores every history of at most depth events (alphabet(d) = events offered at depth d) after each root.
func (s *search) bfs(roots []int32, depth int, alphabet func(d int) []event, perLevel *[]int) {
	visited := map[key]struct{}{}
	frontier := roots
	for _, r := range roots {
		s.load(r)
		visited[s.w.canon()] = struct{}{}
	}
	for d := 0; d < depth && len(frontier) > 0; d++ {
		var next []int32
		evs := alphabet(d)
		for _, i := range frontier {
			if hkit.Wall() > s.maxWall {
				s.res.Exhaustive = false
				return
			}
			for _, e := range evs {
				s.load(i)
				s.res.Transitions++
				blocked := e.Kind == 'a' && s.w.or.BlockedUntil > clock
				v := s.w.apply(e)
				if e.Kind == 'a' {
					s.res.Acquires++
					if clock > s.nodes[i].now {
						s.res.Waited++
						if blocked {
							s.res.InPenalty++
						}
					}
				}
				if v != nil {
					s.report(i, e, v)
					continue
				}
				k := s.w.canon()
				if _, ok := visited[k]; ok {
					continue
				}
				visited[k] = struct{}{}
				next = append(next, s.save(i, e))
			}
		}
		*perLevel = append(*perLevel, len(next))
		frontier = next
	}
	s.res.States += len(visited)
}

// replayAll re-executes the history of every stored state from a fresh bucket (no restore) and compares the
// canonical state: the search's snapshot/restore is equivalent to running the real code from the start.
func (s *search) replayAll() {
	for i := int32(1); i < int32(len(s.nodes)); i++ {
		if hkit.Wall() > s.maxWall {
			s.res.Exhaustive = false
			return
		}
		s.load(i)
		want := s.w.canon()
		w := newWorld(s.c)
		for _, e := range s.history(i) {
			if v := w.apply(e); v != nil {
				hkit.EngineError("replay of %v from scratch fails with %s but the search did not", histStrings(s.history(i)), v.Sig)
			}
		}
		if got := w.canon(); got != want {
			hkit.EngineError("replay of %v from scratch gives %+v, the search had %+v", histStrings(s.history(i)), got, want)
		}
		s.res.Replayed++
	}
}

type seqPlan struct {
	Depth, SweepDepth       int
	StreakMax, StreakSuffix int
	MaxWall                 float64
}

var (
	advances = []int64{10 * nsMs, nsS, 5 * nsS, 30 * nsS}
	statuses = []int64{429, 403, 408, 425, 500, 503}
)

func baseAlphabet() []event {
	evs := []event{{Kind: 'a'}}
	for _, st := range statuses {
		evs = append(evs, event{'f', st})
	}
	evs = append(evs, event{Kind: 's'})
	for _, d := range advances {
		evs = append(evs, event{'t', d})
	}
	return evs
}

func sweepAlphabet() []event {
	evs := baseAlphabet()
	for st := int64(100); st <= 599; st++ {
		evs = append(evs, event{'f', st})
	}
	return evs
}

func runSeq(c config, p seqPlan) *seqResult {
	installClock()
	shortHorizon = c.capF() < 1
	res := &seqResult{Config: c, Exhaustive: true}
	s := &search{c: c, w: newWorld(c), res: res, sigs: map[string]bool{}, maxWall: p.MaxWall}
	s.nodes = append(s.nodes, node{}) // index 0 = "no parent"
	if v := checkRanges(c, s.w.tb.VerifGet(), "create"); v != nil {
		s.report(0, event{'t', 0}, v)
		return res
	}
	root := s.save(0, event{})
	base, sweep := baseAlphabet(), sweepAlphabet()
	// (1) all histories to Depth; at the first SweepDepth positions every status code 100..599 is offered
	s.bfs([]int32{root}, p.Depth, func(d int) []event {
		if d < p.SweepDepth {
			return sweep
		}
		return base
	}, &res.PerLevel)
	mainEnd := len(s.nodes)
	// (2) long failure streaks: n failures of one kind, back to back or 1 s apart, then all histories to StreakSuffix
	var roots []int32
	for _, st := range []int64{429, 503} {
		for _, gap := range []int64{0, nsS} {
			s.load(root)
			at := root
			for n := 1; n <= p.StreakMax; n++ {
				steps := []event{{'f', st}}
				if gap > 0 {
					steps = append(steps, event{'t', gap})
				}
				var v *violation
				for _, e := range steps {
					res.Transitions++
					if v = s.w.apply(e); v != nil {
						s.report(at, e, v)
						break
					}
					at = s.save(at, e)
				}
				if v != nil {
					break
				}
				roots = append(roots, at)
			}
		}
	}
	res.StreakRoots = len(roots)
	s.bfs(roots, p.StreakSuffix, func(int) []event { return base }, &res.StreakNew)
	s.replayAll()
	// samples: two full-depth histories of phase (1) that contain an acquire and a failure, one short streak history
	interesting := func(h []event, maxLen int) bool {
		var acq, fail bool
		for _, e := range h {
			acq, fail = acq || e.Kind == 'a', fail || e.Kind == 'f'
		}
		return acq && fail && len(h) <= maxLen
	}
	for i, step := mainEnd-1, 1+mainEnd/3; i > 1 && len(res.Samples) < 2; i -= step {
		for ; i > 1; i-- {
			if h := s.history(int32(i)); interesting(h, p.Depth) {
				res.Samples = append(res.Samples, histStrings(h))
				break
			}
		}
	}
	for i := mainEnd; i < len(s.nodes); i++ {
		if h := s.history(int32(i)); interesting(h, 12) && len(h) >= 8 {
			res.Samples = append(res.Samples, histStrings(h))
			break
		}
	}
	return res
}

// replaySeq prints one history step by step.
func replaySeq(c config, hist []string) bool {
	installClock()
	shortHorizon = c.capF() < 1
	w := newWorld(c)
	fmt.Printf("replay: %s, history %v\n", c, hist)
	show := func(what string) {
		s := w.tb.VerifGet()
		pu := "-"
		if !s.PenaltyUntil.IsZero() {
			pu = time.Duration(rel(s.PenaltyUntil)).String()
		}
		fmt.Printf("  %-8s t=%-10v tokens=%-8.4g refill=%-8.4g failureCount=%-3d penaltyUntil=%-8s | reference: streak=%d blockedUntil=%v\n",
			what, time.Duration(clock), s.Tokens, s.RefillRate, s.FailureCount, pu, w.or.Streak, time.Duration(w.or.BlockedUntil))
	}
	show("new")
	for _, hs := range hist {
		e, err := parseEvent(hs)
		if err != nil {
			hkit.EngineError("%v", err)
		}
		v := w.apply(e)
		show(hs)
		if v != nil {
			fmt.Printf("replay: [sig=%s] %s\n", v.Sig, v.Msg)
			return true
		}
	}
	fmt.Println("replay: no violation")
	return false
}

// observeEviction: outside the property's quantifier (more hosts than maxBuckets). The LFU table evicts the
// penalised host's bucket when another host needs a slot, so its penalty is forgotten. Reported, never a violation.
func observeEviction() string {
	installClock()
	clock = 0
	bm := ratelimiter.NewBucketManager(context.Background(), 1, 1, 1, 5*time.Minute)
	defer bm.Close()
	bm.AdjustOnFailure("a.example", 429)
	bm.Wait("b.example") // the table holds one bucket: a.example is evicted
	bm.Wait("a.example")
	return fmt.Sprintf("maxBuckets=1: 429 for a.example at t=0, Wait(b.example), then Wait(a.example) returned at t=%v (penalty would run until 5s): eviction forgets the penalty", time.Duration(clock))
}
