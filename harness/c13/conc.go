// Part 2 of C13: concurrent waiters and one adjuster on one host through the real BucketManager, every
// interleaving (preemption bound P, timer deviations F) under the controlled scheduler and its virtual clock.
package main

import (
	"context"
	"fmt"
	"strings"
	"sync"
	"time"

	"github.com/internetarchive/Zeno/internal/pkg/archiver/ratelimiter"
	"github.com/internetarchive/Zeno/internal/verif/vrt/hkit"
	"github.com/internetarchive/Zeno/internal/verif/vrt/vsched"
)

// a host with a port, as req.URL.Host carries it for every non-default port (the limiter is keyed by that string)
const host = "site.example:8080"

// cvariant: waiter i sleeps Start[i] and then calls Wait Acquires[i] times; Script = the adjuster's events
// ("f429", "ok", "+1s"). Two waiters that poll at the same instants multiply the interleavings at every 50 ms tick
// (choices at blocking points are not bounded by P), so the variants keep the time both are polling short: the
// second waiter arrives shortly before the penalty ends.
type cvariant struct {
	Name     string   `json:"name"`
	Config   config   `json:"config"`
	Start    []string `json:"start"`
	Acquires []int    `json:"acquires"`
	Script   []string `json:"script"`
	MaxP     int      `json:"max_preemptions,omitempty"` // 0 = the tier's bound
}

func cvariants(tier string) []cvariant {
	vs := []cvariant{
		{"both-arrive-near-penalty-end", config{Cap: 1, RateMilli: 20000}, []string{"4.9s", "4.9s"}, []int{1, 1}, []string{"f429"}, 0},
		{"429-races-first-waiter", config{Cap: 1, RateMilli: 20000}, []string{"0s", "4.9s"}, []int{2, 1}, []string{"f429"}, 0},
		{"503-ok-race-two-waiters", config{Cap: 1, RateMilli: 20000}, []string{"0s", "0s"}, []int{2, 2}, []string{"f503", "+100ms", "ok"}, 0},
		{"ok-403-streak-reset-races-waiter", config{Cap: 1, RateMilli: 4000}, []string{"5s", "10s"}, []int{1, 1}, []string{"f429", "+5100ms", "ok", "f403"}, 0},
	}
	if tier == "thorough" { // a waiter polls through a 5 s and a 10 s penalty: executions of ~1000 steps, one preemption only
		vs = append(vs,
			cvariant{"two-429-race-first-waiter", config{Cap: 2, RateMilli: 4000}, []string{"0s", "10.9s"}, []int{2, 1}, []string{"f429", "+1s", "f408"}, 1},
			cvariant{"429-ok-403-first-waiter-polls-both", config{Cap: 1, RateMilli: 4000}, []string{"0s", "10.1s"}, []int{2, 1}, []string{"f429", "+5100ms", "ok", "f403"}, 1})
	}
	return vs
}

// cworld is the per-execution record. Exactly one thread runs between two scheduling decisions and the limiter's
// critical sections contain no scheduling point, so an event appended right after the call returns is appended
// in the order of effect, and x.Now() is the virtual time of that effect.
type cworld struct {
	v   cvariant
	bm  *ratelimiter.BucketManager
	j   judge
	log []string
	err *violation
}

func (w *cworld) fail(v *violation) {
	if v != nil && w.err == nil {
		w.err = v
	}
}

func (w *cworld) rate() float64 {
	if tb := w.bm.VerifBucketOf(host); tb != nil {
		return tb.VerifGet().RefillRate
	}
	return w.v.Config.rate() // the call will create the bucket with the configured rate
}

func cscenario(v cvariant) *vsched.Scenario {
	var w *cworld
	sc := &vsched.Scenario{Name: v.Name}
	sc.Setup = func(x *vsched.Exec) {
		w = &cworld{v: v, j: newJudge(v.Config)}
		x.Data = w
	}
	sc.Body = func() {
		x := vsched.Cur()
		w.bm = ratelimiter.NewBucketManager(context.Background(), 4, v.Config.capF(), v.Config.rate(), 5*time.Minute)
		var wg sync.WaitGroup
		for i, n := range v.Acquires {
			wg.Add(1)
			go func(i, n int) {
				defer wg.Done()
				d, err := time.ParseDuration(v.Start[i])
				if err != nil {
					panic(err)
				}
				time.Sleep(d)
				for k := 0; k < n; k++ {
					w.bm.Wait(host)
					t := int64(x.Now())
					w.log = append(w.log, fmt.Sprintf("w%d:release@%v", i, time.Duration(t)))
					w.fail(w.j.release(t, w.bm.VerifBucketOf(host).VerifGet().FailureCount))
				}
			}(i, n)
		}
		wg.Add(1)
		go func() {
			defer wg.Done()
			for _, s := range v.Script {
				e, err := parseEvent(s)
				if err != nil {
					panic(err)
				}
				pre := w.rate()
				switch e.Kind {
				case 't':
					time.Sleep(time.Duration(e.Arg))
					continue
				case 'f':
					w.bm.AdjustOnFailure(host, int(e.Arg))
					w.fail(w.j.failure(e.Arg, int64(x.Now()), pre, w.rate()))
				case 's':
					w.bm.OnSuccess(host)
					w.fail(w.j.success(pre, w.rate()))
				}
				w.log = append(w.log, fmt.Sprintf("adj:%s@%v", s, x.Now()))
			}
		}()
		wg.Wait()
		w.bm.Close()
	}
	sc.AtStep = func(x *vsched.Exec) error {
		if w.err == nil && w.bm != nil {
			if n := w.bm.VerifHosts(); n > 1 {
				return fmt.Errorf("engine: %d hosts in the table", n)
			}
			if tb := w.bm.VerifBucketOf(host); tb != nil {
				w.fail(checkRanges(v.Config, tb.VerifGet(), "concurrent-step"))
			}
		}
		if w.err != nil {
			return fmt.Errorf("[sig=%s] %s; events so far: %s", w.err.Sig, w.err.Msg, strings.Join(w.log, " "))
		}
		return nil
	}
	sc.Outcome = func(x *vsched.Exec) string { return strings.Join(w.log, " ") }
	sc.Horizon = 2 * time.Minute
	sc.TimerDeviations = true
	sc.Signature = func(vio *vsched.Violation) string {
		if i := strings.Index(vio.Message, "[sig="); i >= 0 {
			if j := strings.IndexByte(vio.Message[i:], ']'); j > 0 {
				return "concurrent:" + vio.Message[i+5:i+j]
			}
		}
		return "concurrent:" + vsched.DefaultSignature(vio)
	}
	sc.KnownSig = func(sig string) bool { return hkit.IsListed(propID, sig) }
	return sc
}

func firstLine(s string) string {
	if i := strings.IndexByte(s, '\n'); i > 0 {
		s = s[:i]
	}
	if len(s) > 700 {
		s = s[:700]
	}
	return s
}

func replayConc(v cvariant, vio *vsched.Violation) bool {
	defer func() {
		if r := recover(); r != nil { // the recorded schedule does not exist on this tree
			hkit.EngineError("replay: %v", r)
		}
	}()
	got, x := vsched.Replay(cscenario(v), vio.Choices)
	for _, s := range x.Steps {
		th := s.Thread
		if i := strings.IndexByte(th, '('); i > 0 {
			th = th[:i]
		}
		fmt.Printf("  t=%-7dms thread %-5s %-72s case=%d\n", s.VTimeMs, th, s.Point, s.Case)
	}
	if got == nil {
		fmt.Println("replay: no violation")
		return false
	}
	fmt.Printf("replay: %s: %s\n", got.Kind, firstLine(got.Message))
	return true
}
