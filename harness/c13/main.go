// Harness for C13: per-host politeness of internal/pkg/archiver/ratelimiter.
//
// Part 1 (seq.go): breadth-first search over all event histories of the real tokenBucket under a manual clock.
// Part 2 (conc.go): two Waiters and one adjuster on one host through the real BucketManager under the
// controlled scheduler.
package main

import (
	"encoding/json"
	"fmt"
	"os"
	"sort"
	"time"

	"github.com/internetarchive/Zeno/internal/verif/vrt/hkit"
	"github.com/internetarchive/Zeno/internal/verif/vrt/vsched"
)

const propID = "C13"

func configs(tier string) []config {
	rates := []int64{200, 500, 1000, 4000}
	if tier == "thorough" {
		rates = []int64{100, 200, 500, 1000, 4000, 50000}
	}
	var cs []config
	for _, r := range rates {
		for _, c := range []int{1, 2, 3} {
			cs = append(cs, config{Cap: c, RateMilli: r})
		}
	}
	// --rate-limit-capacity is a float: a bucket that never holds a whole token (nothing may be released), one of
	// one and a half tokens
	cs = append(cs, config{Fractional: true, CapMilli: 500, RateMilli: 1000}, config{Fractional: true, CapMilli: 0, RateMilli: 1000},
		config{Fractional: true, CapMilli: 1500, RateMilli: 1000}, config{Fractional: true, CapMilli: 500, RateMilli: 200})
	if tier == "thorough" {
		cs = append(cs, config{Cap: 150, RateMilli: 50000}) // Zeno's defaults
	}
	return cs
}

func plan(tier string) seqPlan {
	if tier == "thorough" {
		return seqPlan{Depth: 10, SweepDepth: 2, StreakMax: 70, StreakSuffix: 4, MaxWall: 480}
	}
	return seqPlan{Depth: 7, SweepDepth: 2, StreakMax: 70, StreakSuffix: 3, MaxWall: 45}
}

func main() {
	a := hkit.ParseArgs()
	cs, p := configs(a.Tier), plan(a.Tier)
	if v, ok := a.Extra["depth"]; ok {
		fmt.Sscanf(v, "%d", &p.Depth)
	}
	if a.Replay != "" {
		replay(a.Replay)
		return
	}
	// part 2 bounds: preemptions P, timer deviations F, K frontier sub-shards per variant
	P, F, K, concWall := 1, 1, 2, 40*time.Second
	if a.Tier == "thorough" {
		P, F, K, concWall = 2, 1, 8, 12*time.Minute
	}
	if v, ok := a.Extra["p"]; ok {
		fmt.Sscanf(v, "%d", &P)
	}
	if v, ok := a.Extra["f"]; ok {
		fmt.Sscanf(v, "%d", &F)
	}
	cvs := cvariants(a.Tier)
	if a.Of > 1 {
		if a.Shard < len(cs) {
			hkit.EmitShardResult(runSeq(cs[a.Shard], p))
		} else {
			i := a.Shard - len(cs)
			v := cvs[i/K]
			if v.MaxP > 0 {
				P = min(P, v.MaxP)
			}
			hkit.EmitShardResult(vsched.Explore(cscenario(v), vsched.Bounds{P: P, F: F, MaxWall: concWall, Shard: i % K, Of: K}))
		}
		return
	}
	for _, v := range cvs {
		if err := vsched.DeterminismCheck(cscenario(v)); err != nil {
			hkit.EngineError("%v", err)
		}
	}
	outs := hkit.Shards(len(cs)+len(cvs)*K, fmt.Sprintf("--p=%d", P), fmt.Sprintf("--f=%d", F))
	var (
		states, transitions, replayed, acquires, waited, inPenalty int
		per                                                        []map[string]any
		samples                                                    []any
		exhaustive                                                 = true
		all                                                        []found
	)
	for i := range cs {
		var r seqResult
		hkit.ShardResult(outs[i], &r)
		states, transitions, replayed = states+r.States, transitions+r.Transitions, replayed+r.Replayed
		acquires, waited, inPenalty = acquires+r.Acquires, waited+r.Waited, inPenalty+r.InPenalty
		exhaustive = exhaustive && r.Exhaustive
		per = append(per, map[string]any{"config": r.Config.String(), "states": r.States, "transitions": r.Transitions,
			"new_states_per_depth": r.PerLevel, "streak_roots": r.StreakRoots, "streak_new_states_per_depth": r.StreakNew,
			"violating_transitions": r.PrunedAtVio, "exhaustive": r.Exhaustive})
		for _, s := range r.Samples {
			samples = append(samples, map[string]any{"config": r.Config.String(), "history": s})
		}
		all = append(all, r.Violations...)
	}
	// one report per signature: the shortest history, then the smallest configuration
	sort.SliceStable(all, func(i, j int) bool { return len(all[i].History) < len(all[j].History) })
	seen := map[string]bool{}
	for _, f := range all {
		if seen[f.Sig] {
			continue
		}
		seen[f.Sig] = true
		hkit.Report(propID, f.Sig, map[string]any{"engine": "seq", "harness": "c13", "config": f.Config, "history": f.History, "sig": f.Sig},
			fmt.Sprintf("%s, history %v: %s", f.Config, f.History, f.Msg))
	}
	// part 2: merge the explorer's reports
	conc := &vsched.Report{Exhaustive: true}
	var cper []map[string]any
	cseen := map[string]bool{}
	for i := 0; i < len(cvs)*K; i++ {
		var r vsched.Report
		hkit.ShardResult(outs[len(cs)+i], &r)
		v := cvs[i/K]
		cper = append(cper, map[string]any{"scenario": r.Scenario, "config": v.Config.String(), "waiter_start": v.Start, "waiter_acquires": v.Acquires, "adjuster": v.Script, "executions": r.Executions,
			"preemption_bound": r.P, "pruned": r.Pruned, "states": r.States, "transitions": r.Transitions, "distinct_outcomes": len(r.Outcomes), "ends": r.Ends, "exhaustive": r.Exhaustive, "cap_hit": r.CapHit, "wall_s": r.WallS})
		for _, vio := range r.Violations {
			if cseen[vio.Sig] {
				continue
			}
			cseen[vio.Sig] = true
			if err := vsched.Confirm(cscenario(v), &vio); err != nil {
				hkit.EngineError("violation did not replay: %v", err)
			}
			hkit.Report(propID, vio.Sig, map[string]any{"engine": "explore", "harness": "c13", "variant": v, "violation": vio},
				fmt.Sprintf("%s: %s: %s", v.Name, vio.Kind, firstLine(vio.Message)))
		}
		conc.Merge(&r)
	}
	obs := observeEviction()
	fmt.Println("observation (outside the quantifier):", obs)
	var outcomes []string
	for _, o := range vsched.SortedKeys(conc.Outcomes) {
		if len(outcomes) < 3 {
			outcomes = append(outcomes, o)
		}
	}
	samples = append(samples, map[string]any{"concurrent_outcomes": outcomes})
	exhaustive = exhaustive && conc.Exhaustive
	hkit.Evidence(propID, a.Tier, "model_checking", map[string]any{
		"states": states + conc.States, "transitions": transitions + conc.Transitions, "traces_validated_against_impl": replayed + conc.Executions, "samples": samples,
		"exhaustive": exhaustive, "observations": []string{obs},
		"histories": map[string]any{"states": states, "transitions": transitions, "replayed_from_scratch": replayed, "acquires": acquires, "acquires_that_waited": waited,
			"acquires_blocked_by_reference_penalty": inPenalty, "alphabet": histStrings(baseAlphabet()),
			"bounds":         map[string]any{"depth": p.Depth, "all_status_codes_100_599_at_depth_below": p.SweepDepth, "streak_lengths": fmt.Sprintf("1..%d", p.StreakMax), "streak_kinds": "429 or 503, back to back or 1 s apart", "streak_suffix_depth": p.StreakSuffix},
			"configurations": per},
		"concurrent": map[string]any{"states": conc.States, "transitions": conc.Transitions, "executions": conc.Executions, "pruned_by_state_cache": conc.Pruned,
			"distinct_outcomes": len(conc.Outcomes), "preemption_bound": P, "timer_deviation_bound": F, "scenarios": cper},
		"explanation": "part 1: breadth-first search over event histories; every transition is executed by the real tokenBucket (Wait, adjustOnFailure, onSuccess) under a manual clock; " +
			"states = distinct (seven bucket fields relative to now + oracle summary); replayed_from_scratch = stored states whose whole history was re-executed from a fresh bucket and reproduced the state; " +
			"a transition that violates the property is reported and not expanded further. part 2: stateless DFS over the interleavings of two Wait-ers and one adjuster through the real BucketManager " +
			"under the controlled scheduler and virtual clock (states = happens-before fingerprints)",
	}, []string{
		"time.Now/time.Sleep of internal/pkg/archiver/ratelimiter are redirected to a manual/virtual clock (instrumented copy of the working tree); Wait's 50 ms polling advances it",
		"window and penalty clauses are judged in exact integer arithmetic with 1e-6 token of slack for the limiter's float arithmetic",
		"penalty clause demands only the lower bound t_fail + min(5s*2^(k-1),30s), k = failures (429/403/408/425/5xx) since the last success (weakest reading)",
		"float-to-integer conversion overflow behaves as on the machine running the check (amd64)",
		"hosts <= maxBuckets and the cleanup period (5 min, the default) longer than the longest penalty: LFU eviction and stale-bucket cleanup never drop a penalised bucket",
		"part 2: scheduling points at the mutex, channel, sleep and ticker operations of the limiter; state cache: equal happens-before fingerprints have equal futures",
	}, hkit.Violations())
	fmt.Printf("C13 %s part 1: %d configurations, %d states, %d transitions, %d histories replayed from scratch\n", a.Tier, len(cs), states, transitions, replayed)
	fmt.Printf("C13 %s part 2: %d scenarios, %d executions, %d states, %d transitions, %d outcomes (P<=%d F<=%d)\n", a.Tier, len(cvs), conc.Executions, conc.States, conc.Transitions, len(conc.Outcomes), P, F)
	fmt.Printf("C13 %s: exhaustive=%v, %.1fs\n", a.Tier, exhaustive, hkit.Wall())
	hkit.Exit()
}

func replay(path string) {
	b, err := os.ReadFile(path)
	if err != nil {
		hkit.EngineError("%v", err)
	}
	var r struct {
		Engine    string           `json:"engine"`
		Config    config           `json:"config"`
		History   []string         `json:"history"`
		Variant   cvariant         `json:"variant"`
		Violation vsched.Violation `json:"violation"`
	}
	if err := json.Unmarshal(b, &r); err != nil {
		hkit.EngineError("%v", err)
	}
	bad := false
	if r.Engine == "explore" {
		bad = replayConc(r.Variant, &r.Violation)
	} else {
		bad = replaySeq(r.Config, r.History)
	}
	if bad {
		fmt.Printf("VIOLATION property=%s replay=%s\n", propID, path)
		os.Exit(1)
	}
	os.Exit(0)
}
