// Harness for C18: the low-disk guard decides "free < threshold" exactly and
// monotonically. Three stages, all on the real Zeno code:
//
//	grid  (E3) every (total, min-space, free) triple of the stated space through checkThreshold and
//	           through CheckDiskUsage (controlled Statfs), judged by the exact oracle of oracle.go
//	flag       --min-space-required through Zeno's flag/viper path reaches the guard unchanged
//	watch (E1) WatchDiskSpace under the controlled scheduler, every sequence of boundary readings
package main

import (
	"encoding/json"
	"fmt"
	"math"
	"os"

	"github.com/internetarchive/Zeno/internal/verif/vrt/hkit"
	"github.com/internetarchive/Zeno/internal/verif/vrt/vsched"
)

const propID = "C18"

type workerOut struct {
	Grid *shardOut
	Flag *flagOut
	T    [3]float64 // wall seconds: building the space, grid, flag (information only)
}

func main() {
	a := hkit.ParseArgs()
	isolateEnv()
	if a.Replay != "" {
		replay(a.Replay)
		return
	}
	if _, ok := a.Extra["total"]; ok {
		// ad-hoc single triple: --total=N --free=N --ms=X, handled like a grid replay
		var c triple
		fmt.Sscan(a.Extra["total"], &c.Total)
		fmt.Sscan(a.Extra["free"], &c.Free)
		fmt.Sscan(a.Extra["ms"], &c.MinSpace)
		replayGrid(c, "", "(ad-hoc triple)")
		return
	}
	if a.Of > 1 {
		vsched.SeqMode(true)
		w := workerOut{}
		ps := space(a.Tier, a.Shard, a.Of)
		w.T[0] = hkit.Wall()
		w.Grid = runShard(ps)
		w.T[1] = hkit.Wall() - w.T[0]
		w.Flag = runFlagStage(a.Tier, a.Shard, a.Of)
		w.T[2] = hkit.Wall() - w.T[1] - w.T[0]
		hkit.EmitShardResult(w)
		return
	}

	watch := runWatchStage()

	n := 16
	if a.Tier == "thorough" {
		n = 64
	}
	grid := &shardOut{Classes: map[string]int{}, Fails: map[string]*failure{}}
	flag := &flagOut{Fails: map[string]*failure{}}
	for _, b := range hkit.Shards(n) {
		var w workerOut
		hkit.ShardResult(b, &w)
		g := w.Grid
		grid.Pairs += g.Pairs
		grid.Evals += g.Evals
		grid.NonTrivial += g.NonTrivial
		grid.Refusals += g.Refusals
		grid.Calls += g.Calls
		for k, v := range g.Classes {
			grid.Classes[k] += v
		}
		if len(grid.Samples) < 8 {
			grid.Samples = append(grid.Samples, g.Samples...)
		}
		if g.StatfsBad != "" {
			grid.StatfsBad = g.StatfsBad
		}
		mergeFails(grid.Fails, g.Fails)
		flag.Values += w.Flag.Values
		flag.Honoured += w.Flag.Honoured
		flag.Harmless += w.Flag.Harmless
		mergeFails(flag.Fails, w.Flag.Fails)
	}
	if a.Tier == "quick" {
		if all := len(space(a.Tier, 0, 1)); grid.Pairs != all { // the shards partition the space
			hkit.EngineError("shards evaluated %d of %d pairs", grid.Pairs, all)
		}
	}
	if grid.StatfsBad != "" {
		// CheckDiskUsage(path) must read the volume it is asked about
		grid.Fails["statfs-path"] = &failure{Sig: "via-CheckDiskUsage:reads-another-path", Human: "CheckDiskUsage(" + jobPath + ") called Statfs on " + grid.StatfsBad, Count: 1, Engine: "grid"}
	}

	// report: one line per signature; the same signature seen by several stages is reported once (grid first)
	reported := map[string]bool{}
	for _, stage := range []map[string]*failure{grid.Fails, flag.Fails, watch.Fails} {
		for _, k := range hkit.SortedKeys(stage) {
			f := stage[k]
			if reported[f.Sig] {
				continue
			}
			reported[f.Sig] = true
			payload := map[string]any{"harness": "c18", "engine": f.Engine, "sig": f.Sig, "case": f.Case}
			if f.Engine == "watch" {
				payload["watch"] = watchVio[f.Sig]
			}
			hkit.Report(propID, f.Sig, payload, fmt.Sprintf("%s [%d cases of this class]", f.Human, f.Count))
		}
	}

	z := tierSizes(a.Tier)
	hkit.Evidence(propID, a.Tier, "exploration", map[string]any{
		"evaluations":         grid.Evals,
		"distinct_nontrivial": grid.NonTrivial,
		"rule": "grid: all triples of the union of five blocks (pairs and free values de-duplicated, so every evaluated triple is distinct); " +
			"a triple is non-trivial when free lies within one byte of the exact threshold (floor(thr)-1 <= free <= ceil(thr)+1); " +
			"each triple is decided by checkThreshold and by CheckDiskUsage (controlled Statfs) and compared with free < threshold in big.Rat arithmetic; monotonicity along the sorted free values of each pair",
		"samples":    grid.Samples,
		"exhaustive": watch.Exhaustive,
		"pairs":      grid.Pairs, "must_refuse": grid.Refusals, "must_accept": grid.Evals - grid.Refusals,
		"statfs_calls_served":         grid.Calls,
		"boundary_classes_covered":    grid.Classes,
		"failure_signatures_this_run": len(reported),
		"alphabets": map[string]any{
			"B1_design_totals": designTotals(), "B1_design_min_space": designMS,
			"B2_small_scope":   fmt.Sprintf("min-space unset, every total 0..%d with every free 0..total+1", z.smallN),
			"B3_operator":      fmt.Sprintf("min-space k/100 for k=1..%d plus %d float64 rounding edges (nextafter of 0.5/1/20/50/1000, denormal, k/4 byte, 2^53 and just below 2^63 bytes) on totals {1, 100 GiB, 256 GiB, 1 TiB}", z.msSteps, len(edgeMS())),
			"B4_boundary":      fmt.Sprintf("min-space unset, every total 256 GiB-%d .. 256 GiB+%d", z.boundary, z.boundary),
			"B5_scaling_sweep": fmt.Sprintf("min-space unset, totals i*(256 GiB/%d)+i for i=1..%d", z.sweep, z.sweep-1),
			"free":             "{0, floor(thr)-1, floor(thr), ceil(thr), ceil(thr)+1, total, 2^64-1}; B2: all",
			"bound":            "thresholds <= 2^63 bytes",
		},
		"flag_stage": map[string]any{"settings_resolved": flag.Values, "reached_guard_unchanged": flag.Honoured, "changed_without_effect": flag.Harmless,
			"path": "cmd.getCMDsFlags -> pflag.Parse -> config.BindFlags -> config.InitConfig -> config.Get().MinSpaceRequired"},
		"watch_stage": map[string]any{"executions": watch.Executions, "transitions": watch.Trans, "distinct_outcomes": watch.Outcomes,
			"ticks": watchTicks, "scenarios": watch.Per, "sample_trace": watch.Sample},
	}, []string{
		"watchers package instrumented from the working tree: syscall.Statfs answers come from the harness; checkThreshold itself contains no rewritten construct",
		"min-space-required <= 0 (the flag's default 0) means not given; negative and NaN settings are outside the quantifier",
		"thresholds above 2^63 bytes (min-space-required > 2^33 GiB) and volumes of 2^64 bytes or more are outside the bound",
		"pipeline.go: startPipeline/stopPipeline pass config.Get().JobPath to CheckDiskUsage/WatchDiskSpace (read, not executed: startPipeline calls os.Exit)",
	}, hkit.Violations())
	fmt.Printf("C18 %s: grid %d pairs, %d triples (%d within one byte of the threshold), flag %d settings, watch %d executions; %d failure signatures\n",
		a.Tier, grid.Pairs, grid.Evals, grid.NonTrivial, flag.Values, watch.Executions, len(reported))
	hkit.Exit()
}

func mergeFails(dst, src map[string]*failure) {
	for _, f := range src {
		d := dst[f.Sig]
		if d == nil {
			c := *f
			dst[f.Sig] = &c
			continue
		}
		d.Count += f.Count
		if less(f.Case, d.Case) {
			d.Case, d.Human = f.Case, f.Human
		}
	}
}

// replay re-runs the single case of a replay artefact on the real code.
func replay(path string) {
	b, err := os.ReadFile(path)
	if err != nil {
		hkit.EngineError("%v", err)
	}
	var r struct {
		Engine string `json:"engine"`
		Sig    string `json:"sig"`
		Case   triple `json:"case"`
		Watch  struct {
			Config    watchCfg         `json:"config"`
			Violation vsched.Violation `json:"violation"`
		} `json:"watch"`
	}
	if err := json.Unmarshal(b, &r); err != nil {
		hkit.EngineError("%v", err)
	}
	var bits uint64
	if _, err := fmt.Sscanf(r.Case.MSBits, "0x%x", &bits); err == nil {
		r.Case.MinSpace = math.Float64frombits(bits)
	}
	failed := false
	switch r.Engine {
	case "watch":
		initStats()
		v, x := vsched.Replay(watchScenario(r.Watch.Config), r.Watch.Violation.Choices)
		for _, s := range x.Steps {
			fmt.Printf("  %-10s %-70s case=%d vtime=%dms\n", s.Thread, s.Point, s.Case, s.VTimeMs)
		}
		if v != nil {
			fmt.Printf("replay: %s: %s\n", v.Kind, v.Message)
			failed = true
		}
	case "flag":
		vsched.SeqMode(true)
		eff, err := resolveFlag(fmtMS(r.Case.MinSpace), true)
		fmt.Printf("replay: --min-space-required=%s reaches the guard as %v (err=%v)\n", fmtMS(r.Case.MinSpace), eff, err)
		in := info(r.Case.Total, r.Case.MinSpace)
		setup(eff)
		_, via, msg := decide(r.Case.Total, r.Case.Free, eff)
		want := mustRefuse(r.Case.Free, in.thr)
		fmt.Printf("replay: total=%d free=%d: operator's threshold %s bytes, must refuse=%v; CheckDiskUsage refuses=%v %s\n", r.Case.Total, r.Case.Free, thrString(in.thr), want, via, msg)
		failed = via != want
	default:
		replayGrid(r.Case, r.Sig, path)
		return
	}
	finishReplay(failed, path)
}

func finishReplay(failed bool, path string) {
	if !failed {
		fmt.Println("replay: no violation")
		os.Exit(0)
	}
	fmt.Printf("VIOLATION property=%s replay=%s\n", propID, path)
	os.Exit(1)
}

// replayGrid re-runs one triple and then its whole pair (edge free values, for monotonicity).
func replayGrid(c triple, sig, path string) {
	vsched.SeqMode(true)
	in := info(c.Total, c.MinSpace)
	setup(c.MinSpace)
	want := mustRefuse(c.Free, in.thr)
	direct, via, msg := decide(c.Total, c.Free, c.MinSpace)
	fmt.Println("replay:", describe(c, in, want, direct, via))
	if msg != "" {
		fmt.Println("replay: zeno:", msg)
	}
	failed := direct != want || via != want
	p := pair{Total: c.Total, MS: c.MinSpace, gens: genEdge}
	if c.Total <= 8192 {
		p.gens |= genAll
	}
	o := runShard([]pair{p})
	for _, k := range hkit.SortedKeys(o.Fails) {
		fmt.Printf("replay: pair fails with sig=%s (%d cases): %s\n", k, o.Fails[k].Count, o.Fails[k].Human)
		failed = failed || k == sig
	}
	finishReplay(failed, path)
}
