package main

import (
	"fmt"
	"math"
	"os"
	"strconv"

	zcmd "github.com/internetarchive/Zeno/cmd"
	"github.com/internetarchive/Zeno/internal/pkg/config"
	"github.com/internetarchive/Zeno/internal/pkg/controler/watchers"
	"github.com/spf13/viper"
)

// Stage "flag": the property speaks of "the operator's --min-space-required
// when given", so the value must survive Zeno's own path from the command line
// to config.Get().MinSpaceRequired (real flag definitions of cmd/get.go ->
// config.BindFlags -> config.InitConfig: viper, aliases, Unmarshal).
// A difference between the given and the effective value is only a violation
// when it changes a decision: a witness triple is searched and confirmed on
// the real CheckDiskUsage.

// resolveFlag returns the setting the watcher will see when the operator types
// --min-space-required=<arg> (given=false: the flag is absent).
func resolveFlag(arg string, given bool) (float64, error) {
	viper.Reset()
	config.VerifReinitC18()
	var args []string
	if given {
		args = []string{"--min-space-required=" + arg}
	}
	fs, err := zcmd.VerifGetFlagsC18(args)
	if err != nil {
		return 0, fmt.Errorf("flag parse: %v", err)
	}
	config.BindFlags(fs)
	if err := config.InitConfig(); err != nil {
		return 0, fmt.Errorf("InitConfig: %v", err)
	}
	return config.Get().MinSpaceRequired, nil
}

func isolateEnv() {
	// no ~/zeno-config.yaml, no ZENO_MIN_SPACE_REQUIRED from the caller's environment
	if d := os.Getenv("VERIF_TMP"); d != "" {
		os.Setenv("HOME", d)
	} else {
		os.Setenv("HOME", os.TempDir()+"/c18-empty-home")
	}
	os.Unsetenv("ZENO_MIN_SPACE_REQUIRED")
	os.Unsetenv("ZENO_MSR")
}

type flagOut struct {
	Values   int
	Honoured int
	Harmless int // effective differs from given but no decision differs on the witness grid
	Fails    map[string]*failure
}

// flagValues: the operator settings of the grid (everything but "unset").
func flagValues(tier string) []float64 {
	seen := map[uint64]bool{}
	var out []float64
	add := func(v float64) {
		if v > 0 && !seen[math.Float64bits(v)] {
			seen[math.Float64bits(v)] = true
			out = append(out, v)
		}
	}
	for _, v := range designMS {
		add(v)
	}
	for _, v := range edgeMS() {
		add(v)
	}
	for k := 1; k <= tierSizes(tier).msSteps; k++ {
		add(float64(k) / 100)
	}
	return out
}

// flagWitness looks for a triple on which the decision taken with the
// effective setting differs from what the given setting demands.
func flagWitness(given, effective float64) (triple, string, bool) {
	setup(effective)
	for _, total := range []uint64{tib, 100 * gib, 1} {
		ig, ie := info(total, given), info(total, effective)
		cand := append(frees(pair{Total: total, MS: given, gens: genEdge}, ig), frees(pair{Total: total, MS: effective, gens: genEdge}, ie)...)
		for _, f := range cand {
			want := mustRefuse(f, ig.thr)
			reading.total, reading.free = total, f
			got := watchers.CheckDiskUsage(jobPath) != nil
			if got != want {
				w := map[bool]string{true: "refuse", false: "accept"}
				return mkTriple(total, f, given), fmt.Sprintf("--min-space-required=%s reaches the guard as %v: with total=%d free=%d the operator's threshold is %s bytes, so the guard must %s, but CheckDiskUsage says %s (effective threshold %s bytes)",
					fmtMS(given), effective, total, f, thrString(ig.thr), w[want], w[got], thrString(ie.thr)), true
			}
		}
	}
	return triple{}, "", false
}

func fmtMS(v float64) string { return strconv.FormatFloat(v, 'g', -1, 64) }

func flagSig(given, effective float64) string {
	how := "replaced-by-" + fmtMS(effective)
	if !(effective > 0) {
		how = "treated-as-not-given"
	}
	return fmt.Sprintf("operator-setting-not-honoured/%s/integer-part=%d", how, int64(math.Min(given, 1e18)))
}

func runFlagStage(tier string, shard, of int) *flagOut {
	o := &flagOut{Fails: map[string]*failure{}}
	for i, v := range flagValues(tier) {
		if i%of != shard {
			continue
		}
		o.Values++
		eff, err := resolveFlag(fmtMS(v), true)
		if err != nil {
			o.Fails["flag-path-error"] = &failure{Sig: "operator-setting-not-honoured/flag-path-error", Case: mkTriple(0, 0, v), Human: err.Error(), Count: 1, Engine: "flag"}
			continue
		}
		if math.Float64bits(eff) == math.Float64bits(v) {
			o.Honoured++
			continue
		}
		t, human, ok := flagWitness(v, eff)
		if !ok {
			o.Harmless++
			continue
		}
		sig := flagSig(v, eff)
		if f := o.Fails[sig]; f == nil {
			o.Fails[sig] = &failure{Sig: sig, Case: t, Human: human, Count: 1, Engine: "flag"}
		} else {
			f.Count++
			if less(t, f.Case) {
				f.Case, f.Human = t, human
			}
		}
	}
	if shard == 0 {
		// the absent flag must mean "not given" (default rule)
		o.Values++
		eff, err := resolveFlag("", false)
		if err == nil && !(eff > 0) {
			o.Honoured++
		} else {
			o.Fails["absent"] = &failure{Sig: "operator-setting-not-honoured/absent-flag-yields-a-setting", Case: mkTriple(tib, 0, eff),
				Human: fmt.Sprintf("without --min-space-required the guard sees %v (err=%v)", eff, err), Count: 1, Engine: "flag"}
		}
	}
	return o
}
