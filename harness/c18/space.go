package main

import (
	"math"
	"sort"
)

// The enumerated space is a set of (total, min-space) pairs, each with a set of
// free values. Pairs and free values are de-duplicated, so every evaluated
// triple is distinct.

const (
	genEdge = 1 // free in {0, floor(thr)-1, floor(thr), ceil(thr), ceil(thr)+1, total, 2^64-1}
	genAll  = 2 // free in 0..total+1 (small-scope block)
)

type pair struct {
	Total uint64
	MS    float64
	gens  uint8
}

const (
	tib   = 1 << 40
	g256  = 256 * gib
	unset = 0.0
)

// designTotals / designMS are the alphabets of DESIGN.md.
func designTotals() []uint64 {
	t := []uint64{0, 1, 127, 128, 129, g256 - 1, g256, g256 + 1, tib, 1<<53 - 1, 1<<53 + 1, 1 << 63, math.MaxUint64}
	for k := uint64(1); k <= 64; k++ {
		t = append(t, k*4*gib+k) // 64 steps through the scaling region, every residue k mod 128
	}
	return t
}

var designMS = []float64{unset, 1e-9, 0.1, 0.5, 1, 20, 50, 1e3, 1 << 33}

// edgeMS: float64 rounding edges of the operator's setting.
func edgeMS() []float64 {
	ms := []float64{
		math.SmallestNonzeroFloat64, // threshold far below one byte
		1.0 / (1 << 31), 1.0 / gib,  // half a byte, exactly one byte
		1.5 / gib, 1 << 23, 1<<23 + 0.5, // 1.5 bytes; 2^53 bytes; 2^53 + 2^29 bytes
		math.Nextafter(1<<33, 0), // just below 2^63 bytes
	}
	for _, x := range []float64{0.5, 1, 20, 50, 1e3} {
		ms = append(ms, math.Nextafter(x, 0), math.Nextafter(x, math.Inf(1)))
	}
	for k := 1; k <= 64; k++ {
		ms = append(ms, float64(k)/(4*gib)) // thresholds k/4 bytes
	}
	return ms
}

type sizes struct {
	smallN   uint64 // small scope: all totals 0..smallN with all free 0..total+1
	msSteps  int    // operator settings k/100 GiB, k = 1..msSteps
	boundary uint64 // totals 256 GiB - w .. 256 GiB + w
	sweep    uint64 // number of totals stepping through the scaling region
}

func tierSizes(tier string) sizes {
	if tier == "thorough" {
		return sizes{smallN: 8192, msSteps: 20000, boundary: 1 << 19, sweep: 1 << 21}
	}
	return sizes{smallN: 512, msSteps: 1000, boundary: 256, sweep: 4096}
}

// space returns the pairs of one shard (of = 1: all). A pair belongs to the
// shard given by a hash of (total, min-space), so the shards partition the
// space by construction and each builds only its own part.
func space(tier string, shard, of int) []pair {
	z := tierSizes(tier)
	m := map[[2]uint64]uint8{}
	add := func(total uint64, ms float64, g uint8) {
		k := [2]uint64{total, math.Float64bits(ms)}
		if of > 1 {
			h := (k[0] ^ k[1]*0x9E3779B97F4A7C15) * 0xBF58476D1CE4E5B9
			if int((h^h>>31)%uint64(of)) != shard {
				return
			}
		}
		m[k] |= g
	}
	// B1: the design grid
	for _, t := range designTotals() {
		for _, ms := range designMS {
			add(t, ms, genEdge)
		}
	}
	// B2: small scope, default rule: every total up to smallN with every free value
	for t := uint64(0); t <= z.smallN; t++ {
		add(t, unset, genAll|genEdge)
	}
	// B3: operator settings (sweep and rounding edges) on four volumes
	var mss []float64
	for k := 1; k <= z.msSteps; k++ {
		mss = append(mss, float64(k)/100)
	}
	mss = append(mss, edgeMS()...)
	for _, ms := range mss {
		for _, t := range []uint64{1, 100 * gib, g256, tib} {
			add(t, ms, genEdge)
		}
	}
	// B4: every total around the 256 GiB switch of the default rule
	for t := uint64(g256 - z.boundary); t <= g256+z.boundary; t++ {
		add(t, unset, genEdge)
	}
	// B5: stepping through the scaling region (stride+1 so that total mod 128 takes every value)
	stride := uint64(g256) / z.sweep
	for i := uint64(1); i < z.sweep; i++ {
		add(i*stride+i, unset, genEdge)
	}
	ps := make([]pair, 0, len(m))
	for k, g := range m {
		ps = append(ps, pair{Total: k[0], MS: math.Float64frombits(k[1]), gens: g})
	}
	sort.Slice(ps, func(i, j int) bool {
		if ps[i].Total != ps[j].Total {
			return ps[i].Total < ps[j].Total
		}
		return ps[i].MS < ps[j].MS
	})
	return ps
}

// frees returns the sorted, distinct free values of one pair.
func frees(p pair, in pairInfo) []uint64 {
	var f []uint64
	if p.gens&genEdge != 0 {
		f = append(f, 0, p.Total, math.MaxUint64)
		if in.ok {
			f = append(f, in.floor, in.ceil)
			if in.floor > 0 {
				f = append(f, in.floor-1)
			}
			if in.ceil < math.MaxUint64 {
				f = append(f, in.ceil+1)
			}
		}
	}
	if p.gens&genAll != 0 {
		for v := uint64(0); v <= p.Total+1; v++ {
			f = append(f, v)
		}
	}
	sort.Slice(f, func(i, j int) bool { return f[i] < f[j] })
	out := f[:0]
	for i, v := range f {
		if i == 0 || v != f[i-1] {
			out = append(out, v)
		}
	}
	return out
}
