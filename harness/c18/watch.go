package main

import (
	"fmt"
	"strings"
	"syscall"
	"time"

	"github.com/internetarchive/Zeno/internal/pkg/controler/pause"
	"github.com/internetarchive/Zeno/internal/pkg/controler/watchers"
	"github.com/internetarchive/Zeno/internal/pkg/stats"
	"github.com/internetarchive/Zeno/internal/verif/vrt/hkit"
	"github.com/internetarchive/Zeno/internal/verif/vrt/vsched"
)

// Stage "watch" (E1): the real WatchDiskSpace runs as the only thread of the
// controlled scheduler on the virtual clock; every tick's disk reading is an
// environment choice (vsched.Choose) over the boundary values of the
// configuration. All reading sequences of length watchTicks are enumerated.
// Oracle: after each tick the pipeline is paused exactly when that tick's
// reading is below the exact threshold.

const (
	watchTicks    = 3
	watchInterval = 5 * time.Second
)

type watchCfg struct {
	Name  string  `json:"name"`
	Total uint64  `json:"total"`
	MS    float64 `json:"min_space_required"`
}

var watchCfgs = []watchCfg{
	{"1TiB-default", tib, unset},             // flat 50 GiB, whole-byte threshold
	{"100GiB+1-default", 100*gib + 1, unset}, // scaled, fractional threshold
	{"1TiB-operator-20", tib, 20},            // operator, whole-byte threshold
	{"1TiB-operator-0.1", tib, 0.1},          // operator, fractional threshold
	{"200GiB-operator-0.5", 200 * gib, 0.5},  // operator setting on a small volume
	{"256GiB-default", g256, unset},          // last scaled volume
}

// errReading: the statfs call of that tick fails (EIO): the reading says nothing about the space left
const errReading = ^uint64(0)

type watchWorld struct {
	stopped  string // the watcher went down with this panic (fail-stop on a failing statfs)
	cfg      watchCfg
	in       pairInfo
	alphabet []uint64
	seq      []uint64 // readings served
	paused   []bool   // pause state observed after the reading of the same index was processed
}

func watchAlphabet(c watchCfg, in pairInfo) []uint64 {
	cand := []uint64{c.Total, in.floor - 1, in.floor, in.ceil, in.ceil + 1, errReading}
	var out []uint64
	for _, v := range cand {
		dup := false
		for _, u := range out {
			dup = dup || u == v
		}
		if !dup {
			out = append(out, v)
		}
	}
	return out
}

func watchAnswer(path string, st *syscall.Statfs_t) error {
	w := vsched.Cur().Data.(*watchWorld)
	if len(w.seq) > len(w.paused) {
		w.paused = append(w.paused, pause.IsPaused())
	}
	i := vsched.Choose("c18.reading", len(w.alphabet))
	w.seq = append(w.seq, w.alphabet[i])
	if w.alphabet[i] == errReading {
		return syscall.EIO
	}
	reading.total, reading.free = w.cfg.Total, w.alphabet[i]
	return statfsAnswer(path, st)
}

func watchScenario(c watchCfg) *vsched.Scenario {
	var w *watchWorld
	sc := &vsched.Scenario{Name: "watch-" + c.Name}
	sc.Setup = func(x *vsched.Exec) {
		setup(c.MS)
		vsched.StatfsAnswer = watchAnswer
		if pause.IsPaused() {
			pause.Resume() // no subscribers: only clears the flag left by the previous execution
		}
		in := info(c.Total, c.MS)
		w = &watchWorld{cfg: c, in: in, alphabet: watchAlphabet(c, in)}
		x.Data = w
	}
	sc.Body = func() {
		defer func() {
			if r := recover(); r != nil {
				w.stopped = fmt.Sprint(r) // judged at the end: going down on a failing statfs is fail-stop, anything else is not
			}
		}()
		watchers.WatchDiskSpace(jobPath, watchInterval)
	}
	sc.Horizon = watchTicks*watchInterval + time.Second
	sc.OKEnds = []string{vsched.EndHorizon, vsched.EndDone, vsched.EndQuiescent}
	sc.AtEnd = func(x *vsched.Exec) error {
		if len(w.seq) > len(w.paused) {
			w.paused = append(w.paused, pause.IsPaused())
		}
		if w.stopped != "" {
			// the watcher went down: acceptable only on the tick whose statfs failed (the crawler stops: nothing runs on)
			if n := len(w.seq); n == 0 || w.seq[n-1] != errReading || !strings.Contains(w.stopped, "disk stats") {
				return fmt.Errorf("sig=via-WatchDiskSpace:watcher-panics|readings=%v: the watcher went down with %q", w.seq, w.stopped)
			}
		} else if len(w.seq) != watchTicks {
			return fmt.Errorf("sig=via-WatchDiskSpace:tick-count|%d disk readings in %v of virtual time, expected %d", len(w.seq), sc.Horizon, watchTicks)
		}
		for i, f := range w.seq {
			if f == errReading {
				// a failing statfs says nothing about the space left: the guard's state must not change on it
				// (or the crawler goes down, judged above)
				before := false
				if i > 0 {
					before = w.paused[i-1]
				}
				if w.stopped == "" && w.paused[i] != before {
					return fmt.Errorf("sig=via-WatchDiskSpace:statfs-failure-changes-the-guard:paused=%v->%v|total=%d min-space-required=%v readings=%v (%d = statfs fails): after tick %d the pipeline went from paused=%v to paused=%v although nothing was learnt about the volume",
						before, w.paused[i], c.Total, c.MS, w.seq, errReading, i+1, before, w.paused[i])
				}
				continue
			}
			want := mustRefuse(f, w.in.thr)
			if w.paused[i] == want {
				continue
			}
			// the decision function alone on the same reading: does it explain the state?
			// and CheckDiskUsage (AtEnd runs outside the scheduler's threads: a plain call)
			fn := watchers.VerifCheckThresholdC18(c.Total, f, c.MS) != nil
			vsched.StatfsAnswer = statfsAnswer
			reading.total, reading.free = c.Total, f
			via := watchers.CheckDiskUsage(jobPath) != nil
			vsched.StatfsAnswer = watchAnswer
			sig := verdictSig(w.in.class(f), w.paused[i])
			switch {
			case fn == w.paused[i]: // the decision function is wrong: same class as in the grid
			case via == w.paused[i]:
				sig = "via-CheckDiskUsage:" + sig
			default:
				sig = "via-WatchDiskSpace:" + sig
			}
			return fmt.Errorf("sig=%s|total=%d min-space-required=%v readings=%v: after tick %d (free=%d, exact threshold %s bytes) the pipeline must be paused=%v but paused=%v (checkThreshold refuses=%v, CheckDiskUsage refuses=%v)",
				sig, c.Total, c.MS, w.seq, i+1, f, thrString(w.in.thr), want, w.paused[i], fn, via)
		}
		return nil
	}
	sc.Outcome = func(x *vsched.Exec) string { return fmt.Sprint(w.seq, w.paused) }
	sc.Signature = func(v *vsched.Violation) string {
		if strings.HasPrefix(v.Message, "sig=") {
			return strings.SplitN(v.Message[4:], "|", 2)[0]
		}
		return "via-WatchDiskSpace:" + vsched.DefaultSignature(v)
	}
	sc.KnownSig = func(sig string) bool { return hkit.IsListed(propID, sig) }
	return sc
}

type watchOut struct {
	Per        []map[string]any
	Executions int
	States     int
	Trans      int
	Outcomes   int
	Exhaustive bool
	Fails      map[string]*failure
	Sample     []vsched.Step
}

var statsOnce bool

// initStats: pause.Pause/Resume update the stats singleton, which must exist.
func initStats() {
	if !statsOnce {
		setup(unset)
		stats.Init()
		statsOnce = true
	}
}

func runWatchStage() *watchOut {
	o := &watchOut{Exhaustive: true, Fails: map[string]*failure{}}
	initStats()
	for _, c := range watchCfgs {
		sc := watchScenario(c)
		if err := vsched.DeterminismCheck(sc); err != nil {
			hkit.EngineError("%v", err)
		}
		// F = one deviation per tick: every reading sequence; a single thread, so P = 0
		rep := vsched.Explore(sc, vsched.Bounds{P: 0, F: watchTicks, NoCache: true, MaxWall: 40 * time.Second})
		o.Executions += rep.Executions
		o.States += rep.States
		o.Trans += rep.Transitions
		o.Outcomes += len(rep.Outcomes)
		o.Exhaustive = o.Exhaustive && rep.Exhaustive
		if len(o.Sample) == 0 {
			o.Sample = rep.Sample
		}
		o.Per = append(o.Per, map[string]any{"scenario": rep.Scenario, "readings_alphabet": watchAlphabet(c, info(c.Total, c.MS)), "ticks": watchTicks,
			"executions": rep.Executions, "distinct_outcomes": len(rep.Outcomes), "ends": rep.Ends, "exhaustive": rep.Exhaustive, "violating_executions": countVio(rep)})
		for i := range rep.Violations {
			v := rep.Violations[i]
			if err := vsched.Confirm(watchScenario(c), &v); err != nil {
				hkit.EngineError("watch violation did not replay: %v", err)
			}
			if o.Fails[v.Sig] == nil {
				msg := v.Message
				if j := strings.IndexByte(msg, '|'); j >= 0 && strings.HasPrefix(msg, "sig=") {
					msg = msg[j+1:]
				}
				o.Fails[v.Sig] = &failure{Sig: v.Sig, Human: "WatchDiskSpace: " + firstLine(msg), Count: v.Count, Engine: "watch",
					Case: mkTriple(c.Total, 0, c.MS)}
				watchVio[v.Sig] = map[string]any{"config": c, "violation": v}
			}
		}
	}
	return o
}

var watchVio = map[string]map[string]any{}

func countVio(r *vsched.Report) int {
	n := 0
	for _, v := range r.Violations {
		n += v.Count
	}
	return n
}

func firstLine(s string) string {
	if i := strings.IndexByte(s, '\n'); i > 0 {
		s = s[:i]
	}
	if len(s) > 700 {
		s = s[:700]
	}
	return s
}
