package main

import (
	"fmt"
	"math"
	"syscall"

	"github.com/internetarchive/Zeno/internal/pkg/config"
	"github.com/internetarchive/Zeno/internal/pkg/controler/watchers"
	"github.com/internetarchive/Zeno/internal/verif/vrt/vsched"
)

const jobPath = "/c18/jobs/j"

// reading is the disk reading the next Statfs call of Zeno will get.
var reading struct {
	total, free uint64
	calls       int
	badPath     string
}

// statfsAnswer turns (total, free) into a struct statfs: 4 KiB blocks when both
// are multiples of 4096, 1-byte blocks otherwise. Bfree (free including the
// root-reserved blocks) is deliberately different from Bavail.
func statfsAnswer(path string, st *syscall.Statfs_t) error {
	reading.calls++
	if path != jobPath {
		reading.badPath = path
	}
	bs := uint64(1)
	if reading.total%4096 == 0 && reading.free%4096 == 0 {
		bs = 4096
	}
	*st = syscall.Statfs_t{Type: 0xEF53, Bsize: int64(bs), Frsize: int64(bs), Namelen: 255}
	st.Blocks = reading.total / bs
	st.Bavail = reading.free / bs
	st.Bfree = ^st.Bavail
	st.Files, st.Ffree = 1<<20, 1<<19
	return nil
}

func setup(ms float64) {
	config.VerifSet(&config.Config{MinSpaceRequired: ms, JobPath: jobPath, NoStdoutLogging: true, NoStderrLogging: true, NoFileLogging: true})
	vsched.StatfsAnswer = statfsAnswer
}

// decide runs the real code on one triple: the decision function itself and
// the start-up entry point CheckDiskUsage fed by the controlled Statfs.
// setup(ms) must have been called.
func decide(total, free uint64, ms float64) (direct, viaCDU bool, msg string) {
	err := watchers.VerifCheckThresholdC18(total, free, ms)
	reading.total, reading.free = total, free
	err2 := watchers.CheckDiskUsage(jobPath)
	if err != nil {
		msg = err.Error()
	}
	return err != nil, err2 != nil, msg
}

type triple struct {
	Total    uint64  `json:"total"`
	Free     uint64  `json:"free"`
	MinSpace float64 `json:"min_space_required"`
	MSBits   string  `json:"min_space_required_bits"`
}

func mkTriple(total, free uint64, ms float64) triple {
	return triple{total, free, ms, fmt.Sprintf("%#016x", math.Float64bits(ms))}
}

// less orders failing cases for the "minimal failing input" of a signature:
// physically possible readings (free <= total) first, then the smallest.
func less(a, b triple) bool {
	if ra, rb := a.Free <= a.Total, b.Free <= b.Total; ra != rb {
		return ra
	}
	if da, db := inDesignMS(a.MinSpace), inDesignMS(b.MinSpace); da != db {
		return da // then settings of the design alphabet before sweep and rounding-edge settings
	}
	if a.Total != b.Total {
		return a.Total < b.Total
	}
	if a.MinSpace != b.MinSpace {
		return a.MinSpace < b.MinSpace
	}
	return a.Free < b.Free
}

func inDesignMS(v float64) bool {
	for _, d := range designMS {
		if d == v {
			return true
		}
	}
	return false
}

type failure struct {
	Sig    string `json:"sig"`
	Case   triple `json:"case"`
	Human  string `json:"human"`
	Count  int    `json:"count"`
	Engine string `json:"engine"`
}

type shardOut struct {
	Pairs      int
	Evals      int
	NonTrivial int
	Refusals   int
	Classes    map[string]int
	Fails      map[string]*failure
	Samples    []map[string]any
	StatfsBad  string
	Calls      int
}

func (o *shardOut) fail(sig string, t triple, human string) {
	f := o.Fails[sig]
	if f == nil {
		o.Fails[sig] = &failure{Sig: sig, Case: t, Human: human, Count: 1, Engine: "grid"}
		return
	}
	f.Count++
	if less(t, f.Case) {
		f.Case, f.Human = t, human
	}
}

// describe is the human line of one triple.
func describe(t triple, in pairInfo, want, direct, viaCDU bool) string {
	w := map[bool]string{true: "refuse", false: "accept"}
	return fmt.Sprintf("total=%d free=%d min-space-required=%v: exact threshold %s bytes, so the guard must %s; checkThreshold says %s, CheckDiskUsage says %s",
		t.Total, t.Free, t.MinSpace, thrString(in.thr), w[want], w[direct], w[viaCDU])
}

// judge evaluates one triple against the oracle and files failures.
func judge(o *shardOut, total, free uint64, ms float64, in pairInfo) (direct bool) {
	want := mustRefuse(free, in.thr)
	direct, via, _ := decide(total, free, ms)
	o.Evals++
	if want {
		o.Refusals++
	}
	cls := in.class(free)
	if in.nearBoundary(free) {
		o.NonTrivial++
		o.Classes[cls]++
	}
	if direct != want || via != want {
		t := mkTriple(total, free, ms)
		h := describe(t, in, want, direct, via)
		if direct != want {
			o.fail(verdictSig(cls, direct), t, h)
		}
		if via != want && via != direct {
			o.fail("via-CheckDiskUsage:"+verdictSig(cls, via), t, h)
		}
	}
	return direct
}

// runShard evaluates all triples of the given pairs.
func runShard(ps []pair) *shardOut {
	o := &shardOut{Classes: map[string]int{}, Fails: map[string]*failure{}}
	vsched.SeqMode(true)
	for _, p := range ps {
		o.Pairs++
		in := info(p.Total, p.MS)
		setup(p.MS)
		seenAccept, acceptedAt := false, uint64(0)
		fs := frees(p, in)
		for _, f := range fs {
			refused := judge(o, p.Total, f, p.MS, in)
			// monotone: along increasing free, an accept is never followed by a refusal
			if !refused && !seenAccept {
				seenAccept, acceptedAt = true, f
			}
			if refused && seenAccept {
				t := mkTriple(p.Total, f, p.MS)
				o.fail("non-monotone/"+in.mode, t, fmt.Sprintf("total=%d min-space-required=%v: accepted with free=%d but refused with more free space, free=%d",
					p.Total, p.MS, acceptedAt, f))
			}
		}
		if len(o.Samples) < 6 && o.Pairs%(1+len(ps)/6) == 0 && len(fs) > 2 {
			f := fs[len(fs)/2]
			d, v, msg := decide(p.Total, f, p.MS)
			o.Samples = append(o.Samples, map[string]any{"total": p.Total, "min_space_required": p.MS, "free": f,
				"exact_threshold_bytes": thrString(in.thr), "must_refuse": mustRefuse(f, in.thr), "checkThreshold_refuses": d, "CheckDiskUsage_refuses": v, "zeno_message": msg})
		}
	}
	o.StatfsBad, o.Calls = reading.badPath, reading.calls
	return o
}
