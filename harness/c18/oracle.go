package main

import (
	"fmt"
	"math"
	"math/big"
)

// The oracle is the property's sentence in exact rational arithmetic.
//
//	threshold(total, ms) = ms * 2^30 bytes                     if the operator gave ms (ms > 0; 0 is the flag's "not given")
//	                     = 50 GiB * total / 256 GiB            if total <= 256 GiB
//	                     = 50 GiB                              otherwise
//	refuse(total, free, ms)  <=>  free < threshold(total, ms)
//
// A float64 is an exact rational, so big.Rat.SetFloat64 loses nothing; nothing
// below ever goes through floating point again.

const gib = 1 << 30

var (
	ratGiB   = new(big.Rat).SetInt64(gib)
	rat50GiB = new(big.Rat).SetInt64(50 * gib)
)

func threshold(total uint64, ms float64) *big.Rat {
	if ms > 0 {
		r := new(big.Rat).SetFloat64(ms)
		return r.Mul(r, ratGiB)
	}
	if total <= 256*gib {
		// 50 GiB * total / 256 GiB = 50*total/256 bytes
		n := new(big.Int).Mul(big.NewInt(50), new(big.Int).SetUint64(total))
		return new(big.Rat).SetFrac(n, big.NewInt(256))
	}
	return rat50GiB
}

// mustRefuse is the whole oracle.
func mustRefuse(free uint64, thr *big.Rat) bool {
	f := new(big.Rat).SetInt(new(big.Int).SetUint64(free))
	return f.Cmp(thr) < 0
}

// pairInfo is what the enumeration and the failure classes need to know about
// one (total, min-space) pair; computed once per pair from the exact threshold.
type pairInfo struct {
	thr   *big.Rat
	mode  string // "operator" | "scaled" | "flat50"
	frac  bool   // threshold is not a whole number of bytes
	floor uint64 // floor(thr), valid when inRange
	ceil  uint64
	ok    bool // floor and ceil fit in uint64 (always true inside the stated bound)
}

func info(total uint64, ms float64) pairInfo {
	p := pairInfo{thr: threshold(total, ms)}
	switch {
	case ms > 0:
		p.mode = "operator"
	case total <= 256*gib:
		p.mode = "scaled"
	default:
		p.mode = "flat50"
	}
	fl := new(big.Int).Quo(p.thr.Num(), p.thr.Denom()) // thr >= 0: truncation is floor
	p.frac = !p.thr.IsInt()
	ce := new(big.Int).Set(fl)
	if p.frac {
		ce.Add(ce, big.NewInt(1))
	}
	if ce.IsUint64() {
		p.ok = true
		p.floor, p.ceil = fl.Uint64(), ce.Uint64()
	}
	return p
}

// class names the input class of a triple: which rule gives the threshold,
// whether the threshold is a whole number of bytes, and where free lies.
func (p pairInfo) class(free uint64) string {
	kind := "whole-byte-threshold"
	if p.frac {
		kind = "fractional-threshold"
	}
	pos := "free-above-threshold"
	switch {
	case !p.ok:
		pos = "threshold-beyond-uint64"
	case free < p.floor:
		pos = "free-below-floor(threshold)"
	case free == p.floor && p.frac:
		pos = "free=floor(threshold)"
	case free == p.floor:
		pos = "free=threshold"
	}
	return p.mode + "/" + kind + "/" + pos
}

// nearBoundary is the non-triviality rule: the decision is taken within one
// byte of the threshold.
func (p pairInfo) nearBoundary(free uint64) bool {
	if !p.ok {
		return false
	}
	lo := p.floor
	if lo > 0 {
		lo--
	}
	hi := p.ceil
	if hi < math.MaxUint64 {
		hi++
	}
	return free >= lo && free <= hi
}

func verdictSig(class string, refused bool) string {
	if refused {
		return class + "/refused-though-not-below"
	}
	return class + "/accepted-though-below"
}

func thrString(r *big.Rat) string {
	if r.IsInt() {
		return r.Num().String()
	}
	if s := r.String(); len(s) <= 48 {
		return fmt.Sprintf("%s (= %s)", r.FloatString(6), s)
	}
	return r.FloatString(12) + "..."
}
