package main

// The free-running race pass. The parent (normal build) asks the driver for a
// second, -race build of this same harness and runs it with --racepass=1: every
// scenario's thread programs run as real goroutines, with no synchronisation
// between them other than what the stats package does itself, so any pair of
// conflicting plain accesses inside the package is unordered by happens-before
// and the race detector reports it. A report with a frame inside
// internal/pkg/stats is a violation (a non-atomic read-modify-write of a
// counter word is a lost update).

import (
	"bytes"
	"encoding/json"
	"fmt"
	"os"
	"os/exec"
	"path/filepath"
	"regexp"
	"runtime/debug"
	"sort"
	"strings"
	"sync"
	"time"

	"github.com/internetarchive/Zeno/internal/verif/vrt/hkit"
)

func raceBuild() bool {
	bi, ok := debug.ReadBuildInfo()
	if !ok {
		return false
	}
	for _, s := range bi.Settings {
		if s.Key == "-race" && s.Value == "true" {
			return true
		}
	}
	return false
}

const raceReps = 3

// raceChild runs in the -race binary.
func raceChild(a hkit.Args) {
	if !raceBuild() {
		hkit.EngineError("--racepass needs the -race build")
	}
	specs := allScenarios(a.Tier)
	reps := raceReps
	if only := a.Extra["only"]; only != "" {
		var s scenarioSpec
		if err := json.Unmarshal([]byte(only), &s); err != nil {
			hkit.EngineError("%v", err)
		}
		specs, reps = []scenarioSpec{s}, 200
	}
	runs := 0
	for i, spec := range specs {
		js, _ := json.Marshal(spec)
		fmt.Fprintf(os.Stderr, "RACE-SCENARIO %d %s\n", i, js)
		for r := 0; r < reps; r++ {
			freshStats(spec.Group == "export")
			var wg sync.WaitGroup
			for _, prog := range spec.Programs {
				prog := prog
				wg.Add(1)
				go func() {
					defer wg.Done()
					for _, n := range prog {
						ops[n].Do()
					}
				}()
			}
			wg.Wait()
			runs++
		}
	}
	fmt.Printf("RACE-RUNS %d %d\n", len(specs), runs)
}

type raceReport struct {
	Sig      string       `json:"sig"`
	Scenario scenarioSpec `json:"scenario"`
	Text     string       `json:"text"`
	InStats  bool         `json:"in_stats"`
}

type raceResult struct {
	Scenarios, Runs int
	Reports         []raceReport
	BuildS, RunS    float64
}

func (r *raceResult) summary() map[string]any {
	var sigs []string
	for _, x := range r.Reports {
		sigs = append(sigs, x.Sig)
	}
	return map[string]any{"scenarios": r.Scenarios, "runs": r.Runs, "repetitions_per_scenario": raceReps,
		"reports": len(r.Reports), "report_sigs": sigs, "build_s": r.BuildS, "run_s": r.RunS}
}

func (r *raceResult) line() string {
	return fmt.Sprintf("%d scenarios, %d runs, %d race reports", r.Scenarios, r.Runs, len(r.Reports))
}

var frameRe = regexp.MustCompile(`(?m)^  (\S*internal/pkg/stats\.\S+)\(\)\n\s+(\S+):\d+`)

// racePass builds the -race binary through the driver (same working tree,
// VERIF_REPO is inherited) and runs it; only = JSON of a single scenario.
func racePass(tier, only string) *raceResult {
	res := &raceResult{}
	tmp := os.Getenv("VERIF_TMP")
	if tmp == "" {
		tmp, _ = os.MkdirTemp("", "c17race")
	}
	bin := filepath.Join(tmp, "c17-race.bin")
	t0 := time.Now()
	if out, err := exec.Command("python3", filepath.Join(hkit.Dir, "engine/driver.py"), "build", "c17", bin, "--race").CombinedOutput(); err != nil {
		hkit.EngineError("race build failed: %v\n%s", err, out)
	}
	res.BuildS = time.Since(t0).Seconds()
	args := []string{tier, "--racepass=1"}
	if only != "" {
		args = append(args, "--only="+only)
	}
	c := exec.Command(bin, args...)
	c.Env = append(os.Environ(), "GORACE=halt_on_error=0 exitcode=66")
	var stdout, stderr bytes.Buffer
	c.Stdout, c.Stderr = &stdout, &stderr
	t0 = time.Now()
	err := c.Run()
	res.RunS = time.Since(t0).Seconds()
	if err != nil {
		if ee, ok := err.(*exec.ExitError); !ok || ee.ExitCode() != 66 {
			hkit.EngineError("race pass failed: %v\n%s", err, tail(stderr.String(), 4000))
		}
	}
	fmt.Sscanf(lastLineWith(stdout.String(), "RACE-RUNS "), "RACE-RUNS %d %d", &res.Scenarios, &res.Runs)
	if res.Runs == 0 {
		hkit.EngineError("race pass produced no runs:\n%s", tail(stderr.String(), 4000))
	}
	// attribute every report to the scenario announced last before it
	var cur scenarioSpec
	lines := strings.Split(stderr.String(), "\n")
	for i := 0; i < len(lines); i++ {
		l := lines[i]
		if strings.HasPrefix(l, "RACE-SCENARIO ") {
			f := strings.SplitN(l, " ", 3)
			cur = scenarioSpec{}
			json.Unmarshal([]byte(f[2]), &cur)
			continue
		}
		if !strings.HasPrefix(l, "WARNING: DATA RACE") {
			continue
		}
		j := i + 1
		for j < len(lines) && !strings.HasPrefix(lines[j], "==================") {
			j++
		}
		text := strings.Join(lines[i:j], "\n")
		i = j
		// signature: the innermost stats frames of the conflicting accesses (without line numbers)
		set := map[string]bool{}
		for _, blk := range strings.Split(text, "\n\n") {
			if strings.HasPrefix(blk, "Goroutine ") { // creation stacks do not name the accesses
				continue
			}
			for _, m := range frameRe.FindAllStringSubmatch(blk, -1) {
				if strings.Contains(m[2], "zz_verif") {
					continue
				}
				fn := m[1][strings.Index(m[1], "internal/pkg/stats.")+len("internal/pkg/"):]
				set[fn] = true
				break
			}
		}
		var fns []string
		for k := range set {
			fns = append(fns, k)
		}
		sort.Strings(fns)
		rep := raceReport{Scenario: cur, Text: text, InStats: len(fns) > 0, Sig: "data-race:" + strings.Join(fns, "|")}
		dup := false
		for _, o := range res.Reports {
			dup = dup || o.Sig == rep.Sig
		}
		if !dup {
			res.Reports = append(res.Reports, rep)
		}
	}
	if err != nil && len(res.Reports) == 0 {
		hkit.EngineError("race pass exited 66 without a parsable report:\n%s", tail(stderr.String(), 4000))
	}
	return res
}

func reportRaces(rr *raceResult) {
	for _, r := range rr.Reports {
		if !r.InStats {
			hkit.EngineError("data race outside internal/pkg/stats (harness defect):\n%s", r.Text)
		}
		hkit.Report(propID, r.Sig, map[string]any{"engine": "race", "harness": "c17", "scenario": r.Scenario, "race": r},
			fmt.Sprintf("%s free-running under -race: %s", r.Scenario, firstLines(r.Text, 12)))
	}
}

func tail(s string, n int) string {
	if len(s) > n {
		return s[len(s)-n:]
	}
	return s
}

func lastLineWith(s, pfx string) string {
	out := ""
	for _, l := range strings.Split(s, "\n") {
		if strings.HasPrefix(l, pfx) {
			out = l
		}
	}
	return out
}

func firstLines(s string, n int) string {
	ls := strings.Split(s, "\n")
	if len(ls) > n {
		ls = ls[:n]
	}
	for i := range ls {
		ls[i] = strings.TrimSpace(ls[i])
	}
	return strings.Join(ls, " / ")
}
