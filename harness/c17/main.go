// Harness for C17: the real internal/pkg/stats package under the controlled
// scheduler. Every scenario is a small concurrent program (2-3 threads, each a
// short list of stats operations); every interleaving of the package's atomic
// and mutex operations is executed, and the final reported values are compared
// with the set of finals of all sequential orders of the same operations
// (ops.go). A second, free-running pass of the same programs under the race
// detector (race.go) catches non-atomic read-modify-writes, which a scheduler
// that preempts only at synchronisation operations cannot see.
package main

import (
	"encoding/json"
	"fmt"
	"os"
	"runtime/debug"
	"sort"
	"strings"
	"time"

	"github.com/internetarchive/Zeno/internal/pkg/config"
	"github.com/internetarchive/Zeno/internal/pkg/stats"
	"github.com/internetarchive/Zeno/internal/verif/vrt/hkit"
	"github.com/internetarchive/Zeno/internal/verif/vrt/vsched"
)

const propID = "C17"

// Alphabets: one group per implementing type. "mixed" is the whole-package
// group: its first thread is one Lead operation (stats.Reset() or GetMapTUI(),
// ~20 atomic operations each) and the other threads run simple operations.
// Shapes are threads x operations per thread; the 3x2 shape is left out where
// the operations have so many conflicting atomic steps that the interleavings
// of three such threads run into the hundreds of millions (rate get/reset).
type shape struct{ T, L int }

type group struct {
	Name            string
	Alphabet        []string
	Quick, Thorough []shape
	Lead            []string
	ThoroughExtra   [][][]string // whole-package operations against each other (~140k executions)
	Prom            bool         // the Prometheus exporter is enabled (--prometheus): every update also goes to the exported series
}

var groups = []group{
	{Name: "rate", Alphabet: []string{"crawl", "crawl.get", "crawl.reset", "seed"},
		Quick: []shape{{1, 2}, {2, 1}, {2, 2}, {3, 1}}, Thorough: []shape{{1, 3}, {2, 1}, {2, 2}, {3, 1}, {2, 3}}},
	{Name: "rate2", Alphabet: []string{"seed", "seed.get", "seed.reset", "crawl"},
		Quick: []shape{{1, 2}, {2, 1}}, Thorough: []shape{{1, 3}, {2, 1}, {2, 2}, {3, 1}}},
	{Name: "bucket", Alphabet: []string{"code200", "code404", "code200.get", "code200.reset", "code.resetall"},
		Quick: []shape{{1, 2}, {2, 1}, {2, 2}, {3, 1}}, Thorough: []shape{{1, 3}, {2, 1}, {2, 2}, {3, 1}, {2, 3}, {3, 2}}},
	{Name: "mean", Alphabet: []string{"http.add10", "http.add30", "http.get", "http.reset"},
		Quick: []shape{{1, 2}, {2, 1}, {2, 2}, {3, 1}}, Thorough: []shape{{1, 3}, {2, 1}, {2, 2}, {3, 1}, {2, 3}}},
	{Name: "mean3", Alphabet: []string{"http.add10", "http.add30", "http.reset"}, Thorough: []shape{{3, 2}}},
	{Name: "means", Alphabet: []string{"body.add10", "body.reset", "wait.add30", "wait.reset"},
		Quick: []shape{{1, 2}, {2, 1}, {2, 2}}, Thorough: []shape{{1, 3}, {2, 1}, {2, 2}, {3, 1}, {2, 3}}},
	{Name: "gauge", Alphabet: []string{"pre+", "pre-", "pre.get", "pre.reset"},
		Quick: []shape{{1, 2}, {2, 1}, {2, 2}, {3, 1}}, Thorough: []shape{{1, 3}, {2, 1}, {2, 2}, {3, 1}, {2, 3}, {3, 2}}},
	{Name: "gauges", Alphabet: []string{"arch+", "arch-", "arch.reset", "post+", "post-", "post.reset"},
		Quick: []shape{{1, 2}, {2, 1}, {2, 2}}, Thorough: []shape{{1, 3}, {2, 1}, {2, 2}, {3, 1}, {2, 3}}},
	// the same bookkeeping with the Prometheus exporter on, incl. status codes outside the exported classes
	{Name: "export", Prom: true, Alphabet: []string{"crawl", "seed", "code200", "code999", "code101", "pre+", "pre-", "http.add10", "code.resetall"},
		Quick: []shape{{1, 2}, {2, 1}}, Thorough: []shape{{1, 3}, {2, 1}, {2, 2}}},
	{Name: "mixed", Alphabet: []string{"seed", "code404", "body.add10", "wait.add30", "arch+"}, Lead: []string{"Reset", "TUI"},
		Quick: []shape{{1, 0}, {2, 2}}, Thorough: []shape{{1, 0}, {2, 2}, {2, 3}, {3, 1}},
		ThoroughExtra: [][][]string{{{"Reset"}, {"TUI"}}}},
}

func (g group) shapes(tier string) []shape {
	if tier == "thorough" {
		return g.Thorough
	}
	return g.Quick
}

// allScenarios enumerates, per group and shape, every multiset of T thread
// programs of length L over the group's alphabet (threads are interchangeable,
// so programs are listed in non-decreasing order); with a Lead, one thread is
// a single Lead operation and the multiset is over the remaining T-1 threads.
func allScenarios(tier string) []scenarioSpec {
	var out []scenarioSpec
	for _, g := range groups {
		for _, sh := range g.shapes(tier) {
			var progs [][]string
			var gen func(p []string)
			gen = func(p []string) {
				if len(p) == sh.L {
					progs = append(progs, append([]string{}, p...))
					return
				}
				for _, a := range g.Alphabet {
					gen(append(p, a))
				}
			}
			gen(nil)
			leads := [][]string{nil}
			if len(g.Lead) > 0 {
				leads = nil
				for _, l := range g.Lead {
					leads = append(leads, []string{l})
				}
			}
			for _, lead := range leads {
				n := sh.T
				var first [][]string
				if lead != nil {
					n, first = sh.T-1, [][]string{lead}
				}
				var pick func(from int, chosen [][]string)
				pick = func(from int, chosen [][]string) {
					if len(chosen) == len(first)+n {
						out = append(out, scenarioSpec{Group: g.Name, Programs: append([][]string{}, chosen...)})
						return
					}
					for i := from; i < len(progs); i++ {
						pick(i, append(chosen, progs[i]))
					}
				}
				pick(0, first)
			}
		}
		if tier == "thorough" {
			for _, e := range g.ThoroughExtra {
				out = append(out, scenarioSpec{Group: g.Name, Programs: e})
			}
		}
	}
	return out
}

func freshStats(prom bool) {
	stats.VerifResetC17()
	config.VerifSet(&config.Config{Prometheus: prom, Job: "verif-c17"})
	if err := stats.Init(); err != nil {
		panic(err)
	}
}

// meanSweep: "means equal sum over count" for values of every magnitude a duration in milliseconds can take in a long
// crawl (the interleaving scenarios add 10 and 30 ms only): every sequence of at most three additions over the value
// alphabet, on each of the three means, sequentially. Returns a description of the first mean that differs ("" = none).
func meanSweep() string {
	vals := []uint64{1, 1<<31 - 1, 1 << 31, 1<<32 - 1, 1 << 32, 1<<33 + 7, 1 << 40}
	means := []struct {
		name  string
		add   func(time.Duration)
		reset func()
		get   func() float64
	}{
		{"mean HTTP response time", stats.MeanHTTPRespTimeAdd, stats.MeanHTTPRespTimeReset, stats.MeanHTTPRespTimeGet},
		{"mean process-body time", stats.MeanProcessBodyTimeAdd, stats.MeanProcessBodyTimeReset, stats.MeanProcessBodyTimeGet},
		{"mean wait-on-feedback time", stats.MeanWaitOnFeedbackTimeAdd, stats.MeanWaitOnFeedbackTimeReset, stats.MeanWaitOnFeedbackTimeGet},
	}
	freshStats(false)
	for _, m := range means {
		var rec func(seq []uint64) string
		rec = func(seq []uint64) string {
			if len(seq) > 0 {
				m.reset()
				var sum uint64
				for _, v := range seq {
					m.add(time.Duration(v) * time.Millisecond)
					sum += v
				}
				if want, got := float64(sum)/float64(len(seq)), m.get(); got != want {
					return fmt.Sprintf("mean-differs-from-sum-over-count: %s after adding %v ms (one goroutine, no interleaving): reported %v, sum over count is %v", m.name, seq, got, want)
				}
			}
			if len(seq) == 3 {
				return ""
			}
			for _, v := range vals {
				if r := rec(append(append([]uint64{}, seq...), v)); r != "" {
					return r
				}
			}
			return ""
		}
		if r := rec(nil); r != "" {
			return r
		}
	}
	return ""
}

// scenario builds the controlled-scheduler scenario of one spec.
func scenario(spec scenarioSpec) *vsched.Scenario {
	finals := sequentialFinals(spec)
	var got obs
	var lastSig string
	sc := &vsched.Scenario{Name: spec.String()}
	sc.Setup = func(x *vsched.Exec) { freshStats(spec.Group == "export"); got, lastSig = nil, "" }
	sc.Body = func() {
		for _, prog := range spec.Programs {
			prog := prog
			go func() {
				for _, n := range prog {
					ops[n].Do()
				}
			}()
		}
	}
	sc.AtEnd = func(x *vsched.Exec) error {
		// all threads have finished: this is the quiescent point "after the burst"
		o, err := observeImpl()
		got = o
		if err != nil {
			lastSig = "report-paths-disagree"
			return err
		}
		sig, msg := judgeFinal(spec, finals, o)
		if sig != "" {
			lastSig = sig
			return fmt.Errorf("%s", msg)
		}
		return nil
	}
	sc.Outcome = func(x *vsched.Exec) string { return strings.Join(got, " ") }
	sc.Signature = func(v *vsched.Violation) string {
		if v.Kind == "oracle" && lastSig != "" {
			return lastSig
		}
		return vsched.DefaultSignature(v)
	}
	sc.KnownSig = func(sig string) bool { return hkit.IsListed(propID, sig) }
	return sc
}

type found struct {
	Spec scenarioSpec     `json:"scenario"`
	Vio  vsched.Violation `json:"violation"`
}

type shardOut struct {
	Scenarios, Executions, Pruned, States, Transitions, Outcomes, MaxSteps int
	SeqFinals                                                              int // sum of |sequential finals|
	Contended                                                              int // scenarios with >1 distinct outcome or >1 sequential final
	Exhaustive                                                             bool
	CapHit                                                                 string
	PerGroup                                                               map[string][4]int // scenarios, executions, states, transitions
	Found                                                                  []found
	Samples                                                                []any
}

// heavy scenarios (two whole-package operations against each other) are split
// over subShards processes by the explorer's own frontier sharding.
const subShards = 16

func heavy(s scenarioSpec) bool {
	n := 0
	for _, p := range s.Programs {
		if len(p) == 1 && ops[p[0]].Metric == -1 { // Reset or TUI
			n++
		}
	}
	return n > 1
}

type item struct{ Spec, Sub, Of int }

func workItems(specs []scenarioSpec) []item {
	var heavyItems, rest []item
	for i, s := range specs {
		if heavy(s) {
			for k := 0; k < subShards; k++ {
				heavyItems = append(heavyItems, item{i, k, subShards})
			}
		} else {
			rest = append(rest, item{i, 0, 1})
		}
	}
	return append(heavyItems, rest...)
}

func worker(a hkit.Args, specs []scenarioSpec, deadline time.Time) {
	debug.SetGCPercent(800)
	out := shardOut{Exhaustive: true, PerGroup: map[string][4]int{}}
	for i, it := range workItems(specs) {
		if i%a.Of != a.Shard {
			continue
		}
		spec := specs[it.Spec]
		left := time.Until(deadline)
		if left <= 0 {
			out.Exhaustive, out.CapHit = false, "wall deadline"
			break
		}
		sc := scenario(spec)
		if it.Sub == 0 {
			if err := vsched.DeterminismCheck(sc); err != nil {
				hkit.EngineError("%v", err)
			}
			out.Scenarios++
		}
		rep := vsched.Explore(sc, vsched.Bounds{P: 99, F: 0, MaxWall: left, Shard: it.Sub, Of: it.Of})
		if a.Extra["v"] != "" {
			fmt.Fprintf(os.Stderr, "%7.2fs %7d exec %7d pruned %7d states  %s\n", rep.WallS, rep.Executions, rep.Pruned, rep.States, spec)
		}
		out.Executions += rep.Executions
		out.Pruned += rep.Pruned
		out.States += rep.States
		out.Transitions += rep.Transitions
		if it.Sub == 0 { // (a split scenario counts the outcomes of its first part only)
			out.Outcomes += len(rep.Outcomes)
			nf := len(sequentialFinals(spec))
			out.SeqFinals += nf
			if len(rep.Outcomes) > 1 || nf > 1 {
				out.Contended++
			}
		}
		if rep.MaxSteps > out.MaxSteps {
			out.MaxSteps = rep.MaxSteps
		}
		if !rep.Exhaustive {
			out.Exhaustive, out.CapHit = false, rep.CapHit
		}
		g := out.PerGroup[spec.Group]
		if it.Sub == 0 {
			g[0]++
		}
		g[1] += rep.Executions
		g[2] += rep.States
		g[3] += rep.Transitions
		out.PerGroup[spec.Group] = g
		for _, v := range rep.Violations {
			out.Found = append(out.Found, found{spec, v})
		}
		if len(out.Samples) < 2 && len(spec.Programs) > 1 && len(rep.Outcomes) > 1 {
			var tr []string
			for _, s := range rep.Sample {
				tr = append(tr, tname(s.Thread)+" "+point(s.Point))
			}
			out.Samples = append(out.Samples, map[string]any{"scenario": spec, "executions": rep.Executions,
				"distinct_final_values": vsched.SortedKeys(rep.Outcomes), "first_trace": tr})
		}
	}
	hkit.EmitShardResult(out)
}

// kindsOfSig splits "prefix:class:k1+k2" into its class key and kind set.
func kindsOfSig(sig string) (string, map[string]bool) {
	i := strings.LastIndexByte(sig, ':')
	if i < 0 || !strings.HasPrefix(sig, "final-not-sequential:") {
		return sig, nil
	}
	set := map[string]bool{}
	for _, k := range strings.Split(sig[i+1:], "+") {
		set[k] = true
	}
	return sig[:i], set
}

// tname shortens a scheduler thread name ("0.1(main.go:145 go func...)") to its path;
// thread 0.i runs Programs[i].
func tname(t string) string {
	if i := strings.IndexByte(t, '('); i > 0 {
		t = t[:i]
	}
	if strings.HasPrefix(t, "0.") {
		return "T" + t[2:]
	}
	return "main"
}

func point(p string) string {
	if strings.HasPrefix(p, "start ") {
		return "start"
	}
	return p
}

func nops(s scenarioSpec) int {
	n := 0
	for _, p := range s.Programs {
		n += len(p)
	}
	return n
}

// reportFound keeps, per signature, the smallest failing scenario; drops a
// signature whose operation kinds strictly include those of another failing
// signature of the same class (same failure seen through a larger program);
// confirms by replay and reports.
func reportFound(all []found) {
	best := map[string]found{}
	for _, f := range all {
		b, ok := best[f.Vio.Sig]
		if !ok || nops(f.Spec) < nops(b.Spec) || nops(f.Spec) == nops(b.Spec) && (len(f.Vio.Steps) < len(b.Vio.Steps) ||
			len(f.Vio.Steps) == len(b.Vio.Steps) && f.Spec.String() < b.Spec.String()) {
			best[f.Vio.Sig] = f
		}
	}
	sigs := hkit.SortedKeys(best)
	for _, sig := range sigs {
		cls, ks := kindsOfSig(sig)
		subsumed := false
		for _, other := range sigs {
			oc, oks := kindsOfSig(other)
			if other == sig || oc != cls || ks == nil || len(oks) >= len(ks) {
				continue
			}
			in := true
			for k := range oks {
				in = in && ks[k]
			}
			subsumed = subsumed || in
		}
		if subsumed {
			continue
		}
		f := best[sig]
		if err := vsched.Confirm(scenario(f.Spec), &f.Vio); err != nil {
			hkit.EngineError("violation did not replay: %v", err)
		}
		var sched []string
		for _, s := range f.Vio.Steps {
			sched = append(sched, tname(s.Thread)+":"+point(s.Point))
		}
		hkit.Report(propID, sig, map[string]any{"engine": "explore", "harness": "c17", "scenario": f.Spec, "violation": f.Vio},
			fmt.Sprintf("%s: %s (schedule: %s)", f.Spec, f.Vio.Message, strings.Join(sched, " -> ")))
	}
}

func main() {
	a := hkit.ParseArgs()
	if a.Extra["racepass"] != "" {
		raceChild(a)
		return
	}
	if a.Replay != "" {
		replay(a)
		return
	}
	if a.Of <= 1 && a.Extra["group"] == "" {
		if msg := meanSweep(); msg != "" {
			hkit.Report(propID, "mean-differs-from-sum-over-count:value-range", map[string]any{"engine": "explore", "harness": "c17", "sweep": msg}, msg)
		}
	}
	specs := allScenarios(a.Tier)
	if g := a.Extra["group"]; g != "" { // experiments: restrict to one group
		var f []scenarioSpec
		for _, s := range specs {
			if s.Group == g {
				f = append(f, s)
			}
		}
		specs = f
	}
	budget := 40 * time.Second
	if a.Tier == "thorough" {
		budget = 12 * time.Minute
	}
	if a.Extra["deadline"] != "" { // shard worker
		var dl int64
		fmt.Sscanf(a.Extra["deadline"], "%d", &dl)
		worker(a, specs, time.Unix(dl, 0))
		return
	}
	if raceBuild() {
		// `driver.py run c17 <tier> --race`: only the free-running pass makes sense in this binary
		a.Extra["racepass"] = "1"
		raceChild(a)
		return
	}
	raceDone := make(chan *raceResult, 1)
	go func() { raceDone <- racePass(a.Tier, "") }()

	outs := hkit.Shards(32, fmt.Sprintf("--deadline=%d", time.Now().Add(budget).Unix()))
	tot := shardOut{Exhaustive: true, PerGroup: map[string][4]int{}}
	var all []found
	for _, b := range outs {
		var r shardOut
		hkit.ShardResult(b, &r)
		tot.Scenarios += r.Scenarios
		tot.Executions += r.Executions
		tot.Pruned += r.Pruned
		tot.States += r.States
		tot.Transitions += r.Transitions
		tot.Outcomes += r.Outcomes
		tot.SeqFinals += r.SeqFinals
		tot.Contended += r.Contended
		if r.MaxSteps > tot.MaxSteps {
			tot.MaxSteps = r.MaxSteps
		}
		if !r.Exhaustive {
			tot.Exhaustive, tot.CapHit = false, r.CapHit
		}
		for _, g := range hkit.SortedKeys(r.PerGroup) {
			t, v := tot.PerGroup[g], r.PerGroup[g]
			for i := range t {
				t[i] += v[i]
			}
			tot.PerGroup[g] = t
		}
		all = append(all, r.Found...)
		if len(tot.Samples) < 3 {
			tot.Samples = append(tot.Samples, r.Samples...)
		}
	}
	reportFound(all)
	rr := <-raceDone
	reportRaces(rr)

	if len(tot.Samples) == 0 {
		tot.Samples = append(tot.Samples, specs[0])
	}
	per := map[string]any{}
	for _, g := range hkit.SortedKeys(tot.PerGroup) {
		v := tot.PerGroup[g]
		per[g] = map[string]int{"scenarios": v[0], "executions": v[1], "states": v[2], "transitions": v[3]}
	}
	alph := map[string]any{}
	for _, g := range groups {
		alph[g.Name] = map[string]any{"operations": g.Alphabet, "lead": g.Lead, "shapes_threads_x_ops": fmt.Sprint(g.shapes(a.Tier))}
	}
	var names []string
	for _, m := range metrics {
		names = append(names, m.Name)
	}
	hkit.Evidence(propID, a.Tier, "model_checking", map[string]any{
		"states": tot.States, "transitions": tot.Transitions, "traces_validated_against_impl": tot.Executions,
		"samples": tot.Samples, "exhaustive": tot.Exhaustive && tot.Scenarios == len(specs), "cap_hit": tot.CapHit,
		"scenarios": tot.Scenarios, "scenarios_enumerated": len(specs), "scenarios_contended": tot.Contended,
		"distinct_final_values_summed": tot.Outcomes, "sequential_finals_summed": tot.SeqFinals,
		"pruned_by_state_cache": tot.Pruned, "max_steps": tot.MaxSteps, "preemption_bound": "none (P=99 > steps)",
		"alphabets": alph, "per_group": per, "final_value_columns": names, "race_pass": rr.summary(),
		"explanation": "per scenario: stateless DFS over every interleaving of the atomic/mutex operations of the real stats package " +
			"(states = distinct happens-before fingerprints, summed over scenarios); oracle = final reported values are in the set of finals " +
			"of all program-order-respecting sequential orders on an atomic reference model; scenarios_contended = scenarios with more than one " +
			"sequential final or more than one observed final; race pass = same programs free-running under -race",
	}, []string{
		"scheduling points at every sync/atomic and sync.Mutex/Once operation of internal/pkg/stats (instrumented from the working tree); plain memory accesses are covered by the -race pass only",
		"state cache: two prefixes with equal happens-before fingerprints have equal futures",
		"Prometheus export disabled except in the group `export` (every update also goes to the exported series there; the exported values themselves are not read back); virtual clock does not advance during a burst",
		"reset operations leave the totals untouched in the reference model (literal reading: totals = events that happened)",
		"map iteration inside the package in sorted order (F=0)",
	}, hkit.Violations())
	fmt.Printf("C17 %s: %d/%d scenarios, %d executions, %d states, %d transitions, exhaustive=%v; race pass: %s\n", a.Tier,
		tot.Scenarios, len(specs), tot.Executions, tot.States, tot.Transitions, tot.Exhaustive, rr.line())
	hkit.Exit()
}

func replay(a hkit.Args) {
	b, err := os.ReadFile(a.Replay)
	if err != nil {
		hkit.EngineError("%v", err)
	}
	var r struct {
		Engine string           `json:"engine"`
		Spec   scenarioSpec     `json:"scenario"`
		Vio    vsched.Violation `json:"violation"`
		Race   raceReport       `json:"race"`
	}
	if err := json.Unmarshal(b, &r); err != nil {
		hkit.EngineError("%v", err)
	}
	if r.Engine == "race" {
		js, _ := json.Marshal(r.Spec)
		rr := racePass(a.Tier, string(js))
		for _, rep := range rr.Reports {
			fmt.Printf("replay: data race %s\n%s\n", rep.Sig, rep.Text)
		}
		if len(rr.Reports) == 0 {
			fmt.Println("replay: no race reported")
			os.Exit(0)
		}
		fmt.Printf("VIOLATION property=%s replay=%s\n", propID, a.Replay)
		os.Exit(1)
	}
	var names []string
	for _, m := range metrics {
		names = append(names, m.Name)
	}
	fmt.Printf("scenario %s\nmetrics: %s\nsequential finals:\n", r.Spec, strings.Join(names, " "))
	fin := sequentialFinals(r.Spec)
	keys := hkit.SortedKeys(fin)
	sort.Strings(keys)
	for _, k := range keys {
		fmt.Printf("  %s\n", k)
	}
	v, x := vsched.Replay(scenario(r.Spec), r.Vio.Choices)
	for _, s := range x.Steps {
		fmt.Printf("  %-6s %s\n", tname(s.Thread), point(s.Point))
	}
	if v == nil {
		fmt.Println("replay: no violation")
		os.Exit(0)
	}
	fmt.Printf("replay: %s: %s\n", v.Kind, v.Message)
	fmt.Printf("VIOLATION property=%s replay=%s\n", propID, a.Replay)
	os.Exit(1)
}
