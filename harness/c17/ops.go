package main

import (
	"fmt"
	"sort"
	"strconv"
	"strings"
	"time"

	"github.com/internetarchive/Zeno/internal/pkg/stats"
)

// ---------------------------------------------------------------------------
// Reference model: what the property says the metrics are.
//   totals  = number of increment events that happened (a reset or a read of
//             the per-second rate does not un-happen an event: rate.reset only
//             clears the rate window, and the property speaks of "the number
//             of events that happened");
//   gauges  = +1 / -1 / reset-to-0 on an unsigned 64-bit word;
//   means   = (count, sum): add(v) -> count+1, sum+v; reset -> (0,0);
//             reported mean = sum/count, 0 when count is 0.
// Every operation is ATOMIC in the model; stats.Reset() is the program-order
// sequence of its per-metric resets (the property asks nothing across metrics).

type mstate struct {
	crawled, seeds uint64
	codes          [4]uint64 // "200", "404", "999", "101"
	g              [3]uint64 // preprocessor, archiver, postprocessor
	mn, ms         [3]uint64 // http response, process body, wait on feedback: count, sum
}

var codeKeys = [4]string{"200", "404", "999", "101"} // the last two: codes outside the 2xx-5xx classes

// metrics are the observed values, in this order, each formatted as a string.
var metrics = []struct{ Name, Class string }{
	{"urls-crawled-total", "rate-total"},
	{"seeds-finished-total", "rate-total"},
	{"status-code-totals", "bucket-total"},
	{"preprocessor-gauge", "gauge"},
	{"archiver-gauge", "gauge"},
	{"postprocessor-gauge", "gauge"},
	{"mean-http-response-time", "mean"},
	{"mean-process-body-time", "mean"},
	{"mean-wait-on-feedback-time", "mean"},
}

type obs []string // one value per metric

func fmtMean(f float64) string { return strconv.FormatFloat(f, 'g', -1, 64) }

func fmtCodes(m map[string]uint64) string {
	ks := make([]string, 0, len(m))
	for _, k := range codeKeys { // fixed key order, then anything unexpected
		if _, ok := m[k]; ok {
			ks = append(ks, k)
		}
	}
	var extra []string
	for k := range m {
		if k != codeKeys[0] && k != codeKeys[1] && k != codeKeys[2] && k != codeKeys[3] {
			extra = append(extra, k)
		}
	}
	sort.Strings(extra)
	ks = append(ks, extra...)
	var parts []string
	for _, k := range ks {
		parts = append(parts, fmt.Sprintf("%s=%d", k, m[k]))
	}
	return "{" + strings.Join(parts, ",") + "}"
}

// observe turns a model state into the values the getters must report.
func (s mstate) observe() obs {
	o := obs{fmt.Sprint(s.crawled), fmt.Sprint(s.seeds)}
	cm := map[string]uint64{}
	for i, k := range codeKeys {
		if s.codes[i] > 0 { // a key exists exactly when it was incremented (totals are never reset)
			cm[k] = s.codes[i]
		}
	}
	o = append(o, fmtCodes(cm))
	for i := 0; i < 3; i++ {
		o = append(o, fmt.Sprint(s.g[i]))
	}
	for i := 0; i < 3; i++ {
		m := 0.0
		if s.mn[i] != 0 {
			m = float64(s.ms[i]) / float64(s.mn[i])
		}
		o = append(o, fmtMean(m))
	}
	return o
}

// observeImpl reads the same values from the real package at quiescence,
// through the reporting paths Zeno itself uses (GetMapTUI, the exported
// getters) and the overlay accessor for the per-status-code totals, which have
// no exported getter. Two paths reporting the same metric must agree.
func observeImpl() (obs, error) {
	tui := stats.GetMapTUI()
	u := func(k string) string { return fmt.Sprint(tui[k]) }
	codes := stats.VerifCodeTotalsC17()
	o := obs{u("Total URL crawled"), u("Finished seeds"), fmtCodes(codes),
		u("Preprocessor routines"), u("Archiver routines"), u("Postprocessor routines"),
		fmtMean(tui["Mean HTTP response time"].(float64)),
		fmtMean(stats.MeanProcessBodyTimeGet()), fmtMean(stats.MeanWaitOnFeedbackTimeGet())}
	for k, v := range codes {
		if w := stats.VerifCodeTotalC17(k); w != v {
			return o, fmt.Errorf("reporting paths disagree: status-code total %s is %d by key, %d in the full map", k, w, v)
		}
	}
	for i, w := range []string{fmt.Sprint(stats.PreprocessorRoutinesGet()), fmt.Sprint(stats.ArchiverRoutinesGet()),
		fmt.Sprint(stats.PostprocessorRoutinesGet()), fmtMean(stats.MeanHTTPRespTimeGet())} {
		if o[3+i] != w {
			return o, fmt.Errorf("reporting paths disagree: %s is %s in GetMapTUI, %s by its getter", metrics[3+i].Name, o[3+i], w)
		}
	}
	return o, nil
}

// ---------------------------------------------------------------------------
// Operations: the real call and its effect in the model.

type opDef struct {
	Name   string
	Metric int    // index into metrics; -1 = none / several
	Kind   string // incr, decr, add, get, reset
	Do     func()
	Model  func(s *mstate) // nil: no effect on the observed values
	Seq    []string        // composite: the model applies these operations in order
}

var ops = map[string]*opDef{}

func def(name string, metric int, kind string, do func(), model func(s *mstate)) {
	ops[name] = &opDef{Name: name, Metric: metric, Kind: kind, Do: do, Model: model}
}

func init() {
	ms := func(n int) time.Duration { return time.Duration(n) * time.Millisecond }
	def("crawl", 0, "incr", stats.URLsCrawledIncr, func(s *mstate) { s.crawled++ })
	def("crawl.get", 0, "get", func() { stats.URLsCrawledGet() }, nil)
	def("crawl.reset", 0, "reset", stats.URLsCrawledReset, nil)
	def("seed", 1, "incr", stats.SeedsFinishedIncr, func(s *mstate) { s.seeds++ })
	def("seed.get", 1, "get", func() { stats.SeedsFinishedGet() }, nil)
	def("seed.reset", 1, "reset", stats.SeedsFinishedReset, nil)
	for i, k := range codeKeys {
		i, k := i, k
		def("code"+k, 2, "incr", func() { stats.HTTPReturnCodesIncr(k) }, func(s *mstate) { s.codes[i]++ })
		def("code"+k+".get", 2, "get", func() { stats.HTTPReturnCodesGet(k) }, nil)
		def("code"+k+".reset", 2, "reset", func() { stats.HTTPReturnCodesReset(k) }, nil)
	}
	def("code.resetall", 2, "reset", stats.HTTPReturnCodesResetAll, nil)
	gauge := func(pfx string, i int, incr, decr, reset func(), get func() uint64) {
		def(pfx+"+", 3+i, "incr", incr, func(s *mstate) { s.g[i]++ })
		def(pfx+"-", 3+i, "decr", decr, func(s *mstate) { s.g[i]-- })
		def(pfx+".get", 3+i, "get", func() { get() }, nil)
		def(pfx+".reset", 3+i, "reset", reset, func(s *mstate) { s.g[i] = 0 })
	}
	gauge("pre", 0, stats.PreprocessorRoutinesIncr, stats.PreprocessorRoutinesDecr, stats.PreprocessorRoutinesReset, stats.PreprocessorRoutinesGet)
	gauge("arch", 1, stats.ArchiverRoutinesIncr, stats.ArchiverRoutinesDecr, stats.ArchiverRoutinesReset, stats.ArchiverRoutinesGet)
	gauge("post", 2, stats.PostprocessorRoutinesIncr, stats.PostprocessorRoutinesDecr, stats.PostprocessorRoutinesReset, stats.PostprocessorRoutinesGet)
	mean := func(pfx string, i int, add func(time.Duration), reset func(), get func() float64) {
		for _, v := range []int{10, 30} {
			v := v
			def(fmt.Sprintf("%s.add%d", pfx, v), 6+i, "add", func() { add(ms(v)) }, func(s *mstate) { s.mn[i]++; s.ms[i] += uint64(v) })
		}
		def(pfx+".get", 6+i, "get", func() { get() }, nil)
		def(pfx+".reset", 6+i, "reset", reset, func(s *mstate) { s.mn[i], s.ms[i] = 0, 0 })
	}
	mean("http", 0, stats.MeanHTTPRespTimeAdd, stats.MeanHTTPRespTimeReset, stats.MeanHTTPRespTimeGet)
	mean("body", 1, stats.MeanProcessBodyTimeAdd, stats.MeanProcessBodyTimeReset, stats.MeanProcessBodyTimeGet)
	mean("wait", 2, stats.MeanWaitOnFeedbackTimeAdd, stats.MeanWaitOnFeedbackTimeReset, stats.MeanWaitOnFeedbackTimeGet)
	// the two whole-package operations
	ops["Reset"] = &opDef{Name: "Reset", Metric: -1, Kind: "reset", Do: stats.Reset,
		Seq: []string{"pre.reset", "arch.reset", "post.reset", "http.reset", "body.reset", "wait.reset"}}
	ops["TUI"] = &opDef{Name: "TUI", Metric: -1, Kind: "get", Do: func() { stats.GetMapTUI() }}
}

// touches reports whether operation o acts on metric m.
func (o *opDef) touches(m int) bool {
	if o.Metric == m {
		return true
	}
	if o.Name == "TUI" {
		return m != 2 // reads everything; the per-code totals are not in the TUI map
	}
	return o.Name == "Reset"
}

// ---------------------------------------------------------------------------
// Scenarios and the sequential oracle.

type scenarioSpec struct {
	Group    string     `json:"group"`
	Programs [][]string `json:"programs"` // one operation list per thread
}

func (s scenarioSpec) String() string {
	var p []string
	for _, t := range s.Programs {
		p = append(p, strings.Join(t, ";"))
	}
	return s.Group + "[" + strings.Join(p, " || ") + "]"
}

// flat expands composite operations into their model steps.
func flat(prog []string) []*opDef {
	var out []*opDef
	for _, n := range prog {
		o := ops[n]
		if o == nil {
			panic("unknown operation " + n)
		}
		if len(o.Seq) > 0 {
			for _, m := range o.Seq {
				out = append(out, ops[m])
			}
		} else if o.Model != nil {
			out = append(out, o)
		}
	}
	return out
}

// sequentialFinals is the oracle's right-hand side: the set of final
// observations of ALL sequential orders of the scenario's operations that
// respect each thread's program order (brute force over every merge of the
// thread programs, memoised on (positions, model state)).
func sequentialFinals(sc scenarioSpec) map[string]obs {
	progs := make([][]*opDef, len(sc.Programs))
	for i, p := range sc.Programs {
		progs[i] = flat(p)
	}
	type node struct {
		pos [3]int
		s   mstate
	}
	finals := map[string]obs{}
	seen := map[node]bool{}
	var walk func(n node)
	walk = func(n node) {
		if seen[n] {
			return
		}
		seen[n] = true
		end := true
		for t := range progs {
			if n.pos[t] < len(progs[t]) {
				end = false
				m := n
				progs[t][n.pos[t]].Model(&m.s)
				m.pos[t]++
				walk(m)
			}
		}
		if end {
			o := n.s.observe()
			finals[strings.Join(o, " ")] = o
		}
	}
	walk(node{})
	return finals
}

// judgeFinal is the oracle: the observed final values must be those of some
// sequential order. On failure it names the metric(s) whose own value no
// sequential order produces, and builds the signature from the implementing
// type of that metric and the kinds of operations the scenario applies to it.
func judgeFinal(sc scenarioSpec, finals map[string]obs, got obs) (sig, msg string) {
	if _, ok := finals[strings.Join(got, " ")]; ok {
		return "", ""
	}
	var bad []int
	for m := range metrics {
		ok := false
		for _, f := range finals {
			if f[m] == got[m] {
				ok = true
			}
		}
		if !ok {
			bad = append(bad, m)
		}
	}
	kindsOf := func(m int) string {
		set := map[string]bool{}
		for _, p := range sc.Programs {
			for _, n := range p {
				if m < 0 || ops[n].touches(m) {
					set[ops[n].Kind] = true
				}
			}
		}
		var ks []string
		for k := range set {
			ks = append(ks, k)
		}
		sort.Strings(ks)
		if len(ks) == 0 {
			return "changed-by-operations-on-other-metrics"
		}
		return strings.Join(ks, "+")
	}
	if len(bad) == 0 {
		// every single value is possible, but not together
		return "final-not-sequential:joint:" + kindsOf(-1),
			fmt.Sprintf("final values %v are each reachable but not together by any sequential order", []string(got))
	}
	m := bad[0]
	allowed := map[string]bool{}
	for _, f := range finals {
		allowed[f[m]] = true
	}
	var al []string
	for k := range allowed {
		al = append(al, k)
	}
	sort.Strings(al)
	return "final-not-sequential:" + metrics[m].Class + ":" + kindsOf(m),
		fmt.Sprintf("%s = %s after the burst; the sequential orders of the same operations give only %v", metrics[m].Name, got[m], al)
}
