package main

// Two preprocessor workers on the real local seen-store at the same moment: the narrowest seam that
// reaches "processed concurrently" of the property. Each worker makes one call of the real preprocess()
// (normalisation, de-duplication, SeencheckItem) on an item of its own; the items' URLs overlap; an optional
// call before them has left a record. Every interleaving within the preemption bound.
//
// Oracle (per node of each call, from call start/end stamps and the reference of seq.go):
//   - skipped only if a sighting the store can have reported exists: a compatible sighting by the prologue,
//     or by the other call unless that call started after this one ended;
//   - fetched only if no compatible sighting was certainly recorded: by the prologue, or by the other call
//     when it ended before this one started.
// A sighting as an asset does not make a seed or redirect target seen (the promotion rule).

import (
	"fmt"
	"os"
	"strings"
	"time"

	"github.com/internetarchive/Zeno/internal/pkg/config"
	"github.com/internetarchive/Zeno/internal/pkg/preprocessor"
	"github.com/internetarchive/Zeno/internal/pkg/preprocessor/seencheck"
	"github.com/internetarchive/Zeno/internal/verif/vrt/hkit"
	"github.com/internetarchive/Zeno/internal/verif/vrt/vsched"
	"github.com/internetarchive/Zeno/pkg/models"
)

type concSpec struct {
	Pre   []callSpec  `json:"pre,omitempty"`
	Calls [2]callSpec `json:"calls"`
}

func (c *concSpec) name() string {
	sh := func(cs callSpec) string {
		var p []string
		for _, n := range cs.Nodes {
			p = append(p, n.Pos+":"+concURLs[n.URL].Class)
		}
		return strings.Join(p, "+")
	}
	pre := "-"
	if len(c.Pre) > 0 {
		pre = sh(c.Pre[0])
	}
	return fmt.Sprintf("store, two workers: after %s: %s || %s", pre, sh(c.Calls[0]), sh(c.Calls[1]))
}

// two URLs of two classes, the second spelt differently by the two workers
var concURLs = []spelling{{"http://s.example/x", "x"}, {"http://s.example/v", "v"}, {"HTTP://S.EXAMPLE:80/x#f", "x"}}

func concShapes() []callSpec {
	return []callSpec{
		{[]nodeSpec{{"seed", 0}}}, {[]nodeSpec{{"seed", 1}}}, {[]nodeSpec{{"seed", 2}}},
		{[]nodeSpec{{"redirect", 0}}}, {[]nodeSpec{{"redirect", 1}}},
		{[]nodeSpec{{"asset", 0}}}, {[]nodeSpec{{"asset", 1}}},
		{[]nodeSpec{{"asset", 0}, {"asset", 1}}}, {[]nodeSpec{{"asset", 1}, {"asset", 2}}},
	}
}

func concScenarios(tier string) []scen {
	P := 2
	pres := [][]callSpec{nil, {{[]nodeSpec{{"asset", 0}}}}, {{[]nodeSpec{{"seed", 0}}}}}
	if tier == "thorough" {
		P = 3
		pres = append(pres, []callSpec{{[]nodeSpec{{"asset", 1}}}}, []callSpec{{[]nodeSpec{{"asset", 0}, {"asset", 1}}}})
	}
	var out []scen
	sh := concShapes()
	for _, pre := range pres {
		for i := range sh {
			for j := i; j < len(sh); j++ { // the two workers are symmetric
				out = append(out, scen{Conc: &concSpec{Pre: pre, Calls: [2]callSpec{sh[i], sh[j]}}, P: P})
			}
		}
	}
	return out
}

var concNS int

type concCall struct {
	seed         *models.Item
	nodes        []*models.Item
	start, end   int
	built        []bool
	statuses     []string
	returnedFrom bool
}

func buildItems(c callSpec, ns string, id int) (*models.Item, []*models.Item) {
	mk := func(text string) *models.URL {
		t := strings.Replace(text, "/x", "/"+ns+"/x", 1)
		t = strings.Replace(t, "/v", "/"+ns+"/v", 1)
		return &models.URL{Raw: t}
	}
	parentURL := &models.URL{Raw: fmt.Sprintf("http://s.example/%s/parent-%d", ns, id)}
	if err := parentURL.Parse(); err != nil {
		panic(err)
	}
	var seed *models.Item
	var nodes []*models.Item
	switch c.Nodes[0].Pos {
	case "seed":
		u := mk(concURLs[c.Nodes[0].URL].Text)
		u.Parse()
		seed = models.NewItem(fmt.Sprintf("s%d", id), u, "")
		nodes = []*models.Item{seed}
	case "redirect":
		seed = models.NewItem(fmt.Sprintf("s%d", id), parentURL, "")
		ch := models.NewItem(fmt.Sprintf("c%d", id), mk(concURLs[c.Nodes[0].URL].Text), "")
		if err := seed.AddChild(ch, models.ItemGotRedirected); err != nil {
			panic(err)
		}
		nodes = []*models.Item{ch}
	case "asset":
		seed = models.NewItem(fmt.Sprintf("s%d", id), parentURL, "")
		for i, n := range c.Nodes {
			ch := models.NewItem(fmt.Sprintf("c%d-%d", id, i), mk(concURLs[n.URL].Text), "")
			if err := seed.AddChild(ch, models.ItemGotChildren); err != nil {
				panic(err)
			}
			nodes = append(nodes, ch)
		}
	}
	return seed, nodes
}

func (cc *concCall) eval() {
	for _, n := range cc.nodes {
		attached := n == cc.seed
		for _, ch := range cc.seed.GetChildren() {
			attached = attached || ch == n
		}
		cc.built = append(cc.built, attached && n.GetStatus() == models.ItemPreProcessed && n.GetURL().GetRequest() != nil)
		st := n.GetStatus().String()
		if !attached {
			st = "removed"
		}
		cc.statuses = append(cc.statuses, st)
	}
}

func kindOf(pos string) string {
	if pos == "asset" {
		return "asset"
	}
	return "seed"
}

// compatible: a sighting of kind rec makes a node of kind k seen
func compatible(rec, k string) bool { return !(rec == "asset" && k == "seed") }

func concScenario(s *scen) *vsched.Scenario {
	c := s.Conc
	var calls [2]*concCall
	var clock int
	opened := false
	sc := &vsched.Scenario{Name: c.name()}
	sc.Setup = func(x *vsched.Exec) {
		if !opened { // one store per scenario (a job runs one scenario from start to end)
			opened = true
			dir, err := os.MkdirTemp(os.Getenv("VERIF_TMP"), "c08-conc-")
			if err != nil {
				hkit.EngineError("%v", err)
			}
			config.VerifSet(&config.Config{JobPath: dir, UseSeencheck: true, UserAgent: "verif", NoStdoutLogging: true, NoStderrLogging: true, NoFileLogging: true,
				ExcludeHosts: []string{"archive.org", "archive-it.org"}})
			if err := seencheck.Start(dir); err != nil {
				hkit.EngineError("%v", err)
			}
		}
		// one store per process, one namespace per execution: executions are independent
		concNS++
		ns := fmt.Sprintf("n%d", concNS)
		clock = 0
		for i, p := range c.Pre {
			seed, _ := buildItems(p, ns, 10+i)
			preprocessor.VerifC08Preprocess(seed) // sequential, before the scheduler owns anything
		}
		for i := range calls {
			seed, nodes := buildItems(c.Calls[i], ns, i)
			calls[i] = &concCall{seed: seed, nodes: nodes, start: -1, end: -1}
		}
	}
	sc.Body = func() {
		for i := range calls {
			cc := calls[i]
			go func() {
				clock++
				cc.start = clock
				preprocessor.VerifC08Preprocess(cc.seed)
				clock++
				cc.end = clock
				cc.returnedFrom = true
			}()
		}
	}
	sc.Horizon = time.Minute
	sc.AtEnd = func(x *vsched.Exec) error {
		for i, cc := range calls {
			if !cc.returnedFrom {
				return fmt.Errorf("call-blocked: worker %d never returned from preprocess; parked: %s", i, strings.Join(x.Blocked(), "; "))
			}
			cc.eval()
		}
		for i, cc := range calls {
			other := calls[1-i]
			otherSurely := other.end < cc.start      // its records were complete before this check started
			otherPossibly := !(cc.end < other.start) // it had started before this call ended
			for k, n := range c.Calls[i].Nodes {
				cl, kind := concURLs[n.URL].Class, kindOf(n.Pos)
				must, may := false, false
				for _, p := range c.Pre {
					for _, pn := range p.Nodes {
						if concURLs[pn.URL].Class == cl && compatible(kindOf(pn.Pos), kind) {
							must, may = true, true
						}
					}
				}
				for _, on := range c.Calls[1-i].Nodes {
					if concURLs[on.URL].Class == cl && compatible(kindOf(on.Pos), kind) {
						must = must || otherSurely
						may = may || otherPossibly
					}
				}
				what := fmt.Sprintf("worker %d, node %d (%s %s, status %s; this call [%d,%d], the other [%d,%d])", i, k, n.Pos, concURLs[n.URL].Text, cc.statuses[k], cc.start, cc.end, other.start, other.end)
				if !cc.built[k] && !may {
					return fmt.Errorf("skipped-although-not-seen: %s was skipped, and no sighting the store could have reported exists", what)
				}
				if cc.built[k] && must {
					return fmt.Errorf("refetched: %s is fetched although a record of it was complete before the check started", what)
				}
			}
		}
		return nil
	}
	sc.Outcome = func(x *vsched.Exec) string {
		return fmt.Sprintf("%v %v | %v %v", calls[0].statuses, calls[0].end < calls[1].start, calls[1].statuses, calls[1].end < calls[0].start)
	}
	sc.Signature = func(v *vsched.Violation) string {
		if v.Kind == "crash" {
			return vsched.DefaultSignature(v)
		}
		if i := strings.IndexByte(v.Message, ':'); i > 0 {
			return "workers:" + v.Message[:i]
		}
		return vsched.DefaultSignature(v)
	}
	sc.KnownSig = func(sg string) bool { return hkit.IsListed(propID, sg) }
	return sc
}
