package main

// Parts 1 and 2 of C08: histories of seen-checks through the real
// preprocess() (normalisation, de-duplication, seencheck, request building)
// against (1) the real local LevelDB store and (2) crawl HQ's seencheck
// endpoint (in-memory fake whose "already seen" set and failures are
// enumerated). Reference: a map from equivalence class to the kind of the
// first sighting, with the asset->seed promotion rule. Both directions:
// seen in the reference => skipped; skipped => the reference (the store) had it.

import (
	"bytes"
	"encoding/json"
	"fmt"
	"io"
	"net/http"
	"net/url"
	"os"
	"strings"

	"github.com/internetarchive/Zeno/internal/pkg/config"
	"github.com/internetarchive/Zeno/internal/pkg/preprocessor"
	"github.com/internetarchive/Zeno/internal/pkg/preprocessor/seencheck"
	"github.com/internetarchive/Zeno/internal/pkg/source/hq"
	"github.com/internetarchive/Zeno/internal/verif/vrt/hkit"
	"github.com/internetarchive/Zeno/pkg/models"
	"github.com/internetarchive/gocrawlhq"
)

// urlAlpha: spellings grouped into equivalence classes known by construction
// (case of scheme/host, default port, fragment, surrounding quotes do not
// change the canonical URL; a different parameter order or path does).
type spelling struct {
	Text  string
	Class string
}

var urlAlpha = []spelling{
	{"http://s.example/x", "x"},
	{"HTTP://S.EXAMPLE/x", "x"},
	{"http://s.example:80/x#frag", "x"},
	{"http://s.example/y?a=1&b=2", "y12"},
	{"http://s.example/y?b=2&a=1", "y21"},
	{"http://s.example/v", "v"},
}

// urlAlphaExtra: spellings whose raw and canonical forms differ in the query (thorough tier).
var urlAlphaExtra = []spelling{
	// note: "?q=a b" and "?q=a%20b" are NOT one class: Zeno canonicalises the first to "?q=a+b"
	// (re-encoding of raw bytes) and keeps the second; the property speaks of the same canonical URL
	{"http://s.example/x?q=a%20b", "xq"},
	{"HTTP://s.example/x?q=a%20b#f", "xq"},
	{"http://bücher.example/v", "idn"},
	{"http://xn--bcher-kva.example/v", "idn"},
}

// sweepQueries: unusually encoded and multi-parameter query strings; each is tried as an absolute URL
// and as a path-absolute reference (the two take different roads through NormalizeURL). No equivalence
// between spellings is claimed here: every spelling is only compared with itself.
var sweepQueries = []string{"f=a|b&d=1", "s={w}x{h}&v=3", "k=^1", "p=a\\b", "t=`x`", "a=[1]&b=]", "q=a b", "q=a+b", "q=a%20b", "q=a%7Cb", "u=ü", "u=%C3%BC", "k=", "k", "a=1&&b=2",
	"a=1;b=2", "x='1'", "a=1&a=2&a=1", "r=<b>", "e=%", "e=%zz", "h=a%23b", "amp=a%26b&c=1", "sl=/a/b?c", "z=" + strings.Repeat("9", 300)}

// sweep: for every spelling, on a fresh namespace: first sight as an asset -> fetched; the same text
// again as an asset of another page -> skipped; then as a redirect target -> fetched once more
// (promotion), then again -> skipped. Judged by the same reference model as the histories.
func sweep(store string, seedsChecked bool) localResult {
	var res localResult
	saved := urlAlpha
	defer func() { urlAlpha = saved }()
	for qi, q := range sweepQueries {
		for fi, text := range []string{"http://s.example/x?" + q, "/x?" + q} {
			urlAlpha = []spelling{{text, "self"}}
			ns := fmt.Sprintf("w%s%d-%d", store[:1], qi, fi)
			ref := refModel{}
			var h []callSpec
			for _, pos := range []string{"asset", "asset", "redirect", "redirect"} {
				c := callSpec{[]nodeSpec{{pos, 0}}}
				h = append(h, c)
				want, _ := ref.check(c, seedsChecked)
				got, sts := runCall(c, ns)
				res.Checks++
				if want[0] != got[0] {
					form := []string{"absolute", "path-absolute-reference"}[fi]
					res.Failures = append(res.Failures, seqFailure{Sig: fmt.Sprintf("%s:%s:%s:unusual-query:%s", store, map[bool]string{true: "refetched-although-seen", false: "skipped-although-not-seen"}[got[0]], pos, form),
						Store: store, History: append([]callSpec{}, h...), Text: text,
						Detail: fmt.Sprintf("call %d (%s %q): reference says built=%v, Zeno: built=%v (status %s)", len(h), pos, text, want[0], got[0], sts[0])})
					break
				}
			}
			res.Histories++
		}
	}
	// twins: two different URLs that differ only in that one has a reserved character escaped where the other has it
	// bare (a data byte versus a delimiter). Recording one must not make the other look seen, in either order,
	// as assets and as seeds / redirect targets.
	for ti, tw := range twinURLs {
		for oi, order := range [][2]int{{0, 1}, {1, 0}} {
			for pi, pos := range []string{"asset", "redirect", "seed"} {
				urlAlpha = []spelling{{tw[0], "twin-a"}, {tw[1], "twin-b"}}
				ns := fmt.Sprintf("t%s%d-%d-%d", store[:1], ti, oi, pi)
				ref := refModel{}
				var h []callSpec
				for _, u := range []int{order[0], order[1], order[1]} { // first twin, second twin (fresh), second twin again (seen now)
					c := callSpec{[]nodeSpec{{pos, u}}}
					h = append(h, c)
					want, _ := ref.check(c, seedsChecked)
					got, sts := runCall(c, ns)
					res.Checks++
					if want[0] != got[0] {
						res.Failures = append(res.Failures, seqFailure{Sig: fmt.Sprintf("%s:%s:%s:escaped-versus-bare-delimiter", store, map[bool]string{true: "refetched-although-seen", false: "skipped-although-not-seen"}[got[0]], pos),
							Store: store, History: append([]callSpec{}, h...), Text: tw[0] + " / " + tw[1],
							Detail: fmt.Sprintf("call %d (%s %q, after %q): reference says built=%v, Zeno: built=%v (status %s)", len(h), pos, urlAlpha[u].Text, urlAlpha[order[0]].Text, want[0], got[0], sts[0])})
						break
					}
				}
				res.Histories++
			}
		}
	}
	return res
}

// wideLevels: levels wider than the two nodes of the call alphabet, with every --hq-batch-size around them (the
// configured size, 1 and 2 below every width, and the default): a level of w never-seen assets is fetched whole,
// the same level under another page is skipped whole, and a level that mixes seen and new URLs in alternation
// (so that every batch boundary falls between a seen and a new one) fetches exactly the new ones.
func wideLevels(store string) localResult {
	var res localResult
	level := func(ns string, ids []int) (built []bool) {
		seqCounter++
		parentURL := &models.URL{Raw: fmt.Sprintf("http://s.example/%s/wide-parent-%d", ns, seqCounter)}
		if err := parentURL.Parse(); err != nil {
			panic(err)
		}
		seed := models.NewItem(fmt.Sprintf("s%d", seqCounter), parentURL, "")
		var nodes []*models.Item
		for _, id := range ids {
			ch := models.NewItem(fmt.Sprintf("c%d-%d", seqCounter, id), &models.URL{Raw: fmt.Sprintf("http://s.example/%s/img/%d.png?w=10&h=%d", ns, id, id)}, "")
			if err := seed.AddChild(ch, models.ItemGotChildren); err != nil {
				panic(err)
			}
			nodes = append(nodes, ch)
		}
		preprocessor.VerifC08Preprocess(seed)
		for _, n := range nodes {
			attached := false
			for _, ch := range seed.GetChildren() {
				attached = attached || ch == n
			}
			built = append(built, attached && n.GetStatus() == models.ItemPreProcessed && n.GetURL().GetRequest() != nil)
		}
		return
	}
	saved := config.Get().HQBatchSize
	defer func() { config.Get().HQBatchSize = saved }()
	batches := []int{0}
	if strings.HasPrefix(store, "hq") {
		batches = []int{0, 1, 2, 3}
	}
	for _, batch := range batches {
		config.Get().HQBatchSize = batch
		for _, w := range []int{3, 4, 5, 7} {
			ns := fmt.Sprintf("wide%s-b%d-w%d", store[:1], batch, w)
			var first, odd, all []int
			for i := 0; i < w; i++ {
				all = append(all, i)
				if i%2 == 0 {
					first = append(first, i)
				} else {
					odd = append(odd, i)
				}
			}
			steps := []struct {
				what string
				ids  []int
				want func(id int) bool
			}{
				{"the even ones, never seen", first, func(int) bool { return true }},
				{"all of them, the even ones seen", all, func(id int) bool { return id%2 == 1 }},
				{"all of them again", all, func(int) bool { return false }},
			}
			for si, st := range steps {
				got := level(ns, st.ids)
				for k, id := range st.ids {
					res.Checks++
					if got[k] != st.want(id) {
						res.Failures = append(res.Failures, seqFailure{Sig: fmt.Sprintf("%s:%s:asset:wide-level", store, map[bool]string{true: "refetched-although-seen", false: "skipped-although-not-seen"}[got[k]]),
							Store: store, Detail: fmt.Sprintf("--hq-batch-size %d, a level of %d assets, step %d (%s): asset %d: reference says built=%v, Zeno: built=%v (whole level: %v)", batch, len(st.ids), si+1, st.what, id, st.want(id), got[k], got)})
						break
					}
				}
			}
			_ = odd
			res.Histories++
		}
	}
	return res
}

// twinURLs: pairs of distinct canonical URLs (checked at start-up) that a percent-decoding of the whole URL would merge.
var twinURLs = [][2]string{
	{"http://s.example/x/search?a=1%26b=2", "http://s.example/x/search?a=1&b=2"},
	{"http://s.example/x/list?k%3Dv", "http://s.example/x/list?k=v"},
	{"http://s.example/x/get/a%2Fb", "http://s.example/x/get/a/b"},
	{"http://s.example/x/q?n=a%3Fb", "http://s.example/x/q?n=a?b"},
	{"http://s.example/x/p?t=a%2Bb", "http://s.example/x/p?t=a+b"},
}

// node of a call: position + spelling index
type nodeSpec struct {
	Pos string `json:"pos"` // seed | redirect | asset
	URL int    `json:"url"`
}

type callSpec struct {
	Nodes []nodeSpec `json:"nodes"` // one node, or two assets of the same page
}

func callAlphabet() []callSpec {
	var out []callSpec
	for _, pos := range []string{"seed", "redirect", "asset"} {
		for u := range urlAlpha {
			out = append(out, callSpec{[]nodeSpec{{pos, u}}})
		}
	}
	for u1 := range urlAlpha {
		for u2 := range urlAlpha {
			out = append(out, callSpec{[]nodeSpec{{"asset", u1}, {"asset", u2}}})
		}
	}
	// a redirect target and, behind it on the same level, the asset of another document (two URLs of different classes)
	for _, u1 := range []int{0, 5} {
		for _, u2 := range []int{0, 3, 5} {
			if u1 < len(urlAlpha) && u2 < len(urlAlpha) && urlAlpha[u1].Class != urlAlpha[u2].Class {
				out = append(out, callSpec{[]nodeSpec{{"redirect", u1}, {"asset", u2}}})
			}
		}
	}
	return out
}

type localResult struct {
	Histories  int          `json:"histories"`
	Checks     int          `json:"checks"`
	Skipped    int          `json:"skipped"`
	Promotions int          `json:"promotions"`
	States     int          `json:"states"`
	Failures   []seqFailure `json:"failures,omitempty"`
}

type seqFailure struct {
	Sig     string     `json:"sig"`
	Store   string     `json:"store"`
	History []callSpec `json:"history"`
	Detail  string     `json:"detail"`
	Text    string     `json:"text,omitempty"` // sweep failures: the one spelling the history is about
}

var seqCounter int

// runCall executes one call of a history through the real preprocess() and
// returns, per node, whether a request was built (not skipped).
// ns is the per-history namespace that keeps histories independent in one store.
func runCall(c callSpec, ns string) (built []bool, statuses []string) {
	seqCounter++
	mk := func(text string) *models.URL {
		// the namespace goes into the path so that equivalence classes are preserved
		t := strings.Replace(text, "/x", "/"+ns+"/x", 1)
		if strings.HasSuffix(text, "example/v") {
			t = strings.Replace(text, "/v", "/"+ns+"/v", 1)
			return &models.URL{Raw: t}
		}
		t = strings.Replace(t, "/y?", "/"+ns+"/y?", 1)
		t = strings.Replace(t, "/v", "/"+ns+"/v", 1)
		return &models.URL{Raw: t}
	}
	parentURL := &models.URL{Raw: fmt.Sprintf("http://s.example/%s/parent-%d", ns, seqCounter)}
	if err := parentURL.Parse(); err != nil {
		panic(err)
	}
	var seed *models.Item
	var nodes []*models.Item
	switch c.Nodes[0].Pos {
	case "seed":
		u := mk(urlAlpha[c.Nodes[0].URL].Text)
		u.Parse()
		seed = models.NewItem(fmt.Sprintf("s%d", seqCounter), u, "")
		nodes = []*models.Item{seed}
	case "redirect":
		if len(c.Nodes) == 2 {
			// one level with a redirect target (of a first asset) followed by the asset of a second document
			seed = models.NewItem(fmt.Sprintf("s%d", seqCounter), parentURL, "")
			add := func(parent *models.Item, id, raw string, st models.ItemState) *models.Item {
				u := &models.URL{Raw: raw}
				if strings.Contains(id, "mid") {
					if err := u.Parse(); err != nil {
						panic(err)
					}
				}
				it := models.NewItem(fmt.Sprintf("%s%d", id, seqCounter), u, "")
				if err := parent.AddChild(it, st); err != nil {
					panic(err)
				}
				return it
			}
			mid1 := add(seed, "mid1-", fmt.Sprintf("http://s.example/%s/mid1-%d", ns, seqCounter), models.ItemGotChildren)
			ch1 := add(mid1, "c1-", mk(urlAlpha[c.Nodes[0].URL].Text).Raw, models.ItemGotRedirected)
			mid2 := add(seed, "mid2-", fmt.Sprintf("http://s.example/%s/mid2-%d", ns, seqCounter), models.ItemGotChildren)
			ch2 := add(mid2, "c2-", mk(urlAlpha[c.Nodes[1].URL].Text).Raw, models.ItemGotChildren)
			nodes = []*models.Item{ch1, ch2}
			break
		}
		seed = models.NewItem(fmt.Sprintf("s%d", seqCounter), parentURL, "")
		ch := models.NewItem(fmt.Sprintf("c%d", seqCounter), mk(urlAlpha[c.Nodes[0].URL].Text), "")
		if err := seed.AddChild(ch, models.ItemGotRedirected); err != nil {
			panic(err)
		}
		nodes = []*models.Item{ch}
	case "asset":
		seed = models.NewItem(fmt.Sprintf("s%d", seqCounter), parentURL, "")
		for i, n := range c.Nodes {
			ch := models.NewItem(fmt.Sprintf("c%d-%d", seqCounter, i), mk(urlAlpha[n.URL].Text), "")
			if err := seed.AddChild(ch, models.ItemGotChildren); err != nil {
				panic(err)
			}
			nodes = append(nodes, ch)
		}
	}
	preprocessor.VerifC08Preprocess(seed)
	for _, n := range nodes {
		attached := false
		if n == seed {
			attached = true
		} else {
			par := n.GetParent()
			if par == nil {
				par = seed
			}
			for _, ch := range par.GetChildren() {
				if ch == n {
					attached = true
				}
			}
		}
		b := attached && n.GetStatus() == models.ItemPreProcessed && n.GetURL().GetRequest() != nil
		built = append(built, b)
		st := n.GetStatus().String()
		if !attached {
			st = "removed"
		}
		statuses = append(statuses, st)
	}
	return
}

// reference model of one history
type refModel map[string]string // class -> kind of the recorded sighting ("seed"/"asset")

func (r refModel) check(c callSpec, seedsChecked bool) (expectBuilt []bool, promoted int) {
	seenInCall := map[string]bool{}
	for _, n := range c.Nodes {
		cl := urlAlpha[n.URL].Class
		kind := "seed"
		if n.Pos == "asset" {
			kind = "asset"
		}
		if n.Pos == "seed" && !seedsChecked {
			expectBuilt = append(expectBuilt, true) // crawl HQ never seenchecks the seed itself
			continue
		}
		if n.Pos == "asset" && seenInCall[cl] {
			expectBuilt = append(expectBuilt, false) // duplicate within the level: removed by de-duplication, one fetch per URL
			continue
		}
		seenInCall[cl] = true
		prev, ok := r[cl]
		switch {
		case !ok:
			r[cl] = kind
			expectBuilt = append(expectBuilt, true)
		case prev == "asset" && kind == "seed":
			r[cl] = "seed"
			promoted++
			expectBuilt = append(expectBuilt, true)
		default:
			expectBuilt = append(expectBuilt, false)
		}
	}
	return
}

// runLocal enumerates every history up to depth over the call alphabet on the real local store.
func runLocal(depth, shard, of int) localResult {
	dir, err := os.MkdirTemp(os.Getenv("VERIF_TMP"), "c08-local-")
	if err != nil {
		hkit.EngineError("%v", err)
	}
	defer os.RemoveAll(dir)
	config.VerifSet(&config.Config{JobPath: dir, UseSeencheck: true, UserAgent: "verif", NoStdoutLogging: true, NoStderrLogging: true, NoFileLogging: true,
		ExcludeHosts: []string{"archive.org", "archive-it.org"}})
	if err := seencheck.Start(dir); err != nil {
		hkit.EngineError("%v", err)
	}
	defer seencheck.Close()
	res := enumerate("local", depth, shard, of, true)
	if shard == 0 {
		sw := sweep("local", true)
		wl := wideLevels("local")
		sw.Histories, sw.Checks, sw.Failures = sw.Histories+wl.Histories, sw.Checks+wl.Checks, append(sw.Failures, wl.Failures...)
		res.Histories, res.Checks, res.Failures = res.Histories+sw.Histories, res.Checks+sw.Checks, append(res.Failures, sw.Failures...)
	}
	if shard == 1%of {
		rs := restartSweep(dir, depth > 3)
		res.Histories, res.Checks, res.Failures = res.Histories+rs.Histories, res.Checks+rs.Checks, append(res.Failures, rs.Failures...)
	}
	return res
}

// restartSweep: the job is stopped and started again between two calls of a history (the seen-store is closed and
// re-opened on the same directory, as controler.Stop / Start and a new process do): what the first run recorded is
// seen in the second. Every pair (thorough: triple, restart after the first call) of the six one-node call shapes
// over two URL classes; judged by the same reference model, which knows nothing of restarts.
func restartSweep(dir string, triples bool) localResult {
	var res localResult
	alpha := callAlphabet()
	var shapes []int
	for ci, c := range alpha {
		if len(c.Nodes) == 1 && (urlAlpha[c.Nodes[0].URL].Class == "x" && c.Nodes[0].URL == 0 || urlAlpha[c.Nodes[0].URL].Class == "v") {
			shapes = append(shapes, ci)
		}
	}
	restart := func() {
		seencheck.Close()
		seencheck.VerifReset()
		if err := seencheck.Start(dir); err != nil {
			hkit.EngineError("re-opening the seen-store: %v", err)
		}
	}
	n := 0
	run := func(hist []int) {
		n++
		res.Histories++
		ns := fmt.Sprintf("r%d", n)
		ref := refModel{}
		var h []callSpec
		for i, ci := range hist {
			c := alpha[ci]
			h = append(h, c)
			want, _ := ref.check(c, true)
			got, sts := runCall(c, ns)
			res.Checks++
			if want[0] != got[0] {
				res.Failures = append(res.Failures, seqFailure{Sig: fmt.Sprintf("local:%s:%s:after-a-restart-of-the-job", map[bool]string{true: "refetched-although-seen", false: "skipped-although-not-seen"}[got[0]], c.Nodes[0].Pos),
					Store: "local-restart", History: append([]callSpec{}, h...),
					Detail: fmt.Sprintf("call %d (%s %q), the seen-store having been closed and re-opened after call 1: reference says built=%v, Zeno: built=%v (status %s)", i+1, c.Nodes[0].Pos, urlAlpha[c.Nodes[0].URL].Text, want[0], got[0], sts[0])})
				return
			}
			if i == 0 {
				restart()
			}
		}
	}
	for _, a := range shapes {
		for _, b := range shapes {
			run([]int{a, b})
			if triples {
				for _, c := range shapes {
					run([]int{a, b, c})
				}
			}
		}
	}
	return res
}

func enumerate(store string, depth, shard, of int, seedsChecked bool) localResult {
	alpha := callAlphabet()
	var res localResult
	states := map[string]bool{}
	seenSig := map[string]bool{}
	hist := make([]int, 0, depth)
	n := 0
	var rec func()
	rec = func() {
		if len(hist) > 0 {
			idx := n
			n++
			if idx%of == shard {
				res.Histories++
				ns := fmt.Sprintf("%s%d-%d", store[:1], shard, idx)
				ref := refModel{}
				var h []callSpec
				for _, ci := range hist {
					c := alpha[ci]
					h = append(h, c)
					want, prom := ref.check(c, seedsChecked)
					got, sts := runCall(c, ns)
					res.Promotions += prom
					for k := range want {
						res.Checks++
						if !got[k] {
							res.Skipped++
						}
						if want[k] != got[k] {
							sig := fmt.Sprintf("%s:%s:%s", store, map[bool]string{true: "refetched-although-seen", false: "skipped-although-not-seen"}[got[k]], c.Nodes[k].Pos)
							if !seenSig[sig] {
								seenSig[sig] = true
								res.Failures = append(res.Failures, seqFailure{Sig: sig, Store: store, History: append([]callSpec{}, h...),
									Detail: fmt.Sprintf("call %d node %d (%s %q): reference says built=%v, Zeno: built=%v (status %s)", len(h), k, c.Nodes[k].Pos, urlAlpha[c.Nodes[k].URL].Text, want[k], got[k], sts[k])})
							}
						}
					}
				}
				// canonical state of the reference after the history
				b, _ := json.Marshal(ref)
				states[string(b)] = true
			}
		}
		if len(hist) == depth {
			return
		}
		for ci := range alpha {
			hist = append(hist, ci)
			rec()
			hist = hist[:len(hist)-1]
		}
	}
	rec()
	res.States = len(states)
	return res
}

// ---------------------------------------------------------------- crawl HQ

// hqFake answers the seencheck endpoint from its own seen-set (same semantics
// as the real service: answers the URLs it had not seen, by the value sent).
type hqFake struct {
	seen map[string]string
	fail bool
	// reversed: the not-seen URLs are listed in the reverse of the request order (the service
	// promises no order; an index- or hash-ordered answer is as legitimate as a filtered copy)
	reversed bool
}

func (h *hqFake) RoundTrip(req *http.Request) (*http.Response, error) {
	if h.fail {
		return &http.Response{StatusCode: 500, Status: "500 Internal Server Error", Body: io.NopCloser(bytes.NewReader(nil)), Header: http.Header{}, Request: req}, nil
	}
	var in, out []gocrawlhq.URL
	b, _ := io.ReadAll(req.Body)
	json.Unmarshal(b, &in)
	for _, u := range in {
		t, ok := h.seen[u.Value]
		if !ok || (t == "asset" && u.Type == "seed") {
			h.seen[u.Value] = u.Type
			out = append(out, u)
		}
	}
	if len(out) == 0 {
		return &http.Response{StatusCode: 204, Status: "204 No Content", Body: io.NopCloser(bytes.NewReader(nil)), Header: http.Header{}, Request: req}, nil
	}
	if h.reversed {
		for i, j := 0, len(out)-1; i < j; i, j = i+1, j-1 {
			out[i], out[j] = out[j], out[i]
		}
	}
	ob, _ := json.Marshal(out)
	return &http.Response{StatusCode: 200, Status: "200 OK", Body: io.NopCloser(bytes.NewReader(ob)), Header: http.Header{}, Request: req}, nil
}

func setupHQ() *hqFake {
	fake := &hqFake{seen: map[string]string{}}
	u, _ := url.Parse("http://hq.invalid/api/projects/verif/seencheck")
	config.VerifSet(&config.Config{UseHQ: true, UseSeencheck: true, UserAgent: "verif", NoStdoutLogging: true, NoStderrLogging: true, NoFileLogging: true,
		ExcludeHosts: []string{"archive.org", "archive-it.org"}})
	hq.VerifSetClient(&gocrawlhq.Client{Project: "verif", SeencheckEndpoint: u, HTTPClient: &http.Client{Transport: fake}})
	return fake
}

// replayHistory re-runs one recorded history on its store and reports whether it still disagrees
// with the reference.
func replayHistory(f *seqFailure) (string, bool) {
	seedsChecked := false
	restartDir := ""
	switch f.Store {
	case "local", "local-restart":
		dir, err := os.MkdirTemp(os.Getenv("VERIF_TMP"), "c08-replay-")
		if err != nil {
			hkit.EngineError("%v", err)
		}
		defer os.RemoveAll(dir)
		config.VerifSet(&config.Config{JobPath: dir, UseSeencheck: true, UserAgent: "verif", NoStdoutLogging: true, NoStderrLogging: true, NoFileLogging: true,
			ExcludeHosts: []string{"archive.org", "archive-it.org"}})
		if err := seencheck.Start(dir); err != nil {
			hkit.EngineError("%v", err)
		}
		defer seencheck.Close()
		seedsChecked = true
		if f.Store == "local-restart" {
			restartDir = dir
		}
	default:
		fake := setupHQ()
		fake.reversed = f.Store == "hq-reversed-answer"
		fake.fail = strings.Contains(f.Sig, "hq-failed")
	}
	if strings.HasSuffix(f.Sig, ":wide-level") {
		store := "hq"
		if strings.HasPrefix(f.Store, "local") {
			store = "local"
		}
		for _, g := range wideLevels(store).Failures {
			if g.Sig == f.Sig {
				return g.Detail, true
			}
		}
		return "", false
	}
	if f.Text != "" {
		saved := urlAlpha
		urlAlpha = []spelling{{f.Text, "self"}}
		defer func() { urlAlpha = saved }()
	}
	ref := refModel{}
	for i, c := range f.History {
		if restartDir != "" && i == 1 { // the job was stopped and started again after the first call
			seencheck.Close()
			seencheck.VerifReset()
			if err := seencheck.Start(restartDir); err != nil {
				hkit.EngineError("re-opening the seen-store: %v", err)
			}
		}
		want, _ := ref.check(c, seedsChecked)
		got, sts := runCall(c, "replay")
		for k := range got {
			if strings.Contains(f.Sig, "hq-failed") {
				dupInCall := k == 1 && urlAlpha[c.Nodes[0].URL].Class == urlAlpha[c.Nodes[1].URL].Class
				if !got[k] && !dupInCall {
					return fmt.Sprintf("HQ answered 500, yet %s %q was not fetched (status %s)", c.Nodes[k].Pos, urlAlpha[c.Nodes[k].URL].Text, sts[k]), true
				}
				continue
			}
			if want[k] != got[k] {
				return fmt.Sprintf("call %d node %d (%s %q): reference says built=%v, Zeno: built=%v (status %s)", i+1, k, c.Nodes[k].Pos, urlAlpha[c.Nodes[k].URL].Text, want[k], got[k], sts[k]), true
			}
		}
	}
	return "", false
}

// runHQ: the same histories against crawl HQ's seencheck (seeds themselves are never sent).
func runHQ(depth, shard, of int) localResult {
	fake := setupHQ()
	res := enumerate("hq", depth, shard, of, false)
	// the same histories with the answer listed in reverse order
	fake.reversed, fake.seen = true, map[string]string{}
	rev := enumerate("hq-reversed-answer", depth, shard, of, false)
	fake.reversed = false
	if shard == 0 {
		fake.seen = map[string]string{}
		sw := sweep("hq", false)
		wl := wideLevels("hq")
		sw.Histories, sw.Checks, sw.Failures = sw.Histories+wl.Histories, sw.Checks+wl.Checks, append(sw.Failures, wl.Failures...)
		res.Histories, res.Checks, res.Failures = res.Histories+sw.Histories, res.Checks+sw.Checks, append(res.Failures, sw.Failures...)
	}
	res.Histories += rev.Histories
	res.Checks += rev.Checks
	res.Skipped += rev.Skipped
	res.Failures = append(res.Failures, rev.Failures...)
	// a failing HQ answer must never cause a skip ("skipped only if the store really reported it as seen")
	fake.fail = true
	alpha := callAlphabet()
	for ci, c := range alpha {
		if ci%of != shard {
			continue
		}
		got, sts := runCall(c, fmt.Sprintf("f%d", ci))
		for k := range got {
			res.Checks++
			dupInCall := k == 1 && urlAlpha[c.Nodes[0].URL].Class == urlAlpha[c.Nodes[1].URL].Class
			if !got[k] && !dupInCall {
				res.Failures = append(res.Failures, seqFailure{Sig: "hq:skipped-although-hq-failed:" + c.Nodes[k].Pos, Store: "hq", History: []callSpec{c},
					Detail: fmt.Sprintf("HQ answered 500, yet %s %q was not fetched (status %s)", c.Nodes[k].Pos, urlAlpha[c.Nodes[k].URL].Text, sts[k])})
			}
		}
	}
	fake.fail = false
	return res
}
