// Harness for C08: seen URLs are not refetched; nothing is skipped as seen
// unless the store said so. Parts 1-2 (seq.go): seen-check histories through
// the real preprocess() on the real LevelDB store and on crawl HQ's endpoint.
// Part 3 (here): duplicates inside one seed's tree and across seeds through
// the real pipeline under the controlled scheduler.
package main

import (
	"encoding/json"
	"fmt"
	"net/url"
	"os"
	"sort"
	"strings"
	"time"

	"github.com/internetarchive/Zeno/internal/verif/lib/world"
	"github.com/internetarchive/Zeno/internal/verif/vrt/hkit"
	"github.com/internetarchive/Zeno/internal/verif/vrt/vsched"
)

const propID = "C08"

const H = world.H

type scen struct {
	Def world.SiteDef `json:"site"`
	Opt world.Options `json:"options"`
	P   int           `json:"p"`
	// Late: every seed after the first arrives when the first seed's page has been fetched, so that its
	// seed check runs while the first seed's assets are being checked by another worker
	Late bool `json:"late,omitempty"`
	// Conc: not a site but two concurrent calls of preprocess() on the local store (conc.go)
	Conc *concSpec `json:"conc,omitempty"`
}

func (s *scen) name() string {
	if s.Conc != nil {
		return s.Conc.name()
	}
	n := fmt.Sprintf("%s w%d a%d", s.Def.Name, s.Opt.Workers, s.Opt.MaxConcurrentAssets)
	if s.Opt.DisableLocalDedupe {
		n += " disable-local-dedupe"
	}
	if s.Opt.LocalSeencheck {
		n += " local-seencheck"
	}
	if s.Late {
		n += " late-seeds"
	}
	return n
}

func scenario(s *scen) *vsched.Scenario {
	if s.Conc != nil {
		return concScenario(s)
	}
	var w *world.World
	sc := &vsched.Scenario{Name: s.name()}
	sc.Setup = func(x *vsched.Exec) {
		o := s.Opt
		o.Tmp = os.Getenv("VERIF_TMP")
		w = world.New(o, s.Def.Build())
	}
	sc.Body = func() {
		w.Start()
		for i, u := range s.Def.Seeds {
			if s.Late && i == 1 {
				first := s.Def.Seeds[0]
				vsched.Block("h:wait until the first seed's page has been fetched", nil, func() bool { return len(w.FetchesOf(first)) > 0 })
			}
			if err := w.Insert(fmt.Sprintf("seed%d", i), u); err != nil {
				panic(err)
			}
		}
	}
	sc.Done = func(x *vsched.Exec) bool { return w.FinishedCount() >= len(s.Def.Seeds) }
	sc.Idle = world.IsIdlePoint
	sc.Horizon = 30 * time.Minute
	sc.DelayBounding = true
	sc.AtEnd = func(x *vsched.Exec) error {
		if w.FinishedCount() != len(s.Def.Seeds) {
			return fmt.Errorf("not-finished: %d of %d seeds finished", w.FinishedCount(), len(s.Def.Seeds))
		}
		// per visit a URL is requested at most max-retry+1 times; a URL that is a non-seed node must be
		// visited once in the whole job (within a tree: de-duplication; across seeds: the seen-store, whose
		// check-and-record is one atomic call here), a seed URL at most once more as a seed
		isSeed := map[string]bool{}
		for _, u := range s.Def.Seeds {
			isSeed[u] = true
		}
		count := map[string]int{}
		for _, f := range w.Log {
			count[f.URL]++
		}
		for u, n := range count {
			visits := 1
			if isSeed[u] {
				visits = 2
			}
			if n > visits*(s.Opt.MaxRetry+1) && !(s.Opt.LocalSeencheck && s.Opt.Workers > 1 && overlapAllowed(w, &s.Def, u)) {
				return fmt.Errorf("refetched: %s was requested %d times (max-retry %d): fetched by more than one non-seed node", strings.TrimPrefix(u, H), n, s.Opt.MaxRetry)
			}
		}
		// nothing is skipped unless seen: every URL of the reference trees was requested at least once
		for _, seed := range s.Def.Seeds {
			for u := range s.Def.Reference(seed, s.Opt).Attempts {
				if count[u] == 0 {
					return fmt.Errorf("skipped-although-not-seen: %s of %s was never requested", strings.TrimPrefix(u, H), strings.TrimPrefix(seed, H))
				}
			}
		}
		return nil
	}
	sc.Outcome = func(x *vsched.Exec) string { return w.LogSummary() }
	sc.Cleanup = func(x *vsched.Exec) { w.Cleanup() }
	sc.Signature = func(v *vsched.Violation) string {
		if v.Kind == "crash" {
			return vsched.DefaultSignature(v)
		}
		if i := strings.IndexByte(v.Message, ':'); i > 0 {
			return "tree:" + v.Message[:i]
		}
		return vsched.DefaultSignature(v)
	}
	sc.KnownSig = func(sg string) bool { return hkit.IsListed(propID, sg) }
	return sc
}

// overlapAllowed: the local store's lookup and record are two operations, and the property asks only that
// "a record that completed before a check started" be honoured. With two workers a second fetch of u is
// therefore legitimate when the two checks may have overlapped. What the transport log proves: u is recorded
// before its first fetch starts, and u is checked as an asset of a page only after that page's fetch ended.
// So the second fetch is a violation for certain when the first fetch of u started before every referring
// page but the earliest one had been fetched; otherwise the checks may have overlapped.
func overlapAllowed(w *world.World, d *world.SiteDef, u string) bool {
	fs := w.FetchesOf(u)
	if len(fs) < 2 {
		return true
	}
	var ends []int
	for _, n := range d.Nodes {
		refers := false
		base, err := url.Parse(n.URL)
		if err != nil {
			continue
		}
		for _, r := range n.Refs {
			if ref, err := url.Parse(r); err == nil && base.ResolveReference(ref).String() == u {
				refers = true
			}
		}
		if !refers {
			continue
		}
		for _, f := range w.FetchesOf(n.URL) {
			if f.End >= 0 {
				ends = append(ends, f.End)
			}
		}
	}
	sort.Ints(ends)
	if len(ends) < 2 {
		return false
	}
	return fs[0].Start > ends[1]
}

func scenarios(tier string) []scen {
	page := func(u string, refs ...string) world.Node { return world.Node{URL: u, Kind: "html", Refs: refs} }
	bin := func(u string) world.Node { return world.Node{URL: u, Kind: "bin"} }
	pl := func(u string, refs ...string) world.Node { return world.Node{URL: u, Kind: "m3u8", Refs: refs} }
	defs := []world.SiteDef{
		{Name: "same asset at level 1 and 2", Seeds: []string{H + "/p"}, Nodes: []world.Node{page(H+"/p", H+"/a.ts", H+"/l.m3u8"), bin(H + "/a.ts"), pl(H+"/l.m3u8", "a.ts", "b.ts"), bin(H + "/b.ts")}},
		{Name: "same asset under two parents", Seeds: []string{H + "/p"}, Nodes: []world.Node{page(H+"/p", H+"/l1.m3u8", H+"/l2.m3u8"), pl(H+"/l1.m3u8", "s.ts"), pl(H+"/l2.m3u8", "s.ts", "t.ts"), bin(H + "/s.ts"), bin(H + "/t.ts")}},
		{Name: "two spellings of one asset", Seeds: []string{H + "/p"}, Nodes: []world.Node{page(H+"/p", H+"/a.png", "HTTP://S.EXAMPLE/a.png", H+"/a.png#x"), bin(H + "/a.png")}},
		{Name: "redirect target equals a sibling asset", Seeds: []string{H + "/p"}, Nodes: []world.Node{page(H+"/p", H+"/r", H+"/a.png"), {URL: H + "/r", Kind: "redirect", Location: H + "/a.png"}, bin(H + "/a.png")}},
		{Name: "redirect target equals a sibling playlist whose only entry is excluded", Seeds: []string{H + "/p"}, Nodes: []world.Node{page(H+"/p", H+"/r", H+"/l.m3u8"),
			{URL: H + "/r", Kind: "redirect", Location: H + "/l.m3u8"}, pl(H+"/l.m3u8", "http://excluded.example/x.ts")}},
		{Name: "two seeds sharing two assets", Seeds: []string{H + "/p1", H + "/p2"}, Nodes: []world.Node{page(H+"/p1", H+"/a.png", H+"/b.png"), page(H+"/p2", H+"/b.png", H+"/a.png"), bin(H + "/a.png"), bin(H + "/b.png")}},
		{Name: "seed URL also an asset of another seed, with an asset of its own", Seeds: []string{H + "/p1", H + "/p2"}, Nodes: []world.Node{page(H+"/p1", H+"/p2", H+"/a.png"), page(H+"/p2", H+"/c.png"), bin(H + "/a.png"), bin(H + "/c.png")}},
		{Name: "seed URL also an asset of another seed", Seeds: []string{H + "/p1", H + "/p2"}, Nodes: []world.Node{page(H+"/p1", H+"/p2", H+"/a.png"), page(H+"/p2", H+"/a.png"), bin(H + "/a.png")}},
	}
	P := 1
	if tier == "thorough" {
		P = 2
	}
	var out []scen
	for _, d := range defs {
		for _, ca := range [][2]int{{1, 1}, {1, 2}, {2, 2}} {
			if ca[0] == 2 && len(d.Seeds) < 2 {
				continue
			}
			out = append(out, scen{Def: d, Opt: world.Options{Workers: ca[0], MaxConcurrentAssets: ca[1], MaxRetry: 0, MaxRedirect: 2, ExcludeHosts: []string{"excluded.example"}}, P: P})
		}
		// writer options that have nothing to do with URL de-duplication must not change it
		out = append(out, scen{Def: d, Opt: world.Options{Workers: 1, MaxConcurrentAssets: 1, MaxRetry: 0, MaxRedirect: 2, DisableLocalDedupe: true}, P: P})
		out = append(out, scen{Def: d, Opt: world.Options{Workers: 1, MaxConcurrentAssets: 2, MaxRetry: 0, MaxRedirect: 2, DisableLocalDedupe: true, LocalSeencheck: true}, P: 0})
		if len(d.Seeds) > 1 {
			// the local store checked by two workers at once; the later seeds arrive while the first seed's assets are checked
			for _, late := range []bool{false, true} {
				out = append(out, scen{Def: d, Opt: world.Options{Workers: 2, MaxConcurrentAssets: 1, MaxRetry: 0, MaxRedirect: 2, LocalSeencheck: true}, P: P, Late: late})
			}
		}
	}
	// one URL reached twice in one seed's tree, along every pair of paths of at most two steps, a step being
	// "asset of a playlist" (A) or "redirection" (R): 7 x 7 ordered pairs of paths, the page referencing both heads
	paths := []string{"", "A", "R", "AA", "AR", "RA", "RR"}
	build := func(i int, path, target string, nodes *[]world.Node) string {
		// returns the URL the page references for occurrence i; adds the chain's nodes
		next := target
		for k := len(path) - 1; k >= 0; k-- {
			if path[k] == 'A' {
				u := fmt.Sprintf("%s/c%d%d.m3u8", H, i, k)
				*nodes = append(*nodes, pl(u, next))
				next = u
			} else {
				u := fmt.Sprintf("%s/r%d%d", H, i, k)
				*nodes = append(*nodes, world.Node{URL: u, Kind: "redirect", Location: next})
				next = u
			}
		}
		return next
	}
	for _, p1 := range paths {
		for _, p2 := range paths {
			var nodes []world.Node
			x := H + "/x.ts"
			h1, h2 := build(1, p1, x, &nodes), build(2, p2, x, &nodes)
			d := world.SiteDef{Name: fmt.Sprintf("one URL reached along paths %q and %q", p1, p2), Seeds: []string{H + "/p"},
				Nodes: append([]world.Node{page(H+"/p", h1, h2), bin(x)}, nodes...)}
			pp := 0
			if tier == "thorough" {
				pp = 1
			}
			for _, local := range []bool{false, true} {
				if local && tier != "thorough" && len(p1)+len(p2) < 3 {
					continue // quick: the real local store (slow) on the deeper shapes only
				}
				out = append(out, scen{Def: d, Opt: world.Options{Workers: 1, MaxConcurrentAssets: 2, MaxRetry: 0, MaxRedirect: 2, LocalSeencheck: local}, P: pp})
			}
		}
	}
	return append(out, concScenarios(tier)...)
}

type jobResult struct {
	Kind string         `json:"kind"`
	Name string         `json:"name"`
	Rep  *vsched.Report `json:"rep,omitempty"`
	Seq  *localResult   `json:"seq,omitempty"`
}

func main() {
	a := hkit.ParseArgs()
	ss := scenarios(a.Tier)
	if a.Replay != "" {
		replay(a.Replay)
		return
	}
	depth := 3
	seqShards := 12
	maxWall := 40 * time.Second
	if a.Tier == "thorough" {
		depth = 4
		seqShards = 48
		maxWall = 15 * time.Minute
	}
	if a.Extra["alphabet"] == "extra" || a.Tier == "thorough" && a.Extra["alphabet"] != "base" {
		// thorough: depth 4 on the base alphabet would be 8.5 M histories per store; the extended
		// alphabet (10 spellings, 130 call shapes) is run to depth 3 instead (2.2 M histories per store)
		urlAlpha = append(urlAlpha, urlAlphaExtra...)
		depth = 3
	}
	// jobs: [0,seqShards) local store, [seqShards,2*seqShards) crawl HQ, then the pipeline scenarios
	nj := 2*seqShards + len(ss)
	res := hkit.Jobs(a, nj, func(j int) any {
		switch {
		case j < seqShards:
			r := runLocal(depth, j, seqShards)
			return jobResult{Kind: "local", Name: fmt.Sprintf("local %d/%d", j, seqShards), Seq: &r}
		case j < 2*seqShards:
			r := runHQ(depth, j-seqShards, seqShards)
			return jobResult{Kind: "hq", Name: fmt.Sprintf("hq %d/%d", j-seqShards, seqShards), Seq: &r}
		}
		s := &ss[j-2*seqShards]
		sc := scenario(s)
		if err := vsched.DeterminismCheck(sc); err != nil {
			hkit.EngineError("%v", err)
		}
		rep := vsched.Explore(sc, vsched.Bounds{P: s.P, MaxWall: maxWall})
		if len(rep.Sample) > 40 {
			rep.Sample = rep.Sample[:40]
		}
		return jobResult{Kind: "tree", Name: s.name(), Rep: rep}
	})
	total := &vsched.Report{Exhaustive: true}
	seen := map[string]bool{}
	seq := map[string]*localResult{"local": {}, "hq": {}}
	for j, b := range res {
		var r jobResult
		if err := json.Unmarshal(b, &r); err != nil {
			hkit.EngineError("%v", err)
		}
		if r.Seq != nil {
			t := seq[r.Kind]
			t.Histories += r.Seq.Histories
			t.Checks += r.Seq.Checks
			t.Skipped += r.Seq.Skipped
			t.Promotions += r.Seq.Promotions
			if r.Seq.States > t.States {
				t.States = r.Seq.States
			}
			for _, f := range r.Seq.Failures {
				if seen[f.Sig] {
					continue
				}
				seen[f.Sig] = true
				hkit.Report(propID, f.Sig, map[string]any{"engine": "opbfs", "harness": "c08", "failure": f}, f.Sig+": "+f.Detail)
			}
			continue
		}
		s := &ss[j-2*seqShards]
		for _, v := range r.Rep.Violations {
			if seen[v.Sig] {
				continue
			}
			seen[v.Sig] = true
			if err := vsched.Confirm(scenario(s), &v); err != nil {
				hkit.EngineError("violation did not replay: %v", err)
			}
			hkit.Report(propID, v.Sig, map[string]any{"engine": "explore", "harness": "c08", "scenario": s, "violation": v}, fmt.Sprintf("%s: %s", r.Name, firstLine(v.Message)))
		}
		total.Merge(r.Rep)
	}
	hkit.Evidence(propID, a.Tier, "model_checking", map[string]any{
		"states":                        total.States + seq["local"].States + seq["hq"].States,
		"transitions":                   total.Transitions + seq["local"].Checks + seq["hq"].Checks,
		"traces_validated_against_impl": total.Executions + seq["local"].Histories + seq["hq"].Histories,
		"samples":                       []any{callAlphabet()[:3], total.Sample}, "exhaustive": total.Exhaustive,
		"history_depth": depth, "call_alphabet": len(callAlphabet()),
		"local_store": seq["local"], "crawl_hq": seq["hq"], "pipeline_scenarios": len(ss), "pipeline_executions": total.Executions,
		"explanation":           "every history of up to `history_depth` seen-checks (54 call shapes: seed / redirect target / asset / two assets x 6 URL spellings in 5 equivalence classes) through the real preprocess() on the real LevelDB store and on crawl HQ's seencheck endpoint, compared check by check with a map-based reference including the asset->seed promotion; plus pairs of concurrent preprocess() calls on the real local store (conc.go: every interleaving within the preemption bound, may/must oracle from call stamps) and duplicate-bearing sites through the real pipeline under the scheduler",
		"concurrent_call_pairs": len(concScenarios(a.Tier)),
	}, []string{
		"equivalence classes of the URL spellings are known by construction (case of scheme/host, default port, fragment)",
		"crawl HQ fake: answers the URLs it had not seen, keyed by the value sent, as the real service",
		"concurrent checks: only a record completed before a check started must be honoured; with the fake HQ check-and-record is atomic",
	}, hkit.Violations())
	fmt.Printf("C08 %s: local store %d histories / %d checks (%d skipped, %d promotions), crawl HQ %d histories / %d checks, pipeline %d scenarios / %d executions, exhaustive=%v\n",
		a.Tier, seq["local"].Histories, seq["local"].Checks, seq["local"].Skipped, seq["local"].Promotions, seq["hq"].Histories, seq["hq"].Checks, len(ss), total.Executions, total.Exhaustive)
	hkit.Exit()
}

func firstLine(s string) string {
	if i := strings.IndexByte(s, '\n'); i > 0 {
		s = s[:i]
	}
	if len(s) > 600 {
		s = s[:600]
	}
	return s
}

func replay(path string) {
	b, err := os.ReadFile(path)
	if err != nil {
		hkit.EngineError("%v", err)
	}
	var r struct {
		Failure   *seqFailure      `json:"failure"`
		Scenario  scen             `json:"scenario"`
		Violation vsched.Violation `json:"violation"`
	}
	if err := json.Unmarshal(b, &r); err != nil {
		hkit.EngineError("%v", err)
	}
	if r.Failure != nil {
		fmt.Printf("history on store %q: %+v\nrecorded: %s\n", r.Failure.Store, r.Failure.History, r.Failure.Detail)
		d, bad := replayHistory(r.Failure)
		if !bad {
			fmt.Println("replay: no violation")
			os.Exit(0)
		}
		fmt.Printf("replay: %s\n", d)
		fmt.Printf("VIOLATION property=%s replay=%s\n", propID, path)
		os.Exit(1)
	}
	v, x := vsched.Replay(scenario(&r.Scenario), r.Violation.Choices)
	for _, s := range x.Steps {
		fmt.Printf("  %-44s %-90s case=%d\n", s.Thread, s.Point, s.Case)
	}
	if v == nil {
		fmt.Println("replay: no violation")
		os.Exit(0)
	}
	fmt.Printf("replay: %s: %s\n", v.Kind, v.Message)
	fmt.Printf("VIOLATION property=%s replay=%s\n", propID, path)
	os.Exit(1)
}
