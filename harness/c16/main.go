// Harness for C16: after the queue drains the crawler is back to its idle
// footprint, whatever went through. Fixpoint argument: every sequence of
// seed kinds (length <= 3) run to quiescence on the real pipeline returns to
// the one idle state, so the set of quiescent states is closed under the
// alphabet - N seeds and 4N seeds end in the same state for every N.
package main

import (
	"encoding/json"
	"fmt"
	"github.com/internetarchive/Zeno/internal/pkg/controler/pause"
	"os"
	"path/filepath"
	"strconv"
	"strings"
	"time"

	"github.com/internetarchive/Zeno/internal/pkg/archiver"
	"github.com/internetarchive/Zeno/internal/pkg/config"
	"github.com/internetarchive/Zeno/internal/pkg/reactor"
	"github.com/internetarchive/Zeno/internal/verif/lib/world"
	"github.com/internetarchive/Zeno/internal/verif/vrt/hkit"
	"github.com/internetarchive/Zeno/internal/verif/vrt/vsched"
	"github.com/internetarchive/Zeno/pkg/models"
)

const propID = "C16"

const H = world.H

var kinds = []string{"small", "spooled", "cut-spooled", "retry-fail", "redirects", "five-hosts", "discarded", "five-hosts-limited", "discarded-gzip", "redirect-limit", "stalled", "rejected-scheme", "rejected-host"}

type scen struct {
	Seq     []string `json:"sequence"`
	Workers int      `json:"workers"`
	Assets  int      `json:"assets"`
	P       int      `json:"p"`
	// PauseResume: a controller (a watchdog, the operator) pauses the pipeline and resumes it, anywhere in the run
	PauseResume bool `json:"pause_resume,omitempty"`
}

func (s *scen) name() string {
	return fmt.Sprintf("%s w%d a%d", strings.Join(s.Seq, ","), s.Workers, s.Assets) + map[bool]string{true: " +pause-resume", false: ""}[s.PauseResume]
}

var bigBody = strings.Repeat("lorem ipsum dolor sit amet, consectetur adipiscing elit\n", 40000) // 2.2 MiB of text: spooled to a temp file

// seedOf returns the seed URL of the i-th element of a sequence (every element gets its own URL space).
func seedOf(kind string, i int) string {
	switch kind {
	case "rejected-scheme": // a seed the queue hands over and the URL normalisation refuses: nothing is fetched for it
		return fmt.Sprintf("ftp://files.example/%s-%d/readme.txt", kind, i)
	case "rejected-host":
		return fmt.Sprintf("http://localhost/%s-%d/admin", kind, i)
	}
	return fmt.Sprintf("%s/%s-%d/page", H, kind, i)
}

func dyn(u string, attempt int) (world.Resp, bool) {
	html := map[string]string{"Content-Type": "text/html; charset=utf-8"}
	png := world.Resp{Status: 200, Header: map[string]string{"Content-Type": "image/png"}, Body: "\x89PNG\r\n\x1a\n0000"}
	i := strings.Index(u, ".example/")
	if i < 0 {
		return world.Resp{}, false
	}
	p := u[i+len(".example"):]
	seg := strings.SplitN(strings.TrimPrefix(p, "/"), "/", 2)
	if len(seg) != 2 {
		return world.Resp{}, false
	}
	kind, rest := seg[0][:strings.LastIndexByte(seg[0], '-')], seg[1]
	base := "/" + seg[0]
	switch {
	case rest == "page":
		switch kind {
		case "small":
			return world.Resp{Status: 200, Header: html, Body: `<!DOCTYPE html><html><body><img src="` + base + `/a.png"></body></html>`}, true
		case "stalled": // an asset whose transfer goes silent for 90 s after 3 KiB (longer than --http-read-deadline) and then breaks
			return world.Resp{Status: 200, Header: html, Body: `<!DOCTYPE html><html><body><img src="` + base + `/stall.bin"></body></html>`}, true
		case "two": // two assets, fetched by two goroutines at once when --max-concurrent-assets allows
			// on two hosts: neither waits for the other's limiter tokens, both requests leave at the same instant
			return world.Resp{Status: 200, Header: html, Body: `<!DOCTYPE html><html><body><img src="http://h1.example` + base + `/a.png"><img src="http://h2.example` + base + `/b.png"></body></html>`}, true
		case "spooled":
			return world.Resp{Status: 200, Header: html, Body: `<!DOCTYPE html><html><body><img src="` + base + `/big.txt"></body></html>`}, true
		case "cut-spooled":
			return world.Resp{Status: 200, Header: html, Body: `<!DOCTYPE html><html><body><img src="` + base + `/cut.txt"><img src="` + base + `/cutsmall.txt"></body></html>`}, true
		case "retry-fail":
			return world.Resp{Status: 200, Header: html, Body: `<!DOCTYPE html><html><body><img src="` + base + `/boom.png"><img src="` + base + `/a.png"></body></html>`}, true
		case "redirects":
			return world.Resp{Status: 301, Header: map[string]string{"Location": base + "/r1"}}, true
		case "five-hosts":
			var sb strings.Builder
			sb.WriteString(`<!DOCTYPE html><html><body>`)
			for h := 0; h < 5; h++ {
				fmt.Fprintf(&sb, `<img src="http://h%d.example%s/a.png">`, h, base)
			}
			sb.WriteString(`</body></html>`)
			return world.Resp{Status: 200, Header: html, Body: sb.String()}, true
		case "discarded":
			return world.Resp{Status: 200, Header: html, Body: `<!DOCTYPE html><html><body><img src="` + base + `/limited.png"></body></html>`}, true
		case "redirect-limit": // a redirect chain longer than --max-redirect, every answer with a 2.2 MiB text body
			return world.Resp{Status: 302, Header: map[string]string{"Location": base + "/loop1", "Content-Type": "text/plain"}, Body: bigBody}, true
		case "discarded-gzip": // a gzip-encoded challenge page (discarded, retried) and a gzip-encoded 503
			return world.Resp{Status: 200, Header: html, Body: `<!DOCTYPE html><html><body><img src="` + base + `/challenge.gz"><img src="` + base + `/boom.gz"></body></html>`}, true
		case "five-hosts-limited": // more rate-limiting hosts at once than the limiter table holds
			var sb strings.Builder
			sb.WriteString(`<!DOCTYPE html><html><body>`)
			for h := 0; h < 5; h++ {
				fmt.Fprintf(&sb, `<img src="http://h%d.example%s/limited.png">`, h, base)
			}
			sb.WriteString(`</body></html>`)
			return world.Resp{Status: 200, Header: html, Body: sb.String()}, true
		}
	case rest == "a.png" || rest == "b.png":
		if kind == "two" {
			// both answers take the same 10 ms: the two fetch goroutines come back from the network at the same
			// instant, which is where one deviation is enough to interleave what they do with the response
			png.DelayMs = 10
		}
		return png, true
	case rest == "stall.bin":
		return world.Resp{Status: 200, Header: map[string]string{"Content-Type": "application/octet-stream"}, Body: strings.Repeat("\x01\x02\x03\x04", 4096), CutAt: 3072, StallMs: 90000}, true
	case rest == "big.txt":
		return world.Resp{Status: 200, Header: map[string]string{"Content-Type": "text/plain"}, Body: bigBody}, true
	case rest == "cut.txt": // the connection breaks after 2.1 MiB: the body is already spooled to a temp file
		return world.Resp{Status: 200, Header: map[string]string{"Content-Type": "text/plain"}, Body: bigBody, CutAt: 2200000}, true
	case rest == "cutsmall.txt": // breaks after 3 KiB: past the sniff window, still in memory
		return world.Resp{Status: 200, Header: map[string]string{"Content-Type": "text/plain"}, Body: bigBody, CutAt: 3072}, true
	case rest == "challenge.gz":
		return world.Resp{Status: 403, Header: map[string]string{"Content-Type": "text/html", "Content-Encoding": "gzip", "cf-mitigated": "challenge"}, Body: "<html>" + strings.Repeat("just a moment ", 600) + "</html>", Gzip: true}, true
	case rest == "boom.gz":
		return world.Resp{Status: 503, Header: map[string]string{"Content-Type": "text/html", "Content-Encoding": "gzip"}, Body: "<html>" + strings.Repeat("unavailable ", 600) + "</html>", Gzip: true}, true
	case rest == "boom.png":
		return world.Resp{Status: 500, Header: map[string]string{"Content-Type": "text/plain"}, Body: "oops"}, true
	case rest == "limited.png":
		return world.Resp{Status: 429, Header: map[string]string{"Content-Type": "text/plain"}, Body: "slow down"}, true
	case strings.HasPrefix(rest, "loop"):
		n, _ := strconv.Atoi(rest[4:])
		return world.Resp{Status: 302, Header: map[string]string{"Location": fmt.Sprintf("%s/loop%d", base, n+1), "Content-Type": "text/plain"}, Body: bigBody}, true
	case rest == "r1":
		return world.Resp{Status: 302, Header: map[string]string{"Location": base + "/r2"}}, true
	case rest == "r2":
		return world.Resp{Status: 200, Header: html, Body: `<!DOCTYPE html><html><body><img src="` + base + `/a.png"></body></html>`}, true
	}
	return world.Resp{}, false
}

// footprint is the observable resource state at quiescence.
type footprint struct {
	Threads    int `json:"threads"`
	BodiesOpen int `json:"bodies_open"`
	TempFiles  int `json:"temp_files"`
	Tracked    int `json:"reactor_tracked"`
	Tokens     int `json:"reactor_tokens"`
	Buckets    int `json:"limiter_buckets"`
	ItemBodies int `json:"item_bodies_not_released"`
}

func (f footprint) String() string {
	b, _ := json.Marshal(f)
	return string(b)
}

func measure(x *vsched.Exec, w *world.World) footprint {
	fp := footprint{Threads: x.LiveThreads(), BodiesOpen: w.BodiesOpen, Tracked: reactor.VerifTracked(), Tokens: reactor.VerifTokens()}
	if ents, err := os.ReadDir(config.Get().WARCTempDir); err == nil {
		fp.TempFiles = len(ents)
	}
	if bm := archiver.VerifBucketManager(); bm != nil {
		fp.Buckets = bm.VerifC16Buckets()
	}
	for _, m := range w.Finished {
		m.Item.Traverse(func(n *models.Item) {
			if n.GetURL().GetBody() != nil {
				fp.ItemBodies++
			}
		})
	}
	return fp
}

func scenario(s *scen) *vsched.Scenario {
	var w *world.World
	var idle footprint
	var maxBucketsSeen int
	sc := &vsched.Scenario{Name: s.name()}
	sc.Setup = func(x *vsched.Exec) {
		w = world.New(world.Options{Workers: s.Workers, MaxConcurrentAssets: s.Assets, MaxRetry: 1, MaxRedirect: 3, RateLimit: true, Tmp: os.Getenv("VERIF_TMP")}, world.Site{})
		w.Dyn = dyn
		os.MkdirAll(config.Get().WARCTempDir, 0o755)
		config.Get().RateLimitCleanupFrequency = time.Minute
		maxBucketsSeen = 0
	}
	sc.Body = func() {
		w.Start()
		// idle footprint: everything started, nothing inserted yet
		w.WaitIdle()
		idle = measure(vsched.Cur(), w)
		idle.Threads-- // this thread itself
		if s.PauseResume {
			go func() { // controller: after the drain by default, every deviation moves it earlier
				vsched.Point("h:pause requested", nil)
				pause.Pause("verif")
				pause.Resume()
			}()
		}
		for i, k := range s.Seq {
			if err := w.Insert(fmt.Sprintf("seed%d", i), seedOf(k, i)); err != nil {
				panic(err)
			}
		}
	}
	sc.AtStep = func(x *vsched.Exec) error {
		if bm := archiver.VerifBucketManager(); bm != nil {
			if n := bm.VerifC16Buckets(); n > bm.VerifC16Max() {
				return fmt.Errorf("limiter-table-over-bound: %d buckets, bound %d", n, bm.VerifC16Max())
			} else if n > maxBucketsSeen {
				maxBucketsSeen = n
			}
		}
		return nil
	}
	// the run ends when every seed is finished AND one limiter clean-up period has passed
	sc.Done = func(x *vsched.Exec) bool {
		return w.FinishedCount() >= len(s.Seq) && x.Now() >= w.LastFinishAt()+2*time.Minute+time.Second
	}
	sc.Idle = world.IsIdlePoint
	sc.Horizon = 60 * time.Minute
	sc.DelayBounding = true
	sc.AtEnd = func(x *vsched.Exec) error {
		if w.FinishedCount() != len(s.Seq) {
			return fmt.Errorf("not-drained: %d of %d seeds finished", w.FinishedCount(), len(s.Seq))
		}
		got := measure(x, w)
		if got != idle {
			return fmt.Errorf("footprint-differs: idle %s, after the sequence %s", idle, got)
		}
		return nil
	}
	sc.Outcome = func(x *vsched.Exec) string { return fmt.Sprintf("%s maxbuckets=%d", measure(x, w), maxBucketsSeen) }
	sc.Cleanup = func(x *vsched.Exec) {
		os.RemoveAll(filepath.Dir(config.Get().WARCTempDir))
		w.Cleanup()
	}
	sc.Signature = func(v *vsched.Violation) string {
		if v.Kind == "crash" && !strings.HasPrefix(v.Message, "invariant:") {
			return vsched.DefaultSignature(v)
		}
		m := strings.TrimPrefix(v.Message, "invariant: ")
		if strings.HasPrefix(m, "footprint-differs") {
			// name the components that differ
			var a, b footprint
			parts := strings.SplitN(m, "idle ", 2)
			if len(parts) == 2 {
				ab := strings.SplitN(parts[1], ", after the sequence ", 2)
				if len(ab) == 2 && json.Unmarshal([]byte(ab[0]), &a) == nil && json.Unmarshal([]byte(ab[1]), &b) == nil {
					var d []string
					if a.Threads != b.Threads {
						d = append(d, "threads")
					}
					if a.BodiesOpen != b.BodiesOpen {
						d = append(d, "bodies")
					}
					if a.TempFiles != b.TempFiles {
						d = append(d, "temp-files")
					}
					if a.Tracked != b.Tracked || a.Tokens != b.Tokens {
						d = append(d, "reactor")
					}
					if a.Buckets != b.Buckets {
						d = append(d, "limiter-buckets")
					}
					if a.ItemBodies != b.ItemBodies {
						d = append(d, "item-bodies")
					}
					return "footprint-differs:" + strings.Join(d, "+")
				}
			}
		}
		if i := strings.IndexByte(m, ':'); i > 0 {
			return m[:i]
		}
		return vsched.DefaultSignature(v)
	}
	sc.KnownSig = func(sg string) bool { return hkit.IsListed(propID, sg) }
	return sc
}

func scenarios(tier string) []scen {
	var out []scen
	maxLen := 2
	if tier == "thorough" {
		maxLen = 3
	}
	var rec func(prefix []string)
	rec = func(prefix []string) {
		if len(prefix) > 0 {
			out = append(out, scen{Seq: append([]string{}, prefix...), Workers: 1, Assets: 2})
			if len(prefix) >= 2 {
				out = append(out, scen{Seq: append([]string{}, prefix...), Workers: 2, Assets: 1})
			}
		}
		if len(prefix) == maxLen {
			return
		}
		for _, k := range kinds {
			rec(append(prefix, k))
		}
	}
	rec(nil)
	// the asset goroutines of one seed against each other: every schedule within two deviations (the sequences
	// above run on the canonical schedule, which never overlaps two fetches in their critical parts)
	for _, k := range []string{"two", "discarded-gzip"} {
		out = append(out, scen{Seq: []string{k}, Workers: 1, Assets: 2, P: 2})
	}
	// a pause / resume cycle placed anywhere in the run of one or two seeds (spooled bodies, a retried failure):
	// what a worker holds when the pause reaches it must come out at the other end all the same
	for _, seq := range [][]string{{"spooled"}, {"small", "spooled"}, {"retry-fail", "small"}} {
		out = append(out, scen{Seq: seq, Workers: 1, Assets: 2, P: 2, PauseResume: true})
	}
	out = append(out, scen{Seq: []string{"spooled", "small"}, Workers: 2, Assets: 1, P: 1, PauseResume: true})
	if tier == "thorough" {
		for i := range out {
			if len(out[i].Seq) <= 2 && !out[i].PauseResume {
				out[i].P = 1
			}
		}
	}
	return out
}

type jobResult struct {
	Name string         `json:"name"`
	Rep  *vsched.Report `json:"rep"`
}

func main() {
	a := hkit.ParseArgs()
	ss := scenarios(a.Tier)
	if a.Replay != "" {
		replay(a.Replay)
		return
	}
	if v, ok := a.Extra["only"]; ok {
		var f []scen
		for _, s := range ss {
			if strings.Contains(s.name(), v) {
				f = append(f, s)
			}
		}
		ss = f
	}
	res := hkit.Jobs(a, len(ss), func(j int) any {
		sc := scenario(&ss[j])
		if j < 16 {
			if err := vsched.DeterminismCheck(sc); err != nil {
				hkit.EngineError("%v", err)
			}
		}
		rep := vsched.Explore(sc, vsched.Bounds{P: ss[j].P, MaxWall: 10 * time.Minute})
		if len(rep.Sample) > 40 {
			rep.Sample = rep.Sample[:40]
		}
		return jobResult{ss[j].name(), rep}
	})
	total := &vsched.Report{Exhaustive: true}
	seen := map[string]bool{}
	finals := map[string]int{}
	for j, b := range res {
		var r jobResult
		if err := json.Unmarshal(b, &r); err != nil {
			hkit.EngineError("%v", err)
		}
		for k, n := range r.Rep.Outcomes {
			// outcomes differ only in workers-dependent thread counts: key by configuration
			finals[fmt.Sprintf("w%d a%d: %s", ss[j].Workers, ss[j].Assets, k[:strings.Index(k, " maxbuckets")])] += n
		}
		for _, v := range r.Rep.Violations {
			if seen[v.Sig] {
				continue
			}
			seen[v.Sig] = true
			if err := vsched.Confirm(scenario(&ss[j]), &v); err != nil {
				hkit.EngineError("violation did not replay: %v", err)
			}
			hkit.Report(propID, v.Sig, map[string]any{"engine": "explore", "harness": "c16", "scenario": ss[j], "violation": v},
				fmt.Sprintf("%s: %s", r.Name, firstLine(v.Message)))
		}
		total.Merge(r.Rep)
	}
	hkit.Evidence(propID, a.Tier, "model_checking", map[string]any{
		"states": total.States, "transitions": total.Transitions, "traces_validated_against_impl": total.Executions,
		"samples": []any{total.Sample}, "exhaustive": total.Exhaustive, "sequences": len(ss), "alphabet": kinds,
		"quiescent_states_reached": finals,
		"explanation":              "every sequence of seed kinds up to the length bound (quick 2, thorough 3) over {small page+asset, 2.2 MiB spooled text body, spooled body whose connection breaks mid-way, retry-then-fail, redirect chain, five hosts, discarded 429, five hosts all answering 429, gzip-encoded challenge page and 503, redirect chain beyond --max-redirect with spooled bodies, a seed whose scheme / host the URL normalisation refuses} run to quiescence plus one limiter clean-up period on the real pipeline (rate limiter on, virtual clock); the footprint vector (live threads, open bodies, temp files, reactor entries/tokens, limiter buckets, unreleased item bodies) must equal the idle footprint measured before the first seed; limiter table within its bound at every step",
	}, []string{
		"goroutines = threads owned by the scheduler (every go statement of the instrumented packages); file descriptors are represented by open response bodies and temp files - OS-level fd/goroutine counts of the real process are outside this part",
		"fixpoint: since every sequence returns to the one idle state, the reachable quiescent states are closed under the alphabet at depth 1",
	}, hkit.Violations())
	fmt.Printf("C16 %s: %d sequences, %d executions, %d states, %d transitions, %d distinct quiescent footprints, exhaustive=%v\n", a.Tier, len(ss), total.Executions, total.States, total.Transitions, len(finals), total.Exhaustive)
	hkit.Exit()
}

func firstLine(s string) string {
	if i := strings.IndexByte(s, '\n'); i > 0 {
		s = s[:i]
	}
	if len(s) > 600 {
		s = s[:600]
	}
	return s
}

func replay(path string) {
	b, err := os.ReadFile(path)
	if err != nil {
		hkit.EngineError("%v", err)
	}
	var r struct {
		Scenario  scen             `json:"scenario"`
		Violation vsched.Violation `json:"violation"`
	}
	if err := json.Unmarshal(b, &r); err != nil {
		hkit.EngineError("%v", err)
	}
	v, x := vsched.Replay(scenario(&r.Scenario), r.Violation.Choices)
	for _, s := range x.Steps {
		fmt.Printf("  %-44s %-90s case=%d\n", s.Thread, s.Point, s.Case)
	}
	if v == nil {
		fmt.Println("replay: no violation")
		os.Exit(0)
	}
	fmt.Printf("replay: %s: %s\n", v.Kind, v.Message)
	fmt.Printf("VIOLATION property=%s replay=%s\n", propID, path)
	os.Exit(1)
}
