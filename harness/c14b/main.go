// Harness for C14, part B: the pause manager alone, with worker exit as an event of its own. Part A
// (harness/c14) runs the real stage workers, which only ever exit during a stop of the whole
// pipeline; the property also quantifies over a worker that exits while the others go on ("pause /
// resume / worker-exit / stop invocations ... in every order"). Three subscribers that follow the
// stage workers' protocol, one controller running a Pause/Resume script, one subscriber told to exit
// at any moment; every interleaving within the preemption bound.
package main

import (
	"encoding/json"
	"fmt"
	"os"
	"strings"
	"time"

	"github.com/internetarchive/Zeno/internal/pkg/config"
	"github.com/internetarchive/Zeno/internal/pkg/controler/pause"
	"github.com/internetarchive/Zeno/internal/pkg/stats"
	"github.com/internetarchive/Zeno/internal/verif/vrt/hkit"
	"github.com/internetarchive/Zeno/internal/verif/vrt/vsched"
)

const propID = "C14"

type scen struct {
	Script  string `json:"script"`  // over {P,R}
	Exits   []int  `json:"exits"`   // subscribers told to exit (each by its own thread), in subscription order
	Workers int    `json:"workers"` // subscribers
	Pre     string `json:"pre,omitempty"` // calls made before any worker has subscribed (a watchdog firing between stage starts)
	P       int    `json:"p"`
}

func (s *scen) name() string {
	if s.Pre != "" {
		return fmt.Sprintf("manager: pre=%s script=%s exits=%v workers=%d", s.Pre, s.Script, s.Exits, s.Workers)
	}
	return fmt.Sprintf("manager: script=%s exits=%v workers=%d", s.Script, s.Exits, s.Workers)
}

type wstate struct {
	acked, resumed int
	parked         bool // between the acknowledgement and the resume
	exited         bool
	took           int
	tookWhileAcked int
}

type obs struct {
	mu       hkit.Mutex
	w        []*wstate
	returned int // controller calls that returned
	calls    int
}

func scenario(s *scen) *vsched.Scenario {
	var o *obs
	sc := &vsched.Scenario{Name: s.name()}
	sc.Setup = func(x *vsched.Exec) {
		pause.VerifReset()
		config.VerifSet(&config.Config{})
		stats.Init()
		o = &obs{}
		for i := 0; i < s.Workers; i++ {
			o.w = append(o.w, &wstate{})
		}
		x.Data = o
	}
	sc.Body = func() {
		quit := make([]chan struct{}, s.Workers)
		work := make(chan int)
		subs := make([]*pause.ControlChans, s.Workers)
		for k := 0; k < len(s.Pre); k++ { // nobody has subscribed yet
			if s.Pre[k] == 'P' {
				pause.Pause("verif")
			} else {
				pause.Resume()
			}
		}
		for i := range subs {
			subs[i] = pause.Subscribe() // controllers act on a running pipeline: every worker has subscribed
		}
		for i := 0; i < s.Workers; i++ {
			i := i
			quit[i] = make(chan struct{})
			go func() { // worker: the loop of a stage worker (preprocessor.worker & co.)
				chans := subs[i]
				defer pause.Unsubscribe(chans)
				st := o.w[i]
				for {
					select {
					case <-quit[i]:
						o.mu.Lock()
						st.exited = true
						o.mu.Unlock()
						return
					case <-chans.PauseCh:
						o.mu.Lock()
						st.acked++
						st.parked = true
						o.mu.Unlock()
						select {
						case <-quit[i]:
							o.mu.Lock()
							st.exited, st.parked = true, false
							o.mu.Unlock()
							return
						case chans.ResumeCh <- struct{}{}:
							o.mu.Lock()
							st.resumed++
							st.parked = false
							o.mu.Unlock()
						}
					case <-work:
						o.mu.Lock()
						st.took++
						o.mu.Unlock()
					}
				}
			}()
		}
		go func() { // controller
			for k := 0; k < len(s.Script); k++ {
				o.mu.Lock()
				o.calls++
				o.mu.Unlock()
				if s.Script[k] == 'P' {
					pause.Pause("verif")
				} else {
					pause.Resume()
				}
				o.mu.Lock()
				o.returned++
				o.mu.Unlock()
			}
		}()
		for _, e := range s.Exits {
			e := e
			go func() { close(quit[e]) }() // the stage of this worker is being stopped
		}
	}
	sc.Idle = func(p string) bool { return strings.Contains(p, "select") && strings.Contains(p, "recv work") }
	sc.Horizon = time.Minute
	sc.OKEnds = []string{vsched.EndQuiescent, vsched.EndDeadlock, vsched.EndDone}
	sc.AtEnd = func(x *vsched.Exec) error {
		if o.returned != len(s.Script) {
			return fmt.Errorf("caller-blocked: call %d (%c) of the controller never returned (paused now: %v); parked: %s", o.returned+1, s.Script[o.returned], pause.IsPaused(), strings.Join(x.Blocked(), "; "))
		}
		paused := pause.IsPaused()
		if all := s.Pre + s.Script; all != "" && paused != (all[len(all)-1] == 'P') {
			// one controller: its calls are sequential, so the state after the last one is that call's
			return fmt.Errorf("manager-state-wrong: after the calls %s+%s of one controller the manager reports paused=%v", s.Pre, s.Script, paused)
		}
		for i, st := range o.w {
			if st.exited {
				continue
			}
			switch {
			case paused && !st.parked:
				return fmt.Errorf("live-worker-not-paused: the pipeline is paused (script %s done) but worker %d was never told: it acknowledged %d pauses and is waiting for work", s.Script, i, st.acked)
			case !paused && st.parked:
				return fmt.Errorf("worker-not-resumed: the pipeline is not paused but worker %d is still parked at the resume handshake", i)
			}
		}
		for _, e := range s.Exits {
			if !o.w[e].exited {
				return fmt.Errorf("exit-blocked: worker %d was told to exit and never did; parked: %s", e, strings.Join(x.Blocked(), "; "))
			}
		}
		return nil
	}
	sc.Outcome = func(x *vsched.Exec) string {
		var p []string
		for _, st := range o.w {
			p = append(p, fmt.Sprintf("a%d r%d parked=%v exited=%v", st.acked, st.resumed, st.parked, st.exited))
		}
		return fmt.Sprintf("paused=%v | %s", pause.IsPaused(), strings.Join(p, " | "))
	}
	sc.Signature = func(v *vsched.Violation) string {
		if v.Kind == "crash" {
			return vsched.DefaultSignature(v)
		}
		if i := strings.IndexByte(v.Message, ':'); i > 0 {
			return "manager:" + v.Message[:i]
		}
		return vsched.DefaultSignature(v)
	}
	sc.KnownSig = func(sg string) bool { return hkit.IsListed(propID, sg) }
	return sc
}

func scenarios(tier string) []scen {
	var out []scen
	P := 2
	scripts := []string{"P", "PR", "PRP", "RP", "PP", "PPR"}
	if tier == "thorough" {
		P = 3
		scripts = append(scripts, "PRPR", "RPR", "PPRR")
	}
	for _, sc := range scripts {
		p1 := P
		if tier == "thorough" && len(sc) > 2 {
			p1 = 2 // three preemptions on a three-call script with an exit run beyond the wall-clock cap
		}
		out = append(out, scen{Script: sc, Workers: 3, P: p1})
		for e := 0; e < 3; e++ {
			out = append(out, scen{Script: sc, Exits: []int{e}, Workers: 3, P: p1})
		}
		out = append(out, scen{Script: sc, Exits: []int{0, 2}, Workers: 3, P: 2})
		// any number of subscribed workers: none, one (that may leave), and calls made before anybody subscribed
		out = append(out, scen{Script: sc, Workers: 0, P: p1}, scen{Script: sc, Workers: 1, P: p1}, scen{Script: sc, Exits: []int{0}, Workers: 1, P: p1})
		for _, pre := range []string{"PR", "R", "PPR"} {
			out = append(out, scen{Pre: pre, Script: sc, Workers: 2, P: 2})
		}
	}
	return out
}

type jobResult struct {
	Name string         `json:"name"`
	Rep  *vsched.Report `json:"rep"`
}

func main() {
	a := hkit.ParseArgs()
	ss := scenarios(a.Tier)
	if a.Replay != "" {
		replay(a.Replay)
		return
	}
	res := hkit.Jobs(a, len(ss), func(j int) any {
		sc := scenario(&ss[j])
		if err := vsched.DeterminismCheck(sc); err != nil {
			hkit.EngineError("%v", err)
		}
		rep := vsched.Explore(sc, vsched.Bounds{P: ss[j].P, MaxWall: 5 * time.Minute})
		if len(rep.Sample) > 40 {
			rep.Sample = rep.Sample[:40]
		}
		fmt.Fprintf(os.Stderr, "  %s: %d executions, %d states, %v\n", ss[j].name(), rep.Executions, rep.States, rep.Exhaustive)
		return jobResult{ss[j].name(), rep}
	})
	total := &vsched.Report{Exhaustive: true}
	seen := map[string]bool{}
	outcomes := map[string]bool{}
	for j, b := range res {
		var r jobResult
		if err := json.Unmarshal(b, &r); err != nil {
			hkit.EngineError("%v", err)
		}
		for k := range r.Rep.Outcomes {
			outcomes[k] = true
		}
		for _, v := range r.Rep.Violations {
			if seen[v.Sig] {
				continue
			}
			seen[v.Sig] = true
			if err := vsched.Confirm(scenario(&ss[j]), &v); err != nil {
				hkit.EngineError("violation did not replay: %v", err)
			}
			hkit.Report(propID, v.Sig, map[string]any{"engine": "explore", "harness": "c14b", "scenario": ss[j], "violation": v},
				fmt.Sprintf("%s: %s: %s", r.Name, v.Kind, firstLine(v.Message)))
		}
		total.Merge(r.Rep)
	}
	hkit.Evidence(propID, a.Tier, "model_checking", map[string]any{
		"states": total.States, "transitions": total.Transitions, "traces_validated_against_impl": total.Executions,
		"samples": []any{total.Sample}, "exhaustive": total.Exhaustive, "scenarios": len(ss), "distinct_outcomes": len(outcomes),
		"explanation": "part B: the real pause manager with three subscribers that follow the stage workers' loop, one controller running a script over {Pause, Resume} and zero, one or two subscribers told to exit by threads of their own; every interleaving with at most P preemptions (quick 2, thorough 3) and all select outcomes. Oracle at quiescence: every controller call returned; every subscriber told to exit did; when the manager ends paused every live subscriber is parked at the resume handshake (it was told), when it ends resumed none is",
	}, []string{
		"part B: subscribers are harness goroutines that copy the select structure of the four stage worker loops; sync.Map.Range iterates in insertion order",
	}, hkit.Violations())
	fmt.Printf("C14 %s (part B): %d scenarios, %d executions, %d states, %d transitions, %d distinct outcomes, exhaustive=%v\n", a.Tier, len(ss), total.Executions, total.States, total.Transitions, len(outcomes), total.Exhaustive)
	hkit.Exit()
}

func firstLine(s string) string {
	if i := strings.IndexByte(s, '\n'); i > 0 {
		s = s[:i]
	}
	if len(s) > 600 {
		s = s[:600]
	}
	return s
}

func replay(path string) {
	b, err := os.ReadFile(path)
	if err != nil {
		hkit.EngineError("%v", err)
	}
	var r struct {
		Scenario  scen             `json:"scenario"`
		Violation vsched.Violation `json:"violation"`
	}
	if err := json.Unmarshal(b, &r); err != nil {
		hkit.EngineError("%v", err)
	}
	v, x := vsched.Replay(scenario(&r.Scenario), r.Violation.Choices)
	for _, s := range x.Steps {
		fmt.Printf("  %-44s %-90s case=%d\n", s.Thread, s.Point, s.Case)
	}
	if v == nil {
		fmt.Println("replay: no violation")
		os.Exit(0)
	}
	fmt.Printf("replay: %s: %s\n", v.Kind, v.Message)
	fmt.Printf("VIOLATION property=%s replay=%s\n", propID, path)
	os.Exit(1)
}
