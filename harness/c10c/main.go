// Harness for C10, part C: the free-running race pass. The controlled scheduler of parts A and B interleaves
// threads at synchronisation operations only; state that several workers touch WITHOUT any synchronisation (a
// package-level memo map in an extractor, say) is invisible to it - and a concurrent map write is a run-time
// fatal error that no recover() contains: "nothing a remote server can send makes the crawler crash". This part
// runs the real crawler (race-detector build, real child process, 4 workers) over a loopback site whose pages
// exercise the extractors with per-page varying input, and reports every data race on a map that the detector
// sees inside Zeno's packages. It is a sample of schedules, not an enumeration: it complements parts A and B.
package main

import (
	"encoding/json"
	"fmt"
	"os"
	"path/filepath"
	"regexp"
	"sort"
	"strings"

	"github.com/internetarchive/Zeno/internal/pkg/reactor"
	"github.com/internetarchive/Zeno/internal/pkg/source/lq"
	"github.com/internetarchive/Zeno/internal/verif/lib/e2e"
	"github.com/internetarchive/Zeno/internal/verif/vrt/hkit"
)

// The same pass is part C of C07 and of C02 (harness/c07c and harness/c02c link to this file). There the shared
// state in question is not a map: the URL a requisite is resolved to (C07) and the verdict of the discard policy
// (C02) are computed by several workers at once, and a data race inside the packages that compute them makes
// the result depend on what another worker is doing. For those parts every race whose accesses lie in the named
// packages is reported, and C07 judges the requests themselves as well.
var (
	propID      = "C10"
	harnessName = "c10c"
	// racePkgs: non-empty = report every data race (on a map or not) with an access inside one of these packages
	racePkgs []string
)

func init() {
	switch p := os.Getenv("VERIF_PART"); {
	case p == "c07c" || os.Getenv("VERIF_HARNESS") == "c07c":
		propID, harnessName = "C07", "c07c"
		racePkgs = []string{"/internal/pkg/preprocessor.", "/internal/pkg/postprocessor.", "/internal/pkg/postprocessor/extractor."}
	case p == "c02c" || os.Getenv("VERIF_HARNESS") == "c02c":
		propID, harnessName = "C02", "c02c"
		racePkgs = []string{"/internal/pkg/archiver.", "/internal/pkg/archiver/discard"}
	}
}

func inRacePkgs(frames []string) bool {
	for _, f := range frames {
		for _, p := range racePkgs {
			if strings.Contains(f, p) {
				return true
			}
		}
	}
	return false
}

// relSite (C07): pages without a <base>, each in a directory of its own, whose requisites are written as
// path-relative references that carry the page's number: a request whose directory and file name disagree is a
// requisite resolved against another worker's page.
func relSite(o *e2e.Origin, pages int) (seeds []string) {
	html := [][2]string{{"Content-Type", "text/html; charset=utf-8"}}
	png := [][2]string{{"Content-Type", "image/png"}}
	for i := 0; i < pages; i++ {
		var b strings.Builder
		fmt.Fprintf(&b, `<!DOCTYPE html><html><head><title>p%d</title><link rel="stylesheet" href="css/s%d.css"></head><body>`, i, i)
		for k := 0; k < 24; k++ {
			fmt.Fprintf(&b, `<img src="img/i%d-%d.png">`, i, k)
			o.Handle(fmt.Sprintf("/d%d/img/i%d-%d.png", i, i, k), e2e.Resp{Status: 200, Header: png, Entity: []byte("\x89PNG\r\n\x1a\n0000")})
		}
		fmt.Fprintf(&b, `<script src="../d%d/js/a%d.js"></script><img src="?v=%d"></body></html>`, i, i, i)
		o.Handle(fmt.Sprintf("/d%d/page.html", i), e2e.Resp{Status: 200, Header: html, Entity: []byte(b.String())})
		seeds = append(seeds, o.URL(fmt.Sprintf("/d%d/page.html", i)))
	}
	return seeds
}

var relReq = regexp.MustCompile(`^/d(\d+)/(?:img/i|css/s|js/a|page\.html\?v=)(\d+)`)

// mixSite (C02): half of the documents are answered 429 (rejected by the default discard policy), half 200
func mixSite(o *e2e.Origin, pages int) (seeds []string) {
	for i := 0; i < pages*4; i++ {
		st := 200
		if i%2 == 1 {
			st = 429
		}
		o.Handle(fmt.Sprintf("/t/%d.txt", i), e2e.Resp{Status: st, Header: [][2]string{{"Content-Type", "text/plain"}}, Entity: []byte(fmt.Sprintf("document %d, answered %d", i, st))})
		seeds = append(seeds, o.URL(fmt.Sprintf("/t/%d.txt", i)))
	}
	return seeds
}

var frameRe = regexp.MustCompile(`(?m)^  (github\.com/internetarchive/Zeno/[^\s(]+)\(`)

type raceReport struct {
	Sig    string   `json:"sig"`
	Map    bool     `json:"map_operation"`
	Frames []string `json:"zeno_frames"`
	Text   string   `json:"text"`
}

func site(o *e2e.Origin, pages int) (seeds []string) {
	var others []string
	defer func() { seeds = append(seeds, others...) }() // documents of one kind next to each other: the workers meet the same extractor at the same time
	html := [][2]string{{"Content-Type", "text/html; charset=utf-8"}}
	for i := 0; i < pages; i++ {
		base := o.URL(fmt.Sprintf("/b%d/", i))
		body := fmt.Sprintf(`<!DOCTYPE html><html><head><title>p%d</title><base href="%s"><link rel="stylesheet" href="s%d.css"></head><body>`+
			`<img src="i%d.png"><a href="n%d-a">a</a> <a href="n%d-b">b</a> <a href="/abs%d">c</a>`+
			`<script type="application/ld+json">{"@context":"https://schema.org/","url":"%sj%d"}</script>`+
			`<div style="background:url(bg%d.png)">see %sbare%d too</div></body></html>`, i, base, i, i, i, i, i, base, i, i, base, i)
		o.Handle(fmt.Sprintf("/p/%d", i), e2e.Resp{Status: 200, Header: html, Entity: []byte(body)})
		seeds = append(seeds, o.URL(fmt.Sprintf("/p/%d", i)))
		o.Handle(fmt.Sprintf("/j/%d.json", i), e2e.Resp{Status: 200, Header: [][2]string{{"Content-Type", "application/json"}},
			Entity: []byte(fmt.Sprintf(`{"items":[{"u":"%sja%d","img":"%sji%d.png"},{"nested":"{\"u\":\"%sjn%d\"}"}]}`, base, i, base, i, base, i))})
		others = append(others, o.URL(fmt.Sprintf("/j/%d.json", i)))
		o.Handle(fmt.Sprintf("/x/%d.xml", i), e2e.Resp{Status: 200, Header: [][2]string{{"Content-Type", "application/xml"}},
			Entity: []byte(fmt.Sprintf(`<?xml version="1.0" encoding="UTF-8"?><rss version="2.0"><channel><link>%sxa%d</link><item><enclosure url="%sxi%d.png"/></item></channel></rss>`, base, i, base, i))})
		others = append(others, o.URL(fmt.Sprintf("/x/%d.xml", i)))
		o.Handle(fmt.Sprintf("/m/%d.m3u8", i), e2e.Resp{Status: 200, Header: [][2]string{{"Content-Type", "application/vnd.apple.mpegurl"}},
			Entity: []byte(fmt.Sprintf("#EXTM3U\n#EXT-X-VERSION:3\n#EXT-X-TARGETDURATION:10\n#EXTINF:10.0,\nseg%d-0.ts\n#EXTINF:10.0,\nseg%d-1.ts\n#EXT-X-ENDLIST\n", i, i))})
		others = append(others, o.URL(fmt.Sprintf("/m/%d.m3u8", i)))
	}
	return seeds
}

func parse(stderr string) (reps []raceReport) {
	lines := strings.Split(stderr, "\n")
	for i := 0; i < len(lines); i++ {
		if !strings.HasPrefix(lines[i], "WARNING: DATA RACE") {
			continue
		}
		j := i + 1
		for j < len(lines) && !strings.HasPrefix(lines[j], "==================") {
			j++
		}
		text := strings.Join(lines[i:j], "\n")
		i = j
		r := raceReport{Text: text}
		set := map[string]bool{}
		for _, blk := range strings.Split(text, "\n\n") {
			if strings.HasPrefix(blk, "Goroutine ") { // creation stacks do not name the accesses
				continue
			}
			if strings.Contains(blk, "runtime.map") {
				r.Map = true
			}
			for _, m := range frameRe.FindAllStringSubmatch(blk, 1) { // innermost Zeno frame of each access
				if !strings.Contains(m[1], "/internal/verif/") {
					set[m[1]] = true
				}
			}
		}
		for f := range set {
			r.Frames = append(r.Frames, f)
		}
		sort.Strings(r.Frames)
		if len(r.Frames) == 0 {
			continue // not in Zeno's code (the harness origin, a library)
		}
		kind := "plain"
		if r.Map {
			kind = "map"
		}
		r.Sig = "race:" + kind + ":" + strings.Join(r.Frames, "+")
		if len(r.Text) > 6000 {
			r.Text = r.Text[:6000]
		}
		reps = append(reps, r)
	}
	return
}

func main() {
	e2e.QueueState = lq.VerifQueueState
	e2e.ReactorTracked = reactor.VerifTracked
	if e2e.IsChild() {
		e2e.ChildMain()
	}
	a := hkit.ParseArgs()
	if a.Replay != "" {
		b, err := os.ReadFile(a.Replay)
		if err != nil {
			hkit.EngineError("%v", err)
		}
		var r struct {
			Race raceReport `json:"race"`
		}
		json.Unmarshal(b, &r)
		fmt.Printf("the race report as it was captured (a free-running pass cannot be replayed step by step; re-run the check to see it again):\n%s\nVIOLATION property=%s replay=%s\n", r.Race.Text, propID, a.Replay)
		os.Exit(1)
	}
	pages, rounds := 32, 1
	if a.Tier == "thorough" {
		pages, rounds = 48, 3
	}
	seen := map[string]bool{}
	plain := map[string]bool{}
	requests, runs := 0, 0
	for round := 0; round < rounds; round++ {
		o, err := e2e.NewOrigin("127.0.0.2")
		if err != nil {
			hkit.EngineError("origin: %v", err)
		}
		seeds := site(o, pages)
		workers := 4
		switch harnessName {
		case "c07c":
			seeds, workers = relSite(o, pages), 8
		case "c02c":
			seeds, workers = append(seeds, mixSite(o, pages)...), 8
		}
		dir, err := e2e.Scratch(harnessName)
		if err != nil {
			hkit.EngineError("%v", err)
		}
		os.Setenv("GORACE", "halt_on_error=0 exitcode=0")
		spec := &e2e.ChildSpec{Dir: dir, Conf: e2e.Conf{Job: "verif", Workers: workers, MaxConcurrentAssets: 2, MaxHops: 1, DisableRateLimit: true, InputSeeds: seeds},
			Mode: "drain", Quiesce: true, DeadlineS: 90, WatchdogS: 150}
		res, err := e2e.RunChild(spec, e2e.RunHooks{})
		if err != nil {
			hkit.EngineError("child: %v", err)
		}
		runs++
		requests += o.Requests()
		o.Close()
		b, _ := os.ReadFile(filepath.Join(dir, "stderr.txt"))
		stderr := string(b)
		if res.Panic != "" && strings.Contains(stderr, "fatal error: concurrent map") {
			sig := "fatal:concurrent-map-access"
			if !seen[sig] {
				seen[sig] = true
				hkit.Report(propID, sig, map[string]any{"engine": "e2e", "harness": harnessName, "race": raceReport{Sig: sig, Map: true, Text: tailOf(stderr, 6000)}}, "the crawler died: "+res.Panic)
			}
		} else if res.TimedOut || (res.ExitCode != 0 && res.ExitCode != 66) {
			hkit.EngineError("the race-pass crawl did not end normally: exit=%d signal=%s timed-out=%v %s\n%s", res.ExitCode, res.Signal, res.TimedOut, res.Panic, tailOf(stderr, 3000))
		}
		if o.Requests() < len(seeds) {
			hkit.EngineError("the race-pass crawl made %d requests for %d seeds", o.Requests(), len(seeds))
		}
		if harnessName == "c07c" {
			for _, ex := range o.Log() {
				if m := relReq.FindStringSubmatch(ex.Path); m != nil && m[1] != m[2] && !seen["wrong-page"] {
					seen["wrong-page"] = true
					hkit.Report(propID, "requisite-resolved-against-another-page", map[string]any{"engine": "e2e", "harness": harnessName, "race": raceReport{Sig: "requisite-resolved-against-another-page", Text: ex.Path}},
						fmt.Sprintf("request %s: a requisite of page /d%s/page.html was requested in the directory of page /d%s/page.html, which another worker was handling", ex.Path, m[2], m[1]))
				}
			}
		}
		for _, r := range parse(stderr) {
			if len(racePkgs) > 0 {
				if inRacePkgs(r.Frames) && !seen[r.Sig] {
					seen[r.Sig] = true
					hkit.Report(propID, r.Sig, map[string]any{"engine": "e2e", "harness": harnessName, "race": r},
						fmt.Sprintf("data race between workers inside %s: what they compute (the URL a requisite is resolved to / the verdict on a response) depends on what another worker is doing at that moment", strings.Join(r.Frames, " / ")))
				} else if !inRacePkgs(r.Frames) {
					plain[r.Sig] = true
				}
				continue
			}
			if !r.Map {
				plain[r.Sig] = true // reported as an observation: a race on a plain word does not by itself crash the process
				continue
			}
			if seen[r.Sig] {
				continue
			}
			seen[r.Sig] = true
			hkit.Report(propID, r.Sig, map[string]any{"engine": "e2e", "harness": harnessName, "race": r},
				fmt.Sprintf("unsynchronised concurrent access to a map in %s (a concurrent map write is a run-time fatal error that no recover() contains)", strings.Join(r.Frames, " / ")))
		}
		os.RemoveAll(dir)
	}
	var obs []string
	for s := range plain {
		obs = append(obs, s)
	}
	sort.Strings(obs)
	what := ""
	switch harnessName {
	case "c07c":
		what = fmt.Sprintf("C07: 8 workers over %d pages without <base>, 27 path-relative requisites each; a request in another page's directory, or any data race with an access inside the preprocessor / postprocessor / extractor packages, is a violation. ", pages)
	case "c02c":
		what = fmt.Sprintf("C02: 8 workers; the site of C10 plus %d text documents answered 200 and 429 in alternation; any data race with an access inside the archiver packages (the discard policy included) is a violation. ", pages*4)
	}
	hkit.Evidence(propID, a.Tier, "exploration", map[string]any{
		"evaluations": requests, "distinct_nontrivial": pages * 4, "samples": []any{obs}, "exhaustive": false,
		"explanation": what + fmt.Sprintf("part C (race pass, a sample of schedules - not an enumeration): %d crawl(s) of the real crawler built with the race detector, 4 workers, max-hops 1, over a loopback site of %d HTML pages (each with its own <base href>, relative anchors, style url(), JSON-LD), %d JSON, %d XML and %d M3U8 documents; %d requests served; every data race on a map inside Zeno's packages is a violation, races on plain words are listed as observations (%d)", runs, pages, pages, pages, pages, requests, len(obs)),
	}, []string{"part C: the race detector sees a race only if both accesses happen in the run; which accesses happen depends on the OS scheduler"}, hkit.Violations())
	fmt.Printf(propID+" %s (part C, race pass): %d crawl(s), %d requests served, %d %s, %d other races observed\n", a.Tier, runs, requests, len(seen), map[bool]string{true: "violations (races inside the judged packages, misdirected requests)", false: "map-race signatures"}[len(racePkgs) > 0], len(obs))
	hkit.Exit()
}

func tailOf(s string, n int) string {
	if len(s) > n {
		return s[len(s)-n:]
	}
	return s
}
