// Harness for C11, part B: the tree through the REAL stages. Part A drives pkg/models with stage-shaped operation
// sequences that the harness transcribes; here the operations are the stages' own code: one seed goes round
// preprocess() -> the real archiver stage (worker loop, archive(), ProcessBody) over a transport that answers from a small site -> postprocess() -> the finisher's
// CompleteAndCheck() until it is complete, and after every stage call the tree must pass the model's consistency
// check; "complete" must be declared exactly when no node awaits fetching or post-processing.
//
// Enumerated: document kind of the page (HTML, JSON, feed, sitemap, playlist, PDF, S3 listing, Reddit and Truth Social
// API documents - each well-formed and in the broken forms that make one extractor fail and not the other) x answer
// to each of its assets (image, 404, transport failure, redirection to an image / to a failure / to the sibling, a body that breaks) x
// position of the page (the seed; behind a redirection) x --max-hops {0,1} x --disable-assets-capture {off,on} x
// seen-store {off, local}.
package main

import (
	"encoding/json"
	"fmt"
	"io"
	"net/http"
	"os"
	"sort"
	"strings"
	"sync"
	"time"

	"github.com/CorentinB/warc"

	"github.com/internetarchive/Zeno/internal/pkg/archiver"
	"github.com/internetarchive/Zeno/internal/pkg/config"
	"github.com/internetarchive/Zeno/internal/pkg/postprocessor"
	"github.com/internetarchive/Zeno/internal/pkg/postprocessor/domainscrawl"
	"github.com/internetarchive/Zeno/internal/pkg/preprocessor"
	"github.com/internetarchive/Zeno/internal/pkg/preprocessor/seencheck"
	"github.com/internetarchive/Zeno/internal/verif/vrt/hkit"
	"github.com/internetarchive/Zeno/pkg/models"
)

const propID = "C11"

const H = "http://site.example"

type doc struct {
	Name   string   `json:"name"`
	URL    string   `json:"url"`
	CT     string   `json:"content_type"`
	Server string   `json:"server,omitempty"`
	Body   string   `json:"body"`
	Assets []string `json:"assets"` // the URLs the document embeds (answered according to the case's answer vector)
	// Must: URLs that must have been requested when the seed is complete (assets capture on): removing the rejected
	// children of a node must not take the others with it
	Must []string `json:"must_be_requested,omitempty"`
}

func docs() []doc {
	a1, a2 := H+"/m/a1.png", H+"/m/a2.png"
	reddit := func(edited string) string {
		return `{"kind":"Listing","data":{"children":[{"kind":"t3","data":{"permalink":"/r/x/comments/1/t/","thumbnail":"` + a1 + `","url":"` + a2 + `","edited":` + edited + `}}]}}`
	}
	s3 := func(extra string) string {
		return `<?xml version="1.0" encoding="UTF-8"?><ListBucketResult xmlns="http://s3.amazonaws.com/doc/2006-03-01/"><Name>b</Name><Prefix></Prefix><Marker></Marker><MaxKeys>1000</MaxKeys><IsTruncated>false</IsTruncated>` +
			`<Contents><Key>k1.png</Key><Size>3</Size></Contents><Note>` + a1 + `</Note><Note>` + a2 + `</Note>` + extra + `</ListBucketResult>`
	}
	feed := `<?xml version="1.0" encoding="UTF-8"?><rss version="2.0"><channel><title>t</title><link>` + H + `/next</link><item><enclosure url="` + a1 + `"/><enclosure url="` + a2 + `"/></item></channel></rss>`
	// a wide node: 40 images, 30 of which the preprocessor rejects (hosts it refuses), 10 it keeps
	var wide strings.Builder
	var wideKeep []string
	wide.WriteString(`<!DOCTYPE html><html><body>`)
	for i := 0; i < 40; i++ {
		if i%4 == 3 {
			u := fmt.Sprintf("%s/w/keep%02d.png", H, i)
			wideKeep = append(wideKeep, u)
			fmt.Fprintf(&wide, `<img src="%s">`, u)
		} else {
			fmt.Fprintf(&wide, `<img src="http://localhost/w/drop%02d.png">`, i)
		}
	}
	wide.WriteString(`</body></html>`)
	return []doc{
		{Name: "html-wide", URL: H + "/wide", CT: "text/html; charset=utf-8", Body: wide.String(), Assets: wideKeep[:2], Must: wideKeep},
		{Name: "html", URL: H + "/page", CT: "text/html; charset=utf-8", Body: `<!DOCTYPE html><html><body><img src="/m/a1.png"><img src="/m/a2.png"><a href="/next">n</a></body></html>`, Assets: []string{a1, a2}},
		{Name: "html-no-assets", URL: H + "/page", CT: "text/html; charset=utf-8", Body: `<!DOCTYPE html><html><body><a href="/next">n</a></body></html>`},
		{Name: "json", URL: H + "/doc.json", CT: "application/json", Body: `{"a":"` + a1 + `","b":"` + a2 + `","n":"` + H + `/next"}`, Assets: []string{a1, a2}},
		{Name: "json-cut", URL: H + "/doc.json", CT: "application/json", Body: `{"a":"` + a1 + `","b":"` + a2 + `","n":"` + H, Assets: []string{a1, a2}},
		{Name: "feed", URL: H + "/feed.xml", CT: "application/xml", Body: feed, Assets: []string{a1, a2}},
		{Name: "feed-cut", URL: H + "/feed.xml", CT: "application/xml", Body: feed[:len(feed)-len("nnel></rss>")], Assets: []string{a1, a2}},
		{Name: "sitemap", URL: H + "/sitemap.xml", CT: "application/xml", Body: `<?xml version="1.0" encoding="UTF-8"?><urlset xmlns="http://www.sitemaps.org/schemas/sitemap/0.9"><url><loc>` + a1 + `</loc></url><url><loc>` + H + `/next</loc></url></urlset>`},
		{Name: "playlist", URL: H + "/v/list.m3u8", CT: "application/vnd.apple.mpegurl", Body: "#EXTM3U\n#EXT-X-VERSION:3\n#EXT-X-TARGETDURATION:10\n#EXTINF:10.0,\n" + a1 + "\n#EXTINF:10.0,\n" + a2 + "\n#EXT-X-ENDLIST\n", Assets: []string{a1, a2}},
		{Name: "pdf-cut", URL: H + "/doc.pdf", CT: "application/pdf", Body: "%PDF-1.4\n1 0 obj\n<< /Type /Catalog /Pages 2 0 R >>\nendobj\n2 0 obj\n<< /Type /Pages /Kids [3 0 R] /Count 1"},
		{Name: "s3-listing", URL: "http://bucket.example/?prefix=", CT: "application/xml", Server: "AmazonS3", Body: s3(""), Assets: []string{a1, a2}},
		{Name: "s3-listing-bad-size", URL: "http://bucket.example/?prefix=", CT: "application/xml", Server: "AmazonS3", Body: s3(`<Contents><Key>k2.png</Key><Size>many</Size></Contents>`), Assets: []string{a1, a2}},
		{Name: "s3-listing-bare-ampersand", URL: "http://bucket.example/?prefix=", CT: "application/xml", Server: "AmazonS3", Body: s3(`<Contents><Key>k&2.png</Key><Size>1</Size></Contents>`), Assets: []string{a1, a2}},
		{Name: "reddit-api", URL: "https://www.reddit.com/api/info.json?id=t3_abc", CT: "application/json", Body: reddit("false"), Assets: []string{a1, a2}},
		{Name: "reddit-api-edited-post", URL: "https://www.reddit.com/api/info.json?id=t3_abc", CT: "application/json", Body: reddit("1700000000.0"), Assets: []string{a1, a2}},
		{Name: "truthsocial-lookup", URL: "https://truthsocial.com/api/v1/accounts/lookup?acct=abc", CT: "application/json", Body: `{"id":"123","avatar":"` + a1 + `","header":"` + a2 + `"}`, Assets: []string{a1, a2}},
		{Name: "truthsocial-lookup-numeric-id", URL: "https://truthsocial.com/api/v1/accounts/lookup?acct=abc", CT: "application/json", Body: `{"id":123,"avatar":"` + a1 + `","header":"` + a2 + `"}`, Assets: []string{a1, a2}},
	}
}

// answers to an asset
var answers = []string{"image", "404", "fails", "redirect-to-image", "redirect-to-failure", "redirect-to-sibling", "body-breaks"}

type caseSpec struct {
	Doc     int    `json:"doc"`
	DocName string `json:"doc_name"`
	Ans     [2]int `json:"answers"`         // indices into answers, for the document's first and second asset
	Behind  bool   `json:"behind_redirect"` // the seed is another URL that redirects to the document
	MaxHops int    `json:"max_hops"`
	DAC     bool   `json:"disable_assets_capture"`
	Seen    bool   `json:"local_seen_store"`
}

func (c caseSpec) String() string {
	return fmt.Sprintf("%s assets=[%s,%s] behind-redirect=%v max-hops=%d disable-assets-capture=%v seen-store=%v", c.DocName, answers[c.Ans[0]], answers[c.Ans[1]], c.Behind, c.MaxHops, c.DAC, c.Seen)
}

func cases(tier string) []caseSpec {
	var out []caseSpec
	ds := docs()
	for di, d := range ds {
		vec := [][2]int{{0, 0}}
		if len(d.Assets) > 0 {
			vec = nil
			for i := range answers {
				for j := range answers {
					vec = append(vec, [2]int{i, j})
				}
			}
		}
		for _, v := range vec {
			for _, behind := range []bool{false, true} {
				for _, mh := range []int{0, 1} {
					for _, dac := range []bool{false, true} {
						for _, seen := range []bool{false, true} {
							if seen && tier != "thorough" && (v[0] != v[1] || dac) {
								continue // quick: the real store (slow) on the diagonal of the answer matrix only
							}
							out = append(out, caseSpec{Doc: di, DocName: d.Name, Ans: v, Behind: behind, MaxHops: mh, DAC: dac, Seen: seen})
						}
					}
				}
			}
		}
	}
	return out
}

type answer struct {
	status   int
	ct, body string
	location string
	server   string
	fails    bool
	cutAt    int // > 0: the body breaks (unexpected EOF) after that many bytes, the full length having been announced
}

func site(c caseSpec, d doc) map[string]answer {
	s := map[string]answer{d.URL: {status: 200, ct: d.CT, body: d.Body, server: d.Server}}
	png := "\x89PNG\r\n\x1a\n0000"
	for i, u := range d.Assets {
		sib := d.Assets[(i+1)%len(d.Assets)]
		switch answers[c.Ans[i]] {
		case "image":
			s[u] = answer{status: 200, ct: "image/png", body: png + fmt.Sprint(i)}
		case "404":
			s[u] = answer{status: 404, ct: "text/plain", body: "gone"}
		case "fails":
			s[u] = answer{fails: true}
		case "redirect-to-image":
			s[u] = answer{status: 302, location: u + ".target.png"}
			s[u+".target.png"] = answer{status: 200, ct: "image/png", body: png + "t" + fmt.Sprint(i)}
		case "redirect-to-failure":
			s[u] = answer{status: 301, location: u + ".nowhere"}
			s[u+".nowhere"] = answer{fails: true}
		case "redirect-to-sibling":
			s[u] = answer{status: 302, location: sib}
		case "body-breaks":
			s[u] = answer{status: 200, ct: "text/css", body: "body{color:red}" + strings.Repeat(" ", 4000), cutAt: 15}
		}
	}
	if c.Behind {
		s["http://old.example/start"] = answer{status: 301, location: d.URL}
	}
	return s
}

type verdict struct {
	Case   caseSpec `json:"case"`
	Trace  []string `json:"trace"`
	Rounds int      `json:"rounds"`
	Nodes  int      `json:"nodes"`
	Sig    string   `json:"sig,omitempty"`
	Reason string   `json:"violation,omitempty"`
}

var tmpDir string

func pending(seed *models.Item) []string {
	var p []string
	seed.Traverse(func(n *models.Item) {
		switch n.GetStatus() {
		case models.ItemFresh, models.ItemPreProcessed, models.ItemArchived:
			p = append(p, n.GetURL().Raw+"="+n.GetStatus().String())
		}
	})
	sort.Strings(p)
	return p
}

func count(seed *models.Item) (n int) {
	seed.Traverse(func(*models.Item) { n++ })
	return
}

// The archiver is the real stage (worker loop and archive()) over a transport that answers from the case's site.
var (
	archIn, archOut chan *models.Item
	curSite         map[string]answer
	reqMu           sync.Mutex
	requested       map[string]int
)

type siteTransport struct{}

type cutBody struct {
	r    io.Reader
	left int
}

func (c *cutBody) Read(p []byte) (int, error) {
	if c.left <= 0 {
		return 0, io.ErrUnexpectedEOF
	}
	if len(p) > c.left {
		p = p[:c.left]
	}
	n, err := c.r.Read(p)
	c.left -= n
	return n, err
}
func (c *cutBody) Close() error { return nil }

func (siteTransport) RoundTrip(req *http.Request) (*http.Response, error) {
	reqMu.Lock()
	requested[req.URL.String()]++
	reqMu.Unlock()
	a, ok := curSite[req.URL.String()]
	if !ok {
		a = answer{status: 404, ct: "text/plain", body: "unknown"}
	}
	if a.fails {
		return nil, fmt.Errorf("site transport: connection refused")
	}
	h := http.Header{}
	if a.ct != "" {
		h.Set("Content-Type", a.ct)
	}
	if a.server != "" {
		h.Set("Server", a.server)
	}
	if a.location != "" {
		h.Set("Location", a.location)
	}
	var body io.ReadCloser = io.NopCloser(strings.NewReader(a.body))
	if a.cutAt > 0 {
		body = &cutBody{r: strings.NewReader(a.body), left: a.cutAt}
	}
	return &http.Response{StatusCode: a.status, Status: fmt.Sprint(a.status), Proto: "HTTP/1.1", ProtoMajor: 1, ProtoMinor: 1, Header: h, Request: req, Body: body, ContentLength: int64(len(a.body))}, nil
}

func startArchiver() {
	archIn, archOut = make(chan *models.Item), make(chan *models.Item)
	config.VerifSet(&config.Config{WorkersCount: 1, MaxConcurrentAssets: 2, DisableRateLimit: true, WARCWriteAsync: true, NoStdoutLogging: true, NoStderrLogging: true, NoFileLogging: true, HTTPReadDeadline: 60})
	client := &warc.CustomHTTPClient{Client: http.Client{Transport: siteTransport{}, CheckRedirect: func(*http.Request, []*http.Request) error { return http.ErrUseLastResponse }}}
	if err := archiver.VerifStart(archIn, archOut, client, nil); err != nil {
		hkit.EngineError("archiver: %v", err)
	}
}

// fetch hands the seed to the real archiver stage and takes it back.
func fetch(seed *models.Item, s map[string]answer, c caseSpec) {
	curSite = s
	archIn <- seed
	select {
	case <-archOut:
	case <-time.After(30 * time.Second):
		hkit.EngineError("the archiver did not hand the seed back within 30 s: %s", c)
	}
}

func runCase(c caseSpec) (v verdict) {
	v = verdict{Case: c}
	if archIn == nil {
		startArchiver() // before the case's configuration is installed: it installs one of its own for the start-up
	}
	d := docs()[c.Doc]
	s := site(c, d)
	config.VerifSet(&config.Config{MaxHops: c.MaxHops, DisableAssetsCapture: c.DAC, MaxRedirect: 5, MaxRetry: 0, UserAgent: "verif-c11b", UseSeencheck: c.Seen, DisableSeencheck: !c.Seen, WARCTempDir: tmpDir,
		WorkersCount: 1, MaxConcurrentAssets: 2, DisableRateLimit: true, WARCWriteAsync: true, NoStdoutLogging: true, NoStderrLogging: true, NoFileLogging: true, HTTPReadDeadline: 60})
	domainscrawl.Reset()
	stage := "harness"
	defer func() {
		if r := recover(); r != nil {
			if stage == "harness" {
				panic(r)
			}
			v.Sig, v.Reason = "stage-panics:"+stage+":"+d.Name, fmt.Sprintf("%s panicked: %v", stage, r)
		}
	}()
	if c.Seen {
		dir, err := os.MkdirTemp(tmpDir, "c11b-seen-")
		if err != nil {
			hkit.EngineError("%v", err)
		}
		defer os.RemoveAll(dir)
		if err := seencheck.Start(dir); err != nil {
			hkit.EngineError("seencheck: %v", err)
		}
		defer seencheck.Close()
	}
	reqMu.Lock()
	requested = map[string]int{}
	reqMu.Unlock()
	start := d.URL
	if c.Behind {
		start = "http://old.example/start"
	}
	u := &models.URL{Raw: start}
	if err := u.Parse(); err != nil {
		hkit.EngineError("%v", err)
	}
	seed := models.NewItem("seed", u, "")
	check := func(after string) bool {
		if err := seed.CheckConsistency(); err != nil {
			v.Sig, v.Reason = "ill-formed-tree:after-"+after+":"+d.Name, fmt.Sprintf("after %s (round %d) the tree fails the model's consistency check: %v\n%s", after, v.Rounds, err, seed.DrawTree())
			return false
		}
		return true
	}
	for v.Rounds = 1; v.Rounds <= 12; v.Rounds++ {
		stage = "preprocess"
		preprocessor.VerifC07Preprocess(seed)
		v.Trace = append(v.Trace, fmt.Sprintf("round %d after preprocess: %d nodes, pending %v", v.Rounds, count(seed), pending(seed)))
		if !check("preprocess") {
			return
		}
		stage = "harness"
		fetch(seed, s, c)
		v.Trace = append(v.Trace, fmt.Sprintf("round %d after the archiver: %d nodes, pending %v", v.Rounds, count(seed), pending(seed)))
		if !check("the archiver") {
			return
		}
		stage = "postprocess"
		postprocessor.VerifC07Postprocess(seed)
		v.Trace = append(v.Trace, fmt.Sprintf("round %d after postprocess: %d nodes, pending %v", v.Rounds, count(seed), pending(seed)))
		if !check("postprocess") {
			return
		}
		stage = "finisher"
		complete := seed.CompleteAndCheck()
		if !check("the completion check") {
			return
		}
		p := pending(seed)
		v.Nodes = count(seed)
		switch {
		case complete && len(p) > 0:
			v.Sig, v.Reason = "complete-with-pending-work:"+d.Name, fmt.Sprintf("round %d: the seed is declared complete while %v still await work\n%s", v.Rounds, p, seed.DrawTree())
			return
		case !complete && len(p) == 0:
			v.Sig, v.Reason = "incomplete-with-nothing-pending:"+d.Name, fmt.Sprintf("round %d: the seed is not declared complete although no node awaits fetching or post-processing\n%s", v.Rounds, seed.DrawTree())
			return
		case complete:
			if !c.DAC {
				reqMu.Lock()
				defer reqMu.Unlock()
				for _, u := range d.Must {
					if requested[u] == 0 {
						v.Sig, v.Reason = "url-discarded:"+d.Name, fmt.Sprintf("the seed is complete and %s, a requisite the preprocessor accepted, was never requested (requested: %d URLs)\n%s", u, len(requested), seed.DrawTree())
						return
					}
				}
			}
			return
		}
	}
	v.Sig, v.Reason = "never-completes:"+d.Name, fmt.Sprintf("12 rounds and the seed is still not complete: %v", pending(seed))
	return
}

func main() {
	a := hkit.ParseArgs()
	tmpDir = os.Getenv("VERIF_TMP")
	if tmpDir == "" {
		tmpDir = os.TempDir()
	}
	cs := cases(a.Tier)
	if a.Replay != "" {
		var r struct {
			Verdict verdict `json:"verdict"`
		}
		b, err := os.ReadFile(a.Replay)
		if err != nil {
			hkit.EngineError("%v", err)
		}
		if err := json.Unmarshal(b, &r); err != nil {
			hkit.EngineError("%v", err)
		}
		v := runCase(r.Verdict.Case)
		fmt.Println(strings.Join(v.Trace, "\n"))
		if v.Reason != "" {
			fmt.Printf("replay: %s\nVIOLATION property=%s replay=%s\n", v.Reason, propID, a.Replay)
			os.Exit(1)
		}
		fmt.Println("replay: no violation")
		return
	}
	if f, ok := a.Extra["only"]; ok {
		var keep []caseSpec
		for _, c := range cs {
			if strings.Contains(c.String(), f) {
				keep = append(keep, c)
			}
		}
		cs = keep
	}
	// one job per chunk of cases (the seen-store is a process-wide singleton: cases of a job run one after the other)
	const chunk = 200
	jobs := (len(cs) + chunk - 1) / chunk
	res := hkit.Jobs(a, jobs, func(j int) any {
		var vs []verdict
		for i := j * chunk; i < len(cs) && i < (j+1)*chunk; i++ {
			v := runCase(cs[i])
			if v.Reason == "" && i%97 != 0 {
				v.Trace = nil
			}
			vs = append(vs, v)
		}
		return vs
	})
	seen := map[string]bool{}
	var sample []any
	rounds, nodes, multi := 0, 0, 0
	if _, ok := a.Extra["show"]; ok {
		defer func() {}()
	}
	for _, raw := range res {
		var vs []verdict
		if err := json.Unmarshal(raw, &vs); err != nil {
			hkit.EngineError("%v", err)
		}
		for _, v := range vs {
			rounds += v.Rounds
			nodes += v.Nodes
			if v.Rounds > 1 {
				multi++
			}
			if len(sample) < 3 && v.Trace != nil && v.Rounds > 2 {
				sample = append(sample, v)
			}
			if v.Reason != "" && !seen[v.Sig] {
				seen[v.Sig] = true
				hkit.Report(propID, v.Sig, map[string]any{"engine": "grid", "harness": "c11b", "verdict": v}, v.Case.String()+": "+v.Reason)
			}
		}
	}
	hkit.Evidence(propID, a.Tier, "exploration", map[string]any{
		"evaluations": len(cs), "distinct_nontrivial": multi, "samples": sample, "exhaustive": true, "stage_rounds": rounds, "nodes_built": nodes,
		"explanation": fmt.Sprintf("part B: %d cases = %d document kinds (well-formed and broken for one extractor) x answers to the document's two assets %v x {the seed, behind a redirection} x --max-hops {0,1} x --disable-assets-capture {off,on} x seen-store {off, local}; each case is one seed taken round the real preprocess() -> fetch the real archiver stage -> postprocess() -> CompleteAndCheck() until complete (%d stage rounds in all, %d cases needed more than one); after every stage call the model's CheckConsistency must hold, complete <=> no node Fresh/PreProcessed/Archived, at most 12 rounds", len(cs), len(docs()), answers, rounds, multi),
	}, []string{"part B: the archiver's fetch is played by the harness (status, header and body of a fixed small site handed to the real ProcessBody; the archiver is the real stage worker and archive() over a transport that answers from the case's site (asynchronous WARC mode: no writer is involved))"}, hkit.Violations())
	fmt.Printf("C11 %s (part B): %d cases through the real stages, %d stage rounds, %d nodes built, %d failing signatures\n", a.Tier, len(cs), rounds, nodes, len(seen))
	hkit.Exit()
}
