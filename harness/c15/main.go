// Harness for C15: outlinks and finish acknowledgements reach the queue
// intact, despite queue errors. The real crawl-HQ adapter goroutines
// (producer, finisher, consumer) against an in-memory crawl HQ whose every
// answer is an enumerated environment choice, and the real local-queue
// adapter on a real SQLite file, both under the controlled scheduler with the
// virtual clock (batch tickers, retry back-off).
package main

import (
	"bytes"
	"encoding/json"
	"fmt"
	"io"
	"net/http"
	"net/url"
	"os"
	"sort"
	"strings"
	"time"

	"github.com/internetarchive/Zeno/internal/pkg/config"
	"github.com/internetarchive/Zeno/internal/pkg/reactor"
	"github.com/internetarchive/Zeno/internal/pkg/source/hq"
	"github.com/internetarchive/Zeno/internal/pkg/source/lq"
	"github.com/internetarchive/Zeno/internal/verif/vrt/hkit"
	"github.com/internetarchive/Zeno/internal/verif/vrt/vsched"
	"github.com/internetarchive/Zeno/pkg/models"
	"github.com/internetarchive/gocrawlhq"
)

const propID = "C15"

type outlink struct {
	Text  string `json:"text"`
	Via   string `json:"via"`
	Hops  int    `json:"hops"`
	After int    `json:"after_ms,omitempty"` // produced that long after the previous one (virtual time)
	// Again: the same text was produced before; this one is discovered once that earlier delivery has come back as
	// a seed and has been acknowledged (it waits in no queue any more: it must be queued, and come back, again)
	Again bool `json:"again_after_the_acknowledgement,omitempty"`
}

var outlinkSets = map[string][]outlink{
	"three": {
		{"http://o.example/plain", "http://page.example/a", 0, 0, false},
		{"http://o.example/with space?q=a b&r=50%25", "http://page.example/b?x=1", 1, 0, false},
		{"http://ö.example/ünïcode/❤", "http://page.example/c#frag", 2, 0, false},
	},
	// URL texts with what an HTML/XML decoder would take for a character reference (with and without the
	// semicolon), written out and percent-encoded: the queue stores URL texts, not markup
	"entity-like": {
		{"http://o.example/list?page=2&region=eu&copy=1", "http://page.example/a", 1, 0, false},
		{"http://o.example/api?id=7&timestamp=1700000000&section=news&notify=1&currency=EUR", "http://page.example/b", 0, 0, false},
		{"http://o.example/q?a=1&amp;b=2&#38;c=3&lt=4&quot=5", "http://page.example/c?x=1&amp;y=2", 2, 0, false},
		{"http://o.example/p?t=a%26b%3Bc&u=%2541", "http://page.example/d", 1, 0, false},
	},
	// outlinks discovered over time: the second one arrives while a timer-flushed batch holding the
	// first may be in its retry back-off, the third after everything settled
	"timed": {
		{"http://o.example/first", "http://page.example/a", 1, 0, false},
		{"http://o.example/second", "http://page.example/b", 3, 5500, false},
		{"http://o.example/third", "http://page.example/c", 0, 7000, false},
	},
	// a page links to a URL that was crawled and acknowledged a while ago (menus and footers do that all the time)
	"again-after-ack": {
		{"http://o.example/x", "http://page.example/a", 1, 0, false},
		{"http://o.example/x", "http://page.example/b", 2, 8000, true},
	},
	"repeat": {
		{"http://o.example/same", "http://page.example/a", 1, 0, false},
		{"http://o.example/same", "http://page.example/b", 1, 0, false},
		{"http://o.example/other", "http://page.example/a", 3, 0, false},
	},
	// the repeated value closes the batch (a page whose last link points back to one seen before)
	"repeat-last": {
		{"http://o.example/other", "http://page.example/a", 3, 0, false},
		{"http://o.example/same", "http://page.example/a", 1, 0, false},
		{"http://o.example/same", "http://page.example/b", 1, 0, false},
	},
}

type scen struct {
	Queue    string `json:"queue"` // hq | lq
	Outlinks string `json:"outlinks"`
	Workers  int    `json:"workers"`    // finish batch size (and local-queue fetch size)
	Batch    int    `json:"batch_size"` // HQ producer/consumer batch size
	P        int    `json:"p"`
	F        int    `json:"f"`
	// Conc: --hq-batch-concurrency (0 = 1): that many gets in flight at once, each for a share of the batch
	Conc int `json:"hq_batch_concurrency,omitempty"`
	// Outage: crawl HQ answers the first Outage add (and delete) calls with 503, whatever else happens: a long run of
	// failures on one batch (the faults chosen under F are short runs)
	Outage int `json:"outage_calls,omitempty"`
}

func (s *scen) name() string {
	n := fmt.Sprintf("%s outlinks=%s workers=%d batch=%d", s.Queue, s.Outlinks, s.Workers, s.Batch)
	if s.Conc > 1 {
		n += fmt.Sprintf(" get-concurrency=%d", s.Conc)
	}
	if s.Outage > 0 {
		n += fmt.Sprintf(" outage=%d-calls", s.Outage)
	}
	return n
}

// ---------------------------------------------------------------- fake crawl HQ

type hqURL struct {
	ID, Value, Via, Path string
	Claimed              bool
}

type call struct {
	Op     string   `json:"op"`
	Answer string   `json:"answer"`
	Values []string `json:"values,omitempty"`
}

type fakeHQ struct {
	mu           hkit.Mutex
	urls         []*hqURL
	nextID       int
	calls        []call
	eligible     int // fault-eligible calls so far
	eligibleGets int
	getLatency   time.Duration // virtual time one get takes
	outage       int           // the first that many add/delete calls are answered 503
	writes       int
	deleted      []string
	addOK        [][]gocrawlhq.URL // payloads of successful adds
}

var answers = []string{"ok", "500", "503", "reset", "timeout-after-commit"}

func (h *fakeHQ) RoundTrip(req *http.Request) (*http.Response, error) {
	op := req.Method
	if err := req.Context().Err(); err != nil {
		return nil, err // like a real transport: a request whose context is over is not sent
	}
	if op != "GET" {
		h.mu.Lock()
		h.writes++
		down := h.writes <= h.outage
		if down {
			h.calls = append(h.calls, call{Op: op, Answer: "503 (outage)"})
		}
		h.mu.Unlock()
		if down {
			return &http.Response{StatusCode: 503, Status: "503", Body: io.NopCloser(bytes.NewReader(nil)), Header: http.Header{}, Request: req}, nil
		}
	}
	if h.getLatency > 0 && op == "GET" {
		// With --hq-batch-concurrency > 1 Zeno polls an empty feed without pausing (getURLs swallows "feed is
		// empty"): a round trip that takes no time would keep the virtual clock from ever advancing
		time.Sleep(h.getLatency)
	}
	// environment answer: the first 8 add/delete calls and the first 2 gets may fail
	ans := 0
	h.mu.Lock()
	// a get is worth failing when there is something to hand out (a failed get of an empty feed changes nothing):
	// the first 2 such gets are eligible, whichever of the concurrent fetchers issues them
	waiting := 0
	for _, x := range h.urls {
		if !x.Claimed {
			waiting++
		}
	}
	elig := (op != "GET" && h.eligible < 8) || (op == "GET" && waiting > 0 && h.eligibleGets < 2)
	if elig && op != "GET" {
		h.eligible++
	}
	if elig && op == "GET" {
		h.eligibleGets++
	}
	h.mu.Unlock()
	if elig {
		n := len(answers)
		if op == "GET" {
			n-- // a get whose answer is lost after HQ claimed the URLs is HQ's to repair (claim expiry), not a delivery of the crawler
		}
		ans = vsched.Choose("h:crawl HQ answers "+op, n)
	}
	c := call{Op: op, Answer: answers[ans]}
	resp := func(code int, body []byte) (*http.Response, error) {
		return &http.Response{StatusCode: code, Status: fmt.Sprintf("%d", code), Body: io.NopCloser(bytes.NewReader(body)), Header: http.Header{}, Request: req}, nil
	}
	h.mu.Lock()
	defer h.mu.Unlock()
	defer func() { h.calls = append(h.calls, c) }()
	switch answers[ans] {
	case "500":
		return resp(500, nil)
	case "503":
		return resp(503, nil)
	case "reset":
		return nil, fmt.Errorf("read tcp: connection reset by peer")
	}
	commitOnly := answers[ans] == "timeout-after-commit"
	var body []byte
	code := 200
	switch op {
	case "POST":
		var p gocrawlhq.AddPayload
		b, _ := io.ReadAll(req.Body)
		json.Unmarshal(b, &p)
		for _, u := range p.URLs {
			h.nextID++
			h.urls = append(h.urls, &hqURL{ID: fmt.Sprintf("seed-%d", h.nextID), Value: u.Value, Via: u.Via, Path: u.Path})
			c.Values = append(c.Values, u.Value)
		}
		h.addOK = append(h.addOK, p.URLs)
		code = 201
	case "DELETE":
		var p gocrawlhq.DeletePayload
		b, _ := io.ReadAll(req.Body)
		json.Unmarshal(b, &p)
		for _, u := range p.URLs {
			c.Values = append(c.Values, u.ID)
			h.deleted = append(h.deleted, u.ID)
			for i, x := range h.urls {
				if x.ID == u.ID {
					h.urls = append(h.urls[:i], h.urls[i+1:]...)
					break
				}
			}
		}
		code = 204
	case "GET":
		size := 1
		fmt.Sscanf(req.URL.Query().Get("size"), "%d", &size)
		var out []gocrawlhq.URL
		for _, x := range h.urls {
			if !x.Claimed && len(out) < size {
				x.Claimed = true
				out = append(out, gocrawlhq.URL{ID: x.ID, Value: x.Value, Via: x.Via, Path: x.Path, Status: "CLAIMED"})
				c.Values = append(c.Values, x.Value)
			}
		}
		if len(out) == 0 {
			code = 204
		} else {
			body, _ = json.Marshal(out)
		}
	}
	if commitOnly {
		return nil, fmt.Errorf("net/http: request canceled (Client.Timeout exceeded while awaiting headers)")
	}
	return resp(code, body)
}

// ---------------------------------------------------------------- scenario

type received struct {
	ID, Value, Via string
	Hops           int
}

type obs struct {
	mu       hkit.Mutex
	received []received
	hq       *fakeHQ
	dir      string
}

func scenario(s *scen) *vsched.Scenario {
	var o *obs
	links := outlinkSets[s.Outlinks]
	sc := &vsched.Scenario{Name: s.name()}
	sc.Setup = func(x *vsched.Exec) {
		reactor.VerifReset()
		hq.VerifReset()
		lq.VerifC15Reset()
		o = &obs{hq: &fakeHQ{outage: s.Outage}}
		if s.Conc > 1 {
			o.hq.getLatency = 100 * time.Millisecond
		}
		dir, err := os.MkdirTemp(os.Getenv("VERIF_TMP"), "c15-")
		if err != nil {
			panic(err)
		}
		o.dir = dir
		config.VerifSet(&config.Config{Job: "verif", JobPath: dir, WorkersCount: s.Workers, HQBatchSize: s.Batch, HQBatchConcurrency: max(1, s.Conc),
			HQProject: "verif", UseHQ: s.Queue == "hq", NoStdoutLogging: true, NoStderrLogging: true, NoFileLogging: true})
		x.Data = o
	}
	sc.Body = func() {
		out := make(chan *models.Item, s.Workers)
		if err := reactor.Start(s.Workers, out); err != nil {
			panic(err)
		}
		finishCh := make(chan *models.Item, s.Workers)
		produceCh := make(chan *models.Item, s.Workers)
		if s.Queue == "hq" {
			u, _ := url.Parse("http://hq.invalid/api/projects/verif/urls")
			hq.VerifC15Start(finishCh, produceCh, &gocrawlhq.Client{Project: "verif", URLsEndpoint: u, HTTPClient: &http.Client{Transport: o.hq}})
		} else {
			if err := lq.Start(finishCh, produceCh); err != nil {
				panic(err)
			}
		}
		go func() { // the postprocessor/finisher side: discovered outlinks
			for i, l := range links {
				if l.Again {
					text := l.Text
					vsched.Block("h:wait until the earlier delivery of this URL was acknowledged", nil, func() bool { return acked(s, o, text) })
				}
				if l.After > 0 {
					time.Sleep(time.Duration(l.After) * time.Millisecond)
				}
				it := models.NewItem(fmt.Sprintf("outlink-%d", i), &models.URL{Raw: l.Text, Hops: l.Hops}, l.Via)
				produceCh <- it
			}
		}()
		go func() { // the pipeline: seeds coming back from the queue are finished at once
			for {
				it := <-out
				o.mu.Lock()
				o.received = append(o.received, received{it.GetID(), it.GetURL().Raw, it.GetSeedVia(), it.GetURL().GetHops()})
				o.mu.Unlock()
				if err := reactor.MarkAsFinished(it); err != nil {
					panic(err)
				}
				finishCh <- it
			}
		}()
	}
	expect := map[string]int{} // deliveries per text: one, plus one for every rediscovery after an acknowledgement
	for _, l := range links {
		if expect[l.Text] == 0 || l.Again {
			expect[l.Text]++
		}
	}
	goal := func() bool {
		// every outlink came back as a seed (as often as it had to) and every received seed was acknowledged
		got := map[string]int{}
		for _, r := range o.received {
			got[r.Value]++
		}
		for t, n := range expect {
			if got[t] < n {
				return false
			}
		}
		if s.Queue == "hq" {
			o.hq.mu.Lock()
			defer o.hq.mu.Unlock()
			del := map[string]bool{}
			for _, d := range o.hq.deleted {
				del[d] = true
			}
			for _, r := range o.received {
				if !del[r.ID] {
					return false
				}
			}
			return true
		}
		rows, err := lq.VerifC15Rows()
		return err == nil && len(rows) == 0
	}
	sc.Done = func(x *vsched.Exec) bool { return goal() }
	sc.Idle = func(p string) bool { return strings.Contains(p, "recv out") || strings.Contains(p, "select") }
	sc.Horizon = 3 * time.Minute
	sc.DelayBounding = true
	sc.OKEnds = []string{vsched.EndDone, vsched.EndHorizon, vsched.EndQuiescent}
	sc.AtEnd = func(x *vsched.Exec) error { return oracle(s, x, o, links, goal()) }
	sc.Outcome = func(x *vsched.Exec) string {
		var cs []string
		for _, c := range o.hq.calls {
			if c.Answer != "ok" || c.Op != "GET" {
				cs = append(cs, c.Op+":"+c.Answer)
			}
		}
		var rs []string
		for _, r := range o.received {
			rs = append(rs, fmt.Sprintf("%s@%d", r.Value, r.Hops))
		}
		sort.Strings(rs)
		return strings.Join(cs, ",") + " | " + strings.Join(rs, " ")
	}
	sc.Cleanup = func(x *vsched.Exec) {
		lq.VerifC15Reset()
		os.RemoveAll(o.dir)
	}
	sc.Signature = func(v *vsched.Violation) string {
		if v.Kind == "crash" {
			return vsched.DefaultSignature(v)
		}
		if i := strings.IndexByte(v.Message, ':'); i > 0 {
			return s.Queue + ":" + v.Message[:i]
		}
		return vsched.DefaultSignature(v)
	}
	sc.KnownSig = func(sg string) bool { return hkit.IsListed(propID, sg) }
	return sc
}

// acked: the URL came back as a seed and that seed was acknowledged (and, for the local queue, its row is gone)
func acked(s *scen, o *obs, text string) bool {
	o.mu.Lock()
	var ids []string
	for _, r := range o.received {
		if r.Value == text {
			ids = append(ids, r.ID)
		}
	}
	o.mu.Unlock()
	if len(ids) == 0 {
		return false
	}
	if s.Queue == "hq" {
		o.hq.mu.Lock()
		defer o.hq.mu.Unlock()
		for _, id := range ids {
			found := false
			for _, d := range o.hq.deleted {
				found = found || d == id
			}
			if !found {
				return false
			}
		}
		return true
	}
	// local queue: the finish message was handed over; the delete follows within the 5 s of the finish batch's
	// ticker (the rediscovery comes 8 s later; the queue is not read here: this predicate runs at every decision)
	return true
}

func oracle(s *scen, x *vsched.Exec, o *obs, links []outlink, reached bool) error {
	if !reached {
		return fmt.Errorf("not-delivered: at the end (%s, %v virtual) not every outlink came back / was acknowledged; received %d, HQ calls %d", x.End, x.Now(), len(o.received), len(o.hq.calls))
	}
	want := map[string]outlink{}
	multi := map[string]int{}
	for _, l := range links {
		if _, ok := want[l.Text]; !ok {
			want[l.Text] = l
		}
		multi[l.Text]++
	}
	// round trip: text unchanged, parent page as via, hop count preserved
	seen := map[string]int{}
	for _, r := range o.received {
		l, ok := want[r.Value]
		if !ok {
			return fmt.Errorf("text-changed: the queue handed back %q, which was never produced", r.Value)
		}
		seen[r.Value]++
		hopsOK := r.Hops == l.Hops
		for _, c := range links { // a text discovered more than once: the delivery carries the hops of one of the discoveries (the one whose via it carries, checked below)
			hopsOK = hopsOK || (c.Text == r.Value && c.Via == r.Via && c.Hops == r.Hops)
		}
		if !hopsOK {
			return fmt.Errorf("hops-changed: %q was produced with hops %d and came back with %d", r.Value, l.Hops, r.Hops)
		}
		viaOK := r.Via == l.Via
		if multi[r.Value] > 1 {
			viaOK = false
			for _, c := range links {
				if c.Text == r.Value && c.Via == r.Via {
					viaOK = true
				}
			}
		}
		if !viaOK {
			return fmt.Errorf("via-changed: %q was produced via %q and came back via %q", r.Value, l.Via, r.Via)
		}
	}
	if s.Queue == "lq" {
		// a URL already waiting in the local queue is not queued twice
		for v, n := range seen {
			allowed := 0
			for _, l := range links {
				if l.Text == v && (allowed == 0 || l.Again) {
					allowed++
				}
			}
			if n > allowed {
				return fmt.Errorf("queued-twice: %q came back %d times from the local queue", v, n)
			}
		}
		return nil
	}
	// crawl HQ: what reached HQ in successful adds is byte-identical, with the right via and path
	dupAllowed := false
	for _, c := range o.hq.calls {
		if c.Answer == "timeout-after-commit" && c.Op == "POST" {
			dupAllowed = true
		}
	}
	reachedHQ := map[string]int{}
	for _, batch := range o.hq.addOK {
		for _, u := range batch {
			l, ok := want[u.Value]
			if !ok {
				return fmt.Errorf("text-changed: HQ received %q, which was never produced", u.Value)
			}
			reachedHQ[u.Value]++
			if u.Path != strings.Repeat("L", l.Hops) && multi[u.Value] == 1 {
				return fmt.Errorf("hops-changed: %q (hops %d) reached HQ with path %q", u.Value, l.Hops, u.Path)
			}
		}
	}
	for v, n := range reachedHQ {
		if n > multi[v] && !dupAllowed {
			return fmt.Errorf("duplicate-add: %q reached HQ %d times although no add timed out after committing", v, n)
		}
	}
	for h := 0; h < 64; h++ { // "all hop counts": far beyond any realistic --max-hops
		if hq.VerifC15HopsRoundTrip(h) != h {
			return fmt.Errorf("hops-changed: pathToHops(hopsToPath(%d)) = %d", h, hq.VerifC15HopsRoundTrip(h))
		}
	}
	return nil
}

func scenarios(tier string) []scen {
	F, P := 2, 0
	if tier == "thorough" {
		F, P = 3, 1
	}
	var out []scen
	for _, set := range []string{"three", "repeat", "repeat-last", "timed", "again-after-ack"} {
		for _, wb := range [][2]int{{2, 2}, {1, 3}, {2, 100}} { // size-triggered and ticker-triggered batches
			if (set == "timed" || set == "again-after-ack") && wb[1] != 100 {
				continue
			}
			out = append(out, scen{Queue: "hq", Outlinks: set, Workers: wb[0], Batch: wb[1], P: P, F: F})
		}
		for _, w := range []int{1, 2} {
			out = append(out, scen{Queue: "lq", Outlinks: set, Workers: w, Batch: 0, P: P + 1, F: 0})
		}
		if set == "three" || set == "timed" {
			out = append(out, scen{Queue: "hq", Outlinks: set, Workers: 2, Batch: 2, P: P, F: F, Conc: 2})
		}
	}
	// URL texts that look like markup: no fault needed, both queues, a size-triggered and a timer-triggered batch
	out = append(out, scen{Queue: "hq", Outlinks: "entity-like", Workers: 2, Batch: 2, P: 0, F: 0}, scen{Queue: "hq", Outlinks: "entity-like", Workers: 2, Batch: 100, P: 0, F: 1},
		scen{Queue: "lq", Outlinks: "entity-like", Workers: 2, Batch: 0, P: 1, F: 0})
	// a long run of failures on the first batch (six and nine calls in a row), no other fault
	for _, n := range []int{6, 9} {
		out = append(out, scen{Queue: "hq", Outlinks: "three", Workers: 1, Batch: 3, P: 0, F: 0, Outage: n})
	}
	return out
}

type jobResult struct {
	Name string         `json:"name"`
	Rep  *vsched.Report `json:"rep"`
}

func main() {
	a := hkit.ParseArgs()
	ss := scenarios(a.Tier)
	if a.Replay != "" {
		replay(a.Replay)
		return
	}
	maxWall := 50 * time.Second
	if a.Tier == "thorough" {
		maxWall = 20 * time.Minute
	}
	if v, ok := a.Extra["only"]; ok {
		var f []scen
		for _, s := range ss {
			if strings.Contains(s.name(), v) {
				f = append(f, s)
			}
		}
		ss = f
	}
	// HQ scenarios are split over K frontier shards each
	K := 2
	if a.Tier == "thorough" {
		K = 4
	}
	res := hkit.Jobs(a, len(ss)*K, func(j int) any {
		s := &ss[j/K]
		sc := scenario(s)
		if j%K == 0 {
			if err := vsched.DeterminismCheck(sc); err != nil {
				hkit.EngineError("%v", err)
			}
		}
		rep := vsched.Explore(sc, vsched.Bounds{P: s.P, F: s.F, MaxWall: maxWall, Shard: j % K, Of: K})
		if len(rep.Sample) > 60 {
			rep.Sample = rep.Sample[:60]
		}
		return jobResult{s.name(), rep}
	})
	total := &vsched.Report{Exhaustive: true}
	seen := map[string]bool{}
	outcomes := map[string]bool{}
	faultSeqs := map[string]bool{}
	for j, b := range res {
		var r jobResult
		if err := json.Unmarshal(b, &r); err != nil {
			hkit.EngineError("%v", err)
		}
		for k := range r.Rep.Outcomes {
			outcomes[r.Name+"|"+k] = true
			faultSeqs[r.Name+"|"+k[:strings.Index(k, " | ")]] = true
		}
		for _, v := range r.Rep.Violations {
			if seen[v.Sig] {
				continue
			}
			seen[v.Sig] = true
			if err := vsched.Confirm(scenario(&ss[j/K]), &v); err != nil {
				hkit.EngineError("violation did not replay: %v", err)
			}
			hkit.Report(propID, v.Sig, map[string]any{"engine": "explore", "harness": "c15", "scenario": ss[j/K], "violation": v}, fmt.Sprintf("%s: %s", r.Name, firstLine(v.Message)))
		}
		total.Merge(r.Rep)
	}
	hkit.Evidence(propID, a.Tier, "fault_enumeration", map[string]any{
		"evaluations": total.Executions, "distinct_nontrivial": len(faultSeqs),
		"rule":    "one evaluation = one execution of the real queue adapter goroutines under the scheduler for one fault sequence and one schedule; distinct non-trivial = distinct (scenario, sequence of non-ok HQ answers and add/delete calls) observed",
		"samples": []any{total.Sample}, "exhaustive": total.Exhaustive, "states": total.States, "transitions": total.Transitions,
		"scenarios": len(ss), "distinct_outcomes": len(outcomes), "fault_alphabet": answers,
		"explanation": "crawl HQ: every sequence of answers {ok, 500, 503, connection reset, timeout-after-commit} with at most F non-ok answers over the first 8 add/delete calls and the first 2 gets, for 3 outlinks (spaces, %, unicode; hops 0-2) and repeated values, size- and ticker-triggered batches, delay bound P; local queue: the same items through the real SQLite file; oracle at the goal/horizon: every outlink came back as a seed with text, via and hops unchanged, every seed was acknowledged, no duplicates unless an add timed out after committing, the local queue never hands a waiting URL out twice",
	}, []string{
		"crawl HQ is an in-memory fake of the urls endpoint (add/get/delete); seencheck endpoint and websocket are not part of this check",
		"horizon 3 virtual minutes after start: delays beyond it count as not delivered",
	}, hkit.Violations())
	fmt.Printf("C15 %s: %d scenarios, %d executions, %d states, %d transitions, %d distinct fault/call sequences, exhaustive=%v\n", a.Tier, len(ss), total.Executions, total.States, total.Transitions, len(faultSeqs), total.Exhaustive)
	hkit.Exit()
}

func firstLine(s string) string {
	if i := strings.IndexByte(s, '\n'); i > 0 {
		s = s[:i]
	}
	if len(s) > 600 {
		s = s[:600]
	}
	return s
}

func replay(path string) {
	b, err := os.ReadFile(path)
	if err != nil {
		hkit.EngineError("%v", err)
	}
	var r struct {
		Scenario  scen             `json:"scenario"`
		Violation vsched.Violation `json:"violation"`
	}
	if err := json.Unmarshal(b, &r); err != nil {
		hkit.EngineError("%v", err)
	}
	v, x := vsched.Replay(scenario(&r.Scenario), r.Violation.Choices)
	for _, s := range x.Steps {
		fmt.Printf("  %-44s %-90s case=%d\n", s.Thread, s.Point, s.Case)
	}
	if v == nil {
		fmt.Println("replay: no violation")
		os.Exit(0)
	}
	fmt.Printf("replay: %s: %s\n", v.Kind, v.Message)
	fmt.Printf("VIOLATION property=%s replay=%s\n", propID, path)
	os.Exit(1)
}
