// Package e2e is the "real process" engine (E4): the parent side owns a
// loopback origin server (and a SOCKS5 proxy), runs one child OS process per
// case - the real controler.Start()/Stop() pipeline in free mode with triggers
// armed on instrumented points - and judges what the child leaves on disk.
package e2e

import (
	"bufio"
	"bytes"
	"compress/gzip"
	"crypto/sha1"
	"encoding/hex"
	"fmt"
	"net"
	"net/http"
	"sort"
	"strconv"
	"sync"
	"time"
)

// Hold keeps a response open at some point until it is released.
type Hold struct {
	reached, release chan struct{}
	o1, o2           sync.Once
}

func NewHold() *Hold { return &Hold{reached: make(chan struct{}), release: make(chan struct{})} }

// Reached is closed when a handler arrived at the hold.
func (h *Hold) Reached() <-chan struct{} { return h.reached }

// Release lets the held handler (and every later one) continue.
func (h *Hold) Release() { h.o2.Do(func() { close(h.release) }) }

// Resp is one programmed response.
type Resp struct {
	Status int
	// Header: extra header fields in order (Content-Type, Location, cf-mitigated ...).
	Header [][2]string
	// Entity is the entity body exactly as it goes on the wire after
	// transfer-decoding (already gzip-compressed when Encoding is "gzip").
	Entity []byte
	// Encoding "gzip" adds "Content-Encoding: gzip".
	Encoding string
	// Chunked selects "Transfer-Encoding: chunked" framing, otherwise Content-Length.
	Chunked   bool
	ChunkSize int // default 1000
	// Hold, when set, keeps the response open after the header and HoldAt
	// entity bytes have been sent (HoldAt < 0: before anything is sent, the
	// status line included).
	Hold   *Hold
	HoldAt int
	// AfterHold: what happens when the hold is released: "" = the rest of the
	// response is sent; "close" = the connection is closed (FIN) without the
	// rest; "reset" = the connection is reset (RST).
	AfterHold string
}

// Exchange is one logged request/response.
type Exchange struct {
	Seq        int         `json:"seq"`
	Time       time.Time   `json:"time"`
	Method     string      `json:"method"`
	URL        string      `json:"url"` // as requested: scheme://Host header + request target
	Path       string      `json:"path"`
	Attempt    int         `json:"attempt"` // 0-based attempt number for this path
	Status     int         `json:"status"`
	Header     [][2]string `json:"header,omitempty"`
	EntityLen  int64       `json:"entity_len"`
	EntitySHA1 string      `json:"entity_sha1"` // hex, of the entity bytes after transfer-decoding
	Encoding   string      `json:"encoding,omitempty"`
	Chunked    bool        `json:"chunked,omitempty"`
	WireLen    int64       `json:"wire_len"` // whole response message: status line + header + framed body
	Held       bool        `json:"held,omitempty"`
	Sent       bool        `json:"sent"`              // the whole response was written to the socket without an error
	Unknown    bool        `json:"unknown,omitempty"` // no route: answered 404
	Aborted    string      `json:"aborted,omitempty"` // the origin cut the connection on purpose: "close" or "reset"
}

// Origin is a programmable site on a loopback address.
type Origin struct {
	mu     sync.Mutex
	routes map[string][]Resp
	hits   map[string]int
	log    []*Exchange
	ln     net.Listener
	srv    *http.Server
	conns  map[net.Conn]struct{}
	closed bool
	// OnRequest, when set, is called (handler goroutine) before the response is written.
	OnRequest func(path string, attempt int)
}

// NewOrigin listens on ip:0 (ip e.g. "127.0.0.2").
func NewOrigin(ip string) (*Origin, error) {
	ln, err := net.Listen("tcp4", ip+":0")
	if err != nil {
		return nil, err
	}
	o := &Origin{routes: map[string][]Resp{}, hits: map[string]int{}, ln: ln, conns: map[net.Conn]struct{}{}}
	o.srv = &http.Server{Handler: http.HandlerFunc(o.serve), ConnState: func(c net.Conn, s http.ConnState) {
		o.mu.Lock()
		switch s {
		case http.StateNew:
			o.conns[c] = struct{}{}
		case http.StateClosed:
			delete(o.conns, c)
		}
		o.mu.Unlock()
	}}
	go o.srv.Serve(ln)
	return o, nil
}

// Addr is "ip:port".
func (o *Origin) Addr() string { return o.ln.Addr().String() }

// URL of a path on this origin.
func (o *Origin) URL(path string) string { return "http://" + o.Addr() + path }

// Handle programs a path (request target, query included): attempt i gets
// attempts[min(i, len-1)].
func (o *Origin) Handle(path string, attempts ...Resp) {
	o.mu.Lock()
	o.routes[path] = attempts
	o.mu.Unlock()
}

// Log returns a copy of the exchange log in arrival order.
func (o *Origin) Log() []Exchange {
	o.mu.Lock()
	defer o.mu.Unlock()
	out := make([]Exchange, len(o.log))
	for i, e := range o.log {
		out[i] = *e
	}
	return out
}

// Requests is the number of logged exchanges.
func (o *Origin) Requests() int {
	o.mu.Lock()
	defer o.mu.Unlock()
	return len(o.log)
}

// Close stops the server and cuts every open connection (held ones included).
func (o *Origin) Close() {
	o.mu.Lock()
	o.closed = true
	var cs []net.Conn
	for c := range o.conns {
		cs = append(cs, c)
	}
	o.mu.Unlock()
	o.srv.Close()
	for _, c := range cs {
		c.Close()
	}
}

func (o *Origin) serve(w http.ResponseWriter, r *http.Request) {
	target := r.URL.RequestURI()
	o.mu.Lock()
	rs, ok := o.routes[target]
	attempt := o.hits[target]
	o.hits[target]++
	var resp Resp
	if ok && len(rs) > 0 {
		if attempt < len(rs) {
			resp = rs[attempt]
		} else {
			resp = rs[len(rs)-1]
		}
	} else {
		resp = Resp{Status: 404, Header: [][2]string{{"Content-Type", "text/plain"}}, Entity: []byte("no such page\n")}
	}
	sum := sha1.Sum(resp.Entity)
	ex := &Exchange{Seq: len(o.log), Time: time.Now(), Method: r.Method, URL: "http://" + r.Host + target, Path: target, Attempt: attempt,
		Status: resp.Status, Header: resp.Header, EntityLen: int64(len(resp.Entity)), EntitySHA1: hex.EncodeToString(sum[:]),
		Encoding: resp.Encoding, Chunked: resp.Chunked, Unknown: !ok}
	o.log = append(o.log, ex)
	cb := o.OnRequest
	o.mu.Unlock()
	if cb != nil {
		cb(target, attempt)
	}

	hj, ok := w.(http.Hijacker)
	if !ok {
		panic("origin: no hijacker")
	}
	conn, bufrw, err := hj.Hijack()
	if err != nil {
		return
	}
	defer conn.Close()
	head := HeaderBytes(&resp)
	bw := bufrw.Writer
	wire := int64(0)
	write := func(b []byte) bool {
		n, err := bw.Write(b)
		wire += int64(n)
		return err == nil
	}
	okAll := true
	headSent := false
	sent := 0
	body := resp.Entity
	emit := func(part []byte) bool {
		if len(part) == 0 {
			return true
		}
		if !resp.Chunked {
			return write(part)
		}
		cs := resp.ChunkSize
		if cs <= 0 {
			cs = 1000
		}
		for len(part) > 0 {
			n := cs
			if n > len(part) {
				n = len(part)
			}
			if !write([]byte(strconv.FormatInt(int64(n), 16)+"\r\n")) || !write(part[:n]) || !write([]byte("\r\n")) {
				return false
			}
			part = part[n:]
		}
		return true
	}
	if resp.Hold != nil {
		at := resp.HoldAt
		if at > len(body) {
			at = len(body)
		}
		if at >= 0 {
			okAll = write(head) && emit(body[:at]) && bw.Flush() == nil
			headSent = true
			sent = at
		}
		o.mu.Lock()
		ex.Held = true
		o.mu.Unlock()
		resp.Hold.o1.Do(func() { close(resp.Hold.reached) })
		// wait for the release; a client that goes away ends the wait too
		gone := make(chan struct{})
		go func() {
			var one [1]byte
			conn.SetReadDeadline(time.Time{})
			conn.Read(one[:]) // returns on EOF / reset / Close
			close(gone)
		}()
		select {
		case <-resp.Hold.release:
		case <-gone:
			okAll = false
		}
		switch resp.AfterHold {
		case "close", "reset":
			if tc, ok := conn.(*net.TCPConn); ok && resp.AfterHold == "reset" {
				tc.SetLinger(0)
			}
			o.mu.Lock()
			ex.Sent, ex.WireLen, ex.Aborted = false, wire, resp.AfterHold
			o.mu.Unlock()
			return // the deferred Close cuts the connection
		}
	}
	if okAll && !headSent {
		okAll = write(head)
	}
	if okAll {
		okAll = emit(body[sent:])
	}
	if okAll && resp.Chunked {
		okAll = write([]byte("0\r\n\r\n"))
	}
	if okAll {
		okAll = bw.Flush() == nil
	}
	o.mu.Lock()
	ex.Sent = okAll
	ex.WireLen = wire
	o.mu.Unlock()
}

// HeaderBytes is the status line and header section the origin sends for a response.
func HeaderBytes(resp *Resp) []byte {
	var b bytes.Buffer
	fmt.Fprintf(&b, "HTTP/1.1 %d %s\r\n", resp.Status, http.StatusText(resp.Status))
	for _, kv := range resp.Header {
		fmt.Fprintf(&b, "%s: %s\r\n", kv[0], kv[1])
	}
	if resp.Encoding != "" {
		fmt.Fprintf(&b, "Content-Encoding: %s\r\n", resp.Encoding)
	}
	if resp.Status == 204 || resp.Status == 304 || resp.Status < 200 {
		// no message body and no framing header for these (RFC 9110)
	} else if resp.Chunked {
		b.WriteString("Transfer-Encoding: chunked\r\n")
	} else {
		fmt.Fprintf(&b, "Content-Length: %d\r\n", len(resp.Entity))
	}
	b.WriteString("Connection: close\r\n\r\n")
	return b.Bytes()
}

// WireLen is the length of the whole response message as sent.
func WireLen(resp *Resp) int {
	n := len(HeaderBytes(resp))
	if !resp.Chunked {
		return n + len(resp.Entity)
	}
	cs := resp.ChunkSize
	if cs <= 0 {
		cs = 1000
	}
	rest := len(resp.Entity)
	for rest > 0 {
		k := cs
		if k > rest {
			k = rest
		}
		n += len(strconv.FormatInt(int64(k), 16)) + 2 + k + 2
		rest -= k
	}
	return n + 5
}

// Gzip compresses b deterministically.
func Gzip(b []byte) []byte {
	var out bytes.Buffer
	zw, _ := gzip.NewWriterLevel(&out, gzip.BestSpeed)
	zw.Write(b)
	zw.Close()
	return out.Bytes()
}

// SHA1Hex of a byte slice.
func SHA1Hex(b []byte) string {
	s := sha1.Sum(b)
	return hex.EncodeToString(s[:])
}

// HTMLPage builds a page whose <img> and <a> elements reference the given URLs.
func HTMLPage(title string, assets, links []string) []byte {
	var b bytes.Buffer
	fmt.Fprintf(&b, "<!DOCTYPE html>\n<html><head><title>%s</title></head><body>\n", title)
	for _, a := range assets {
		fmt.Fprintf(&b, "<img src=\"%s\">\n", a)
	}
	for _, l := range links {
		fmt.Fprintf(&b, "<a href=\"%s\">link</a>\n", l)
	}
	b.WriteString("</body></html>\n")
	return b.Bytes()
}

// SortedPaths of the exchange log (diagnostics).
func SortedPaths(log []Exchange) []string {
	var out []string
	for _, e := range log {
		out = append(out, fmt.Sprintf("%s#%d=%d", e.Path, e.Attempt, e.Status))
	}
	sort.Strings(out)
	return out
}

var _ = bufio.NewReader

// ReleaseIfSet releases a hold that may be nil.
func (h *Hold) ReleaseIfSet() {
	if h != nil {
		h.Release()
	}
}
