package e2e

import (
	"database/sql"
	"fmt"
	"hash/fnv"
	"io"
	"os"
	"path/filepath"
	"sort"
	"strconv"
	"strings"

	_ "github.com/ncruces/go-sqlite3/driver"
	_ "github.com/ncruces/go-sqlite3/embed"
	"github.com/philippgille/gokv/leveldb"
)

// LQRow is one row of the local queue's table `urls`.
type LQRow struct {
	ID     string `json:"id"`
	Value  string `json:"value"`
	Via    string `json:"via,omitempty"`
	Hops   int64  `json:"hops"`
	Status string `json:"status"`
}

// fallback copy of /repo/internal/pkg/source/lq/schema.sql (the file of the tree under test is preferred)
const lqSchemaFallback = `CREATE TABLE IF NOT EXISTS urls (
    id TEXT NOT NULL PRIMARY KEY,
    value TEXT NOT NULL,
    via TEXT DEFAULT '' NOT NULL,
    hops INTEGER NOT NULL DEFAULT 0,
    status TEXT NOT NULL DEFAULT 'FRESH' CHECK (status IN ('FRESH', 'CLAIMED', 'DONE')),
    timestamp INTEGER NOT NULL DEFAULT (strftime('%s', 'now'))
);
CREATE UNIQUE INDEX IF NOT EXISTS urls_value ON urls (value);
CREATE INDEX IF NOT EXISTS urls_status ON urls (status);
`

func lqSchema() string {
	repo := os.Getenv("VERIF_REPO")
	if repo == "" {
		repo = "/repo"
	}
	if b, err := os.ReadFile(filepath.Join(repo, "internal/pkg/source/lq/schema.sql")); err == nil && len(b) > 0 {
		return string(b)
	}
	return lqSchemaFallback
}

// PreloadLQ creates <dir>/jobs/<job>/lq.db with the given rows (status FRESH unless set).
func PreloadLQ(dir, job string, rows []LQRow) error {
	jp := filepath.Join(dir, "jobs", job)
	if err := os.MkdirAll(jp, 0o755); err != nil {
		return err
	}
	db, err := sql.Open("sqlite3", "file:"+filepath.Join(jp, "lq.db"))
	if err != nil {
		return err
	}
	defer db.Close()
	if _, err := db.Exec(lqSchema()); err != nil {
		return err
	}
	for _, r := range rows {
		st := r.Status
		if st == "" {
			st = "FRESH"
		}
		if _, err := db.Exec(`INSERT INTO urls (id, value, via, hops, status) VALUES (?, ?, ?, ?, ?)`, r.ID, r.Value, r.Via, r.Hops, st); err != nil {
			return err
		}
	}
	return nil
}

func copyFile(src, dst string) error {
	in, err := os.Open(src)
	if err != nil {
		return err
	}
	defer in.Close()
	out, err := os.Create(dst)
	if err != nil {
		return err
	}
	defer out.Close()
	_, err = io.Copy(out, in)
	return err
}

// ReadLQ reads the rows of <dir>/jobs/<job>/lq.db as a process opening the
// job would see them. It works on a private copy (a hot journal left by a
// killed process is rolled back in the copy, the job directory is not touched).
func ReadLQ(dir, job string) ([]LQRow, error) {
	jp := filepath.Join(dir, "jobs", job)
	if _, err := os.Stat(filepath.Join(jp, "lq.db")); err != nil {
		return nil, err
	}
	tmp, err := os.MkdirTemp(dir, "lqcopy-")
	if err != nil {
		return nil, err
	}
	defer os.RemoveAll(tmp)
	ms, _ := filepath.Glob(filepath.Join(jp, "lq.db*"))
	for _, m := range ms {
		if err := copyFile(m, filepath.Join(tmp, filepath.Base(m))); err != nil {
			return nil, err
		}
	}
	db, err := sql.Open("sqlite3", "file:"+filepath.Join(tmp, "lq.db"))
	if err != nil {
		return nil, err
	}
	defer db.Close()
	rs, err := db.Query(`SELECT id, value, via, hops, status FROM urls ORDER BY value`)
	if err != nil {
		return nil, err
	}
	defer rs.Close()
	var out []LQRow
	for rs.Next() {
		var r LQRow
		if err := rs.Scan(&r.ID, &r.Value, &r.Via, &r.Hops, &r.Status); err != nil {
			return nil, err
		}
		out = append(out, r)
	}
	return out, rs.Err()
}

// SeenHash is the key Zeno's local seencheck uses for a URL string.
// CheckLQ runs SQLite's integrity check on a copy of the queue database (and its journal, which is replayed
// the way the next start of the job would): "ok", or what is wrong with it.
func CheckLQ(dir, job string) (string, error) {
	jp := filepath.Join(dir, "jobs", job)
	tmp, err := os.MkdirTemp(dir, "lqcheck-")
	if err != nil {
		return "", err
	}
	defer os.RemoveAll(tmp)
	ms, _ := filepath.Glob(filepath.Join(jp, "lq.db*"))
	for _, m := range ms {
		if err := copyFile(m, filepath.Join(tmp, filepath.Base(m))); err != nil {
			return "", err
		}
	}
	db, err := sql.Open("sqlite3", "file:"+filepath.Join(tmp, "lq.db"))
	if err != nil {
		return "", err
	}
	defer db.Close()
	rs, err := db.Query(`PRAGMA integrity_check`)
	if err != nil {
		return err.Error(), nil
	}
	defer rs.Close()
	var out []string
	for rs.Next() {
		var l string
		if err := rs.Scan(&l); err != nil {
			return err.Error(), nil
		}
		out = append(out, l)
	}
	if err := rs.Err(); err != nil {
		return err.Error(), nil
	}
	if len(out) > 4 {
		out = out[:4]
	}
	return strings.Join(out, "; "), nil
}

func SeenHash(u string) string {
	h := fnv.New64a()
	h.Write([]byte(u))
	return strconv.FormatUint(h.Sum64(), 10)
}

// ReadSeen tells, for each URL, the value stored for it in the job's local
// seencheck store ("seed", "asset") or "" when absent. Works on a private copy.
func ReadSeen(dir, job string, urls []string) (map[string]string, error) {
	src := filepath.Join(dir, "jobs", job, "seencheck")
	out := map[string]string{}
	es, err := os.ReadDir(src)
	if err != nil {
		if os.IsNotExist(err) {
			return out, nil
		}
		return nil, err
	}
	tmp, err := os.MkdirTemp(dir, "seencopy-")
	if err != nil {
		return nil, err
	}
	defer os.RemoveAll(tmp)
	for _, e := range es {
		if e.Name() == "LOCK" || !e.Type().IsRegular() {
			continue
		}
		if err := copyFile(filepath.Join(src, e.Name()), filepath.Join(tmp, e.Name())); err != nil {
			return nil, err
		}
	}
	st, err := leveldb.NewStore(leveldb.Options{Path: tmp})
	if err != nil {
		return nil, fmt.Errorf("seencheck copy does not open: %v", err)
	}
	defer st.Close()
	sort.Strings(urls)
	for _, u := range urls {
		var v string
		found, err := st.Get(SeenHash(u), &v)
		if err != nil {
			return nil, err
		}
		if found {
			out[u] = v
		}
	}
	return out, nil
}
