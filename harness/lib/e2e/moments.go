package e2e

// The stop moments shared by C03 part B (SIGTERM) and C04 (controler.Stop() followed by a restart).

const (
	StallMoment    = "mid-fetch: the origin never completes the response"
	StartupMoment  = "during start-up: SIGTERM before controler.WatchSignals() is reached"
	StartupMoment2 = "during start-up: controler.Start() waits for a reactor token for the second command-line seed (one worker), SIGTERM while the first is fetched"
	DrainedMoment  = "drained: every seed finished"
)

// Moment is one enumerated stop moment: the point (file + operand text, never
// a line number) whose N-th hit requests the stop, or a moment owned by the
// parent (mid-fetch: the origin holds a response open).
type Moment struct {
	Name    string   `json:"name"`
	Match   []string `json:"match,omitempty"`
	Pre     []string `json:"pre,omitempty"`      // actions before the SIGTERM (pause)
	Early   bool     `json:"early,omitempty"`    // hit on the main goroutine inside controler.Start(): SIGTERM without waiting for WatchSignals
	Hold    string   `json:"hold,omitempty"`     // the origin holds a response open, the parent requests the stop, and once the stop sequence has begun: "release" completes the response, "reset" resets the connection before any response byte, "cut" closes it after half of a Content-Length body, "discard" then answers 429, "stall" never answers
	PauseAt []string `json:"pause_at,omitempty"` // a first trigger that pauses the pipeline (for the acknowledged-pause moment)
	Quick   bool     `json:"quick,omitempty"`
	Needs   string   `json:"needs,omitempty"` // configuration the point exists in: "seencheck", "sync"
	Slow    bool     `json:"slow,omitempty"`  // the point is only reached after one of the 5 s tickers of the queue adapter
}

var StopMoments = []Moment{
	// idle, before the first fetch
	{Name: "idle: preprocessor worker waits for its first seed", Match: []string{"preprocessor/preprocessor.go", "recv p.inputCh"}, Quick: true},
	{Name: "lq consumer fetches fresh URLs (claim transaction begins)", Match: []string{"source/lq/client.go", "call qtx.GetFreshURLs"}},
	{Name: "lq claims a URL", Match: []string{"source/lq/client.go", "call qtx.ClaimThisURL"}},
	{Name: "lq commits a transaction", Match: []string{"source/lq/client.go", "call tx.Commit"}, Quick: true},
	{Name: "lq consumer hands a claimed URL to the sender", Match: []string{"source/lq/consumer.go", "send urlBuffer"}},
	{Name: "reactor insert accepted (token taken)", Match: []string{"reactor/reactor.go", "Map.LoadOrStore"}},
	{Name: "reactor forwards a seed to the preprocessor", Match: []string{"reactor/reactor.go", "send r.output"}},
	// preprocessor
	{Name: "preprocessor seenchecks an item", Match: []string{"seencheck/seencheck.go", "call globalSeencheck.DB.Get"}, Needs: "seencheck"},
	{Name: "preprocessor forwards the seed", Match: []string{"preprocessor/preprocessor.go", "send p.outputCh"}},
	// archiver
	{Name: "archiver takes an item (before client.Do)", Match: []string{"archiver/archiver.go", "send guard"}, Quick: true},
	{Name: "archiver item goroutine starts", Match: []string{"archiver/archiver.go", "go func"}},
	{Name: "mid-fetch: the origin holds the response open, released after the stop has begun", Hold: "release", Quick: true},
	{Name: "mid-fetch: the origin resets the connection before any response, after the stop has begun", Hold: "reset", Quick: true},
	{Name: "mid-fetch: the origin closes the connection after half of a Content-Length body, after the stop has begun", Hold: "cut", Quick: true},
	{Name: "mid-fetch: a response the discard policy rejects (429) arrives after the stop has begun", Hold: "discard", Quick: true},
	{Name: "body processed, waiting for the WARC writer's feedback", Match: []string{"archiver/archiver.go", "recv feedbackChan"}, Needs: "sync", Quick: true},
	{Name: "archiver item done (after client.Do and the WARC write)", Match: []string{"archiver/archiver.go", "recv guard"}},
	{Name: "archiver forwards the seed", Match: []string{"archiver/archiver.go", "send a.outputCh"}},
	// postprocessor, finisher, feedback
	{Name: "postprocessor forwards an outlink or the seed", Match: []string{"postprocessor/postprocessor.go", "send p.outputCh"}},
	{Name: "finisher hands an outlink to the source", Match: []string{"finisher/finisher.go", "send f.sourceProducedCh"}},
	{Name: "feedback: seed with fresh children goes back to the reactor", Match: []string{"reactor/reactor.go", "Map.Swap"}},
	{Name: "finisher before MarkAsFinished", Match: []string{"reactor/reactor.go", "Map.LoadAndDelete"}},
	{Name: "finisher after MarkAsFinished, before the finish message", Match: []string{"finisher/finisher.go", "send f.sourceFinishedCh"}, Quick: true},
	{Name: "lq finisher dispatches a batch of finished seeds", Match: []string{"source/lq/finisher.go", "send senderSemaphore"}},
	{Name: "lq deletes a finished URL", Match: []string{"source/lq/client.go", "call qtx.DeleteURL"}},
	{Name: "lq producer adds the outlinks to the queue (after its 5 s ticker)", Match: []string{"source/lq/client.go", "call qtx.AddURL"}, Slow: true},
	// paused
	{Name: "paused while an item is about to be fetched, then stop", Match: []string{"archiver/archiver.go", "send guard"}, Pre: []string{"pause"}, Quick: true},
	{Name: "paused while idle, then stop", Match: []string{"preprocessor/preprocessor.go", "recv p.inputCh"}, Pre: []string{"pause"}},
	{Name: "a worker acknowledged the pause, then stop", Match: []string{"send controlChans.ResumeCh"}, PauseAt: []string{"archiver/archiver.go", "send guard"}},
	// after the drain
	{Name: DrainedMoment, Quick: true},
	// a stalled server (thorough only): the response is never completed
	{Name: StallMoment, Hold: "stall"},
	// before the CLI listens to signals (one configuration only)
	{Name: StartupMoment2, Match: []string{"archiver/archiver.go", "send guard"}, Early: true},
	{Name: StartupMoment, Match: []string{"finisher/finisher.go", "go globalFinisher.worker"}, Early: true},
}

func MomentByName(n string) *Moment {
	for i := range StopMoments {
		if StopMoments[i].Name == n {
			return &StopMoments[i]
		}
	}
	return nil
}
