package e2e

import (
	"encoding/json"
	"fmt"
	"io"
	"os"
	"os/signal"
	"path/filepath"
	"runtime"
	"sort"
	"strconv"
	"strings"
	"sync"
	"sync/atomic"
	"syscall"
	"time"

	"github.com/internetarchive/Zeno/internal/pkg/config"
	"github.com/internetarchive/Zeno/internal/pkg/controler"
	"github.com/internetarchive/Zeno/internal/pkg/controler/pause"
	"github.com/internetarchive/Zeno/internal/verif/vrt/vsched"
)

// Conf is the part of Zeno's configuration a case chooses; everything else
// gets the CLI default.
type Conf struct {
	Job                 string   `json:"job"`
	Workers             int      `json:"workers"`
	MaxConcurrentAssets int      `json:"max_concurrent_assets"`
	MaxHops             int      `json:"max_hops"`
	MaxRetry            int      `json:"max_retry"`
	WARCPoolSize        int      `json:"warc_pool_size"`
	WARCOnDisk          bool     `json:"warc_on_disk"`
	DisableLocalDedupe  bool     `json:"disable_local_dedupe"`
	WARCDedupeSize      int      `json:"warc_dedupe_size"` // 0 = CLI default 1024
	WARCWriteAsync      bool     `json:"async_warc_write"`
	WARCDiscardStatus   []int    `json:"warc_discard_status"` // nil = CLI default [429]
	Proxy               string   `json:"proxy"`
	DisableRateLimit    bool     `json:"disable_rate_limit"`
	DisableSeencheck    bool     `json:"disable_seencheck"`
	InputSeeds          []string `json:"input_seeds"`
	// MinSpaceRequired: --min-space-required in GiB (0 = the harness default of 0.001, so that a sandbox disk never pauses a run)
	MinSpaceRequired float64 `json:"min_space_required,omitempty"`
	// WARCTempDir: --warc-temp-dir ("" = the default, <job>/temp)
	WARCTempDir string `json:"warc_temp_dir,omitempty"`
	// DomainsCrawl: --domains-crawl patterns
	DomainsCrawl []string `json:"domains_crawl,omitempty"`
}

func (c Conf) String() string {
	return fmt.Sprintf("w%d a%d pool%d disk=%v dedupe=%v async=%v proxy=%v limiter=%v seencheck=%v", c.Workers, c.MaxConcurrentAssets, c.WARCPoolSize,
		c.WARCOnDisk, !c.DisableLocalDedupe, c.WARCWriteAsync, c.Proxy != "", !c.DisableRateLimit, !c.DisableSeencheck)
}

// Build gives the full configuration: the CLI defaults of `Zeno get url` plus the case's choices.
func (c Conf) Build() *config.Config {
	cfg := &config.Config{
		Job:                       c.Job,
		WorkersCount:              or(c.Workers, 1),
		MaxConcurrentAssets:       or(c.MaxConcurrentAssets, 1),
		MaxHops:                   c.MaxHops,
		MaxRedirect:               20,
		MaxRetry:                  c.MaxRetry,
		HTTPTimeout:               -1,
		HTTPReadDeadline:          60,
		WARCPrefix:                "ZENO",
		WARCPoolSize:              or(c.WARCPoolSize, 1),
		WARCQueueSize:             -1,
		WARCSize:                  1024,
		WARCDedupeSize:            or(c.WARCDedupeSize, 1024),
		WARCOnDisk:                c.WARCOnDisk,
		DisableLocalDedupe:        c.DisableLocalDedupe,
		WARCWriteAsync:            c.WARCWriteAsync,
		WARCDiscardStatus:         c.WARCDiscardStatus,
		Proxy:                     c.Proxy,
		DisableRateLimit:          c.DisableRateLimit,
		RateLimitCapacity:         150,
		RateLimitRefillRate:       50,
		RateLimitCleanupFrequency: 5 * time.Minute,
		DisableSeencheck:          c.DisableSeencheck,
		MinSpaceRequired:          0.001,
		NoStdoutLogging:           true,
		NoStderrLogging:           true,
		NoFileLogging:             false,
		LogFileLevel:              "debug",
		LogFilePrefix:             "ZENO",
		LogFileRotation:           "1h",
		StdoutLogLevel:            "info",
		TUILogLevel:               "info",
		APIPort:                   9090,
		PrometheusPrefix:          "zeno_",
		ConsulPort:                "8500",
		InputSeeds:                c.InputSeeds,
	}
	if cfg.WARCDiscardStatus == nil {
		cfg.WARCDiscardStatus = []int{429}
	}
	if c.MinSpaceRequired > 0 {
		cfg.MinSpaceRequired = c.MinSpaceRequired
	}
	cfg.WARCTempDir = c.WARCTempDir
	cfg.DomainsCrawl = c.DomainsCrawl
	return cfg
}

func or(v, d int) int {
	if v == 0 {
		return d
	}
	return v
}

// Trigger: at the N-th hit of the point whose id contains every string of
// Match, perform the actions of Do, in order, on the goroutine that hit the
// point and BEFORE the operation of the point.
//
// Actions:
//
//	sizes:<file>   write {file name: size} of jobs/<job>/warcs to <file> (N == 0: one JSON line per hit)
//	copy:<dir>     copy jobs/<job>/warcs (and lq.db*) into <dir>
//	hits:<file>    write the profile (point id -> hits so far)
//	pause          pause.Pause("verif")
//	sigterm        wait until controler.WatchSignals() listens, send SIGTERM to this process, then hold this goroutine
//	               until the stop sequence has begun (at most 2 s)
//	sigterm-now    the same without waiting for WatchSignals
//	stop           ask the main goroutine to call controler.Stop(), then hold likewise
//	sigkill        SIGKILL this process
//	sigkill-after:<us>  SIGKILL this process <us> microseconds later, while the goroutine goes on into the operation
//	mark:<text>    append a line to the event file
type Trigger struct {
	Name  string   `json:"name"`
	Match []string `json:"match,omitempty"`
	// Key, when set, selects the point exactly: the id with its line number removed (PointKey).
	Key string   `json:"key,omitempty"`
	N   int      `json:"n"` // 0 = every hit
	Do  []string `json:"do"`
}

// ChildSpec describes one child run.
type ChildSpec struct {
	Dir  string `json:"dir"` // scratch directory; the child's working directory
	Conf Conf   `json:"conf"`
	// Mode "drain": Start, wait until the work is done, Stop, exit 0.
	// Mode "signals": Start, then controler.WatchSignals() exactly as the CLI.
	Mode           string `json:"mode"`
	ExpectFinished int    `json:"expect_finished"` // number of finish messages that mean "all work done"
	// Quiesce (drain mode, local queue): instead of counting to ExpectFinished, wait until the queue is drained.
	Quiesce bool `json:"quiesce"`
	// IgnoreOutlinks: quiescence does not wait for outlinks that are still in the producer's 5 s batch (they are lost at the stop).
	IgnoreOutlinks bool      `json:"ignore_outlinks"`
	StaleClaimed   int       `json:"stale_claimed"` // rows that were already CLAIMED before this run started
	DeadlineS      int       `json:"deadline_s"`    // drain deadline, default 60
	WatchdogS      int       `json:"watchdog_s"`    // hard cap of the parent on this run, default 60
	Profile        bool      `json:"profile"`
	Triggers       []Trigger `json:"triggers"`
	// FallbackStop (signals mode): when no stopping trigger has fired FallbackMS after all work was done, SIGTERM anyway.
	FallbackMS int `json:"fallback_ms"`
	// KillAtPwrite > 0: the child runs under strace, which delivers SIGKILL at the n-th pwrite64 system call of the
	// process (SQLite writes its pages and its rollback journal that way): a kill between two page writes of a commit.
	// PwriteLog: the child runs under strace, which logs every pwrite64 call to that file (to count them).
	KillAtPwrite int    `json:"kill_at_pwrite,omitempty"`
	PwriteLog    string `json:"pwrite_log,omitempty"`
	// Footprint (drain mode): when the work is done and before the stop, idle connections are closed, the process is
	// given time to settle (goroutine count unchanged for 600 ms, at most 15 s) and an event line
	// "footprint goroutines=<n> fds=<n> tempfiles=<n> settled=<bool>" is written.
	Footprint bool `json:"footprint,omitempty"`
	// MinSpaceAfterStart > 0: --min-space-required is set to this value (GiB) as soon as controler.Start() has returned
	// (for the running guard this is the job's volume filling up to below the threshold after an admitted start).
	MinSpaceAfterStart float64 `json:"min_space_after_start,omitempty"`
	// PauseProbeMS > 0 (drain mode): that long after the start an event line "pause-probe paused=<bool>" is written.
	PauseProbeMS int `json:"pause_probe_ms,omitempty"`
}

// BeforeFootprint is installed by harnesses: called before the footprint is taken (closes idle connections).
var BeforeFootprint func()

// footprint: goroutines, open file descriptors, files under the job's temp directory.
func (c *childState) footprint() {
	if BeforeFootprint != nil {
		BeforeFootprint()
	}
	last, since, settled := -1, time.Now(), false
	for end := time.Now().Add(15 * time.Second); time.Now().Before(end); time.Sleep(50 * time.Millisecond) {
		if n := runtime.NumGoroutine(); n != last {
			last, since = n, time.Now()
		} else if time.Since(since) >= 600*time.Millisecond {
			settled = true
			break
		}
	}
	fds := 0
	if es, err := os.ReadDir("/proc/self/fd"); err == nil {
		fds = len(es) - 1 // the directory handle of this very listing
	}
	temp := 0
	filepath.WalkDir(filepath.Join("jobs", c.spec.Conf.Job, "temp"), func(_ string, d os.DirEntry, err error) error {
		if err == nil && !d.IsDir() {
			temp++
		}
		return nil
	})
	c.event("footprint goroutines=%d fds=%d tempfiles=%d settled=%v", last, fds, temp, settled)
	if os.Getenv("VERIF_FOOTPRINT_STACKS") != "" {
		buf := make([]byte, 1<<20)
		os.WriteFile("stacks.txt", buf[:runtime.Stack(buf, true)], 0o644)
	}
}

// Points used by the engine itself.
var (
	PointFinish    = []string{"finisher/finisher.go", "send f.sourceFinishedCh"}
	PointProduced  = []string{"finisher/finisher.go", "send f.sourceProducedCh"}
	PointLQDelete  = []string{"source/lq/client.go", "DeleteURL"}
	PointLQAdd     = []string{"source/lq/client.go", "AddURL"}
	PointStopBegun = []string{"controler/watchers/disk.go", "ctx.cancel"}
	// the select of controler.WatchSignals: once it is hit, signal.Notify has been called
	PointSignalsWatched = []string{"controler/signal.go", "select recv signalWatcherCtx.Done()"}
)

// QueueState is installed by harnesses that use the local queue (c04): rows by status, read through Zeno's own connection.
var QueueState func() (fresh, claimed int, err error)

// ReactorTracked is installed by harnesses: number of seeds in the reactor's state table.
var ReactorTracked func() int

// ExitEngine is the exit status of a child that gave up for a reason of the harness (never a verdict).
const ExitEngine = 97

// IsChild reports whether this process was started as a child (argv: --child <spec.json>).
func IsChild() bool { return len(os.Args) >= 3 && os.Args[1] == "--child" }

type childState struct {
	spec      *ChildSpec
	evMu      sync.Mutex
	ev        *os.File
	finished  atomic.Int64
	produced  atomic.Int64
	deleted   atomic.Int64
	added     atomic.Int64
	stopBegun chan struct{}
	stopOnce  sync.Once
	watched   chan struct{} // closed when WatchSignals has installed its handler
	watchOnce sync.Once
	stopReq   chan struct{} // closed when a trigger asked for controler.Stop()
	stopReqO  sync.Once
	stopFired atomic.Bool
	t0        time.Time
}

func (c *childState) event(format string, a ...any) {
	c.evMu.Lock()
	fmt.Fprintf(c.ev, "%.3f "+format+"\n", append([]any{time.Since(c.t0).Seconds()}, a...)...)
	c.evMu.Unlock()
}

func (t *Trigger) matches(id string) bool {
	if t.Key != "" {
		return PointKey(id) == t.Key
	}
	return match(id, t.Match)
}

func match(id string, subs []string) bool {
	for _, s := range subs {
		if !strings.Contains(id, s) {
			return false
		}
	}
	return true
}

// ChildMain runs the child side; it never returns.
func ChildMain() {
	b, err := os.ReadFile(os.Args[2])
	if err != nil {
		fmt.Fprintf(os.Stderr, "child: %v\n", err)
		os.Exit(3)
	}
	spec := &ChildSpec{}
	if err := json.Unmarshal(b, spec); err != nil {
		fmt.Fprintf(os.Stderr, "child: %v\n", err)
		os.Exit(3)
	}
	if err := os.Chdir(spec.Dir); err != nil {
		fmt.Fprintf(os.Stderr, "child: %v\n", err)
		os.Exit(3)
	}
	c := &childState{spec: spec, stopBegun: make(chan struct{}), watched: make(chan struct{}), stopReq: make(chan struct{}), t0: time.Now()}
	c.ev, err = os.OpenFile("events.log", os.O_CREATE|os.O_WRONLY|os.O_APPEND, 0o644)
	if err != nil {
		fmt.Fprintf(os.Stderr, "child: %v\n", err)
		os.Exit(3)
	}
	config.VerifSet(spec.Conf.Build())
	if err := config.GenerateCrawlConfig(); err != nil {
		fmt.Fprintf(os.Stderr, "child: GenerateCrawlConfig: %v\n", err)
		os.Exit(3)
	}
	if spec.Profile {
		vsched.Profile.Store(true)
	}
	allDone := make(chan struct{})
	var doneOnce sync.Once
	for i := range spec.Triggers {
		t := spec.Triggers[i]
		if t.N == 0 {
			vsched.OnPoint(func(id string) bool {
				if t.matches(id) {
					c.fire(&t, id)
				}
				return false
			}, 1, func() {})
			continue
		}
		var lastID atomic.Value
		vsched.OnPoint(func(id string) bool {
			if t.matches(id) {
				lastID.Store(id)
				return true
			}
			return false
		}, t.N, func() {
			id, _ := lastID.Load().(string)
			c.fire(&t, id)
		})
	}
	// engine counters (every hit; the match function does the counting and never fires). Registered after the
	// case's triggers: triggers run in registration order, so a snapshot taken at the finish point is complete
	// before the main goroutine learns that all work is done.
	vsched.OnPoint(func(id string) bool {
		switch {
		case match(id, PointFinish):
			n := c.finished.Add(1)
			c.event("finish-message %d", n) // the n-th finish message is about to be sent to the source
			if int(n) == spec.ExpectFinished && !spec.Quiesce {
				// the n-th finish message is about to be sent
				doneOnce.Do(func() { close(allDone) })
			}
		case match(id, PointProduced):
			c.produced.Add(1)
		case match(id, PointLQDelete):
			c.deleted.Add(1)
		case match(id, PointLQAdd):
			c.added.Add(1)
		case match(id, PointStopBegun):
			c.stopOnce.Do(func() { c.event("stop-begun"); close(c.stopBegun) })
		case match(id, PointSignalsWatched):
			c.watchOnce.Do(func() { c.event("signals-watched"); close(c.watched) })
		}
		return false
	}, 1, func() {})
	if spec.Mode != "signals" {
		// the parent can ask for controler.Stop() with SIGUSR1 (moments it owns, e.g. while the origin holds a response)
		usr := make(chan os.Signal, 1)
		signal.Notify(usr, syscall.SIGUSR1)
		go func() {
			<-usr
			c.event("stop requested by the parent (SIGUSR1)")
			c.stopFired.Store(true)
			c.stopReqO.Do(func() { close(c.stopReq) })
		}()
	}
	c.event("starting mode=%s conf=%s", spec.Mode, spec.Conf)
	controler.Start()
	c.event("started")
	if spec.MinSpaceAfterStart > 0 {
		config.Get().MinSpaceRequired = spec.MinSpaceAfterStart
	}

	switch spec.Mode {
	case "signals":
		if spec.FallbackMS > 0 {
			go func() {
				<-allDone
				time.Sleep(time.Duration(spec.FallbackMS) * time.Millisecond)
				if !c.stopFired.Load() {
					c.event("fallback: no stopping trigger fired, SIGTERM after the drain")
					c.writeHits("hits.json")
					syscall.Kill(os.Getpid(), syscall.SIGTERM)
				}
			}()
		}
		controler.WatchSignals() // exits the process
		c.event("WatchSignals returned")
		os.Exit(4)
	default:
		if spec.PauseProbeMS > 0 {
			time.Sleep(time.Duration(spec.PauseProbeMS) * time.Millisecond)
			c.event("pause-probe paused=%v", pause.IsPaused())
		}
		deadline := time.Duration(or(spec.DeadlineS, 60)) * time.Second
		timeout := time.After(deadline)
		status := "drained"
		if spec.Quiesce {
			if !c.waitQuiescent(deadline) {
				status = "drain-deadline"
			}
		} else {
			select {
			case <-allDone:
			case <-c.stopReq:
			case <-timeout:
				status = "drain-deadline"
			}
		}
		select {
		case <-c.stopReq:
			status = "stop-requested"
		default:
		}
		c.event("work: %s finished=%d produced=%d added=%d deleted=%d", status, c.finished.Load(), c.produced.Load(), c.added.Load(), c.deleted.Load())
		c.writeHits("hits-prestop.json")
		if spec.Footprint {
			c.footprint()
		}
		controler.Stop()
		c.event("stop-returned")
		c.writeHits("hits.json")
		os.Exit(0)
	}
}

func (c *childState) waitQuiescent(deadline time.Duration) bool {
	end := time.Now().Add(deadline)
	for time.Now().Before(end) {
		select {
		case <-c.stopReq:
			return true
		case <-time.After(100 * time.Millisecond):
		}
		if (!c.spec.IgnoreOutlinks && c.produced.Load() != c.added.Load()) || c.finished.Load() != c.deleted.Load() {
			continue
		}
		if ReactorTracked != nil && ReactorTracked() != 0 {
			continue
		}
		if QueueState != nil {
			fresh, claimed, err := QueueState()
			if err != nil || fresh != 0 || claimed > c.spec.StaleClaimed {
				continue
			}
		}
		// the counters are read again: nothing moved while the queue was inspected
		if (c.spec.IgnoreOutlinks || c.produced.Load() == c.added.Load()) && c.finished.Load() == c.deleted.Load() {
			return true
		}
	}
	return false
}

func (c *childState) writeHits(file string) {
	if !c.spec.Profile {
		return
	}
	b, _ := json.Marshal(vsched.Hits())
	os.WriteFile(file, b, 0o644)
}

func (c *childState) warcDir() string { return filepath.Join("jobs", c.spec.Conf.Job, "warcs") }

func (c *childState) fire(t *Trigger, id string) {
	c.event("trigger %q at %s", t.Name, id)
	for _, a := range t.Do {
		arg := ""
		if i := strings.IndexByte(a, ':'); i >= 0 {
			a, arg = a[:i], a[i+1:]
		}
		switch a {
		case "sizes":
			m := DirSizes(c.warcDir())
			b, _ := json.Marshal(m)
			f, err := os.OpenFile(arg, os.O_CREATE|os.O_WRONLY|os.O_APPEND, 0o644)
			if err == nil {
				f.Write(append(b, '\n'))
				f.Close()
			}
		case "copy":
			CopyJobState(filepath.Join("jobs", c.spec.Conf.Job), arg)
		case "hits":
			c.writeHits(arg)
		case "pause":
			pause.Pause("verif")
		case "mark":
			c.event("mark %s", arg)
		case "sigterm", "sigterm-now":
			c.stopFired.Store(true)
			c.writeHits("hits.json")
			if a == "sigterm" {
				// the CLI installs its handler right after controler.Start(): a signal before that is
				// not a stop request Zeno can see (that window has its own moment, sigterm-now)
				select {
				case <-c.watched:
				default:
					if onMainGoroutine() {
						// the point was hit by controler.Start() itself: the closest stop request that
						// exists is the one delivered as soon as WatchSignals listens
						c.event("point hit inside controler.Start(): SIGTERM as soon as WatchSignals listens")
						go func() {
							<-c.watched
							c.event("SIGTERM")
							syscall.Kill(os.Getpid(), syscall.SIGTERM)
						}()
						continue
					}
					select {
					case <-c.watched:
					case <-time.After(40 * time.Second):
						// never turn a slow start-up into a signal Zeno cannot see: give up on the case
						c.event("engine-abort: controler.WatchSignals() not reached within 40 s of the trigger")
						os.Exit(ExitEngine)
					}
				}
			}
			c.event("SIGTERM")
			syscall.Kill(os.Getpid(), syscall.SIGTERM)
			c.holdUntilStopBegun()
		case "stop":
			c.stopFired.Store(true)
			c.stopReqO.Do(func() { close(c.stopReq) })
			c.holdUntilStopBegun()
		case "sigkill":
			c.event("SIGKILL")
			syscall.Kill(os.Getpid(), syscall.SIGKILL)
			select {}
		case "sigkill-after":
			// the kill lands inside the operation that follows the point (a library call): arg = delay in microseconds
			us, _ := strconv.Atoi(arg)
			c.event("SIGKILL in %d us", us)
			go func() {
				time.Sleep(time.Duration(us) * time.Microsecond)
				syscall.Kill(os.Getpid(), syscall.SIGKILL)
			}()
		}
	}
}

func onMainGoroutine() bool {
	var b [32]byte
	n := runtime.Stack(b[:], false)
	return strings.HasPrefix(string(b[:n]), "goroutine 1 [")
}

func (c *childState) holdUntilStopBegun() {
	select {
	case <-c.stopBegun:
	case <-time.After(2 * time.Second):
		c.event("stop sequence not seen to begin within 2 s of the request")
	}
}

// DirSizes maps file name to size for a directory (empty when it does not exist).
func DirSizes(dir string) map[string]int64 {
	for try := 0; ; try++ {
		out := map[string]int64{}
		es, err := os.ReadDir(dir)
		if err != nil {
			return out
		}
		clean := true
		for _, e := range es {
			fi, err := e.Info()
			if err != nil {
				clean = false // renamed or removed between the listing and the stat: list again
				continue
			}
			if fi.Mode().IsRegular() {
				out[e.Name()] = fi.Size()
			}
		}
		if clean || try == 5 {
			return out
		}
	}
}

// CopyJobState copies warcs/*, lq.db* and the seencheck directory of a job directory.
func CopyJobState(job, dst string) error {
	os.MkdirAll(dst, 0o755)
	var firstErr error
	cp := func(src, dst string) {
		in, err := os.Open(src)
		if err != nil {
			return
		}
		defer in.Close()
		os.MkdirAll(filepath.Dir(dst), 0o755)
		out, err := os.Create(dst)
		if err != nil {
			if firstErr == nil {
				firstErr = err
			}
			return
		}
		if _, err := io.Copy(out, in); err != nil && firstErr == nil {
			firstErr = err
		}
		out.Close()
	}
	for _, sub := range []string{"warcs", "seencheck"} {
		es, _ := os.ReadDir(filepath.Join(job, sub))
		for _, e := range es {
			if e.Type().IsRegular() {
				cp(filepath.Join(job, sub, e.Name()), filepath.Join(dst, sub, e.Name()))
			}
		}
	}
	ms, _ := filepath.Glob(filepath.Join(job, "lq.db*"))
	sort.Strings(ms)
	for _, m := range ms {
		cp(m, filepath.Join(dst, filepath.Base(m)))
	}
	return firstErr
}
