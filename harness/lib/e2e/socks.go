package e2e

import (
	"encoding/binary"
	"fmt"
	"io"
	"net"
	"sync"
)

// Socks5 is a minimal SOCKS5 proxy (no authentication, CONNECT only) on a
// loopback address; golang.org/x/net/proxy (used by the WARC client for
// socks5:// URLs) speaks exactly this subset.
type Socks5 struct {
	ln    net.Listener
	mu    sync.Mutex
	conns map[net.Conn]struct{}
	n     int
}

func NewSocks5(ip string) (*Socks5, error) {
	ln, err := net.Listen("tcp4", ip+":0")
	if err != nil {
		return nil, err
	}
	s := &Socks5{ln: ln, conns: map[net.Conn]struct{}{}}
	go func() {
		for {
			c, err := ln.Accept()
			if err != nil {
				return
			}
			go s.handle(c)
		}
	}()
	return s, nil
}

// URL is the proxy URL for config.Proxy.
func (s *Socks5) URL() string { return "socks5://" + s.ln.Addr().String() }

// Connections is the number of CONNECT requests served so far.
func (s *Socks5) Connections() int { s.mu.Lock(); defer s.mu.Unlock(); return s.n }

func (s *Socks5) Close() {
	s.ln.Close()
	s.mu.Lock()
	for c := range s.conns {
		c.Close()
	}
	s.mu.Unlock()
}

func (s *Socks5) track(c net.Conn, add bool) {
	s.mu.Lock()
	if add {
		s.conns[c] = struct{}{}
	} else {
		delete(s.conns, c)
	}
	s.mu.Unlock()
}

func (s *Socks5) handle(c net.Conn) {
	s.track(c, true)
	defer func() { c.Close(); s.track(c, false) }()
	var b [262]byte
	// greeting: VER NMETHODS METHODS...
	if _, err := io.ReadFull(c, b[:2]); err != nil || b[0] != 5 {
		return
	}
	if _, err := io.ReadFull(c, b[:int(b[1])]); err != nil {
		return
	}
	if _, err := c.Write([]byte{5, 0}); err != nil { // no authentication
		return
	}
	// request: VER CMD RSV ATYP ADDR PORT
	if _, err := io.ReadFull(c, b[:4]); err != nil || b[0] != 5 {
		return
	}
	cmd, atyp := b[1], b[3]
	var host string
	switch atyp {
	case 1:
		if _, err := io.ReadFull(c, b[:4]); err != nil {
			return
		}
		host = net.IP(b[:4]).String()
	case 4:
		if _, err := io.ReadFull(c, b[:16]); err != nil {
			return
		}
		host = net.IP(b[:16]).String()
	case 3:
		if _, err := io.ReadFull(c, b[:1]); err != nil {
			return
		}
		n := int(b[0])
		if _, err := io.ReadFull(c, b[:n]); err != nil {
			return
		}
		host = string(b[:n])
	default:
		c.Write([]byte{5, 8, 0, 1, 0, 0, 0, 0, 0, 0})
		return
	}
	if _, err := io.ReadFull(c, b[:2]); err != nil {
		return
	}
	port := binary.BigEndian.Uint16(b[:2])
	if cmd != 1 {
		c.Write([]byte{5, 7, 0, 1, 0, 0, 0, 0, 0, 0})
		return
	}
	up, err := net.Dial("tcp", net.JoinHostPort(host, fmt.Sprint(port)))
	if err != nil {
		c.Write([]byte{5, 5, 0, 1, 0, 0, 0, 0, 0, 0})
		return
	}
	s.track(up, true)
	defer func() { up.Close(); s.track(up, false) }()
	s.mu.Lock()
	s.n++
	s.mu.Unlock()
	if _, err := c.Write([]byte{5, 0, 0, 1, 0, 0, 0, 0, 0, 0}); err != nil {
		return
	}
	done := make(chan struct{}, 2)
	go func() {
		io.Copy(up, c)
		if t, ok := up.(*net.TCPConn); ok {
			t.CloseWrite()
		}
		done <- struct{}{}
	}()
	go func() {
		io.Copy(c, up)
		if t, ok := c.(*net.TCPConn); ok {
			t.CloseWrite()
		}
		done <- struct{}{}
	}()
	<-done
	<-done
}
