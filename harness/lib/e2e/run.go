package e2e

import (
	"bytes"
	"encoding/json"
	"fmt"
	"os"
	"os/exec"
	"path/filepath"
	"regexp"
	"strings"
	"sync/atomic"
	"syscall"
	"time"
)

// Watchdog is the hard cap on one child run.
const Watchdog = 60 * time.Second

var scratchSeq atomic.Int64

// Scratch creates a fresh scratch directory under $VERIF_TMP.
func Scratch(name string) (string, error) {
	base := os.Getenv("VERIF_TMP")
	if base == "" {
		return "", fmt.Errorf("VERIF_TMP is not set (run through engine/driver.py)")
	}
	d := filepath.Join(base, "e2e", fmt.Sprintf("%d-%d-%s", os.Getpid(), scratchSeq.Add(1), name))
	if err := os.MkdirAll(d, 0o755); err != nil {
		return "", err
	}
	return d, nil
}

// ChildResult is what the parent knows after a child ended.
type ChildResult struct {
	ExitCode int      `json:"exit_code"` // -1: ended by a signal
	Signal   string   `json:"signal,omitempty"`
	TimedOut bool     `json:"timed_out,omitempty"` // the watchdog ended it
	WallS    float64  `json:"wall_s"`
	Stderr   string   `json:"stderr,omitempty"` // at most the first 16 KiB and the last 16 KiB
	Panic    string   `json:"panic,omitempty"`  // first line of panic / fatal error text on stderr
	Events   []string `json:"events,omitempty"`
	Dir      string   `json:"-"`
}

// Fired reports whether the named trigger fired, according to the event file.
func (r *ChildResult) Fired(name string) bool {
	for _, e := range r.Events {
		if strings.Contains(e, fmt.Sprintf("trigger %q", name)) {
			return true
		}
	}
	return false
}

// HasEvent reports whether an event line contains s.
func (r *ChildResult) HasEvent(s string) bool {
	for _, e := range r.Events {
		if strings.Contains(e, s) {
			return true
		}
	}
	return false
}

// RunHooks lets the parent act while the child runs.
type RunHooks struct {
	// Started is called with the child's pid right after the process started.
	Started func(pid int, signal func(syscall.Signal))
}

var panicRE = regexp.MustCompile(`(?m)^(panic: .*|fatal error: .*|\[signal SIG.*|unexpected fault address.*)$`)

// RunChild runs this binary again as a child for one spec, under the watchdog.
// The spec's Dir must exist; a second run on the same Dir is a restart on the same job.
func RunChild(spec *ChildSpec, hooks RunHooks) (*ChildResult, error) {
	self, err := os.Executable()
	if err != nil {
		return nil, err
	}
	b, _ := json.Marshal(spec)
	specFile := filepath.Join(spec.Dir, fmt.Sprintf("spec-%d.json", scratchSeq.Add(1)))
	if err := os.WriteFile(specFile, b, 0o644); err != nil {
		return nil, err
	}
	errFile, err := os.OpenFile(filepath.Join(spec.Dir, "stderr.txt"), os.O_CREATE|os.O_WRONLY|os.O_TRUNC, 0o644)
	if err != nil {
		return nil, err
	}
	defer errFile.Close()
	evFile := filepath.Join(spec.Dir, "events.log")
	var evBefore int64
	if fi, err := os.Stat(evFile); err == nil {
		evBefore = fi.Size()
	}
	cmd := exec.Command(self, "--child", specFile)
	switch {
	case spec.KillAtPwrite > 0:
		cmd = exec.Command("strace", "-f", "-qq", "-o", "/dev/null", "-e", "trace=pwrite64", "-e", fmt.Sprintf("inject=pwrite64:signal=KILL:when=%d", spec.KillAtPwrite), self, "--child", specFile)
	case spec.PwriteLog != "":
		cmd = exec.Command("strace", "-f", "-qq", "-o", spec.PwriteLog, "-e", "trace=pwrite64", self, "--child", specFile)
	}
	cmd.Dir = spec.Dir
	cmd.Stdout = errFile
	cmd.Stderr = errFile
	env := []string{}
	for _, kv := range os.Environ() {
		if strings.HasPrefix(kv, "GOMAXPROCS=") || strings.HasPrefix(kv, "VERIF_CPUPROFILE=") || strings.HasPrefix(kv, "GOTRACEBACK=") {
			continue
		}
		env = append(env, kv)
	}
	cmd.Env = append(env, "GOMAXPROCS=4", "GOTRACEBACK=all")
	cmd.SysProcAttr = &syscall.SysProcAttr{Setpgid: true, Pdeathsig: syscall.SIGKILL}
	t0 := time.Now()
	if err := cmd.Start(); err != nil {
		return nil, err
	}
	done := make(chan error, 1)
	go func() { done <- cmd.Wait() }()
	if hooks.Started != nil {
		hooks.Started(cmd.Process.Pid, func(s syscall.Signal) { cmd.Process.Signal(s) })
	}
	res := &ChildResult{Dir: spec.Dir}
	var werr error
	select {
	case werr = <-done:
	case <-time.After(time.Duration(or(spec.WatchdogS, int(Watchdog/time.Second))) * time.Second):
		res.TimedOut = true
		// a goroutine dump first (SIGQUIT is not handled by Zeno), then the hard kill
		cmd.Process.Signal(syscall.SIGQUIT)
		select {
		case werr = <-done:
		case <-time.After(5 * time.Second):
			syscall.Kill(-cmd.Process.Pid, syscall.SIGKILL)
			werr = <-done
		}
	}
	res.WallS = time.Since(t0).Seconds()
	if werr == nil {
		res.ExitCode = 0
	} else if ee, ok := werr.(*exec.ExitError); ok {
		ws := ee.Sys().(syscall.WaitStatus)
		if ws.Signaled() {
			res.ExitCode = -1
			res.Signal = ws.Signal().String()
		} else {
			res.ExitCode = ws.ExitStatus()
		}
	} else {
		return nil, werr
	}
	if b, err := os.ReadFile(filepath.Join(spec.Dir, "stderr.txt")); err == nil {
		if m := panicRE.Find(b); m != nil && !res.TimedOut {
			res.Panic = string(m)
		}
		if len(b) > 32<<10 {
			b = append(append(append([]byte{}, b[:16<<10]...), []byte("\n...\n")...), b[len(b)-(16<<10):]...)
		}
		res.Stderr = string(b)
	}
	if b, err := os.ReadFile(evFile); err == nil && int64(len(b)) >= evBefore {
		for _, l := range bytes.Split(b[evBefore:], []byte("\n")) {
			if len(l) > 0 {
				res.Events = append(res.Events, string(l))
			}
		}
	}
	return res, nil
}

// LogTail returns the last n bytes of Zeno's own log files of a job (diagnostics only).
func LogTail(dir, job string, n int) string {
	ms, _ := filepath.Glob(filepath.Join(dir, "jobs", job, "logs", "*"))
	var out []byte
	for _, m := range ms {
		b, err := os.ReadFile(m)
		if err != nil {
			continue
		}
		out = append(out, b...)
	}
	if len(out) > n {
		out = out[len(out)-n:]
	}
	return string(out)
}

// ReadHits reads a profile written by the child.
func ReadHits(file string) map[string]int64 {
	m := map[string]int64{}
	b, err := os.ReadFile(file)
	if err != nil {
		return m
	}
	json.Unmarshal(b, &m)
	return m
}

// PointKey strips the line number from a point id, so that the key survives
// edits that move code: "internal/pkg/x/y.go:12 send ch" -> "internal/pkg/x/y.go send ch",
// "WaitGroup.Add internal/pkg/x/y.go:12" -> "WaitGroup.Add internal/pkg/x/y.go".
func PointKey(id string) string { return lineRE.ReplaceAllString(id, ".go") }

var lineRE = regexp.MustCompile(`\.go:\d+`)
