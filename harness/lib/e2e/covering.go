package e2e

// Covering builds a t-way covering array for factors with the given numbers
// of levels: a list of rows (one level index per factor) such that every
// combination of levels of every t factors occurs in some row. Deterministic
// greedy construction (no randomness): rows are taken from the full product in
// lexicographic order, each time the row that covers the most still-uncovered
// t-tuples.
func Covering(levels []int, t int) [][]int {
	k := len(levels)
	if t > k {
		t = k
	}
	// all t-subsets of factors
	var subsets [][]int
	var rec func(start int, cur []int)
	rec = func(start int, cur []int) {
		if len(cur) == t {
			subsets = append(subsets, append([]int{}, cur...))
			return
		}
		for i := start; i < k; i++ {
			rec(i+1, append(cur, i))
		}
	}
	rec(0, nil)
	// full product
	var product [][]int
	row := make([]int, k)
	var gen func(i int)
	gen = func(i int) {
		if i == k {
			product = append(product, append([]int{}, row...))
			return
		}
		for v := 0; v < levels[i]; v++ {
			row[i] = v
			gen(i + 1)
		}
	}
	gen(0)
	key := func(si int, r []int) int {
		x := si
		for _, f := range subsets[si] {
			x = x*8 + r[f] // levels < 8
		}
		return x
	}
	uncovered := map[int]bool{}
	for si := range subsets {
		for _, r := range product {
			uncovered[key(si, r)] = true
		}
	}
	var out [][]int
	for len(uncovered) > 0 {
		best, bestN := -1, 0
		for i, r := range product {
			n := 0
			for si := range subsets {
				if uncovered[key(si, r)] {
					n++
				}
			}
			if n > bestN {
				best, bestN = i, n
			}
		}
		r := product[best]
		out = append(out, r)
		for si := range subsets {
			delete(uncovered, key(si, r))
		}
	}
	return out
}
