// Package warcread is an independent reader of .warc.gz files: it shares no
// code with github.com/CorentinB/warc (standard library only).
//
// A file is split into gzip members one by one (compress/gzip with
// Multistream(false)); every member must decompress on its own (header, CRC
// and length trailer verified by compress/gzip). The decompressed content of
// a member is parsed as WARC records (version line, named fields, a block of
// Content-Length bytes, CRLF CRLF). For application/http blocks the HTTP
// message is parsed with net/http and the entity body is given as stored:
// chunked transfer-encoding is undone, content-encoding is kept as sent.
package warcread

import (
	"bufio"
	"bytes"
	"compress/gzip"
	"crypto/sha1"
	"encoding/base32"
	"encoding/hex"
	"errors"
	"fmt"
	"io"
	"net/http"
	"os"
	"strconv"
	"strings"
)

// Problem is the first thing that is wrong with a file.
type Problem struct {
	// Offset is the byte offset in the (compressed) file of the member in which
	// the problem sits (for trailing garbage: where the garbage starts).
	Offset int64 `json:"offset"`
	// Kind: truncated-member, trailing-garbage, corrupt-member, bad-record
	Kind string `json:"kind"`
	Msg  string `json:"msg"`
}

func (p *Problem) Error() string { return fmt.Sprintf("%s at offset %d: %s", p.Kind, p.Offset, p.Msg) }

// Field is one named field of a WARC record header, in file order.
type Field struct{ Name, Value string }

// Record is one WARC record.
type Record struct {
	Member        int     `json:"member"`     // index of the gzip member holding it
	Offset        int64   `json:"offset"`     // file offset of that member
	MemberEnd     int64   `json:"member_end"` // file offset just after that member
	InMember      int     `json:"in_member"`  // index of the record inside its member (0 unless several records share a member)
	Version       string  `json:"version"`    // "WARC/1.1"
	Fields        []Field `json:"-"`
	Type          string  `json:"type"`
	TargetURI     string  `json:"target_uri,omitempty"`
	RecordID      string  `json:"record_id,omitempty"`
	ContentType   string  `json:"content_type,omitempty"`
	BlockLen      int64   `json:"block_len"`
	BlockSHA1     string  `json:"block_sha1"`               // hex
	BlockDigest   string  `json:"block_digest,omitempty"`   // header value as written
	PayloadDigest string  `json:"payload_digest,omitempty"` // header value as written
	RefersTo      string  `json:"refers_to,omitempty"`
	RefersToURI   string  `json:"refers_to_target_uri,omitempty"`
	Profile       string  `json:"profile,omitempty"`
	ConcurrentTo  string  `json:"concurrent_to,omitempty"`

	// HTTP message inside an application/http block
	IsHTTP     bool        `json:"is_http"`
	HTTPErr    string      `json:"http_err,omitempty"`    // the block did not parse as an HTTP message
	Method     string      `json:"method,omitempty"`      // request records
	RequestURI string      `json:"request_uri,omitempty"` // request records
	Host       string      `json:"host,omitempty"`        // request records
	Status     int         `json:"status,omitempty"`      // response / revisit records
	HTTPHeader http.Header `json:"-"`
	Chunked    bool        `json:"chunked,omitempty"`
	HeaderLen  int64       `json:"header_len,omitempty"`  // bytes of the block up to and including the blank line
	EntityLen  int64       `json:"entity_len"`            // entity body after undoing chunked transfer-encoding
	EntitySHA1 string      `json:"entity_sha1,omitempty"` // hex
	EntityErr  string      `json:"entity_err,omitempty"`  // the entity body ended early / bad chunk framing
	Block      []byte      `json:"-"`                     // only with Options.KeepBlocks
}

// Get returns the first field with this name (case-insensitive).
func (r *Record) Get(name string) string {
	for _, f := range r.Fields {
		if strings.EqualFold(f.Name, name) {
			return f.Value
		}
	}
	return ""
}

// EntityBase32 is the entity digest in the notation of WARC-Payload-Digest ("sha1:" + base32).
func (r *Record) EntityBase32() string {
	b, err := hex.DecodeString(r.EntitySHA1)
	if err != nil || len(b) == 0 {
		return ""
	}
	return "sha1:" + base32.StdEncoding.EncodeToString(b)
}

// File is the result of reading one file (or a prefix of it).
type File struct {
	Path         string    `json:"path"`
	Size         int64     `json:"size"`                    // number of bytes considered
	Members      []Member  `json:"members"`                 // every complete member, in file order
	EmptyMembers []int64   `json:"empty_members,omitempty"` // offsets of complete members that decompress to nothing
	Records      []*Record `json:"records"`
	// GoodUpTo is the offset just after the last complete member; everything
	// before it was read without a problem.
	GoodUpTo int64    `json:"good_up_to"`
	Problem  *Problem `json:"problem,omitempty"`
}

// Member is one complete gzip member.
type Member struct {
	Start   int64 `json:"start"`
	End     int64 `json:"end"` // offset just after it
	Len     int   `json:"len"` // decompressed length
	Records int   `json:"records"`
}

// Options of a read.
type Options struct {
	KeepBlocks bool
}

type countReader struct {
	r io.Reader
	n int64
}

func (c *countReader) Read(p []byte) (int, error) {
	n, err := c.r.Read(p)
	c.n += int64(n)
	return n, err
}

// ReadFile reads the first limit bytes of a file (limit < 0: all of it).
func ReadFile(path string, limit int64, o Options) (*File, error) {
	f, err := os.Open(path)
	if err != nil {
		return nil, err
	}
	defer f.Close()
	st, err := f.Stat()
	if err != nil {
		return nil, err
	}
	size := st.Size()
	if limit >= 0 && limit < size {
		size = limit
	}
	res := Read(io.LimitReader(f, size), o)
	res.Path = path
	res.Size = size
	return res, nil
}

// ReadBytes reads an in-memory file.
func ReadBytes(b []byte, o Options) *File {
	res := Read(bytes.NewReader(b), o)
	res.Size = int64(len(b))
	return res
}

// Read reads a stream of gzip members.
func Read(src io.Reader, o Options) *File {
	res := &File{}
	cr := &countReader{r: src}
	br := bufio.NewReaderSize(cr, 1<<16)
	pos := func() int64 { return cr.n - int64(br.Buffered()) }
	var zr *gzip.Reader
	for {
		start := pos()
		// end of file?
		if _, err := br.Peek(1); err != nil {
			if err == io.EOF {
				res.GoodUpTo = start
				return res
			}
			res.Problem = &Problem{start, "corrupt-member", err.Error()}
			return res
		}
		var err error
		if zr == nil {
			zr, err = gzip.NewReader(br)
		} else {
			err = zr.Reset(br)
		}
		if err != nil {
			res.GoodUpTo = start
			switch {
			case errors.Is(err, io.ErrUnexpectedEOF) || errors.Is(err, io.EOF):
				res.Problem = &Problem{start, "truncated-member", "gzip header cut short: " + err.Error()}
			case errors.Is(err, gzip.ErrHeader):
				res.Problem = &Problem{start, "trailing-garbage", "bytes that are not a gzip member: " + err.Error()}
			default:
				res.Problem = &Problem{start, "corrupt-member", err.Error()}
			}
			return res
		}
		zr.Multistream(false)
		data, err := io.ReadAll(zr)
		if err != nil {
			res.GoodUpTo = start
			if errors.Is(err, io.ErrUnexpectedEOF) {
				res.Problem = &Problem{start, "truncated-member", fmt.Sprintf("member cut short after %d decompressed bytes", len(data))}
			} else {
				res.Problem = &Problem{start, "corrupt-member", err.Error()}
			}
			return res
		}
		end := pos()
		idx := len(res.Members)
		if len(data) == 0 {
			res.Members = append(res.Members, Member{start, end, 0, 0})
			res.EmptyMembers = append(res.EmptyMembers, start)
			res.GoodUpTo = end
			continue
		}
		recs, perr := parseMember(data, o)
		for i, r := range recs {
			r.Member, r.Offset, r.MemberEnd, r.InMember = idx, start, end, i
		}
		if perr != nil {
			res.GoodUpTo = start
			res.Problem = &Problem{start, "bad-record", perr.Error()}
			return res
		}
		res.Members = append(res.Members, Member{start, end, len(data), len(recs)})
		res.Records = append(res.Records, recs...)
		res.GoodUpTo = end
	}
}

func parseMember(data []byte, o Options) ([]*Record, error) {
	var out []*Record
	rest := data
	for len(rest) > 0 {
		r, n, err := parseRecord(rest, o)
		if err != nil {
			return out, fmt.Errorf("record %d of the member (decompressed offset %d): %v", len(out), len(data)-len(rest), err)
		}
		out = append(out, r)
		rest = rest[n:]
	}
	return out, nil
}

func parseRecord(b []byte, o Options) (*Record, int, error) {
	r := &Record{}
	p := 0
	line := func() (string, bool) {
		i := bytes.Index(b[p:], []byte("\r\n"))
		if i < 0 {
			return "", false
		}
		s := string(b[p : p+i])
		p += i + 2
		return s, true
	}
	v, ok := line()
	if !ok {
		return nil, 0, errors.New("no version line")
	}
	if !strings.HasPrefix(v, "WARC/") {
		return nil, 0, fmt.Errorf("version line %q does not start with WARC/", trunc(v))
	}
	r.Version = v
	clen := int64(-1)
	for {
		l, ok := line()
		if !ok {
			return nil, 0, errors.New("record header is not terminated by an empty line")
		}
		if l == "" {
			break
		}
		i := strings.IndexByte(l, ':')
		if i <= 0 {
			return nil, 0, fmt.Errorf("malformed header line %q", trunc(l))
		}
		name, val := l[:i], strings.TrimSpace(l[i+1:])
		r.Fields = append(r.Fields, Field{name, val})
		switch strings.ToLower(name) {
		case "warc-type":
			r.Type = val
		case "warc-target-uri":
			r.TargetURI = strings.TrimSuffix(strings.TrimPrefix(val, "<"), ">")
		case "warc-record-id":
			r.RecordID = val
		case "content-type":
			r.ContentType = val
		case "warc-block-digest":
			r.BlockDigest = val
		case "warc-payload-digest":
			r.PayloadDigest = val
		case "warc-refers-to":
			r.RefersTo = val
		case "warc-refers-to-target-uri":
			r.RefersToURI = val
		case "warc-profile":
			r.Profile = val
		case "warc-concurrent-to":
			r.ConcurrentTo = val
		case "content-length":
			n, err := strconv.ParseInt(val, 10, 64)
			if err != nil || n < 0 {
				return nil, 0, fmt.Errorf("bad Content-Length %q", val)
			}
			if clen >= 0 && clen != n {
				return nil, 0, errors.New("two different Content-Length fields")
			}
			clen = n
		}
	}
	if r.Type == "" {
		return nil, 0, errors.New("no WARC-Type field")
	}
	if clen < 0 {
		return nil, 0, errors.New("no Content-Length field")
	}
	if int64(len(b)-p) < clen+4 {
		return nil, 0, fmt.Errorf("Content-Length is %d but only %d bytes follow the header (block plus CRLF CRLF needed)", clen, len(b)-p)
	}
	block := b[p : p+int(clen)]
	p += int(clen)
	if string(b[p:p+4]) != "\r\n\r\n" {
		return nil, 0, fmt.Errorf("block of %d bytes is not followed by CRLF CRLF but by %q", clen, b[p:p+4])
	}
	p += 4
	r.BlockLen = clen
	h := sha1.Sum(block)
	r.BlockSHA1 = hex.EncodeToString(h[:])
	if o.KeepBlocks {
		r.Block = append([]byte{}, block...)
	}
	ct := strings.ToLower(r.ContentType)
	if strings.HasPrefix(ct, "application/http") {
		r.IsHTTP = true
		switch {
		case strings.Contains(ct, "msgtype=request") || r.Type == "request":
			parseRequest(r, block)
		default:
			parseResponse(r, block)
		}
	}
	return r, p, nil
}

func headerLen(block []byte) int64 {
	if i := bytes.Index(block, []byte("\r\n\r\n")); i >= 0 {
		return int64(i + 4)
	}
	return int64(len(block))
}

func parseRequest(r *Record, block []byte) {
	req, err := http.ReadRequest(bufio.NewReader(bytes.NewReader(block)))
	if err != nil {
		r.HTTPErr = err.Error()
		return
	}
	r.Method, r.RequestURI, r.Host, r.HTTPHeader = req.Method, req.RequestURI, req.Host, req.Header
	r.HeaderLen = headerLen(block)
	h := sha1.New()
	n, err := io.Copy(h, req.Body)
	r.EntityLen, r.EntitySHA1 = n, hex.EncodeToString(h.Sum(nil))
	if err != nil {
		r.EntityErr = err.Error()
	}
}

func parseResponse(r *Record, block []byte) {
	resp, err := http.ReadResponse(bufio.NewReader(bytes.NewReader(block)), nil)
	if err != nil {
		r.HTTPErr = err.Error()
		return
	}
	r.Status, r.HTTPHeader = resp.StatusCode, resp.Header
	r.HeaderLen = headerLen(block)
	for _, te := range resp.TransferEncoding {
		if te == "chunked" {
			r.Chunked = true
		}
	}
	if r.Type == "revisit" {
		// identical-payload revisit: the block is the HTTP header only
		r.EntityLen = int64(len(block)) - r.HeaderLen
		return
	}
	h := sha1.New()
	n, err := io.Copy(h, resp.Body)
	r.EntityLen, r.EntitySHA1 = n, hex.EncodeToString(h.Sum(nil))
	if err != nil {
		r.EntityErr = err.Error()
	}
}

func trunc(s string) string {
	if len(s) > 60 {
		return s[:60] + "..."
	}
	return s
}
