package warcread

// Run with: cd /verif/harness/lib/e2e/warcread && GO111MODULE=off go test .
// testdata/plain.warc.gz and plain.origin.json were produced by a plain child
// run of the real pipeline (python3 /verif/engine/driver.py run c02b quick --emit-testdata=/verif/harness/lib/e2e/warcread/testdata).

import (
	"bytes"
	"compress/gzip"
	"encoding/json"
	"os"
	"testing"
)

type exchange struct {
	URL        string `json:"url"`
	Status     int    `json:"status"`
	EntityLen  int64  `json:"entity_len"`
	EntitySHA1 string `json:"entity_sha1"`
	Chunked    bool   `json:"chunked"`
}

func load(t *testing.T) ([]byte, []exchange) {
	b, err := os.ReadFile("testdata/plain.warc.gz")
	if err != nil {
		t.Fatal(err)
	}
	lb, err := os.ReadFile("testdata/plain.origin.json")
	if err != nil {
		t.Fatal(err)
	}
	var log []exchange
	if err := json.Unmarshal(lb, &log); err != nil {
		t.Fatal(err)
	}
	return b, log
}

func TestPlainRun(t *testing.T) {
	b, log := load(t)
	f := ReadBytes(b, Options{KeepBlocks: true})
	if f.Problem != nil {
		t.Fatalf("problem: %v", f.Problem)
	}
	if f.GoodUpTo != int64(len(b)) {
		t.Fatalf("GoodUpTo %d, file has %d bytes", f.GoodUpTo, len(b))
	}
	if len(f.Records) != 1+2*len(log) {
		t.Fatalf("%d records for %d exchanges", len(f.Records), len(log))
	}
	if f.Records[0].Type != "warcinfo" {
		t.Fatalf("first record is %s", f.Records[0].Type)
	}
	for _, m := range f.Members {
		if m.Records != 1 {
			t.Errorf("member at %d holds %d records", m.Start, m.Records)
		}
	}
	byURL := map[string][]*Record{}
	for _, r := range f.Records {
		byURL[r.TargetURI] = append(byURL[r.TargetURI], r)
		if r.BlockLen != int64(len(r.Block)) {
			t.Errorf("block length")
		}
		if r.IsHTTP && (r.HTTPErr != "" || r.EntityErr != "") {
			t.Errorf("%s %s: %s %s", r.Type, r.TargetURI, r.HTTPErr, r.EntityErr)
		}
	}
	revisits := 0
	for _, e := range log {
		var req, resp *Record
		for _, r := range byURL[e.URL] {
			switch r.Type {
			case "request":
				req = r
			case "response", "revisit":
				resp = r
			}
		}
		if req == nil || resp == nil {
			t.Errorf("%s: request or response record missing", e.URL)
			continue
		}
		if req.Method != "GET" || "http://"+req.Host+req.RequestURI != e.URL {
			t.Errorf("%s: request record says %s %s%s", e.URL, req.Method, req.Host, req.RequestURI)
		}
		if resp.Status != e.Status {
			t.Errorf("%s: status %d, origin sent %d", e.URL, resp.Status, e.Status)
		}
		if resp.Chunked != e.Chunked {
			t.Errorf("%s: chunked %v, origin %v", e.URL, resp.Chunked, e.Chunked)
		}
		if resp.Type == "revisit" {
			revisits++
			if resp.RefersToURI == "" || resp.PayloadDigest == "" {
				t.Errorf("%s: revisit without target or digest", e.URL)
			}
			continue
		}
		if resp.EntityLen != e.EntityLen || resp.EntitySHA1 != e.EntitySHA1 {
			t.Errorf("%s: entity %d/%s, origin sent %d/%s", e.URL, resp.EntityLen, resp.EntitySHA1, e.EntityLen, e.EntitySHA1)
		}
		if resp.PayloadDigest != resp.EntityBase32() {
			t.Errorf("%s: WARC-Payload-Digest %s, computed %s", e.URL, resp.PayloadDigest, resp.EntityBase32())
		}
	}
	if revisits != 1 {
		t.Errorf("%d revisit records, expected 1 (b.png repeats a.png)", revisits)
	}
}

// Every prefix at a member boundary, one byte before and one byte after it
// yields exactly the records wholly contained in it, and names the offset of
// the torn member.
func TestPrefixes(t *testing.T) {
	b, _ := load(t)
	full := ReadBytes(b, Options{})
	ends := []int64{0}
	for _, m := range full.Members {
		ends = append(ends, m.End)
	}
	contained := func(n int64) (recs int, good int64) {
		for _, m := range full.Members {
			if m.End <= n {
				recs += m.Records
				good = m.End
			}
		}
		return
	}
	for _, e := range ends {
		for _, d := range []int64{-1, 0, 1} {
			n := e + d
			if n < 0 || n > int64(len(b)) {
				continue
			}
			f := ReadBytes(b[:n], Options{})
			wantRecs, wantGood := contained(n)
			if len(f.Records) != wantRecs || f.GoodUpTo != wantGood {
				t.Errorf("prefix %d: %d records good up to %d, want %d / %d", n, len(f.Records), f.GoodUpTo, wantRecs, wantGood)
			}
			if n == wantGood {
				if f.Problem != nil {
					t.Errorf("prefix %d ends at a member boundary but: %v", n, f.Problem)
				}
			} else if f.Problem == nil || f.Problem.Kind != "truncated-member" || f.Problem.Offset != wantGood {
				t.Errorf("prefix %d: want truncated-member at %d, got %v", n, wantGood, f.Problem)
			}
		}
	}
	// every single prefix length of the first three members
	for n := int64(0); n <= full.Members[2].End; n++ {
		f := ReadBytes(b[:n], Options{})
		wantRecs, wantGood := contained(n)
		if len(f.Records) != wantRecs || f.GoodUpTo != wantGood || (n != wantGood) != (f.Problem != nil) {
			t.Fatalf("prefix %d: %d records good up to %d problem %v, want %d / %d", n, len(f.Records), f.GoodUpTo, f.Problem, wantRecs, wantGood)
		}
	}
}

func TestGarbageAndCorruption(t *testing.T) {
	b, _ := load(t)
	full := ReadBytes(b, Options{})
	g := append(append([]byte{}, b...), []byte("this is not gzip")...)
	f := ReadBytes(g, Options{})
	if f.Problem == nil || f.Problem.Kind != "trailing-garbage" || f.Problem.Offset != int64(len(b)) || len(f.Records) != len(full.Records) {
		t.Errorf("trailing garbage: %v, %d records", f.Problem, len(f.Records))
	}
	// flip a byte in the middle of the fourth member: CRC or inflate error there, three members survive
	m := full.Members[3]
	c := append([]byte{}, b...)
	c[(m.Start+m.End)/2] ^= 0x55
	f = ReadBytes(c, Options{})
	if f.Problem == nil || f.Problem.Offset != m.Start || len(f.Records) != 3 {
		t.Errorf("corruption in member at %d: %v, %d records", m.Start, f.Problem, len(f.Records))
	}
	// a member whose record lies about its Content-Length
	var z bytes.Buffer
	zw := gzip.NewWriter(&z)
	zw.Write([]byte("WARC/1.1\r\nWARC-Type: resource\r\nContent-Length: 10\r\n\r\nshort\r\n\r\n"))
	zw.Close()
	f = ReadBytes(append(append([]byte{}, b...), z.Bytes()...), Options{})
	if f.Problem == nil || f.Problem.Kind != "bad-record" || f.Problem.Offset != int64(len(b)) {
		t.Errorf("short block: %v", f.Problem)
	}
	// an empty member is complete and holds no record
	var e bytes.Buffer
	ew := gzip.NewWriter(&e)
	ew.Close()
	f = ReadBytes(append(append([]byte{}, b...), e.Bytes()...), Options{})
	if f.Problem != nil || len(f.EmptyMembers) != 1 || f.EmptyMembers[0] != int64(len(b)) || len(f.Records) != len(full.Records) {
		t.Errorf("empty member: %v %v", f.Problem, f.EmptyMembers)
	}
	// two records in one member are both found
	var two bytes.Buffer
	tw := gzip.NewWriter(&two)
	rec := "WARC/1.1\r\nWARC-Type: resource\r\nContent-Length: 5\r\n\r\nhello\r\n\r\n"
	tw.Write([]byte(rec + rec))
	tw.Close()
	f = ReadBytes(two.Bytes(), Options{})
	if f.Problem != nil || len(f.Records) != 2 || f.Members[0].Records != 2 || f.Records[1].InMember != 1 {
		t.Errorf("two records in a member: %v %d", f.Problem, len(f.Records))
	}
}
