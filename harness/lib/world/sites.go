package world

// ---------------------------------------------------------------------------
// sites

// H is the fake origin used by the standard sites.
const H = "http://s.example"

func seedKinds() map[string][]Node {
	return map[string][]Node{
		// value: nodes of the seed part; the page node (Kind html) receives the assets
		"page":   {{URL: H + "/page", Kind: "html"}},
		"redir1": {{URL: H + "/r1", Kind: "redirect", Location: H + "/page"}, {URL: H + "/page", Kind: "html"}},
		"redir2": {{URL: H + "/r2", Kind: "redirect", Location: "/r1"}, {URL: H + "/r1", Kind: "redirect", Code: 302, Location: H + "/page"}, {URL: H + "/page", Kind: "html"}},
		"404":    {{URL: H + "/gone", Kind: "status", Code: 404}},
		"500":    {{URL: H + "/boom", Kind: "fail5xx"}},
		// redirections that lead back onto the path from the seed: a cookie wall (the URL redirects to itself once,
		// then serves the page), a loop of two, a chain that ends on its own first URL
		"wall": {{URL: H + "/wall", Kind: "wall"}},
		"loop": {{URL: H + "/x", Kind: "redirect", Code: 302, Location: H + "/y"}, {URL: H + "/y", Kind: "redirect", Code: 302, Location: "/x"}},
		// a loop that does not pass through the seed: /s -> /b -> /c -> /b
		"loopb":    {{URL: H + "/s", Kind: "redirect", Code: 302, Location: H + "/b"}, {URL: H + "/b", Kind: "redirect", Code: 302, Location: "/c"}, {URL: H + "/c", Kind: "redirect", Code: 302, Location: H + "/b"}},
		"badpdf":   {{URL: H + "/doc.pdf", Kind: "badpdf"}},
		"emptyxml": {{URL: H + "/sitemap.xml", Kind: "emptyxml"}},
		"nodot":    {},
		"excluded": {},
	}
}

var seedURL = map[string]string{"loopb": H + "/s", "wall": H + "/wall", "loop": H + "/x", "page": H + "/page", "redir1": H + "/r1", "redir2": H + "/r2", "404": H + "/gone", "500": H + "/boom",
	"badpdf": H + "/doc.pdf", "emptyxml": H + "/sitemap.xml",
	"nodot": "http://nodot/x", "excluded": "http://web.archive.org/web/x"}

// assetKinds: reference text in the page plus the nodes behind it.
type asset struct {
	ref   string
	nodes []Node
}

func assetKinds() map[string]asset {
	return map[string]asset{
		"bin":       {H + "/a.png", []Node{{URL: H + "/a.png", Kind: "bin"}}},
		"bin2":      {"/b.png", []Node{{URL: H + "/b.png", Kind: "bin"}}},
		"samepage":  {H + "/page", nil},
		"js":        {"javascript:void(0)", nil},
		"exhost":    {"http://excluded.example/x.png", nil},
		"404":       {H + "/missing.png", []Node{{URL: H + "/missing.png", Kind: "status", Code: 404}}},
		"500":       {H + "/boom.png", []Node{{URL: H + "/boom.png", Kind: "fail5xx"}}},
		"redir":     {H + "/ra", []Node{{URL: H + "/ra", Kind: "redirect", Location: H + "/ra.png"}, {URL: H + "/ra.png", Kind: "bin"}}},
		"redirB":    {H + "/rb", []Node{{URL: H + "/rb", Kind: "redirect", Code: 302, Location: H + "/ra.png"}, {URL: H + "/ra.png", Kind: "bin"}}},
		"redirSeed": {H + "/rs", []Node{{URL: H + "/rs", Kind: "redirect", Location: H + "/page"}}}, // an asset that redirects onto the page (of seed kinds page/redir*)
		"redirSelf": {H + "/rl", []Node{{URL: H + "/rl", Kind: "redirect", Code: 302, Location: H + "/rl"}}},
		"redirEx":   {H + "/rx", []Node{{URL: H + "/rx", Kind: "redirect", Location: "http://excluded.example/x.png"}}},
		"m3u8":      {H + "/pl.m3u8", []Node{{URL: H + "/pl.m3u8", Kind: "m3u8", Refs: []string{"seg0.ts"}}, {URL: H + "/seg0.ts", Kind: "bin"}}},
		"slash":     {"http://other.example/", nil},
		"flaky":     {H + "/flaky.png", []Node{{URL: H + "/flaky.png", Kind: "flaky", FailN: 1}}},
		"429":       {H + "/limited.png", []Node{{URL: H + "/limited.png", Kind: "status", Code: 429}}},
		"cut":       {H + "/cut.png", []Node{{URL: H + "/cut.png", Kind: "cut"}}},
		"badpdf":    {H + "/a.pdf", []Node{{URL: H + "/a.pdf", Kind: "badpdf"}}},
		"emptyxml":  {H + "/a.xml", []Node{{URL: H + "/a.xml", Kind: "emptyxml"}}},
		// an embedded HTML document whose URL carries the marker of a site-specific branch of the postprocessor
		// (strings.Contains on the whole URL): the tree rules hold whatever a URL looks like
		"fbframe": {H + "/m/www.facebook.com/somepage/posts/10159.html", []Node{{URL: H + "/m/www.facebook.com/somepage/posts/10159.html", Kind: "html"}}},
	}
}

func MkSite(name, seedKind string, assets []string) SiteDef {
	d := SiteDef{Name: name, Seeds: []string{seedURL[seedKind]}}
	ak := assetKinds()
	for _, n := range seedKinds()[seedKind] {
		if n.Kind == "html" || n.Kind == "wall" {
			for _, a := range assets {
				n.Refs = append(n.Refs, ak[a].ref)
			}
		}
		d.Nodes = append(d.Nodes, n)
	}
	have := map[string]bool{}
	for _, n := range d.Nodes {
		have[n.URL] = true
	}
	for _, a := range assets {
		for _, n := range ak[a].nodes {
			if !have[n.URL] {
				have[n.URL] = true
				d.Nodes = append(d.Nodes, n)
			}
		}
	}
	return d
}

// sweep: every seed kind x every multiset of <=2 asset kinds (assets only matter for seeds that reach the page).
func SweepSites(tier string) []SiteDef {
	var out []SiteDef
	akeys := []string{"bin", "samepage", "js", "exhost", "404", "500", "redir", "redirB", "redirEx", "m3u8", "slash", "flaky", "429", "cut", "badpdf", "emptyxml", "redirSeed", "redirSelf", "fbframe"}
	for _, sk := range []string{"404", "500", "nodot", "excluded", "badpdf", "emptyxml", "loop", "loopb", "wall"} {
		out = append(out, MkSite("seed="+sk, sk, nil))
	}
	for _, a := range akeys {
		out = append(out, MkSite("seed=wall assets="+a, "wall", []string{a}))
	}
	for _, sk := range []string{"page", "redir1", "redir2"} {
		out = append(out, MkSite("seed="+sk+" assets=none", sk, nil))
		for i, a := range akeys {
			out = append(out, MkSite("seed="+sk+" assets="+a, sk, []string{a}))
			for _, b := range akeys[i:] {
				bb := b
				if a == b && a == "bin" {
					bb = "bin" // the same URL twice
				}
				out = append(out, MkSite("seed="+sk+" assets="+a+"+"+bb, sk, []string{a, bb}))
			}
		}
	}
	return out
}

// depth: two-seed sites chosen so that the seeds collide.
// DepthSite is a multi-seed site with an optional "insert seed i only after n finishes" rule.
type DepthSite struct {
	Def   SiteDef
	After map[int]int
}

// DepthSites: multi-seed sites chosen so that the seeds collide.
func DepthSites() []DepthSite {
	ak := assetKinds()
	page := func(u string, refs ...string) Node { return Node{URL: u, Kind: "html", Refs: refs} }
	var out []DepthSite
	// 1. a shared asset URL
	out = append(out, DepthSite{Def: SiteDef{Name: "two seeds, shared asset", Seeds: []string{H + "/p1", H + "/p2"},
		Nodes: []Node{page(H+"/p1", H+"/a.png", H+"/x1.png"), page(H+"/p2", H+"/a.png"), ak["bin"].nodes[0], {URL: H + "/x1.png", Kind: "bin"}}}})
	// 2. one seed failing (retry, back-off) while the other fans out
	out = append(out, DepthSite{Def: SiteDef{Name: "two seeds, one failing", Seeds: []string{H + "/boom", H + "/p2"},
		Nodes: []Node{{URL: H + "/boom", Kind: "fail5xx"}, page(H+"/p2", H+"/a.png", H+"/pl.m3u8"), ak["bin"].nodes[0], ak["m3u8"].nodes[0], ak["m3u8"].nodes[1]}}})
	// 3. a redirect onto the other seed's URL
	out = append(out, DepthSite{Def: SiteDef{Name: "two seeds, redirect onto the other", Seeds: []string{H + "/r", H + "/p2"},
		Nodes: []Node{{URL: H + "/r", Kind: "redirect", Location: H + "/p2"}, page(H+"/p2", H+"/a.png"), ak["bin"].nodes[0]}}})
	// 4. third seed inserted from a non-initial state (after the first finish)
	out = append(out, DepthSite{Def: SiteDef{Name: "three seeds, third after first finish", Seeds: []string{H + "/p1", H + "/gone", H + "/p3"},
		Nodes: []Node{page(H+"/p1", H+"/a.png"), {URL: H + "/gone", Kind: "status", Code: 404}, page(H+"/p3", H+"/a.png", H+"/b.png"), ak["bin"].nodes[0], ak["bin2"].nodes[0]}},
		After: map[int]int{2: 1}})
	return out
}
