// Package world wires the real Zeno stages (reactor, preprocessor, archiver
// workers, postprocessor, finisher) to a fake site, exactly as
// controler.startPipeline does, for exploration under the controlled
// scheduler. Only the HTTP transport and the WARC writer are fakes.
//
// This package is instrumented together with the harness: its go statements,
// channel operations and selects are scheduling points.
package world

import (
	"context"
	"errors"
	"fmt"
	"io"
	"net"
	"net/http"
	"os"
	"sort"
	"strings"
	"sync"
	"syscall"
	"time"

	"github.com/CorentinB/warc"
	"github.com/internetarchive/Zeno/internal/pkg/archiver"
	"github.com/internetarchive/Zeno/internal/pkg/archiver/discard"
	"github.com/internetarchive/Zeno/internal/pkg/config"
	"github.com/internetarchive/Zeno/internal/pkg/controler/pause"
	"github.com/internetarchive/Zeno/internal/pkg/finisher"
	"github.com/internetarchive/Zeno/internal/pkg/postprocessor"
	"github.com/internetarchive/Zeno/internal/pkg/postprocessor/domainscrawl"
	"github.com/internetarchive/Zeno/internal/pkg/preprocessor"
	"github.com/internetarchive/Zeno/internal/pkg/preprocessor/seencheck"
	"github.com/internetarchive/Zeno/internal/pkg/reactor"
	"github.com/internetarchive/Zeno/internal/pkg/source/hq"
	"github.com/internetarchive/Zeno/internal/pkg/stats"
	"github.com/internetarchive/Zeno/internal/verif/vrt/hkit"
	"github.com/internetarchive/Zeno/internal/verif/vrt/vsched"
	"github.com/internetarchive/Zeno/pkg/models"
)

// Resp is one answer of the fake origin.
type Resp struct {
	Status int               `json:"status"`
	Header map[string]string `json:"header,omitempty"`
	Body   string            `json:"body,omitempty"`
	Err    bool              `json:"err,omitempty"` // transport error instead of a response
	// ErrKind: which transport error: "" = connection refused; "eof" / "reset" / "epipe" = the server accepts the
	// connection and hangs up before the first byte of an answer; "timeout" = nothing comes back in time
	ErrKind string `json:"err_kind,omitempty"`
	// CutAt > 0: the connection breaks after that many body bytes (the read returns an error)
	CutAt int `json:"cut_at,omitempty"`
	// CutErr: how it breaks: "" = connection reset; "timeout" = the server goes silent and the read deadline /
	// client timeout fires (a net.Error with Timeout() and Temporary() true, returned by every further read,
	// as net/http and net.Conn do); "eof" = unexpected EOF
	CutErr string `json:"cut_err,omitempty"`
	// StallMs: before it breaks, the transfer is silent for that long (virtual time): the read that meets the end of
	// the delivered bytes blocks that long
	StallMs int `json:"stall_ms,omitempty"`
	// Gzip: the response is gzip-encoded and larger than the decoder's read-ahead. The WARC client hands
	// Zeno a decoding reader whose Close does not close the connection underneath (gzip.Reader.Close never
	// does): only reading to EOF lets the connection, its recorder and the feedback signal complete.
	Gzip bool `json:"gzip,omitempty"`
	// DelayMs: the server takes that long (virtual time) before it answers
	DelayMs int `json:"delay_ms,omitempty"`
	// NoLength: the response carries no Content-Length (chunked or close-delimited): http.Response.ContentLength is -1
	NoLength bool `json:"no_length,omitempty"`
}

// Page is the behaviour of one URL: Script[i] answers attempt i, the last entry repeats.
type Page struct {
	Script []Resp `json:"script"`
}

// Site maps the exact request URL to its behaviour; unknown URLs answer 404.
type Site map[string]*Page

// Fetch is one entry of the transport log.
type Fetch struct {
	URL     string
	Attempt int // per-URL attempt number over the whole run (0-based)
	Status  int
	Start   int // scheduler step at RoundTrip
	End     int // scheduler step when the body was closed (or the error returned); -1 while in flight
	VStart  time.Duration
	Accept  bool // the real discard hook chain accepts the response (what the writer acts on)
	// Policy: the discard policy as the operator states it accepts the response - status not in
	// --warc-discard-status and not a Cloudflare challenge page - computed without Zeno's hook chain
	Policy  bool
	Written int // scheduler step at which the fake WARC writer "wrote" it (-1 = not written)
	// BodyLen is what the origin sent, BodyRead what the crawler had read when it closed the body:
	// the WARC library records the bytes that crossed the connection, so an unread tail is lost.
	BodyLen, BodyRead int
	// Canceled: the request's own context was cancelled (by the crawler: the server had no say) and the round trip
	// failed with that error, as a real transport's does
	Canceled bool
}

// Msg is an item seen on the finish or produce channel.
type Msg struct {
	Item *models.Item
	ID   string
	URL  string
	Step int
	// InFlightAtFinish: URLs with an open fetch at the instant the message was received
	InFlight []string
	// Unwritten: accepted, completed fetches not yet written at that instant
	Unwritten []string
}

// Options configure one world.
type Options struct {
	Workers              int
	MaxConcurrentAssets  int
	MaxRetry             int
	MaxRedirect          int
	MaxHops              int
	DisableAssets        bool
	RateLimit            bool
	RateCapacity         int // tokens of a host's bucket with RateLimit (0 = 2: the second request of a burst waits)
	ExcludeHosts         []string
	DiscardStatus        []int
	IncludeHosts         []string // --include-host
	DisableLocalDedupe   bool     // --disable-local-dedupe (a WARC writer option: identical payloads are not written as revisits)
	Tmp                  string   // scratch directory (seencheck store)
	LocalSeencheck       bool     // real LevelDB store (slow); default: crawl HQ seencheck against an in-memory fake HQ
	NoSeencheck          bool     // --disable-seencheck with the local queue (no store is started, as in startPipeline)
	Proxy                bool     // --proxy set: only the proxied client exists, as in startWARCWriter
	AsyncWARC            bool     // --async-warc-write: no feedback channel
	SlowWrites           bool     // every WARC write may (as an environment deviation, cost F) take 5 virtual minutes
	DomainsCrawlPatterns []string // --domains-crawl
	HTTPTimeout          int      // --http-timeout in seconds (0 = the default: -1, no time-out)
	WriteMs              int      // every WARC write takes that long (virtual time) and counts in the client's writing queue until it is done
	SlowSourceMs         int      // the source takes that long (virtual time) over every finished seed it is handed
}

// World is the per-execution state.
type World struct {
	Opt  Options
	Site Site

	mu         hkit.Mutex
	Log        []*Fetch
	attempts   map[string]int
	Finished   []Msg
	Produced   []Msg
	ConnLeaked int // connections left open for good (see Resp.Gzip)
	// Feeders: the harness threads that play the source's consumer side (they call Insert); Stop waits for them
	Feeders    sync.WaitGroup
	BodiesOpen int

	ReactorOut, PreOut, ArchOut, PostOut chan *models.Item
	FinishCh, ProduceCh                  chan *models.Item
	sinkQuit                             chan struct{}
	sinkWG                               sync.WaitGroup

	// TrackedAtStop: seeds still in the reactor's state table when the stop sequence reached reactor.Stop()
	TrackedAtStop int

	// FinisherGate (set before Start): the finisher stage is started by a thread of its own once the gate holds
	FinisherGate func() bool

	// Dyn answers URLs the static site does not know (endless families).
	Dyn func(u string, attempt int) (Resp, bool)

	client  *warc.CustomHTTPClient
	HQ      *FakeHQ
	seenDir string
	started bool
	finSig  chan struct{}

	lastFinish time.Duration
}

var worldSeq int

// New builds a world and resets every Zeno singleton. Call from Scenario.Setup.
func New(opt Options, site Site) *World {
	if opt.Workers == 0 {
		opt.Workers = 1
	}
	if opt.MaxConcurrentAssets == 0 {
		opt.MaxConcurrentAssets = 1
	}
	w := &World{Opt: opt, Site: site, attempts: map[string]int{}, sinkQuit: make(chan struct{})}
	reactor.VerifReset()
	preprocessor.VerifReset()
	archiver.VerifReset()
	postprocessor.VerifReset()
	finisher.VerifReset()
	hq.VerifReset()
	pause.VerifReset()
	if seencheck.VerifStarted() {
		seencheck.Close()
		seencheck.VerifReset()
	}
	worldSeq++
	w.seenDir = fmt.Sprintf("%s/job-%d-%d", opt.Tmp, os.Getpid(), worldSeq)
	cfg := &config.Config{
		Job: "verif", JobPath: w.seenDir,
		NoStdoutLogging: true, NoStderrLogging: true, NoFileLogging: true,
		WorkersCount: opt.Workers, MaxConcurrentAssets: opt.MaxConcurrentAssets,
		MaxRetry: opt.MaxRetry, MaxRedirect: opt.MaxRedirect, MaxHops: opt.MaxHops,
		DisableAssetsCapture: opt.DisableAssets,
		DisableRateLimit:     !opt.RateLimit,
		RateLimitCapacity:    float64(map[bool]int{true: opt.RateCapacity, false: 2}[opt.RateCapacity > 0]), RateLimitRefillRate: 1, RateLimitCleanupFrequency: 5 * time.Minute,
		UseSeencheck: !opt.NoSeencheck, DisableSeencheck: opt.NoSeencheck, UserAgent: "verif", UseHQ: !opt.LocalSeencheck && !opt.NoSeencheck,
		WARCWriteAsync:    opt.AsyncWARC,
		ExcludeHosts:      append([]string{"archive.org", "archive-it.org"}, opt.ExcludeHosts...),
		IncludeHosts:      opt.IncludeHosts,
		WARCDiscardStatus: opt.DiscardStatus, DisableLocalDedupe: opt.DisableLocalDedupe,
		DomainsCrawl:     opt.DomainsCrawlPatterns,
		WARCTempDir:      w.seenDir + "/temp",
		HTTPReadDeadline: 60, // the CLI default (seconds)
		HTTPTimeout:      map[bool]int{true: opt.HTTPTimeout, false: -1}[opt.HTTPTimeout > 0],
	}
	if opt.DiscardStatus == nil {
		cfg.WARCDiscardStatus = []int{429}
	}
	config.VerifSet(cfg)
	domainscrawl.Reset()
	if len(opt.DomainsCrawlPatterns) > 0 {
		must(domainscrawl.AddElements(opt.DomainsCrawlPatterns))
	}
	stats.Init()
	return w
}

// Start starts the five stages in the order of controler.startPipeline.
func (w *World) Start() {
	n := w.Opt.Workers
	w.ReactorOut = make(chan *models.Item, n)
	must(reactor.Start(n, w.ReactorOut))
	if w.Opt.NoSeencheck {
		// startPipeline starts no store: config.UseSeencheck is false
	} else if w.Opt.LocalSeencheck {
		os.MkdirAll(w.seenDir, 0o755)
		must(seencheck.Start(w.seenDir))
	} else {
		w.HQ = newFakeHQ()
		hq.VerifSetClient(w.HQ.client())
	}
	w.PreOut = make(chan *models.Item, n)
	must(preprocessor.Start(w.ReactorOut, w.PreOut))
	w.ArchOut = make(chan *models.Item, n)
	hook := discard.NewBuilder().AddDefaultHooks().Build()
	w.client = warc.NewVerifClient(&transport{w: w}, hook)
	warc.VerifWait = nil
	if w.Opt.WriteMs > 0 {
		// the stop sequence waits for the writing queue: in virtual time, where the scheduler sees it
		warc.VerifWait = func(wg *warc.WaitGroupWithCount) {
			for wg.Size() > 0 {
				time.Sleep(250 * time.Millisecond)
			}
		}
	}
	if w.Opt.Proxy {
		config.Get().Proxy = "socks5://127.0.0.1:1"
		must(archiver.VerifStart(w.PreOut, w.ArchOut, nil, w.client))
	} else {
		must(archiver.VerifStart(w.PreOut, w.ArchOut, w.client, nil))
	}
	w.PostOut = make(chan *models.Item, n)
	must(postprocessor.Start(w.ArchOut, w.PostOut))
	w.FinishCh = make(chan *models.Item, n)
	w.ProduceCh = make(chan *models.Item, n)
	w.sinkWG.Add(1)
	go w.sink()
	if w.FinisherGate != nil {
		// startPipeline starts the finisher last, after the source (hq.Start connects to the network): the
		// harness decides when that moment is
		gate := w.FinisherGate
		go func() {
			vsched.Block("h:the finisher is started late", nil, gate)
			must(finisher.Start(w.PostOut, w.FinishCh, w.ProduceCh))
		}()
	} else {
		must(finisher.Start(w.PostOut, w.FinishCh, w.ProduceCh))
	}
	w.started = true
}

// Stop runs the stop sequence of controler.stopPipeline with the harness sink as source.
func (w *World) Stop() {
	reactor.Freeze()
	preprocessor.Stop()
	archiver.Stop()
	postprocessor.Stop()
	finisher.Stop()
	if config.Get().UseSeencheck && !config.Get().UseHQ {
		seencheck.Close()
		seencheck.VerifReset()
	}
	// the source is stopped before the reactor (it needs the state table): hq.Stop / lq.Stop wait for their
	// consumer goroutines, which sit in reactor.ReceiveInsert when the token pool is exhausted
	w.Feeders.Wait()
	close(w.sinkQuit)
	w.sinkWG.Wait()
	w.TrackedAtStop = reactor.VerifTracked() // what the source would hand back to its queue
	reactor.Stop()
}

// Cleanup releases what an aborted execution may have left behind (explorer goroutine).
func (w *World) Cleanup() {
	if seencheck.VerifStarted() {
		seencheck.Close()
		seencheck.VerifReset()
	}
	os.RemoveAll(w.seenDir)
}

func must(err error) {
	if err != nil {
		panic(err)
	}
}

// Insert hands a seed to the reactor the way a source does.
func (w *World) Insert(id, url string) error { return w.InsertHops(id, url, 0) }

// InsertHops is Insert for a seed that arrives with a hop count (an outlink queued earlier).
func (w *World) InsertHops(id, url string, hops int) error {
	u := &models.URL{Raw: url, Hops: hops}
	if err := u.Parse(); err != nil {
		return err
	}
	it := models.NewItem(id, u, "")
	it.SetSource(models.ItemSourceQueue)
	return reactor.ReceiveInsert(it)
}

// sink plays the source: it drains the finish and produce channels.
func (w *World) sink() {
	defer w.sinkWG.Done()
	for {
		select {
		case it := <-w.FinishCh:
			w.record(&w.Finished, it)
			select {
			case w.finishSignal() <- struct{}{}:
			default:
			}
			if w.Opt.SlowSourceMs > 0 {
				// a slow source: its finish receiver is busy with this seed (a DELETE on crawl HQ, a database write)
				time.Sleep(time.Duration(w.Opt.SlowSourceMs) * time.Millisecond)
			}
		case it := <-w.ProduceCh:
			w.record(&w.Produced, it)
		case <-w.sinkQuit:
			return
		}
	}
}

func (w *World) record(dst *[]Msg, it *models.Item) {
	m := Msg{Item: it, ID: it.GetID(), Step: vsched.Cur().StepIndex()}
	if it.GetURL() != nil {
		m.URL = it.GetURL().Raw
	}
	w.mu.Lock()
	if dst == &w.Finished {
		w.lastFinish = vsched.Cur().Now()
	}
	for _, f := range w.Log {
		if f.End < 0 {
			m.InFlight = append(m.InFlight, f.URL)
		} else if f.Policy && f.Written < 0 && f.Status != 0 {
			m.Unwritten = append(m.Unwritten, f.URL)
		}
	}
	*dst = append(*dst, m)
	w.mu.Unlock()
}

// FinishedCount is the number of finish messages received so far.
func (w *World) FinishedCount() int {
	w.mu.Lock()
	defer w.mu.Unlock()
	return len(w.Finished)
}

// FetchCount: requests that have reached the transport so far.
func (w *World) FetchCount() int {
	w.mu.Lock()
	defer w.mu.Unlock()
	return len(w.Log)
}

// IsIdlePoint tells the scheduler where a parked thread is quiescent.
func IsIdlePoint(p string) bool {
	if !strings.Contains(p, "select") {
		return false
	}
	return strings.Contains(p, "recv controlChans.PauseCh") || strings.Contains(p, "recv r.input") ||
		strings.Contains(p, "recv w.FinishCh") || strings.Contains(p, "ratelimiter/manager.go")
}

// VisibleDefault hides the packages whose points commute with everything the
// world oracles observe (argument in DESIGN.md 2.2): stats counters, the item
// tree's own mutex, the URL once, domainscrawl.
func VisibleDefault(p string) bool {
	if strings.HasPrefix(p, "internal/pkg/stats/") || strings.HasPrefix(p, "pkg/models/") ||
		strings.HasPrefix(p, "internal/pkg/postprocessor/domainscrawl/") || strings.HasPrefix(p, "internal/pkg/utils/") {
		return false
	}
	// shim operations are named by call site: "Mutex.Lock pkg/models/item.go:123"
	if i := strings.LastIndexByte(p, ' '); i >= 0 {
		site := p[i+1:]
		if strings.HasPrefix(site, "internal/pkg/stats/") || strings.HasPrefix(site, "pkg/models/") ||
			strings.HasPrefix(site, "internal/pkg/postprocessor/domainscrawl/") {
			return false
		}
	}
	return true
}

// ---------------------------------------------------------------------------
// fake transport

type transport struct{ w *World }

func (t *transport) RoundTrip(req *http.Request) (*http.Response, error) {
	w := t.w
	u := req.URL.String()
	// a network round trip is where a fetching goroutine really waits: a scheduling point of its own
	// (the object is the transport, so that round trips are ordered among themselves like on one wire)
	vsched.Point("h:round trip", t)
	x := vsched.Cur()
	w.mu.Lock()
	n := w.attempts[u]
	w.attempts[u]++
	f := &Fetch{URL: u, Attempt: n, Start: x.StepIndex(), End: -1, VStart: x.Now(), Written: -1}
	w.Log = append(w.Log, f)
	w.mu.Unlock()

	var r Resp
	if p, ok := w.Site[u]; ok && len(p.Script) > 0 {
		if n < len(p.Script) {
			r = p.Script[n]
		} else {
			r = p.Script[len(p.Script)-1]
		}
	} else if d, ok := dyn(w, u, n); ok {
		r = d
	} else {
		r = Resp{Status: 404, Body: "not found"}
	}
	if r.DelayMs > 0 {
		time.Sleep(time.Duration(r.DelayMs) * time.Millisecond)
	}
	if err := req.Context().Err(); err != nil { // a real transport gives up a request whose context is done
		w.mu.Lock()
		f.End = x.StepIndex()
		f.Canceled = errors.Is(err, context.Canceled)
		w.mu.Unlock()
		return nil, err
	}
	if r.Err {
		w.mu.Lock()
		f.End = x.StepIndex()
		w.mu.Unlock()
		switch r.ErrKind {
		case "eof":
			return nil, fmt.Errorf("fake transport: %w", io.EOF)
		case "reset":
			return nil, &net.OpError{Op: "read", Net: "tcp", Err: os.NewSyscallError("read", syscall.ECONNRESET)}
		case "epipe":
			return nil, &net.OpError{Op: "write", Net: "tcp", Err: os.NewSyscallError("write", syscall.EPIPE)}
		case "timeout":
			return nil, &net.OpError{Op: "dial", Net: "tcp", Err: timeoutError{}}
		}
		return nil, fmt.Errorf("fake transport: connection refused")
	}
	f.Status = r.Status
	f.BodyLen = len(r.Body)
	if r.CutAt > 0 && r.CutAt < f.BodyLen {
		f.BodyLen = r.CutAt
	}
	h := http.Header{}
	for k, v := range r.Header {
		h.Set(k, v)
	}
	resp := &http.Response{
		Status: fmt.Sprintf("%d %s", r.Status, http.StatusText(r.Status)), StatusCode: r.Status,
		Proto: "HTTP/1.1", ProtoMajor: 1, ProtoMinor: 1, Header: h, Request: req,
		ContentLength: int64(len(r.Body)),
	}
	if r.NoLength {
		resp.ContentLength, resp.TransferEncoding = -1, []string{"chunked"}
	}
	discarded, _ := false, ""
	if w.client.DiscardHook != nil {
		discarded, _ = w.client.DiscardHook(resp)
	}
	f.Accept = !discarded
	f.Policy = !(r.Status == 403 && h.Get("cf-mitigated") == "challenge")
	for _, c := range config.Get().WARCDiscardStatus {
		if c == r.Status {
			f.Policy = false
		}
	}
	fb, _ := req.Context().Value("feedback").(chan struct{})
	w.mu.Lock()
	w.BodiesOpen++
	w.mu.Unlock()
	var rd io.Reader = strings.NewReader(r.Body)
	if r.CutAt > 0 {
		rd = &cutReader{r: rd, left: r.CutAt, kind: r.CutErr, url: f.URL, stallMs: r.StallMs}
	}
	resp.Body = &body{r: rd, w: w, f: f, fb: fb, gzip: r.Gzip}
	return resp, nil
}

// cutReader delivers `left` bytes and then fails for good: every further read returns the same error.
type cutReader struct {
	r       io.Reader
	left    int
	kind    string
	url     string
	after   int // reads after the failure
	stallMs int
}

// timeoutError is what a fired read deadline or client timeout looks like to the reader of a body.
type timeoutError struct{}

func (timeoutError) Error() string   { return "read tcp: i/o timeout" }
func (timeoutError) Timeout() bool   { return true }
func (timeoutError) Temporary() bool { return true }

func (c *cutReader) Read(p []byte) (int, error) {
	if c.left <= 0 {
		if c.after == 0 && c.stallMs > 0 {
			time.Sleep(time.Duration(c.stallMs) * time.Millisecond) // the server has gone silent
		}
		c.after++
		if c.after > 100 {
			// a reader that keeps asking a dead connection never ends (and never yields to the scheduler): livelock
			panic(fmt.Sprintf("spin: the body of %s was read %d times after it had failed for good", c.url, c.after))
		}
		switch c.kind {
		case "timeout":
			return 0, &net.OpError{Op: "read", Net: "tcp", Err: timeoutError{}}
		case "eof":
			return 0, io.ErrUnexpectedEOF
		}
		return 0, fmt.Errorf("read tcp: connection reset by peer")
	}
	if len(p) > c.left {
		p = p[:c.left]
	}
	n, err := c.r.Read(p)
	c.left -= n
	return n, err
}

func dyn(w *World, u string, n int) (Resp, bool) {
	if w.Dyn == nil {
		return Resp{}, false
	}
	return w.Dyn(u, n)
}

// body counts opens/closes; closing it ends the connection, which is when the
// WARC library assembles and writes the records (writeWARCFromConnection) and
// then signals - or, for a discarded response, closes - the feedback channel.
type body struct {
	r      io.Reader
	w      *World
	f      *Fetch
	fb     chan struct{}
	closed bool
	gzip   bool
	eof    bool
}

func (b *body) Read(p []byte) (int, error) {
	n, err := b.r.Read(p)
	b.f.BodyRead += n
	if err != nil {
		b.eof = true // EOF or a broken connection: either way the connection is done
	}
	return n, err
}

func (b *body) Close() error {
	if b.closed {
		return nil
	}
	b.closed = true
	w := b.w
	if b.gzip && !b.eof {
		// closed before the end of a gzip-decoded body: the connection stays open, nothing is recorded,
		// nobody signals the feedback channel
		w.mu.Lock()
		w.ConnLeaked++
		w.mu.Unlock()
		return nil
	}
	w.mu.Lock()
	b.f.End = vsched.Cur().StepIndex()
	w.BodiesOpen--
	w.mu.Unlock()
	f, fb := b.f, b.fb
	slow := w.Opt.SlowWrites
	if w.Opt.WriteMs > 0 {
		w.client.WaitGroup.Add(1) // the record is in the writing queue from now on
	}
	go func() { // "WARC write of " + f.URL
		if w.Opt.WriteMs > 0 {
			defer w.client.WaitGroup.Done()
			time.Sleep(time.Duration(w.Opt.WriteMs) * time.Millisecond)
		}
		if slow && vsched.Choose("h:this WARC write is slow", 2) == 1 {
			time.Sleep(5 * time.Minute)
		}
		if !f.Accept {
			if fb != nil {
				close(fb)
			}
			return
		}
		w.mu.Lock()
		f.Written = vsched.Cur().StepIndex()
		w.mu.Unlock()
		if fb != nil {
			fb <- struct{}{}
		}
	}()
	return nil
}

// ---------------------------------------------------------------------------
// helpers for oracles

// FetchesOf returns the log entries for a URL.
func (w *World) FetchesOf(u string) []*Fetch {
	var out []*Fetch
	for _, f := range w.Log {
		if f.URL == u {
			out = append(out, f)
		}
	}
	return out
}

// LogSummary is a canonical rendering of the transport log (for outcomes).
func (w *World) LogSummary() string {
	m := map[string]int{}
	for _, f := range w.Log {
		m[f.URL]++
	}
	ks := make([]string, 0, len(m))
	for k := range m {
		ks = append(ks, k)
	}
	sort.Strings(ks)
	var sb strings.Builder
	for _, k := range ks {
		fmt.Fprintf(&sb, "%s x%d; ", strings.TrimPrefix(k, "http://"), m[k])
	}
	return sb.String()
}

// TreeStatuses renders the statuses of a finished seed's tree.
func TreeStatuses(it *models.Item) string {
	var parts []string
	it.Traverse(func(n *models.Item) {
		parts = append(parts, fmt.Sprintf("%s=%s", strings.TrimPrefix(n.GetURL().Raw, "http://"), n.GetStatus()))
	})
	return strings.Join(parts, ",")
}

// WaitFinished blocks the calling thread until n finish messages were received.
func (w *World) WaitFinished(n int) {
	for w.FinishedCount() < n {
		<-w.finishSignal()
	}
}

func (w *World) finishSignal() chan struct{} {
	w.mu.Lock()
	defer w.mu.Unlock()
	if w.finSig == nil {
		w.finSig = make(chan struct{}, 64)
	}
	return w.finSig
}

// Client is the fake WARC client (its WaitGroup is what the WARC-queue watcher reads).
func (w *World) Client() *warc.CustomHTTPClient { return w.client }

// JobDir is the job directory of this world.
func (w *World) JobDir() string { return w.seenDir }

// WaitIdle parks the calling thread until every other thread is blocked (the
// pipeline has started and waits for input).
func (w *World) WaitIdle() {
	time.Sleep(time.Millisecond)
}

// LastFinishAt is the virtual time of the last finish message (0 if none).
func (w *World) LastFinishAt() time.Duration {
	w.mu.Lock()
	defer w.mu.Unlock()
	return w.lastFinish
}
