package world

import (
	"fmt"
	"net/url"
	"sort"
	"strings"
)

// Node is the declaration of one URL of a fake site: what it answers and what
// its (final) body refers to. The reference crawler reads only declarations.
type Node struct {
	URL      string            `json:"url"`
	Kind     string            `json:"kind"` // html | bin | m3u8 | redirect | status | fail5xx | fail5xx-big | flaky | refuse | cut | stall | badpdf | emptyxml
	Refs     []string          `json:"refs,omitempty"`
	Links    []string          `json:"links,omitempty"` // anchors of an html page: outlinks when the hop limit allows, never fetched for this seed
	Location string            `json:"location,omitempty"`
	Code     int               `json:"code,omitempty"`
	FailN    int               `json:"fail_n,omitempty"` // flaky: number of 500 answers before the 200
	Header   map[string]string `json:"header,omitempty"`
	DelayMs  int               `json:"delay_ms,omitempty"` // the server answers that late (virtual time)
}

// SiteDef is a declared site plus its seeds.
type SiteDef struct {
	Name  string   `json:"name"`
	Nodes []Node   `json:"nodes"`
	Seeds []string `json:"seeds"`
}

const pngMagic = "\x89PNG\r\n\x1a\n\x00\x00\x00\rIHDR\x00\x00\x00\x01\x00\x00\x00\x01\x08\x06\x00\x00\x00"

func htmlBody(refs []string, links ...string) string {
	var sb strings.Builder
	sb.WriteString("<!DOCTYPE html><html><head><title>t</title></head><body>")
	for _, r := range refs {
		fmt.Fprintf(&sb, `<img src="%s">`, r)
	}
	for _, l := range links {
		fmt.Fprintf(&sb, `<a href="%s">l</a>`, l)
	}
	sb.WriteString("</body></html>")
	return sb.String()
}

func m3u8Body(refs []string) string {
	var sb strings.Builder
	sb.WriteString("#EXTM3U\n#EXT-X-VERSION:3\n#EXT-X-TARGETDURATION:10\n#EXT-X-MEDIA-SEQUENCE:0\n")
	for _, r := range refs {
		fmt.Fprintf(&sb, "#EXTINF:10.0,\n%s\n", r)
	}
	sb.WriteString("#EXT-X-ENDLIST\n")
	return sb.String()
}

// Build turns the declarations into transport behaviour.
func (d *SiteDef) Build() Site {
	s := Site{}
	for _, n := range d.Nodes {
		var p Page
		switch n.Kind {
		case "html":
			p.Script = []Resp{{Status: 200, Header: map[string]string{"Content-Type": "text/html; charset=utf-8"}, Body: htmlBody(n.Refs, n.Links...)}}
		case "bin":
			p.Script = []Resp{{Status: 200, Header: map[string]string{"Content-Type": "image/png"}, Body: pngMagic}}
		case "m3u8":
			p.Script = []Resp{{Status: 200, Header: map[string]string{"Content-Type": "application/vnd.apple.mpegurl"}, Body: m3u8Body(n.Refs)}}
		case "wall": // a cookie wall: the first request is redirected to the same URL, the second gets the page
			p.Script = []Resp{{Status: 302, Header: map[string]string{"Location": n.URL}, Body: ""},
				{Status: 200, Header: map[string]string{"Content-Type": "text/html; charset=utf-8"}, Body: htmlBody(n.Refs, n.Links...)}}
		case "redirect":
			code := n.Code
			if code == 0 {
				code = 301
			}
			p.Script = []Resp{{Status: code, Header: map[string]string{"Location": n.Location}, Body: ""}}
		case "status":
			h := map[string]string{"Content-Type": "text/plain"}
			for k, v := range n.Header {
				h[k] = v
			}
			p.Script = []Resp{{Status: n.Code, Header: h, Body: "status"}}
		case "fail5xx":
			p.Script = []Resp{{Status: 500, Header: map[string]string{"Content-Type": "text/plain"}, Body: "oops"}}
		case "fail5xx-big": // an error page of 1.5 MiB
			p.Script = []Resp{{Status: 500, Header: map[string]string{"Content-Type": "text/html"}, Body: "<html>" + strings.Repeat("error ", 262144) + "</html>"}}
		case "flaky":
			for i := 0; i < n.FailN; i++ {
				p.Script = append(p.Script, Resp{Status: 500, Header: map[string]string{"Content-Type": "text/plain"}, Body: "oops"})
			}
			p.Script = append(p.Script, Resp{Status: 200, Header: map[string]string{"Content-Type": "image/png"}, Body: pngMagic})
		case "refuse":
			p.Script = []Resp{{Err: true}}
		case "bigtext": // 2.2 MiB of text: spooled to a temp file by ProcessBody
			p.Script = []Resp{{Status: 200, Header: map[string]string{"Content-Type": "text/plain"}, Body: strings.Repeat("lorem ipsum dolor sit amet, consectetur adipiscing elit\n", 40000)}}
		case "badpdf": // a PDF cut short: the outlink extractor returns an error
			p.Script = []Resp{{Status: 200, Header: map[string]string{"Content-Type": "application/pdf"}, Body: "%PDF-1.4\n1 0 obj\n<< /Type /Catalog /Pages 2 0 R >>\nendobj\n2 0 obj\n<< /Type /Pages /Kids [3 0 R] /Count 1"}}
		case "emptyxml": // declared XML, nothing in it
			p.Script = []Resp{{Status: 200, Header: map[string]string{"Content-Type": "application/xml"}, Body: ""}}
		case "cut": // headers arrive, the connection breaks in the middle of the body
			p.Script = []Resp{{Status: 200, Header: map[string]string{"Content-Type": "image/png"}, Body: pngMagic + strings.Repeat("\x00", 4096), CutAt: 100}}
		case "bigbin-chunked", "bigbin": // 9 KiB of image data (past the 2 KiB that are sniffed), without / with a Content-Length
			p.Script = []Resp{{Status: 200, Header: map[string]string{"Content-Type": "image/png"}, Body: pngMagic + strings.Repeat("\x00", 9000), NoLength: n.Kind == "bigbin-chunked"}}
		case "stall": // headers and 100 bytes arrive, then silence: the read times out, and so does every further read
			p.Script = []Resp{{Status: 200, Header: map[string]string{"Content-Type": "image/png"}, Body: pngMagic + strings.Repeat("\x00", 4096), CutAt: 100, CutErr: "timeout"}}
		}
		if n.DelayMs > 0 {
			for i := range p.Script {
				p.Script[i].DelayMs = n.DelayMs
			}
		}
		s[n.URL] = &p
	}
	return s
}

func (d *SiteDef) node(u string) *Node {
	for i := range d.Nodes {
		if d.Nodes[i].URL == u {
			return &d.Nodes[i]
		}
	}
	return nil
}

// Expect is what the reference crawler says about one seed.
type Expect struct {
	Seed     string
	Attempts map[string]int // URL -> attempts of one visit
	Order    []string
}

// inScope is the property's scope rule (C05) for an absolute URL.
func inScope(u *url.URL, excludeHosts []string, includeHosts ...string) bool {
	if len(includeHosts) > 0 {
		ok := false
		for _, h := range includeHosts {
			ok = ok || strings.Contains(u.Host, h)
		}
		if !ok {
			return false
		}
	}
	if u.Scheme != "http" && u.Scheme != "https" {
		return false
	}
	h := u.Hostname()
	if h == "localhost" || h == "127.0.0.1" || !strings.Contains(h, ".") {
		return false
	}
	for _, e := range append([]string{"archive.org", "archive-it.org"}, excludeHosts...) {
		if strings.Contains(u.Host, e) {
			return false
		}
	}
	return true
}

func isRedirect(c int) bool {
	switch c {
	case 300, 301, 302, 303, 307, 308:
		return true
	}
	return false
}

func retryable(c int) bool { return c >= 500 || c == 408 || c == 425 || c == 429 }

// Reference computes, from the declarations only, the URLs one visit of the
// seed must attempt and how often (ignoring what other seeds did before).
// It encodes the property's words: follow <= MaxRedirect redirects, fetch
// embedded resources up to three levels below the page, do not expand HTML
// found as an asset, drop invalid / out-of-scope / duplicate URLs and assets
// whose path is empty or "/", attempt each URL <= MaxRetry+1 times.
func (d *SiteDef) Reference(seed string, opt Options) *Expect {
	e := &Expect{Seed: seed, Attempts: map[string]int{}}
	// inTree: URLs of the non-root nodes. Zeno's de-duplication never compares a node with the seed itself: a
	// redirection back onto the seed's URL is followed once more (and its own target is then a duplicate)
	inTree := map[string]bool{}
	visits := map[string]int{}
	type job struct {
		raw       string
		parent    *url.URL
		kind      string // seed | redirect | asset
		depth     int    // depth below the page, redirections not counted
		redirects int
	}
	var level []job
	level = append(level, job{raw: seed, kind: "seed"})
	for len(level) > 0 {
		var next []job
		// Zeno works level by level: resolve and filter the whole level first
		// (duplicates are dropped within the tree), then fetch it.
		type resolved struct {
			job
			u *url.URL
		}
		var todo []resolved
		for _, j := range level {
			raw := strings.Trim(j.raw, `"'`)
			ref, err := url.Parse(raw)
			if err != nil {
				continue
			}
			var u *url.URL
			if j.parent != nil {
				u = j.parent.ResolveReference(ref)
			} else {
				u = ref
			}
			u.Fragment = ""
			u.Host = strings.ToLower(u.Host)
			if (u.Scheme == "http" && strings.HasSuffix(u.Host, ":80")) || (u.Scheme == "https" && strings.HasSuffix(u.Host, ":443")) {
				u.Host = u.Host[:strings.LastIndexByte(u.Host, ':')]
			}
			if !inScope(u, opt.ExcludeHosts, opt.IncludeHosts...) {
				continue
			}
			if j.kind == "asset" && (u.Path == "" || u.Path == "/") {
				continue
			}
			if u.Path == "" {
				u.Path = "/"
			}
			if j.kind == "asset" && j.parent != nil && u.String() == j.parent.String() {
				continue // a page's reference to itself is not an asset
			}
			if j.kind != "seed" {
				if inTree[u.String()] {
					continue
				}
				inTree[u.String()] = true
			}
			todo = append(todo, resolved{j, u})
		}
		for _, r := range todo {
			us := r.u.String()
			n := d.node(us)
			// simulate the retry loop on the declared behaviour
			attempts, final := 0, 404
			kind := "status"
			if n != nil {
				kind = n.Kind
			}
			for a := 0; a <= opt.MaxRetry; a++ {
				attempts++
				code := 404
				switch kind {
				case "html", "bin", "m3u8", "cut", "stall", "badpdf", "emptyxml", "bigtext", "bigbin", "bigbin-chunked":
					code = 200
				case "wall":
					code = 200
					if visits[us] == 0 {
						code = 302
					}
				case "redirect":
					code = n.Code
					if code == 0 {
						code = 301
					}
				case "status":
					if n != nil {
						code = n.Code
					}
				case "fail5xx", "fail5xx-big":
					code = 500
				case "flaky":
					if a < n.FailN {
						code = 500
					} else {
						code = 200
					}
				case "refuse":
					code = -1
				}
				final = code
				challenge := n != nil && code == 403 && n.Header["cf-mitigated"] == "challenge"
				if code == -1 || retryable(code) || challenge {
					final = -1
					continue
				}
				break
			}
			e.Attempts[us] += attempts
			e.Order = append(e.Order, us)
			visits[us]++
			if final == -1 || n == nil || kind == "cut" || kind == "stall" {
				continue // failed for good (a body that breaks after the headers is not retried)
			}
			if isRedirect(final) {
				if r.redirects < opt.MaxRedirect {
					loc := n.Location
					if kind == "wall" {
						loc = n.URL
					}
					next = append(next, job{raw: loc, parent: r.u, kind: "redirect", depth: r.depth, redirects: r.redirects + 1})
				}
				continue
			}
			if final != 200 || opt.DisableAssets {
				continue
			}
			if r.depth > 2 {
				continue
			}
			if r.depth == 1 && (kind == "html" || kind == "wall") {
				continue
			}
			if kind == "html" || kind == "m3u8" || kind == "wall" {
				for _, ref := range n.Refs {
					next = append(next, job{raw: ref, parent: r.u, kind: "asset", depth: r.depth + 1})
				}
			}
		}
		level = next
	}
	sort.Strings(e.Order)
	return e
}
