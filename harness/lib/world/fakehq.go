package world

import (
	"bytes"
	"encoding/json"
	"io"
	"net/http"
	"net/url"

	"github.com/internetarchive/Zeno/internal/verif/vrt/hkit"
	"github.com/internetarchive/gocrawlhq"
)

// FakeHQ is an in-memory crawl HQ: only the seencheck endpoint is served here.
// It answers with the URLs it had not seen (and records them), like the real one.
type FakeHQ struct {
	mu    hkit.Mutex
	Seen  map[string]string // value -> type of first sighting
	Calls [][]string
}

func newFakeHQ() *FakeHQ { return &FakeHQ{Seen: map[string]string{}} }

func (h *FakeHQ) client() *gocrawlhq.Client {
	u, _ := url.Parse("http://hq.invalid/api/projects/verif/seencheck")
	return &gocrawlhq.Client{Project: "verif", SeencheckEndpoint: u, HTTPClient: &http.Client{Transport: h}}
}

func (h *FakeHQ) RoundTrip(req *http.Request) (*http.Response, error) {
	var in []gocrawlhq.URL
	b, _ := io.ReadAll(req.Body)
	json.Unmarshal(b, &in)
	h.mu.Lock()
	var out []gocrawlhq.URL
	var call []string
	for _, u := range in {
		call = append(call, u.Value)
		t, ok := h.Seen[u.Value]
		if !ok || (t == "asset" && u.Type == "seed") {
			h.Seen[u.Value] = u.Type
			out = append(out, u)
		}
	}
	h.Calls = append(h.Calls, call)
	h.mu.Unlock()
	// the service promises no order for its answer: list the not-seen URLs in reverse
	for i, j := 0, len(out)-1; i < j; i, j = i+1, j-1 {
		out[i], out[j] = out[j], out[i]
	}
	if len(out) == 0 {
		return &http.Response{StatusCode: 204, Status: "204 No Content", Body: io.NopCloser(bytes.NewReader(nil)), Header: http.Header{}, Request: req}, nil
	}
	ob, _ := json.Marshal(out)
	return &http.Response{StatusCode: 200, Status: "200 OK", Body: io.NopCloser(bytes.NewReader(ob)), Header: http.Header{}, Request: req}, nil
}
