// Harness for C18, part C: "the crawler refuses to start ... exactly when free space on the job's volume is below
// the threshold" decided on the real start-up path. Parts A and B call checkThreshold / CheckDiskUsage and run the
// watchdog; whether controler.Start() consults them at all - for a fresh job directory, for one a previous run
// left behind, for one that holds a queue already - is decided here, in real child processes on the real volume.
package main

import (
	"encoding/json"
	"fmt"
	"os"
	"path/filepath"
	"strings"
	"syscall"

	"github.com/internetarchive/Zeno/internal/pkg/reactor"
	"github.com/internetarchive/Zeno/internal/pkg/source/lq"
	"github.com/internetarchive/Zeno/internal/verif/lib/e2e"
	"github.com/internetarchive/Zeno/internal/verif/vrt/hkit"
)

const propID = "C18"

// a history: the runs of one job on one directory, each with its own --min-space-required
type run struct {
	MinSpaceGiB float64 `json:"min_space_required_gib"`
	Refuse      bool    `json:"must_refuse"`
}

type caseSpec struct {
	Name   string `json:"name"`
	PreDir string `json:"job_dir_before_the_first_run"` // "" = absent, "empty" = exists, "file" = exists with a file in it
	Runs   []run  `json:"runs"`
}

func cases(freeGiB float64) []caseSpec {
	huge := freeGiB*4 + 1024 // a threshold the volume cannot meet
	tiny := 0.001
	var out []caseSpec
	for _, pre := range []string{"", "empty", "file"} {
		out = append(out,
			caseSpec{Name: "first run, threshold above free space", PreDir: pre, Runs: []run{{huge, true}}},
			caseSpec{Name: "first run, threshold below free space", PreDir: pre, Runs: []run{{tiny, false}}},
			caseSpec{Name: "resumed job, the second run with a threshold above free space", PreDir: pre, Runs: []run{{tiny, false}, {huge, true}}},
			caseSpec{Name: "refused, then started with a threshold below free space", PreDir: pre, Runs: []run{{huge, true}, {tiny, false}, {huge, true}}},
		)
	}
	return out
}

type verdict struct {
	Case   caseSpec `json:"case"`
	Runs   []string `json:"runs"`
	Reason string   `json:"violation,omitempty"`
	Sig    string   `json:"sig,omitempty"`
}

func runCase(c caseSpec) verdict {
	v := verdict{Case: c}
	dir, err := os.MkdirTemp(os.Getenv("VERIF_TMP"), "c18c-")
	if err != nil {
		hkit.EngineError("%v", err)
	}
	defer os.RemoveAll(dir)
	job := "verif"
	jobDir := filepath.Join(dir, "jobs", job)
	switch c.PreDir {
	case "empty":
		os.MkdirAll(jobDir, 0o755)
	case "file":
		os.MkdirAll(jobDir, 0o755)
		os.WriteFile(filepath.Join(jobDir, "note.txt"), []byte("left by the operator\n"), 0o644)
	}
	for i, r := range c.Runs {
		spec := &e2e.ChildSpec{Dir: dir, Conf: e2e.Conf{Job: job, Workers: 1, MinSpaceRequired: r.MinSpaceGiB, DisableRateLimit: true}, Mode: "drain", Quiesce: true, DeadlineS: 20, WatchdogS: 60}
		res, err := e2e.RunChild(spec, e2e.RunHooks{})
		if err != nil {
			hkit.EngineError("child: %v", err)
		}
		refused := res.ExitCode == 1 && strings.Contains(res.Stderr, "low disk space")
		started := res.ExitCode == 0
		v.Runs = append(v.Runs, fmt.Sprintf("run %d (--min-space-required %.3f): exit=%d refused=%v", i+1, r.MinSpaceGiB, res.ExitCode, refused))
		switch {
		case res.TimedOut || (!refused && !started):
			hkit.EngineError("case %q run %d ended neither refused nor stopped: exit=%d signal=%s %s", c.Name, i+1, res.ExitCode, res.Signal, res.Panic)
		case r.Refuse && !refused:
			v.Sig = fmt.Sprintf("started-below-threshold:run-%d-of-%d:job-dir-%s", i+1, len(c.Runs), orAbsent(c.PreDir))
			v.Reason = fmt.Sprintf("run %d started although free space is below --min-space-required %.0f GiB (job directory before the first run: %s)", i+1, r.MinSpaceGiB, orAbsent(c.PreDir))
			return v
		case !r.Refuse && refused:
			v.Sig = fmt.Sprintf("refused-above-threshold:run-%d-of-%d:job-dir-%s", i+1, len(c.Runs), orAbsent(c.PreDir))
			v.Reason = fmt.Sprintf("run %d refused to start although free space is above --min-space-required %.3f GiB", i+1, r.MinSpaceGiB)
			return v
		}
	}
	return v
}

// otherVolume finds a writable directory on a volume other than the scratch volume whose free space differs from
// the scratch volume's by at least 4 GiB (so that a threshold half-way between them is safely between them).
func otherVolume(scratch string) (dir string, scratchFree, otherFree float64, ok bool) {
	var a syscall.Statfs_t
	if syscall.Statfs(scratch, &a) != nil {
		return
	}
	scratchFree = float64(a.Bavail) * float64(a.Bsize) / (1 << 30)
	home, _ := os.UserHomeDir()
	for _, cand := range []string{"/var/tmp", os.TempDir(), home, "/dev/shm"} {
		var b syscall.Statfs_t
		if cand == "" || syscall.Statfs(cand, &b) != nil || b.Fsid == a.Fsid {
			continue
		}
		f := float64(b.Bavail) * float64(b.Bsize) / (1 << 30)
		if d := f - scratchFree; d < 4 && d > -4 {
			continue
		}
		d, err := os.MkdirTemp(cand, "verif-c18c-")
		if err != nil {
			continue
		}
		return d, scratchFree, f, true
	}
	return
}

type volCase struct {
	Name       string  `json:"name"`
	JobOnOther bool    `json:"job_on_the_other_volume"` // else on the scratch volume
	Threshold  float64 `json:"threshold_gib"`
	JobFree    float64 `json:"job_volume_free_gib"`
	TempFree   float64 `json:"temp_volume_free_gib"`
	MustPause  bool    `json:"must_pause"`
}

// runVolCase: the job directory on one volume, --warc-temp-dir on another, the threshold between their free space.
// The crawler is started with a tiny threshold (both volumes pass the start-up check), the threshold is raised as
// soon as it runs, and after the watchdog's first check (5 s) the pause state is read.
func runVolCase(c volCase, scratch, other string) verdict {
	v := verdict{Case: caseSpec{Name: c.Name}}
	jobBase, tempBase := scratch, other
	if c.JobOnOther {
		jobBase, tempBase = other, scratch
	}
	dir, err := os.MkdirTemp(jobBase, "c18c-job-")
	if err != nil {
		hkit.EngineError("%v", err)
	}
	defer os.RemoveAll(dir)
	tdir, err := os.MkdirTemp(tempBase, "c18c-temp-")
	if err != nil {
		hkit.EngineError("%v", err)
	}
	defer os.RemoveAll(tdir)
	spec := &e2e.ChildSpec{Dir: dir, Conf: e2e.Conf{Job: "verif", Workers: 1, MinSpaceRequired: 0.001, DisableRateLimit: true, WARCTempDir: tdir}, Mode: "drain", Quiesce: true,
		DeadlineS: 20, WatchdogS: 60, MinSpaceAfterStart: c.Threshold, PauseProbeMS: 7000}
	res, err := e2e.RunChild(spec, e2e.RunHooks{})
	if err != nil {
		hkit.EngineError("child: %v", err)
	}
	paused, probed := res.HasEvent("pause-probe paused=true"), res.HasEvent("pause-probe paused=")
	v.Runs = append(v.Runs, fmt.Sprintf("job volume %.1f GiB free, --warc-temp-dir volume %.1f GiB free, threshold %.1f GiB: paused=%v exit=%d", c.JobFree, c.TempFree, c.Threshold, paused, res.ExitCode))
	switch {
	case !probed || res.TimedOut:
		hkit.EngineError("case %q: no pause probe: exit=%d events=%v stderr=%s", c.Name, res.ExitCode, res.Events, res.Stderr)
	case c.MustPause && !paused:
		v.Sig, v.Reason = "running-below-threshold:warc-temp-dir-on-another-volume", fmt.Sprintf("the crawler kept running although the job's volume has %.1f GiB free, below --min-space-required %.1f GiB (the volume of --warc-temp-dir has %.1f GiB)", c.JobFree, c.Threshold, c.TempFree)
	case !c.MustPause && paused:
		v.Sig, v.Reason = "paused-above-threshold:warc-temp-dir-on-another-volume", fmt.Sprintf("the crawler paused although the job's volume has %.1f GiB free, above --min-space-required %.1f GiB (the volume of --warc-temp-dir has %.1f GiB)", c.JobFree, c.Threshold, c.TempFree)
	}
	return v
}

func orAbsent(s string) string {
	if s == "" {
		return "absent"
	}
	return s
}

func main() {
	e2e.QueueState = lq.VerifQueueState
	e2e.ReactorTracked = reactor.VerifTracked
	if e2e.IsChild() {
		e2e.ChildMain()
	}
	a := hkit.ParseArgs()
	var st syscall.Statfs_t
	tmp := os.Getenv("VERIF_TMP")
	if tmp == "" {
		tmp = os.TempDir()
	}
	if err := syscall.Statfs(tmp, &st); err != nil {
		hkit.EngineError("statfs: %v", err)
	}
	freeGiB := float64(st.Bavail) * float64(st.Bsize) / (1 << 30)
	if freeGiB < 0.01 {
		hkit.EngineError("the scratch volume has %.4f GiB free: the accepting cases cannot run", freeGiB)
	}
	cs := cases(freeGiB)
	if a.Replay != "" {
		var r struct {
			Verdict verdict `json:"verdict"`
		}
		b, err := os.ReadFile(a.Replay)
		if err != nil {
			hkit.EngineError("%v", err)
		}
		if err := json.Unmarshal(b, &r); err != nil {
			hkit.EngineError("%v", err)
		}
		v := runCase(r.Verdict.Case)
		fmt.Println(strings.Join(v.Runs, "\n"))
		if v.Reason != "" {
			fmt.Printf("replay: %s\nVIOLATION property=%s replay=%s\n", v.Reason, propID, a.Replay)
			os.Exit(1)
		}
		fmt.Println("replay: no violation")
		return
	}
	seen := map[string]bool{}
	runs := 0
	var sample []any
	for _, c := range cs { // sequential: 12 histories of 1-3 short runs
		v := runCase(c)
		runs += len(v.Runs)
		if len(sample) < 3 {
			sample = append(sample, v)
		}
		if v.Reason != "" && !seen[v.Sig] {
			seen[v.Sig] = true
			hkit.Report(propID, v.Sig, map[string]any{"engine": "e2e", "harness": "c18c", "verdict": v}, c.Name+": "+v.Reason)
		}
	}
	// the running guard watches the job's volume, wherever --warc-temp-dir points
	volNote := "no second volume with a free space at least 4 GiB away from the scratch volume's was found: the two cases with --warc-temp-dir on another volume were not run"
	if other, sf, of, ok := otherVolume(tmp); ok {
		mid := (sf + of) / 2
		vcs := []volCase{
			{Name: "job on the scratch volume, --warc-temp-dir on another volume", JobOnOther: false, Threshold: mid, JobFree: sf, TempFree: of, MustPause: sf < mid},
			{Name: "job on another volume, --warc-temp-dir on the scratch volume", JobOnOther: true, Threshold: mid, JobFree: of, TempFree: sf, MustPause: of < mid},
		}
		for _, vc := range vcs {
			v := runVolCase(vc, tmp, other)
			runs += len(v.Runs)
			sample = append(sample, v)
			if v.Reason != "" && !seen[v.Sig] {
				seen[v.Sig] = true
				hkit.Report(propID, v.Sig, map[string]any{"engine": "e2e", "harness": "c18c", "verdict": v, "vol_case": vc}, vc.Name+": "+v.Reason)
			}
		}
		os.RemoveAll(other)
		volNote = fmt.Sprintf("2 runs with the job directory and --warc-temp-dir on different volumes (%.1f and %.1f GiB free), the threshold between them, raised right after an admitted start: after the watchdog's first check the crawler is paused exactly when the job's volume is the one below the threshold", sf, of)
		cs = append(cs, caseSpec{Name: vcs[0].Name}, caseSpec{Name: vcs[1].Name})
	}
	hkit.Evidence(propID, a.Tier, "exploration", map[string]any{
		"evaluations": runs, "distinct_nontrivial": len(cs), "samples": sample, "exhaustive": true,
		"explanation": fmt.Sprintf("part C: %d histories of 1-3 runs of the real controler.Start() in child processes on one job directory (absent / present / present with a file before the first run) with --min-space-required far above or far below the free space of the scratch volume (%.1f GiB): a run must refuse to start (exit 1, \"low disk space\") exactly when the threshold is above the free space, whatever earlier runs left behind; %s", len(cs), freeGiB, volNote),
	}, []string{"part C: the real volume of the scratch directory supplies the statfs figures; thresholds are chosen a factor 4 away from them"}, hkit.Violations())
	fmt.Printf("C18 %s (part C): %d histories, %d runs of the real start-up path, %d failing signatures\n", a.Tier, len(cs), runs, len(seen))
	hkit.Exit()
}
