// Harness for C15, part B: where the outlinks are born. Part A (harness/c15) starts at the produce
// channel: it hands ready-made outlinks to the queue adapters. That an outlink leaves the pipeline
// with the page it was found on as 'via', the right hop count and its text is decided here: real
// five-stage pipeline on fake sites, the oracle reads the produce channel.
package main

import (
	"encoding/json"
	"fmt"
	"os"
	"sort"
	"strings"
	"time"

	"github.com/internetarchive/Zeno/internal/pkg/controler/pause"
	"github.com/internetarchive/Zeno/internal/verif/lib/world"
	"github.com/internetarchive/Zeno/internal/verif/vrt/hkit"
	"github.com/internetarchive/Zeno/internal/verif/vrt/vsched"
)

const propID = "C15"

const H = world.H

type scen struct {
	Shape    string `json:"shape"` // direct | redirected | redirected-twice | other-host
	SeedHops int    `json:"seed_hops"`
	MaxHops  int    `json:"max_hops"`
	Workers  int    `json:"workers"`
	P        int    `json:"p"`
	// Pause: a controller pauses and resumes the pipeline once; both calls are threads of lowest priority (by default
	// they come when the run is over), a deviation puts the pause at any step - e.g. while the page's outlinks are
	// being handed downstream one by one
	Pause bool `json:"pause,omitempty"`
}

func (s *scen) name() string {
	return fmt.Sprintf("%s hops0=%d max-hops=%d w%d", s.Shape, s.SeedHops, s.MaxHops, s.Workers) + map[bool]string{true: " pause-resume", false: ""}[s.Pause]
}

// the page that carries the anchors, and the seed that leads to it
func (s *scen) site() (def world.SiteDef, page string, links map[string]string) {
	page = H + "/dir/page.html"
	seed := page
	anchors := []string{"next.html", "/abs/two.html?x=1&y=2", "http://other.example/far/away", "../up.html#frag"}
	links = map[string]string{ // canonical outlink -> nothing (set of expected values)
		H + "/dir/next.html": "", H + "/abs/two.html?x=1&y=2": "", "http://other.example/far/away": "", H + "/up.html": "",
	}
	nodes := []world.Node{{URL: page, Kind: "html", Refs: []string{H + "/a.png"}, Links: anchors}, {URL: H + "/a.png", Kind: "bin"}}
	switch s.Shape {
	case "redirected":
		seed = H + "/old"
		nodes = append(nodes, world.Node{URL: seed, Kind: "redirect", Location: page})
	case "redirected-twice":
		seed = H + "/older"
		nodes = append(nodes, world.Node{URL: seed, Kind: "redirect", Code: 302, Location: "/old"}, world.Node{URL: H + "/old", Kind: "redirect", Location: page})
	case "other-host":
		seed = "http://start.example/go"
		nodes = append(nodes, world.Node{URL: seed, Kind: "redirect", Code: 307, Location: page})
	}
	return world.SiteDef{Name: s.Shape, Seeds: []string{seed}, Nodes: nodes}, page, links
}

func scenario(s *scen) *vsched.Scenario {
	var w *world.World
	sc := &vsched.Scenario{Name: s.name()}
	def, page, links := s.site()
	sc.Setup = func(x *vsched.Exec) {
		w = world.New(world.Options{Workers: s.Workers, MaxConcurrentAssets: 1, MaxRetry: 0, MaxRedirect: 3, MaxHops: s.MaxHops, Tmp: os.Getenv("VERIF_TMP")}, def.Build())
		x.Data = w
	}
	sc.Body = func() {
		w.Start()
		if s.Pause {
			go func() {
				vsched.Point("h:pause requested", nil)
				pause.Pause("verif: operator")
				vsched.Point("h:resume requested", nil)
				pause.Resume()
			}()
		}
		if err := w.InsertHops("seed0", def.Seeds[0], s.SeedHops); err != nil {
			panic(err)
		}
	}
	sc.Done = func(x *vsched.Exec) bool { return w.FinishedCount() >= 1 }
	sc.Idle = world.IsIdlePoint
	sc.Horizon = 30 * time.Minute
	sc.DelayBounding = true
	sc.AtEnd = func(x *vsched.Exec) error {
		if x.End != vsched.EndDone {
			return fmt.Errorf("never-finishes: the seed did not finish (end: %s %s)", x.End, x.EndInfo)
		}
		got := map[string]int{}
		for _, m := range w.Produced {
			u := m.Item.GetURL()
			m.URL, _, _ = strings.Cut(m.URL, "#") // the fragment is dropped when the outlink comes back as a seed
			if m.URL == H+"/a.png" {
				// the page's image URL is absolute and therefore also found by the bare-URL scan of text bodies:
				// an extra outlink, judged like the others for via and hops
			} else if _, ok := links[m.URL]; !ok {
				return fmt.Errorf("text-changed: the pipeline produced the outlink %q, the page's anchors resolve to %v", m.URL, keys(links))
			}
			if m.URL != H+"/a.png" {
				got[m.URL]++
			}
			if via := m.Item.GetSeedVia(); via != page {
				return fmt.Errorf("via-wrong: the outlink %s was found on %s but is handed to the queue with via %q", m.URL, page, via)
			}
			if u.GetHops() != s.SeedHops+1 {
				return fmt.Errorf("hops-wrong: the outlink %s of a page with hops %d carries hops %d", m.URL, s.SeedHops, u.GetHops())
			}
		}
		if s.SeedHops < s.MaxHops {
			for l := range links {
				if got[l] == 0 {
					return fmt.Errorf("outlink-lost: the anchor to %s (page hops %d < max-hops %d) never reached the produce channel; produced %v", l, s.SeedHops, s.MaxHops, got)
				}
			}
		} else if len(got) > 0 {
			return fmt.Errorf("outlink-beyond-hop-limit: page hops %d, max-hops %d, produced %v", s.SeedHops, s.MaxHops, got)
		}
		return nil
	}
	sc.Outcome = func(x *vsched.Exec) string {
		var p []string
		for _, m := range w.Produced {
			p = append(p, fmt.Sprintf("%s via %s @%d", m.URL, m.Item.GetSeedVia(), m.Item.GetURL().GetHops()))
		}
		sort.Strings(p)
		return strings.Join(p, " | ")
	}
	sc.Cleanup = func(x *vsched.Exec) { w.Cleanup() }
	sc.Signature = func(v *vsched.Violation) string {
		if v.Kind == "crash" {
			return vsched.DefaultSignature(v)
		}
		if i := strings.IndexByte(v.Message, ':'); i > 0 {
			return "pipeline:" + v.Message[:i]
		}
		return vsched.DefaultSignature(v)
	}
	sc.KnownSig = func(sg string) bool { return hkit.IsListed(propID, sg) }
	return sc
}

func keys(m map[string]string) []string {
	var k []string
	for s := range m {
		k = append(k, s)
	}
	sort.Strings(k)
	return k
}

func scenarios(tier string) []scen {
	var out []scen
	P := 0
	if tier == "thorough" {
		P = 2
	}
	for _, sh := range []string{"direct", "redirected", "redirected-twice", "other-host"} {
		for _, h := range [][2]int{{0, 1}, {1, 2}, {1, 1}, {0, 0}} {
			for _, w := range []int{1, 2} {
				out = append(out, scen{Shape: sh, SeedHops: h[0], MaxHops: h[1], Workers: w, P: P})
			}
		}
	}
	// a pause/resume cycle placed anywhere in the run (one deviation more than the tier's bound)
	for _, w := range []int{1, 2} {
		out = append(out, scen{Shape: "direct", SeedHops: 0, MaxHops: 1, Workers: w, P: P + 1, Pause: true})
	}
	return out
}

type jobResult struct {
	Name string         `json:"name"`
	Rep  *vsched.Report `json:"rep"`
}

func main() {
	a := hkit.ParseArgs()
	ss := scenarios(a.Tier)
	if a.Replay != "" {
		replay(a.Replay)
		return
	}
	res := hkit.Jobs(a, len(ss), func(j int) any {
		rep := vsched.Explore(scenario(&ss[j]), vsched.Bounds{P: ss[j].P, MaxWall: 5 * time.Minute})
		if len(rep.Sample) > 40 {
			rep.Sample = rep.Sample[:40]
		}
		return jobResult{ss[j].name(), rep}
	})
	total := &vsched.Report{Exhaustive: true}
	seen := map[string]bool{}
	outcomes := map[string]bool{}
	for j, b := range res {
		var r jobResult
		if err := json.Unmarshal(b, &r); err != nil {
			hkit.EngineError("%v", err)
		}
		for k := range r.Rep.Outcomes {
			outcomes[k] = true
		}
		for _, v := range r.Rep.Violations {
			if seen[v.Sig] {
				continue
			}
			seen[v.Sig] = true
			if err := vsched.Confirm(scenario(&ss[j]), &v); err != nil {
				hkit.EngineError("violation did not replay: %v", err)
			}
			hkit.Report(propID, v.Sig, map[string]any{"engine": "explore", "harness": "c15b", "scenario": ss[j], "violation": v},
				fmt.Sprintf("%s: %s: %s", r.Name, v.Kind, firstLine(v.Message)))
		}
		total.Merge(r.Rep)
	}
	hkit.Evidence(propID, a.Tier, "fault_enumeration", map[string]any{
		"states": total.States, "transitions": total.Transitions, "traces_validated_against_impl": total.Executions, "evaluations": total.Executions,
		"samples": []any{total.Sample}, "exhaustive": total.Exhaustive, "scenarios": len(ss), "distinct_outcomes": len(outcomes),
		"explanation": "part B: a page with four anchors (relative, path-absolute with a two-parameter query, another host, dot-dot with a fragment) reached directly, through one or two redirections, or through a redirection from another host; (page hops, max-hops) in {(0,1),(1,2),(1,1),(0,0)}; 1 and 2 workers per stage; real pipeline under the controlled scheduler (canonical schedule, all select outcomes; thorough: every schedule within 2 deviations). Oracle on the produce channel: every outlink is one of the page's anchors resolved against the page, its via is the page it was found on (not the seed that redirected there), its hops are the page's + 1, every anchor is produced when the hop limit allows and none otherwise",
	}, []string{
		"part B: no faults here - delivery to the queue under faults is part A's business",
	}, hkit.Violations())
	fmt.Printf("C15 %s (part B): %d scenarios, %d executions, %d states, %d transitions, %d distinct outcomes, exhaustive=%v\n", a.Tier, len(ss), total.Executions, total.States, total.Transitions, len(outcomes), total.Exhaustive)
	hkit.Exit()
}

func firstLine(s string) string {
	if i := strings.IndexByte(s, '\n'); i > 0 {
		s = s[:i]
	}
	if len(s) > 600 {
		s = s[:600]
	}
	return s
}

func replay(path string) {
	b, err := os.ReadFile(path)
	if err != nil {
		hkit.EngineError("%v", err)
	}
	var r struct {
		Scenario  scen             `json:"scenario"`
		Violation vsched.Violation `json:"violation"`
	}
	if err := json.Unmarshal(b, &r); err != nil {
		hkit.EngineError("%v", err)
	}
	v, x := vsched.Replay(scenario(&r.Scenario), r.Violation.Choices)
	for _, s := range x.Steps {
		fmt.Printf("  %-44s %-90s case=%d\n", s.Thread, s.Point, s.Case)
	}
	if v == nil {
		fmt.Println("replay: no violation")
		os.Exit(0)
	}
	fmt.Printf("replay: %s: %s\n", v.Kind, v.Message)
	fmt.Printf("VIOLATION property=%s replay=%s\n", propID, path)
	os.Exit(1)
}
