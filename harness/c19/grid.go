package main

// grid.go: exhaustive product enumeration, hash sharding, failure minimisation and signatures.

import (
	"fmt"
	"hash/fnv"
	"sort"
	"strings"

	"github.com/internetarchive/Zeno/internal/verif/vrt/hkit"
)

// A dim is one axis of a grid; value 0 is the plainest choice (the minimiser moves towards it).
// Free dims (the URL rotation) only decide which planted URL sits where; the failing URL's class
// is part of the signature instead of them.
type dim struct {
	Name     string
	Vals     []string
	Free     bool
	Cosmetic bool // may leave the generated input unchanged (e.g. text padding of an attribute carrier); see shardKey
	NoSig    bool // not part of a signature (bucket contents: the failure class describes the page instead)
}

type space interface {
	Name() string
	Kind() string // document family, first part of every signature
	Dims() []dim
	Valid(d []int) bool  // false: combination not generated (stated in the space's description)
	Build(d []int) *Case // nil iff !Valid(d); Desc is left empty
}

// Case is a concrete, replayable input: a document with planted URLs, or a bucket to walk.
type Case struct {
	Kind    string    `json:"kind"` // json xml rss sitemap m3u8 s3
	Desc    string    `json:"desc"` // the grid coordinates, human readable
	URL     string    `json:"url,omitempty"`
	CType   string    `json:"content_type,omitempty"`
	Body    string    `json:"body,omitempty"`
	Direct  bool      `json:"direct_body,omitempty"` // body attached without archiver.ProcessBody
	Hops    int       `json:"hops"`
	MaxHops int       `json:"max_hops"`
	DAC     bool      `json:"disable_assets_capture,omitempty"`
	DC      bool      `json:"domains_crawl,omitempty"` // --domains-crawl with the planted hosts
	Planted []Planted `json:"planted,omitempty"`
	Bucket  *Bucket   `json:"bucket,omitempty"`
}

type Planted struct {
	Ref   string `json:"ref"`   // as written into the document
	Abs   string `json:"abs"`   // the absolute URL it denotes
	Ext   bool   `json:"ext"`   // last path segment has a file extension (by construction)
	Class string `json:"class"` // name of the URL class
}

type failure struct {
	Type   string // what the oracle found
	Class  string // class of the planted URL / empty
	Detail string
}

func (c *Case) hash() uint64 {
	h := fnv.New64a()
	if c.Bucket != nil {
		fmt.Fprintf(h, "s3|%v", *c.Bucket)
	} else {
		fmt.Fprintf(h, "%s|%s|%d|%d|%v|%v|%v|%s", c.Kind, c.CType, c.Hops, c.MaxHops, c.DC, c.DAC, c.Direct, c.Body)
	}
	return h.Sum64()
}

func judge(c *Case) (fs []failure, links int, trace any) {
	if c.Bucket != nil {
		return judgeWalk(c)
	}
	return judgeDoc(c)
}

type finding struct {
	Sig     string  `json:"sig"`
	Count   int     `json:"count"`
	Case    *Case   `json:"case"` // locally minimal failing case
	Human   string  `json:"human"`
	minimal [][]int // locally minimal grid points that led to this signature
	space   string
	ftype   string
	classes map[string]bool // URL classes covered by this finding (see generalise)
}

type spaceStats struct {
	Space       string   `json:"space"`
	Generated   int      `json:"generated"`   // grid points of the whole space
	Evaluated   int      `json:"evaluated"`   // distinct inputs run through Zeno by this shard
	Duplicates  int      `json:"duplicates"`  // grid points whose input equals an earlier one
	Nontrivial  int      `json:"nontrivial"`  // evaluated inputs from which Zeno produced >= 1 link
	Links       int      `json:"links"`       // links produced by Zeno over all evaluated inputs
	Failing     int      `json:"failing"`     // evaluated inputs with >= 1 oracle failure
	Pages       int      `json:"pages"`       // s3: listing pages fetched
	States      int      `json:"states"`      // s3: distinct (walk, listing URL) pairs
	Transitions int      `json:"transitions"` // s3: links handed from a page to the frontier
	Dims        []string `json:"dims,omitempty"`
	Samples     []*Case  `json:"samples,omitempty"`
}

type shardOut struct {
	Stats    []*spaceStats `json:"stats"`
	Findings []*finding    `json:"findings"`
	MinRuns  int           `json:"min_runs"`
}

func fails(c *Case, ftype, class string) *failure {
	if c == nil {
		return nil
	}
	fs, _, _ := judge(c)
	for i := range fs {
		if fs[i].Type == ftype && fs[i].Class == class {
			return &fs[i]
		}
	}
	return nil
}

// minimise lowers every non-free dim to the smallest value for which the same failure (type and
// URL class) still occurs on the real code, trying every setting of the free dims with it.
func minimise(sp space, d []int, ftype, class string, runs *int) []int {
	dims := sp.Dims()
	cur := append([]int{}, d...)
	free := -1
	for i, dm := range dims {
		if dm.Free {
			free = i
		}
	}
	try := func(cand []int) []int { // cand as it is, then with every other value of the free dim
		opts := [][]int{cand}
		if free >= 0 {
			for v := range dims[free].Vals {
				if v != cand[free] {
					t := append([]int{}, cand...)
					t[free] = v
					opts = append(opts, t)
				}
			}
		}
		for _, t := range opts {
			*runs++
			if fails(sp.Build(t), ftype, class) != nil {
				return t
			}
		}
		return nil
	}
	for changed := true; changed; {
		changed = false
		for i := range dims {
			if dims[i].Free {
				continue
			}
			for v := 0; v < cur[i] && v < 24; v++ {
				cand := append([]int{}, cur...)
				cand[i] = v
				if t := try(cand); t != nil {
					cur, changed = t, true
					break
				}
			}
		}
	}
	return cur
}

// generalise names the URL classes for which the minimal case fails in the same way when planted
// first: all of them -> "url=any", all but one or two -> "url=any-except-...", else the class itself.
func generalise(sp space, m []int, ftype, class string) (label string, classes map[string]bool) {
	classes = map[string]bool{class: true}
	for i, dm := range sp.Dims() {
		if !dm.Free {
			continue
		}
		seen := map[string]bool{}
		for v := range dm.Vals {
			t := append([]int{}, m...)
			t[i] = v
			c := sp.Build(t)
			if c == nil || len(c.Planted) == 0 {
				return class, classes
			}
			for _, p := range c.Planted {
				seen[p.Class] = true
				if fails(c, ftype, "url="+p.Class) != nil {
					classes["url="+p.Class] = true
				}
			}
		}
		var pass []string
		for _, cl := range hkit.SortedKeys(seen) {
			if !classes["url="+cl] {
				pass = append(pass, cl)
			}
		}
		switch {
		case len(pass) == 0:
			return "url=any", classes
		case len(pass) <= 2 && len(classes) > 1:
			return "url=any-except-" + strings.Join(pass, "+"), classes
		}
		return class, map[string]bool{class: true}
	}
	return class, classes
}

func sigOf(sp space, d []int, ftype, class string) string {
	parts := []string{sp.Kind(), ftype}
	if class != "" {
		parts = append(parts, class)
	}
	for i, dm := range sp.Dims() {
		if !dm.Free && !dm.NoSig && d[i] != 0 {
			parts = append(parts, dm.Name+"="+dm.Vals[d[i]])
		}
	}
	return strings.Join(parts, ":")
}

// covers: a known minimal case is contained in d (same values on all its non-default dims).
func covers(dims []dim, minimals [][]int, d []int) bool {
next:
	for _, m := range minimals {
		for i := range dims {
			if !dims[i].Free && m[i] != 0 && m[i] != d[i] {
				continue next
			}
		}
		return true
	}
	return false
}

// explore enumerates every grid point of every space and evaluates the ones that hash to this shard.
func explore(spaces []space, shard, of int) *shardOut {
	out := &shardOut{}
	var found []*finding
	for _, sp := range spaces {
		dims := sp.Dims()
		st := &spaceStats{Space: sp.Name()}
		for _, dm := range dims {
			st.Dims = append(st.Dims, fmt.Sprintf("%s[%d]", dm.Name, len(dm.Vals)))
		}
		seen := map[uint64]struct{}{}
		d := make([]int, len(dims))
		for done := false; !done; done = !next(d, dims) {
			mine := shardKey(dims, d)%uint64(of) == uint64(shard)
			if !mine && !sp.Valid(d) {
				continue
			}
			st.Generated++
			if !mine {
				continue
			}
			c := sp.Build(d)
			if c == nil {
				st.Generated--
				continue
			}
			h := c.hash()
			if _, dup := seen[h]; dup {
				st.Duplicates++
				continue
			}
			seen[h] = struct{}{}
			fs, links, tr := judge(c)
			st.Evaluated++
			st.Links += links
			if links > 0 {
				st.Nontrivial++
			}
			if w, ok := tr.(*walkTrace); ok {
				st.Pages += len(w.Pages)
				st.States += w.States
				st.Transitions += w.Transitions
			}
			if len(st.Samples) < 3 && links > 0 && st.Evaluated%7 == 1 {
				c.Desc = describe(sp, d)
				st.Samples = append(st.Samples, c)
			}
			if len(fs) > 0 {
				st.Failing++
			}
		nextFailure:
			for _, f := range fs {
				for _, k := range found {
					if k.space == sp.Name() && k.ftype == f.Type && k.classes[f.Class] && covers(dims, k.minimal, d) {
						k.Count++
						continue nextFailure
					}
				}
				m := minimise(sp, d, f.Type, f.Class, &out.MinRuns)
				class, classes := generalise(sp, m, f.Type, f.Class)
				sig := sigOf(sp, m, f.Type, class)
				for _, k := range found {
					if k.Sig == sig {
						k.Count++
						k.minimal = append(k.minimal, m)
						for cl := range classes {
							k.classes[cl] = true
						}
						continue nextFailure
					}
				}
				mc := sp.Build(m)
				mc.Desc = describe(sp, m)
				mf := fails(mc, f.Type, f.Class)
				found = append(found, &finding{Sig: sig, Count: 1, Case: mc, Human: mf.Detail, minimal: [][]int{m}, space: sp.Name(), ftype: f.Type, classes: classes})
			}
		}
		out.Stats = append(out.Stats, st)
	}
	sort.Slice(found, func(i, j int) bool { return found[i].Sig < found[j].Sig })
	out.Findings = found
	return out
}

// shardKey: equal inputs can only come from grid points that differ in cosmetic dims, so hashing
// the other coordinates sends them to the same shard, where they are evaluated once.
func shardKey(dims []dim, d []int) uint64 {
	h := uint64(14695981039346656037)
	for i, v := range d {
		if dims[i].Cosmetic {
			v = 0
		}
		h = (h ^ uint64(v+1)) * 1099511628211
	}
	return h ^ h>>29
}

func describe(s space, d []int) string {
	var p []string
	for i, dm := range s.Dims() {
		p = append(p, dm.Name+"="+dm.Vals[d[i]])
	}
	return s.Name() + " " + strings.Join(p, " ")
}

// next advances the odometer; false when it wrapped around.
func next(d []int, dims []dim) bool {
	for i := len(d) - 1; i >= 0; i-- {
		d[i]++
		if d[i] < len(dims[i].Vals) {
			return true
		}
		d[i] = 0
	}
	return false
}
