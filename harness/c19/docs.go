package main

// docs.go: generated JSON / XML / RSS / sitemap / M3U8 documents with URLs planted by
// construction, and the oracle that says what Zeno must do with each planted URL.

import (
	"fmt"
	"github.com/internetarchive/Zeno/internal/pkg/postprocessor/domainscrawl"
	"net/url"
	"sort"
	"strings"
)

const docURL = "https://origin.example/video/doc"

// Planted absolute URLs. Ext is decided here, by construction: does the LAST PATH SEGMENT
// contain a '.' followed by at least one character.
var urlClasses = []Planted{
	{Abs: "https://cdn.example/img/pic.jpg", Ext: true, Class: "plain-ext"},
	{Abs: "https://www.example/dir.v2/page", Ext: false, Class: "noext-dotted-dir"},
	{Abs: "http://files.example/a.b/archive.tar.gz?v=1.5&k=a%20b#sec.2", Ext: true, Class: "ext-query-fragment"},
	{Abs: "https://api.example/items?file=x.jpg&n=2", Ext: false, Class: "noext-dotted-query"},
	{Abs: "https://bare.example", Ext: false, Class: "noext-bare-host"},
	{Abs: "https://www.example:8443/", Ext: false, Class: "noext-root-port"},
}

func urlAt(rot, slot int) Planted {
	p := urlClasses[(rot+slot)%len(urlClasses)]
	p.Ref = p.Abs
	return p
}

func classNames() (n []string) {
	for _, c := range urlClasses {
		n = append(n, c.Class+"-first")
	}
	return
}

// (hops of the document, --max-hops): outlinks are allowed iff hops < max-hops.
// The third figure switches --domains-crawl on (with the planted hosts as its domains): a link into a crawled
// domain is queued whatever the hop count of the document.
// The fourth figure switches --disable-assets-capture on: nothing is fetched as an asset, the outlinks are due as before.
var hopCfg = [][4]int{{0, 1, 0, 0}, {1, 1, 0, 0}, {0, 0, 0, 0}, {0, 0, 1, 0}, {2, 2, 1, 0}, {0, 1, 0, 1}, {0, 0, 1, 1}}
var hopNames = []string{"hops0-max1", "hops1-max1", "hops0-max0", "hops0-max0-domains-crawl", "hops2-max2-domains-crawl", "hops0-max1-no-assets", "hops0-max0-domains-crawl-no-assets"}

// ---------------------------------------------------------------- oracle

// judgeDoc runs the document through the real code and checks every planted URL:
//
//	json, xml     ext  -> must be a child (asset), whatever the hop count;
//	              else -> must be an outlink when hops < max-hops;
//	rss, sitemap  the statement only promises discovery: child or outlink when hops < max-hops;
//	m3u8          every URI must be a child (asset), whatever the hop count;
//	all           no outlink at all when hops >= max-hops; no panic.
//
// "is" means: Zeno's own next step (NormalizeURL) turns the extracted string into the planted URL.
func judgeDoc(c *Case) (fs []failure, links int, trace any) {
	fs, links, trace = judgeDocFrom(c, "")
	if c.Kind == "xml" || c.Kind == "rss" || c.Kind == "sitemap" {
		// the same document from an object store: what it says does not depend on who serves it
		f2, l2, t2 := judgeDocFrom(c, "AmazonS3")
		base := map[string]bool{}
		for _, f := range fs {
			base[f.Type+"|"+f.Class] = true
		}
		var only []failure // what fails from the object store and not otherwise
		for _, f := range f2 {
			if !base[f.Type+"|"+f.Class] {
				f.Class += " server=AmazonS3"
				only = append(only, f)
			}
		}
		if len(fs) == 0 && len(only) > 0 {
			trace = t2
		}
		fs, links = append(fs, only...), links+l2
	}
	if c.Kind != "json" {
		// the same document delivered gzip-compressed with a Content-Length: Zeno's HTTP client hands the body on
		// decompressed and leaves Response.ContentLength (and the header) at the size of the compressed bytes
		f3, l3, t3 := judgeDocFrom(c, "gzip+length")
		base := map[string]bool{}
		for _, f := range fs {
			base[f.Type+"|"+f.Class] = true
		}
		var only []failure
		for _, f := range f3 {
			if !base[f.Type+"|"+f.Class] {
				f.Class += " delivery=gzip-with-content-length"
				only = append(only, f)
			}
		}
		if len(fs) == 0 && len(only) > 0 {
			trace = t3
		}
		fs, links = append(fs, only...), links+l3
	}
	return
}

func judgeDocFrom(c *Case, server string) (fs []failure, links int, trace any) {
	h := map[string]string{"Content-Type": c.CType}
	gz := server == "gzip+length"
	if gz {
		server = ""
	}
	if server != "" {
		h["Server"] = server
	}
	r := fetch(c.URL, c.Hops, c.MaxHops, response{Header: h, Body: c.Body, Direct: c.Direct, DC: c.DC, DAC: c.DAC, GzipLen: gz})
	links = len(r.Children) + len(r.Outlinks)
	if r.Panic != "" {
		return []failure{{Type: "panic", Detail: r.Panic}}, links, r
	}
	below := c.Hops < c.MaxHops
	if !below && !c.DC && len(r.Outlinks) > 0 {
		fs = append(fs, failure{Type: "outlink-beyond-hop-limit", Detail: fmt.Sprintf("hops=%d max-hops=%d but outlinks %q", c.Hops, c.MaxHops, r.Outlinks)})
	}
	children, outlinks := canonSet(r.Children, r.Parent), canonSet(r.Outlinks, nil)
	for _, p := range c.Planted {
		// "when the hop limit allows": below the limit, or into a crawled domain (Zeno's own matcher decides which)
		allowed := below || (c.DC && domainscrawl.Match(p.Abs))
		child, out := children[mustCanon(p.Abs)], outlinks[mustCanon(p.Abs)]
		bad := ""
		switch {
		case c.DAC:
			// the operator turned the capture of assets off: nothing is due as an asset (and nothing may become one);
			// what is due as an outlink stays due: the URLs without extension of JSON/XML/RSS, every URL of a sitemap
			if child {
				bad = "asset-despite-disable-assets-capture"
			} else if allowed && !out && (c.Kind == "sitemap" || c.Kind != "m3u8" && !p.Ext) {
				bad = "not-an-outlink-with-assets-capture-off"
			}
		case c.Kind == "m3u8":
			if !child {
				bad = "playlist-uri-not-an-asset"
			}
		case c.Kind == "json" || c.Kind == "xml":
			if p.Ext && !child {
				bad = "ext-url-not-an-asset"
			} else if !p.Ext && allowed && !out {
				bad = "noext-url-not-an-outlink"
			}
			if bad != "" && !child && !out {
				bad = "not-discovered"
			}
		default: // rss, sitemap
			if allowed && !child && !out {
				bad = "not-discovered"
			}
		}
		if bad != "" {
			fs = append(fs, failure{Type: bad, Class: "url=" + p.Class, Detail: fmt.Sprintf("%s: planted %q (ext=%v, hops=%d/%d) -> children %q outlinks %q",
				bad, p.Ref, p.Ext, c.Hops, c.MaxHops, r.Children, r.Outlinks)})
		}
	}
	return fs, links, r
}

// ---------------------------------------------------------------- JSON

// A shape is a tree: U = planted URL string, F = filler leaf (cycles through "x", 1.5, null,
// "/rel/path.jpg"), A/O = array/object, a/o = array/object serialised into a string (JSON in JSON).
// Containers have one or two children and always contain at least one U.
type jnode struct {
	k  byte
	ch []*jnode
	u  int
}

func (n *jnode) String() string {
	if len(n.ch) == 0 {
		return string(n.k)
	}
	var s []string
	for _, c := range n.ch {
		s = append(s, c.String())
	}
	return string(n.k) + "(" + strings.Join(s, ",") + ")"
}

// jshapes: all shapes of nesting depth <= depth with 1..maxU URLs, simplest first.
func jshapes(depth, maxU int) []*jnode {
	var gen func(d int) []*jnode
	gen = func(d int) []*jnode {
		out := []*jnode{{k: 'U', u: 1}}
		if d == 0 {
			return out
		}
		sub := gen(d - 1)
		f := &jnode{k: 'F'}
		for _, k := range []byte("AOao") {
			for _, t := range sub {
				out = append(out, &jnode{k: k, ch: []*jnode{t}, u: t.u}, &jnode{k: k, ch: []*jnode{f, t}, u: t.u}, &jnode{k: k, ch: []*jnode{t, f}, u: t.u})
			}
			for _, t1 := range sub {
				for _, t2 := range sub {
					if t1.u+t2.u <= maxU {
						out = append(out, &jnode{k: k, ch: []*jnode{t1, t2}, u: t1.u + t2.u})
					}
				}
			}
		}
		return out
	}
	return gen(depth)
}

func sortShapes(res []*jnode) []*jnode {
	key := map[*jnode]string{}
	for _, n := range res {
		key[n] = n.String()
	}
	sort.SliceStable(res, func(i, j int) bool {
		if len(key[res[i]]) != len(key[res[j]]) {
			return len(key[res[i]]) < len(key[res[j]])
		}
		return key[res[i]] < key[res[j]]
	})
	return res
}

func (n *jnode) fillers() int {
	f := 0
	if n.k == 'F' {
		f = 1
	}
	for _, c := range n.ch {
		f += c.fillers()
	}
	return f
}

func (n *jnode) depth() int {
	d := 0
	for _, c := range n.ch {
		d = max(d, c.depth()+1)
	}
	return d
}

type jsonSpace struct {
	name   string
	shapes []*jnode
	hops   []int // indices into hopCfg
	dims   []dim
}

func newJSONSpace(name string, shapes []*jnode, hops []int) *jsonSpace {
	var sn, hn []string
	for _, s := range shapes {
		sn = append(sn, s.String())
	}
	for _, h := range hops {
		hn = append(hn, hopNames[h])
	}
	return &jsonSpace{name: name, shapes: shapes, hops: hops, dims: []dim{
		{Name: "shape", Vals: sn},
		{Name: "first-url", Vals: classNames(), Free: true},
		{Name: "layout", Vals: []string{"compact", "indented"}, Cosmetic: true},
		{Name: "escape", Vals: []string{"none", "backslash-slash", "unicode-escapes"}},
		{Name: "hops", Vals: hn},
	}}
}

func (s *jsonSpace) Name() string     { return s.name }
func (s *jsonSpace) Valid([]int) bool { return true }
func (s *jsonSpace) Kind() string     { return "json" }
func (s *jsonSpace) Dims() []dim      { return s.dims }

type jser struct {
	rot, slot, fill int
	pretty          bool
	esc             int
	planted         []Planted
}

func (j *jser) quote(s string) string {
	var b strings.Builder
	b.WriteByte('"')
	for i := 0; i < len(s); i++ {
		ch := s[i]
		switch {
		case ch == '"' || ch == '\\':
			b.WriteByte('\\')
			b.WriteByte(ch)
		case ch == '\n':
			b.WriteString(`\n`)
		case ch == '/' && j.esc == 1:
			b.WriteString(`\/`)
		case j.esc == 2 && (ch == '/' || ch == 'h' || ch == ':'):
			fmt.Fprintf(&b, `\u%04x`, ch)
		default:
			b.WriteByte(ch)
		}
	}
	b.WriteByte('"')
	return b.String()
}

func (j *jser) ser(n *jnode, ind string) string {
	nl, in2, sp := "", "", ""
	if j.pretty {
		nl, in2, sp = "\n", ind+"  ", " "
	}
	switch n.k {
	case 'U':
		p := urlAt(j.rot, j.slot)
		j.slot++
		j.planted = append(j.planted, p)
		return j.quote(p.Ref)
	case 'F':
		j.fill++
		return []string{`"x"`, `1.5`, `null`, j.quote("/rel/path.jpg")}[(j.fill-1)%4]
	case 'a', 'o':
		inner := &jnode{k: n.k - 32, ch: n.ch}
		return j.quote(j.ser(inner, ""))
	}
	var parts []string
	for i, c := range n.ch {
		v := j.ser(c, in2)
		if n.k == 'O' {
			v = fmt.Sprintf(`"k%d":%s%s`, i, sp, v)
		}
		parts = append(parts, nl+in2+v)
	}
	open, cl := "[", "]"
	if n.k == 'O' {
		open, cl = "{", "}"
	}
	return open + strings.Join(parts, ",") + nl + ind + cl
}

func (s *jsonSpace) Build(d []int) *Case {
	j := &jser{rot: d[1], pretty: d[2] == 1, esc: d[3]}
	body := j.ser(s.shapes[d[0]], "")
	return &Case{Kind: "json", URL: docURL, CType: "application/json", Body: body,
		Hops: hopCfg[s.hops[d[4]]][0], MaxHops: hopCfg[s.hops[d[4]]][1], DC: hopCfg[s.hops[d[4]]][2] == 1, DAC: hopCfg[s.hops[d[4]]][3] == 1, Planted: j.planted}
}

// ---------------------------------------------------------------- XML, RSS, sitemap

type xmlSpace struct{ dims []dim }

var xmlKinds = []struct {
	kind, open, close, wrap, textEl, attrEl, attr, mixEl, ns string
	ctypes                                                   [2]string
}{
	{"xml", "<catalog%s>", "</catalog>", "entry", "link", "ref", "href", "note", "http://ns.example/schema/v1", [2]string{"application/xml", "text/xml; charset=utf-8"}},
	{"rss", `<rss version="2.0"%s><channel>`, "</channel></rss>", "item", "link", "enclosure", "url", "description", "http://ns.example/schema/v1", [2]string{"application/rss+xml", "text/xml; charset=utf-8"}},
	{"sitemap", "<urlset%s>", "</urlset>", "url", "loc", "link", "href", "caption", "http://www.sitemaps.org/schemas/sitemap/0.9", [2]string{"application/xml", "text/xml; charset=utf-8"}},
}

func newXMLSpace() *xmlSpace {
	return &xmlSpace{dims: []dim{
		{Name: "doc", Vals: []string{"xml", "rss", "sitemap"}},
		{Name: "carrier", Vals: []string{"text", "attr-dq", "attr-sq", "cdata", "text-url-inside-words", "text-url-then-words", "text-two-urls", "text-two-urls-inside-words"}},
		{Name: "ns", Vals: []string{"none", "default-ns", "prefixed"}},
		{Name: "ws", Vals: []string{"compact", "indented", "text-padded-both", "text-then-newline", "newline-then-text"}, Cosmetic: true},
		{Name: "decl", Vals: []string{"xml-decl", "no-decl"}},
		{Name: "ctype", Vals: []string{"app-xml", "text-xml"}},
		{Name: "first-url", Vals: classNames(), Free: true},
		{Name: "hops", Vals: hopNames},
		// how careful the producer was with entities: clean; the URLs written with a bare "&" (feeds in the wild do
		// that, tolerant tokenizers pass it through); an HTML entity XML does not know, in text next to the URLs
		{Name: "escaping", Vals: []string{"entities", "bare-ampersand", "html-entity-in-text"}},
	}}
}

func (s *xmlSpace) Name() string { return "xml" }
func (s *xmlSpace) Kind() string { return "xml" }

// a <urlset> without the sitemaps.org namespace is not a sitemap
func (s *xmlSpace) Valid(d []int) bool { return !(xmlKinds[d[0]].kind == "sitemap" && d[2] == 0) }
func (s *xmlSpace) Dims() []dim        { return s.dims }

var xmlEsc = strings.NewReplacer("&", "&amp;", "<", "&lt;", ">", "&gt;", `"`, "&quot;", "'", "&apos;")

func (s *xmlSpace) Build(d []int) *Case {
	k := xmlKinds[d[0]]
	carrier, ns, ws, rot := d[1], d[2], d[3], d[6]
	if !s.Valid(d) {
		return nil
	}
	u1, u2 := urlAt(rot, 0), urlAt(rot, 1)
	planted := []Planted{u1}
	pfx, nsdecl := "", ""
	switch ns {
	case 1:
		nsdecl = fmt.Sprintf(` xmlns="%s"`, k.ns)
	case 2:
		pfx, nsdecl = "p:", fmt.Sprintf(` xmlns:p="%s"`, k.ns)
	}
	nl, i1, i2, i3 := "", "", "", ""
	if ws > 0 {
		nl, i1, i2, i3 = "\n", "  ", "    ", "      "
	}
	pad := func(t string) string { // whitespace around the content of a text element
		switch ws {
		case 2:
			return nl + i3 + t + nl + i2
		case 3:
			return t + nl + i2
		case 4:
			return nl + i3 + t
		}
		return t
	}
	e1, e2 := xmlEsc.Replace(u1.Ref), xmlEsc.Replace(u2.Ref)
	title := "plain &amp; simple"
	switch d[8] {
	case 1:
		e1, e2 = u1.Ref, u2.Ref // none of the planted URLs holds < > or a quote
	case 2:
		title = "plain&nbsp;&amp;&nbsp;simple"
	}
	el := func(name, content string) string { return "<" + pfx + name + ">" + content + "</" + pfx + name + ">" }
	var c string
	switch carrier {
	case 0:
		c = el(k.textEl, pad(e1))
	case 1:
		c = fmt.Sprintf(`<%s%s rel="alternate" %s%s="%s" type="x"/>`, pfx, k.attrEl, pfx, k.attr, e1)
	case 2:
		c = fmt.Sprintf(`<%s%s %s%s='%s'/>`, pfx, k.attrEl, pfx, k.attr, e1)
	case 3:
		c = el(k.textEl, pad("<![CDATA["+u1.Ref+"]]>"))
	case 4:
		c = el(k.mixEl, pad("see "+e1+" for more"))
	case 5:
		c = el(k.mixEl, pad(e1+" has more"))
	case 6:
		c = el(k.mixEl, pad(e1+" "+e2))
		planted = append(planted, u2)
	case 7:
		c = el(k.mixEl, pad("see "+e1+" and "+e2+" too"))
		planted = append(planted, u2)
	}
	var b strings.Builder
	if d[4] == 0 {
		b.WriteString(`<?xml version="1.0" encoding="UTF-8"?>` + nl)
	}
	root := pfx
	open := strings.Replace(fmt.Sprintf(k.open, nsdecl), "<", "<"+root, 1)
	cl := strings.Replace(k.close, "</", "</"+root, -1)
	if k.kind == "rss" { // <rss><channel>: both elements carry the prefix
		open = strings.Replace(open, "<channel>", "<"+pfx+"channel>", 1)
	}
	b.WriteString(open + nl)
	b.WriteString(i1 + "<" + pfx + k.wrap + ">" + nl)
	b.WriteString(i2 + el("title", title) + nl)
	b.WriteString(i2 + c + nl)
	b.WriteString(i1 + "</" + pfx + k.wrap + ">" + nl)
	b.WriteString(cl + nl)
	hc := hopCfg[d[7]]
	return &Case{Kind: k.kind, URL: docURL, CType: k.ctypes[d[5]], Body: b.String(), Hops: hc[0], MaxHops: hc[1], DC: hc[2] == 1, DAC: hc[3] == 1, Planted: planted}
}

// ---------------------------------------------------------------- documents that name their own address

// selfSpace: a document whose content refers to its own address with another query string, without one, with one
// more parameter, to a sibling file with the same query, to the same path on another host (paginated APIs and
// feeds do all of that). Only a reference that IS the document's URL may be left out; the others are URLs of
// their own, all with a file extension: due as assets.
type selfSpace struct{ dims []dim }

func newSelfSpace() *selfSpace {
	return &selfSpace{dims: []dim{
		{Name: "doc", Vals: []string{"json", "xml", "rss"}},
		{Name: "address", Vals: []string{"with-query", "without-query", "with-two-parameters"}},
		{Name: "reference", Vals: []string{"self-other-query-value", "self-without-query", "self-one-more-parameter", "self-other-parameter", "sibling-file-same-query", "other-host-same-path-and-query", "self-upper-case-path"}},
		{Name: "hops", Vals: hopNames[:3]},
	}}
}

func (s *selfSpace) Name() string { return "self-reference" }
func (s *selfSpace) Kind() string { return "self" }
func (s *selfSpace) Dims() []dim  { return s.dims }

func (s *selfSpace) parts(d []int) (addr, ref string) {
	file := []string{"list.json", "feed.xml", "feed.xml"}[d[0]]
	q := []string{"?page=1", "", "?page=1&per_page=50"}[d[1]]
	base := "https://origin.example/video/"
	addr = base + file + q
	switch d[2] {
	case 0:
		ref = base + file + "?page=2"
		if d[1] == 2 {
			ref = base + file + "?page=2&per_page=50"
		}
	case 1:
		ref = base + file
	case 2:
		if q == "" {
			ref = base + file + "?format=full"
		} else {
			ref = addr + "&format=full"
		}
	case 3:
		ref = base + file + "?id=7"
	case 4:
		ref = base + "other-" + file + q
	case 5:
		ref = "https://mirror.example/video/" + file + q
	case 6:
		ref = base + strings.ToUpper(file[:1]) + file[1:] + q
	}
	return
}

func (s *selfSpace) Valid(d []int) bool {
	addr, ref := s.parts(d)
	return addr != ref
}

func (s *selfSpace) Build(d []int) *Case {
	if !s.Valid(d) {
		return nil
	}
	addr, ref := s.parts(d)
	hc := hopCfg[d[3]]
	p := Planted{Ref: ref, Abs: ref, Ext: true, Class: s.dims[2].Vals[d[2]]}
	var kind, ctype, body string
	switch d[0] {
	case 0:
		kind, ctype = "json", "application/json"
		body = `{"title": "catalogue", "next": "` + ref + `", "count": 3}`
	case 1:
		kind, ctype = "xml", "application/xml"
		body = `<?xml version="1.0" encoding="UTF-8"?><catalog><entry><title>t</title><link>` + xmlEsc.Replace(ref) + `</link></entry></catalog>`
	case 2:
		kind, ctype = "rss", "application/rss+xml"
		body = `<?xml version="1.0" encoding="UTF-8"?><rss version="2.0"><channel><item><title>t</title><link>` + xmlEsc.Replace(ref) + `</link></item></channel></rss>`
	}
	return &Case{Kind: kind, URL: addr, CType: ctype, Body: body, Hops: hc[0], MaxHops: hc[1], DC: hc[2] == 1, DAC: hc[3] == 1, Planted: []Planted{p}}
}

// ---------------------------------------------------------------- M3U8

var m3uForms = []string{"https://cdn.example/hls/%s", "%s", "sub/%s", "/abs/%s", "%s?tok=a.b&x=1"}
var m3uFormNames = []string{"absolute-first", "relative-first", "subdir-first", "rooted-first", "query-first"}
var m3uCTypes = []string{"application/vnd.apple.mpegurl", "application/x-mpegURL"}

func m3uURI(rot, slot int, name string) Planted {
	ref := fmt.Sprintf(m3uForms[(rot+slot)%len(m3uForms)], name)
	base, _ := url.Parse(docURL)
	r, err := url.Parse(ref)
	if err != nil {
		panic(err)
	}
	return Planted{Ref: ref, Abs: base.ResolveReference(r).String(), Ext: true, Class: strings.TrimSuffix(m3uFormNames[(rot+slot)%len(m3uForms)], "-first")}
}

// How the response body reaches postprocessItem. JSON, XML and S3 responses always go through the
// real archiver.ProcessBody; playlists are tried both ways because ProcessBody decides by sniffed
// MIME type whether a body is kept for extraction at all.
var handover = dim{Name: "handover", Vals: []string{"body-attached-directly", "archiver-ProcessBody"}}

type mediaSpace struct{ dims []dim }

func newMediaSpace() *mediaSpace {
	return &mediaSpace{dims: []dim{
		{Name: "segments", Vals: []string{"1", "2", "3", "1100"}},
		{Name: "tags", Vals: []string{"extinf-only", "byterange", "discontinuity-datetime", "key-map"}, Cosmetic: true},
		{Name: "end", Vals: []string{"endlist", "live"}},
		{Name: "eol", Vals: []string{"lf", "crlf"}},
		{Name: "ctype", Vals: []string{"vnd.apple.mpegurl", "x-mpegURL"}},
		{Name: "first-uri", Vals: m3uFormNames, Free: true},
		{Name: "hops", Vals: hopNames},
		handover,
	}}
}
func (s *mediaSpace) Name() string     { return "m3u8-media" }
func (s *mediaSpace) Valid([]int) bool { return true }
func (s *mediaSpace) Kind() string     { return "m3u8" }
func (s *mediaSpace) Dims() []dim      { return s.dims }
func (s *mediaSpace) Build(d []int) *Case {
	n := []int{1, 2, 3, 1100}[d[0]]
	l := []string{"#EXTM3U", "#EXT-X-VERSION:4", "#EXT-X-TARGETDURATION:6", "#EXT-X-MEDIA-SEQUENCE:0"}
	if d[1] == 3 {
		l = append(l, `#EXT-X-KEY:METHOD=AES-128,URI="key.bin"`, `#EXT-X-MAP:URI="init.mp4"`)
	}
	var planted []Planted
	for i := 0; i < n; i++ {
		p := m3uURI(d[5], i, fmt.Sprintf("seg%d.ts", i))
		planted = append(planted, p)
		if d[1] == 2 && i > 0 {
			l = append(l, "#EXT-X-DISCONTINUITY", "#EXT-X-PROGRAM-DATE-TIME:2024-01-01T00:00:00Z")
		}
		l = append(l, "#EXTINF:6.000,")
		if d[1] == 1 {
			l = append(l, fmt.Sprintf("#EXT-X-BYTERANGE:1000@%d", i*1000))
		}
		l = append(l, p.Ref)
	}
	if d[2] == 0 {
		l = append(l, "#EXT-X-ENDLIST")
	}
	hc := hopCfg[d[6]]
	return &Case{Kind: "m3u8", URL: docURL, CType: m3uCTypes[d[4]], Body: strings.Join(l, []string{"\n", "\r\n"}[d[3]]) + []string{"\n", "\r\n"}[d[3]],
		Hops: hc[0], MaxHops: hc[1], DC: hc[2] == 1, DAC: hc[3] == 1, Planted: planted, Direct: d[7] == 0}
}

// Master playlists: every sequence of 1..maxLen entries from V (EXT-X-STREAM-INF + URI line),
// I (EXT-X-I-FRAME-STREAM-INF), A (EXT-X-MEDIA TYPE=AUDIO with URI), S (TYPE=SUBTITLES with URI),
// W (a further EXT-X-STREAM-INF entry for the URI of the first variant of the document - the usual way
// of offering one video rendition with several audio/subtitle groups), B (an audio rendition of the
// group "aud2", which only the W entries name);
// a rendition needs a variant to belong to, so sequences with A/S but no V are not generated.
// Every V names the groups of the renditions present in the document.
type masterSpace struct {
	seqs []string
	dims []dim
}

func newMasterSpace(maxLen int) *masterSpace {
	seqs := []string{}
	var rec func(p string)
	rec = func(p string) {
		if len(p) > 0 && (strings.ContainsAny(p, "VW") || !strings.ContainsAny(p, "AS")) && masterBsOwned(p) {
			seqs = append(seqs, p)
		}
		if len(p) < maxLen {
			for _, c := range "VIASWB" {
				rec(p + string(c))
			}
		}
	}
	rec("")
	sort.SliceStable(seqs, func(i, j int) bool { return len(seqs[i]) < len(seqs[j]) })
	return &masterSpace{seqs: seqs, dims: []dim{
		{Name: "entries", Vals: seqs},
		{Name: "eol", Vals: []string{"lf", "crlf"}},
		{Name: "ctype", Vals: []string{"vnd.apple.mpegurl", "x-mpegURL"}},
		{Name: "first-uri", Vals: m3uFormNames, Free: true},
		{Name: "hops", Vals: hopNames},
		handover,
	}}
}

// masterBsOwned: every B (a rendition of the group that only repeated-variant entries name) is
// followed by such an entry, i.e. a W that has a variant before it.
func masterBsOwned(p string) bool {
	for i, c := range p {
		if c != 'B' {
			continue
		}
		ok := false
		for j := i + 1; j < len(p); j++ {
			if p[j] == 'W' && strings.ContainsAny(p[:j], "VW") {
				ok = true
			}
		}
		if !ok {
			return false
		}
	}
	return true
}

func (s *masterSpace) Name() string     { return "m3u8-master" }
func (s *masterSpace) Valid([]int) bool { return true }
func (s *masterSpace) Kind() string     { return "m3u8" }
func (s *masterSpace) Dims() []dim      { return s.dims }
func (s *masterSpace) Build(d []int) *Case {
	seq := s.seqs[d[0]]
	groups := ""
	if strings.Contains(seq, "A") {
		groups += `,AUDIO="aud"`
	}
	if strings.Contains(seq, "S") {
		groups += `,SUBTITLES="sub"`
	}
	l := []string{"#EXTM3U", "#EXT-X-VERSION:4"}
	var planted []Planted
	firstV := -1
	for i, e := range seq {
		var p Planted
		if e == 'W' && firstV < 0 {
			e = 'V'
		}
		switch e {
		case 'W':
			p = m3uURI(d[3], firstV, fmt.Sprintf("v%d.m3u8", firstV))
			g2 := strings.Replace(groups, `,AUDIO="aud"`, "", 1)
			if strings.Contains(seq, "B") {
				g2 += `,AUDIO="aud2"`
			} else {
				g2 = groups
			}
			l = append(l, fmt.Sprintf(`#EXT-X-STREAM-INF:BANDWIDTH=%d,CODECS="avc1.4d401f,ac-3",RESOLUTION=640x360%s`, 800000+i, g2), p.Ref)
		case 'B':
			p = m3uURI(d[3], i, fmt.Sprintf("audio2-%d.m3u8", i))
			l = append(l, fmt.Sprintf(`#EXT-X-MEDIA:TYPE=AUDIO,GROUP-ID="aud2",NAME="b%d",DEFAULT=NO,URI="%s"`, i, p.Ref))
		case 'V':
			if firstV < 0 {
				firstV = i
			}
			p = m3uURI(d[3], i, fmt.Sprintf("v%d.m3u8", i))
			l = append(l, fmt.Sprintf(`#EXT-X-STREAM-INF:BANDWIDTH=%d,CODECS="avc1.4d401f,mp4a.40.2",RESOLUTION=640x360%s`, 800000+i, groups), p.Ref)
		case 'I':
			p = m3uURI(d[3], i, fmt.Sprintf("iframe%d.m3u8", i))
			l = append(l, fmt.Sprintf(`#EXT-X-I-FRAME-STREAM-INF:BANDWIDTH=%d,URI="%s"`, 90000+i, p.Ref))
		case 'A':
			p = m3uURI(d[3], i, fmt.Sprintf("audio%d.m3u8", i))
			l = append(l, fmt.Sprintf(`#EXT-X-MEDIA:TYPE=AUDIO,GROUP-ID="aud",NAME="a%d",DEFAULT=NO,URI="%s"`, i, p.Ref))
		case 'S':
			p = m3uURI(d[3], i, fmt.Sprintf("subs%d.m3u8", i))
			l = append(l, fmt.Sprintf(`#EXT-X-MEDIA:TYPE=SUBTITLES,GROUP-ID="sub",NAME="s%d",DEFAULT=NO,URI="%s"`, i, p.Ref))
		}
		planted = append(planted, p)
	}
	hc := hopCfg[d[4]]
	eol := []string{"\n", "\r\n"}[d[1]]
	return &Case{Kind: "m3u8", URL: docURL, CType: m3uCTypes[d[2]], Body: strings.Join(l, eol) + eol, Hops: hc[0], MaxHops: hc[1], DC: hc[2] == 1, DAC: hc[3] == 1, Planted: planted, Direct: d[5] == 0}
}
