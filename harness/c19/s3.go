package main

// s3.go: a small S3 bucket simulator (ListObjects v1 and ListObjectsV2 semantics) and the walk:
// every listing URL Zeno produces is "fetched" from the simulator and run through the real
// postprocessItem (IsS3 dispatch -> extractor.S3), its outlinks go to the frontier.

import (
	"encoding/base64"
	"fmt"
	"net/url"
	"sort"
	"strings"
)

const bucketHost = "bucket.example"

type Bucket struct {
	API      string   `json:"api"` // marker | v2-flat | v2-delimiter
	PageSize int      `json:"page_size"`
	Keys     []string `json:"keys"`
	Sizes    []int    `json:"sizes"`
}

var s3APIs = []string{"marker", "v2-flat", "v2-delimiter"}
var s3Seeds = map[string]string{
	"marker":       "https://" + bucketHost + "/",
	"v2-flat":      "https://" + bucketHost + "/?list-type=2",
	"v2-delimiter": "https://" + bucketHost + "/?list-type=2&delimiter=/",
}

type s3Space struct {
	name  string
	keys  []string // sorted
	pages []int
	dims  []dim
}

func newS3Space(keys []string, pages []int) *s3Space { return newS3SpaceNamed("s3", keys, pages) }

func newS3SpaceNamed(name string, keys []string, pages []int) *s3Space {
	sort.Strings(keys)
	var pn []string
	for _, p := range pages {
		pn = append(pn, fmt.Sprint(p))
	}
	d := []dim{{Name: "api", Vals: s3APIs}, {Name: "page-size", Vals: pn, NoSig: true}}
	for _, k := range keys {
		d = append(d, dim{Name: k, Vals: []string{"absent", "object", "empty-object"}, NoSig: true})
	}
	return &s3Space{name: name, keys: keys, pages: pages, dims: d}
}
func (s *s3Space) Name() string     { return s.name }
func (s *s3Space) Valid([]int) bool { return true }
func (s *s3Space) Kind() string     { return "s3" }
func (s *s3Space) Dims() []dim      { return s.dims }
func (s *s3Space) Build(d []int) *Case {
	b := &Bucket{API: s3APIs[d[0]], PageSize: s.pages[d[1]]}
	for i, k := range s.keys {
		if d[2+i] > 0 {
			b.Keys = append(b.Keys, k)
			b.Sizes = append(b.Sizes, []int{0, 1234, 0}[d[2+i]])
		}
	}
	return &Case{Kind: "s3", Hops: 0, MaxHops: 1, Bucket: b}
}

// list answers one listing request the way S3 does.
//   - keys under `prefix`, in lexicographic order; with a delimiter, keys that contain it after the
//     prefix are rolled up into one CommonPrefixes entry (which counts as one entry of the page);
//   - v1: entries after `marker`; v2: entries after the position encoded in `continuation-token`
//     (an opaque base64 string; like S3, the simulator only uses it as a position, so a token
//     carried over to a different prefix is harmless);
//   - at most PageSize entries, IsTruncated when more remain; v2 then gives NextContinuationToken,
//     v1 gives NextMarker only when a delimiter was used (clients use the last key otherwise).
func (b *Bucket) list(q url.Values) (body string, listed []string, shape string) {
	v2 := q.Get("list-type") == "2"
	prefix, delim := q.Get("prefix"), q.Get("delimiter")
	after := q.Get("marker")
	if v2 {
		after = ""
		if t := q.Get("continuation-token"); t != "" {
			raw, err := base64.StdEncoding.DecodeString(t)
			if err != nil {
				return `<?xml version="1.0" encoding="UTF-8"?><Error><Code>InvalidArgument</Code></Error>`, nil, "error"
			}
			after = string(raw[3:])
		}
	}
	type entry struct {
		name string
		size int
		cp   bool
	}
	var es []entry
	seen := map[string]bool{}
	for i, k := range b.Keys { // Keys are sorted
		if !strings.HasPrefix(k, prefix) {
			continue
		}
		e := entry{name: k, size: b.Sizes[i]}
		if delim != "" {
			if j := strings.Index(k[len(prefix):], delim); j >= 0 {
				e = entry{name: k[:len(prefix)+j+len(delim)], cp: true}
			}
		}
		if e.name > after && !seen[e.name] {
			seen[e.name] = true
			es = append(es, e)
		}
	}
	sort.Slice(es, func(i, j int) bool { return es[i].name < es[j].name })
	trunc := len(es) > b.PageSize
	if trunc {
		es = es[:b.PageSize]
	}
	var x strings.Builder
	x.WriteString(`<?xml version="1.0" encoding="UTF-8"?>` + "\n" + `<ListBucketResult xmlns="http://s3.amazonaws.com/doc/2006-03-01/">`)
	fmt.Fprintf(&x, "<Name>bucket</Name><Prefix>%s</Prefix>", xmlEsc.Replace(prefix))
	if v2 {
		fmt.Fprintf(&x, "<KeyCount>%d</KeyCount>", len(es))
	} else {
		fmt.Fprintf(&x, "<Marker>%s</Marker>", xmlEsc.Replace(q.Get("marker")))
	}
	fmt.Fprintf(&x, "<MaxKeys>%d</MaxKeys>", b.PageSize)
	if delim != "" {
		fmt.Fprintf(&x, "<Delimiter>%s</Delimiter>", delim)
	}
	fmt.Fprintf(&x, "<IsTruncated>%v</IsTruncated>", trunc)
	if trunc && v2 {
		fmt.Fprintf(&x, "<NextContinuationToken>%s</NextContinuationToken>", base64.StdEncoding.EncodeToString([]byte("at:"+es[len(es)-1].name)))
	}
	if trunc && !v2 && delim != "" {
		fmt.Fprintf(&x, "<NextMarker>%s</NextMarker>", xmlEsc.Replace(es[len(es)-1].name))
	}
	for _, e := range es {
		if !e.cp {
			fmt.Fprintf(&x, `<Contents><Key>%s</Key><LastModified>2024-01-01T00:00:00.000Z</LastModified><ETag>&quot;d41d8cd98f00b204e9800998ecf8427e&quot;</ETag><Size>%d</Size><StorageClass>STANDARD</StorageClass></Contents>`, xmlEsc.Replace(e.name), e.size)
		}
	}
	for _, e := range es {
		if e.cp {
			fmt.Fprintf(&x, "<CommonPrefixes><Prefix>%s</Prefix></CommonPrefixes>", xmlEsc.Replace(e.name))
		}
	}
	x.WriteString("</ListBucketResult>\n")
	// shape of the page, used to name the input class of a failure
	ncp := 0
	for _, e := range es {
		if e.cp {
			ncp++
		} else {
			listed = append(listed, e.name)
		}
	}
	shape = "contents-only"
	if ncp > 0 {
		shape = "contents-and-common-prefixes"
	}
	return x.String(), listed, shape
}

type walkPage struct {
	Request string   `json:"request"`
	Links   []string `json:"links"`
}

type walkTrace struct {
	Pages       []walkPage `json:"pages"`
	Objects     []string   `json:"objects_queued"`
	States      int        `json:"states"`
	Transitions int        `json:"transitions"`
	Terminated  bool       `json:"terminated"`
}

const maxPages = 200

// judgeWalk walks the bucket from the seed listing URL. No seen-set is used: the walk is what the
// extractor alone produces. Oracle: the frontier empties within maxPages listing requests, and by
// then every object of non-zero size was produced as a link https://<bucket host>/<key>.
// (Zero-size objects are not judged: the statement says nothing about them.)
func judgeWalk(c *Case) (fs []failure, links int, trace any) {
	b := c.Bucket
	w := &walkTrace{}
	frontier := []string{s3Seeds[b.API]}
	queued := map[string]bool{}
	states := map[string]bool{}
	listedOn := map[string]string{} // key -> shape of the first page that listed it in <Contents>
	for len(frontier) > 0 && len(w.Pages) < maxPages {
		raw := frontier[0]
		frontier = frontier[1:]
		cu, ok := canon(raw, nil)
		if !ok {
			continue // the preprocessor drops it
		}
		pu, _ := url.Parse(cu)
		if pu.Host != bucketHost {
			continue // e.g. the xmlns URI of the listing document
		}
		if pu.Path != "/" && pu.Path != "" {
			queued[pu.Path] = true // an object URL: fetched, not a listing
			continue
		}
		body, listed, shape := b.list(pu.Query())
		for _, k := range listed {
			if listedOn[k] == "" {
				listedOn[k] = shape
			}
		}
		r := fetch(raw, c.Hops, c.MaxHops, response{Header: map[string]string{"Content-Type": "application/xml", "Server": "AmazonS3"}, Body: body})
		if r.Panic != "" {
			return []failure{{Type: "panic", Detail: r.Panic}}, links, w
		}
		got := append(append([]string{}, r.Outlinks...), r.Children...)
		w.Pages = append(w.Pages, walkPage{Request: raw, Links: got})
		states[cu] = true
		w.Transitions += len(got)
		frontier = append(frontier, got...)
	}
	w.States = len(states)
	w.Terminated = len(frontier) == 0
	for p := range queued {
		w.Objects = append(w.Objects, p)
	}
	sort.Strings(w.Objects)
	links = len(w.Objects) // a walk is non-trivial when it queued at least one object
	if !w.Terminated {
		fs = append(fs, failure{Type: "walk-does-not-terminate", Detail: fmt.Sprintf("%d listing requests made and %d URLs still in the frontier; last request %s", len(w.Pages), len(frontier), w.Pages[len(w.Pages)-1].Request)})
	}
	// one failure per input class: the shape of the page on which the lost object was listed
	if w.Terminated {
		for i, k := range b.Keys {
			if b.Sizes[i] > 0 && !queued["/"+k] {
				class := "never-listed"
				if listedOn[k] != "" {
					class = "listed-on-" + listedOn[k] + "-page"
				}
				fs = append(fs, failure{Type: "object-never-queued", Class: class, Detail: fmt.Sprintf("bucket %v sizes %v, api %s, page size %d: walk ended after %d listing requests without queueing object %q (%s); queued: %q",
					b.Keys, b.Sizes, b.API, b.PageSize, len(w.Pages), k, class, w.Objects)})
			}
		}
	}
	return fs, links, w
}
