// Harness for C19: structured documents yield all their links; bucket listings are fully walked.
//
// Exhaustive grids (grid.go) of generated documents with URLs planted by construction (docs.go)
// and of simulated S3 buckets x page sizes x API versions (s3.go), every point executed on the
// real Zeno code: NormalizeURL -> archiver.ProcessBody -> postprocessItem (run.go).
package main

import (
	"encoding/json"
	"fmt"
	"os"
	"runtime/debug"
	"sort"

	"github.com/internetarchive/Zeno/internal/verif/vrt/hkit"
)

const propID = "C19"

func spaces(tier, only string) []space {
	thorough := tier == "thorough"
	// json: every shape of nesting depth <= 2 with 1..3 URLs, all styles and hop settings.
	// json-deep: shapes of depth exactly 3; quick: one URL and no filler leaf;
	// thorough: 1..2 URLs and at most one filler leaf.
	shallow := sortShapes(jshapes(2, 3))
	var deep []*jnode
	deepURLs, deepFillers := 1, 0
	if thorough {
		deepURLs, deepFillers = 2, 1
	}
	for _, n := range jshapes(3, deepURLs) {
		if n.depth() == 3 && n.fillers() <= deepFillers {
			deep = append(deep, n)
		}
	}
	keys, pages, masterLen := []string{"a", "b/c", "b/d", "b/e/f", "z"}, []int{1000, 3, 2, 1}, 3
	if thorough {
		keys, pages, masterLen = []string{"a", "b/c", "b/d", "b/e/f", "b/e/g", "c/h", "z"}, []int{1000, 4, 3, 2, 1}, 5
	}
	// keys are opaque strings to the store: a blank, an empty segment, a bare and an escaped-looking percent sign, characters
	// that end a URL path
	oddKeys := []string{"100%.csv", "a b.txt", "a%2Fb", "b//c", "q?x#y"}
	if thorough {
		oddKeys = []string{"100%.csv", "a b.txt", "a%2Fb", "b//c", "b//d/e", "c+d&e", "q?x#y", "é.txt"}
	}
	all := []space{newJSONSpace("json", shallow, []int{0, 1, 2, 3, 5, 6}), newJSONSpace("json-deep", sortShapes(deep), []int{0, 1, 2}),
		newXMLSpace(), newSelfSpace(), newMediaSpace(), newMasterSpace(masterLen), newS3Space(keys, pages), newS3SpaceNamed("s3-odd-keys", oddKeys, pages)}
	if only == "" {
		return all
	}
	var sel []space
	for _, s := range all {
		if s.Name() == only {
			sel = append(sel, s)
		}
	}
	return sel
}

func main() {
	a := hkit.ParseArgs()
	if a.Replay != "" {
		replay(a.Replay)
		return
	}
	sps := spaces(a.Tier, a.Extra["only"])
	if a.Of > 1 {
		// spooledtempfile recycles its 64 KB buffers through a sync.Pool, which every GC cycle empties
		debug.SetGCPercent(1000)
		hkit.EmitShardResult(explore(sps, a.Shard, a.Of))
		os.RemoveAll(tmpDir)
		return
	}
	nShards := 32
	outs := hkit.Shards(nShards)
	total := map[string]*spaceStats{}
	var order []string
	finds := map[string]*finding{}
	minRuns := 0
	for _, b := range outs {
		var so shardOut
		hkit.ShardResult(b, &so)
		minRuns += so.MinRuns
		for _, st := range so.Stats {
			t := total[st.Space]
			if t == nil {
				t = &spaceStats{Space: st.Space, Generated: st.Generated, Dims: st.Dims}
				total[st.Space] = t
				order = append(order, st.Space)
			}
			if t.Generated != st.Generated {
				hkit.EngineError("shards disagree on the size of space %s: %d vs %d", st.Space, t.Generated, st.Generated)
			}
			t.Evaluated += st.Evaluated
			t.Duplicates += st.Duplicates
			t.Nontrivial += st.Nontrivial
			t.Links += st.Links
			t.Failing += st.Failing
			t.Pages += st.Pages
			t.States += st.States
			t.Transitions += st.Transitions
			if len(t.Samples) < 2 {
				t.Samples = append(t.Samples, st.Samples...)
			}
		}
		for _, f := range so.Findings {
			if k := finds[f.Sig]; k != nil {
				k.Count += f.Count
			} else {
				finds[f.Sig] = f
			}
		}
	}
	// report every distinct signature once, after re-running its minimal case here
	for _, sig := range hkit.SortedKeys(finds) {
		f := finds[sig]
		if fs, _, _ := judge(f.Case); len(fs) == 0 {
			hkit.EngineError("failure %s did not reproduce in the parent process", sig)
		}
		hkit.Report(propID, sig, map[string]any{"harness": "c19", "sig": sig, "case": f.Case},
			fmt.Sprintf("%d inputs; minimal: %s | %s", f.Count, f.Case.Desc, f.Human))
	}
	evals, nontriv, gen := 0, 0, 0
	var per []any
	var samples []any
	for _, n := range order {
		t := total[n]
		evals += t.Evaluated
		nontriv += t.Nontrivial
		gen += t.Generated
		for _, s := range t.Samples {
			samples = append(samples, s)
		}
		t.Samples = nil
		per = append(per, t)
	}
	s3 := total["s3"]
	if s3 == nil {
		s3 = &spaceStats{}
	}
	sigs := hkit.SortedKeys(finds)
	sort.Strings(sigs)
	hkit.Evidence(propID, a.Tier, "exploration", map[string]any{
		"evaluations": evals, "distinct_nontrivial": nontriv, "grid_points": gen,
		"rule": "every point of the product of the dims listed under spaces is generated; points are identified by a hash of (kind, content type, hop setting, body) " +
			"resp. (bucket, api, page size), equal inputs are evaluated once (duplicates counted); an evaluated input is non-trivial when the real Zeno code produced at least one link from it",
		"samples": samples, "exhaustive": true, "spaces": per,
		"states": s3.States, "transitions": s3.Transitions, "traces_validated_against_impl": s3.Evaluated, "s3_listing_requests": s3.Pages,
		"failure_signatures": sigs, "minimisation_runs": minRuns, "shards": nShards,
		"explanation": "documents: planted URL must come out of postprocessItem as child (asset) or outlink as the statement says; buckets: BFS over the listing URLs Zeno itself produces, " +
			"answered by a ListObjects v1/v2 simulator, until the frontier is empty (no seen-set) or 200 requests; states = distinct listing URLs per walk, transitions = links produced",
	}, []string{
		"the response reaches postprocessItem the way the archiver hands it over: real NormalizeURL on the item URL, real archiver.ProcessBody (MIME sniffing), status 200, item status Archived, seed depth 0",
		"an extracted string counts as the planted URL when Zeno's own preprocessor.NormalizeURL maps both to the same URL (query pairs compared as a sorted multiset, fragment ignored)",
		"Content-Type values used: application/json; application/xml, text/xml, application/rss+xml; application/vnd.apple.mpegurl, application/x-mpegURL; S3: application/xml with Server: AmazonS3",
		"bucket walk: hop limit not binding (every listing page is evaluated at hops 0 < max-hops 1); virtual-hosted bucket addressing; continuation tokens are opaque base64 strings used as positions",
		"JSON filler leaves cycle through string/number/null/relative-path instead of forming a product; containers have one or two children",
	}, hkit.Violations())
	fmt.Printf("C19 %s: %d grid points, %d distinct inputs evaluated, %d non-trivial, %d failing signatures, s3: %d walks %d listing requests\n",
		a.Tier, gen, evals, nontriv, len(finds), s3.Evaluated, s3.Pages)
	for _, n := range order {
		t := total[n]
		fmt.Printf("  %-12s generated=%d evaluated=%d duplicates=%d nontrivial=%d links=%d failing-inputs=%d\n", n, t.Generated, t.Evaluated, t.Duplicates, t.Nontrivial, t.Links, t.Failing)
	}
	os.RemoveAll(tmpDir)
	hkit.Exit()
}

// replay re-runs the single case stored in a replay artefact and prints what Zeno did with it.
func replay(path string) {
	b, err := os.ReadFile(path)
	if err != nil {
		hkit.EngineError("%v", err)
	}
	var r struct {
		Sig  string `json:"sig"`
		Case *Case  `json:"case"`
	}
	if err := json.Unmarshal(b, &r); err != nil || r.Case == nil {
		hkit.EngineError("bad replay file %s: %v", path, err)
	}
	c := r.Case
	fmt.Printf("replay %s\n  %s\n", r.Sig, c.Desc)
	if c.Bucket == nil {
		fmt.Printf("  content-type: %s  hops=%d max-hops=%d\n  body:\n%s\n  planted:\n", c.CType, c.Hops, c.MaxHops, c.Body)
		for _, p := range c.Planted {
			fmt.Printf("    %-24s ext=%-5v %s\n", p.Class, p.Ext, p.Ref)
		}
	}
	fs, _, tr := judge(c)
	switch t := tr.(type) {
	case result:
		fmt.Printf("  children (assets): %q\n  outlinks: %q\n", t.Children, t.Outlinks)
	case *walkTrace:
		fmt.Printf("  bucket keys=%v sizes=%v api=%s page-size=%d\n", c.Bucket.Keys, c.Bucket.Sizes, c.Bucket.API, c.Bucket.PageSize)
		for i, p := range t.Pages {
			if i < 12 {
				fmt.Printf("  page %d: GET %s\n      -> %q\n", i+1, p.Request, p.Links)
			}
		}
		fmt.Printf("  %d listing requests, terminated=%v, objects queued: %q\n", len(t.Pages), t.Terminated, t.Objects)
	}
	os.RemoveAll(tmpDir)
	if len(fs) == 0 {
		fmt.Println("replay: no violation")
		os.Exit(0)
	}
	for _, f := range fs {
		fmt.Printf("replay: %s\n", f.Detail)
	}
	fmt.Printf("VIOLATION property=%s replay=%s\n", propID, path)
	os.Exit(1)
}
