package main

// run.go: one "request" through the real Zeno code, and the URL equivalence used by the oracles.
//
// A simulated response (headers + body) is attached to a seed item exactly the way the pipeline
// does it: preprocessor.NormalizeURL on the item URL, http.NewRequest, archiver.ProcessBody (MIME
// sniffing, body spooling) and then the real postprocessItem. What comes out are the children
// (assets Zeno will fetch) and the outlink items (what Zeno will queue).

import (
	"bytes"
	"compress/gzip"
	"fmt"
	"github.com/internetarchive/Zeno/internal/pkg/postprocessor/domainscrawl"
	"io"
	"net/http"
	"net/url"
	"os"
	"strings"

	"github.com/CorentinB/warc/pkg/spooledtempfile"
	"github.com/gabriel-vasile/mimetype"
	"github.com/internetarchive/Zeno/internal/pkg/archiver"
	"github.com/internetarchive/Zeno/internal/pkg/config"
	"github.com/internetarchive/Zeno/internal/pkg/postprocessor"
	"github.com/internetarchive/Zeno/internal/pkg/preprocessor"
	"github.com/internetarchive/Zeno/pkg/models"
)

var tmpDir = func() string {
	d := fmt.Sprintf("/dev/shm/verif-c19-%d", os.Getpid())
	if os.MkdirAll(d, 0o755) != nil {
		d = os.TempDir()
	}
	return d
}()

var crawledDomains = []string{"cdn.example", "www.example", "files.example", "api.example", "bare.example", "origin.example"}

type response struct {
	Header map[string]string
	Body   string
	DC     bool // --domains-crawl with the planted hosts as domains
	DAC    bool // --disable-assets-capture
	// GzipLen: the response as Zeno's client presents a gzip-compressed delivery with a Content-Length: body
	// decompressed, Content-Encoding: gzip, ContentLength = size of the compressed bytes
	GzipLen bool
	Direct  bool // skip archiver.ProcessBody: attach the sniffed MIME type and the spooled body directly (what Zeno's unit tests do)
}

type result struct {
	Children []string // Raw of every child item (asset) created by postprocessItem
	Outlinks []string // Raw of every outlink item returned by postprocessItem
	Parent   *models.URL
	Panic    string
}

// fetch runs the real post-fetch code on a simulated 200 response for rawURL.
func fetch(rawURL string, hops, maxHops int, r response) (res result) {
	config.VerifSet(&config.Config{MaxHops: maxHops, MaxRedirect: 20, WorkersCount: 1, DisableAssetsCapture: r.DAC,
		NoStdoutLogging: true, NoStderrLogging: true, NoFileLogging: true})
	domainscrawl.Reset()
	if r.DC {
		if err := domainscrawl.AddElements(crawledDomains); err != nil {
			panic(err)
		}
	}
	u := &models.URL{Raw: rawURL, Hops: hops}
	if err := preprocessor.NormalizeURL(u, nil); err != nil {
		res.Panic = "engine: document URL rejected: " + err.Error()
		return
	}
	res.Parent = u
	defer func() {
		if p := recover(); p != nil {
			res.Panic = fmt.Sprint(p)
		}
	}()
	req, err := http.NewRequest(http.MethodGet, u.String(), nil)
	if err != nil {
		res.Panic = "engine: " + err.Error()
		return
	}
	u.SetRequest(req)
	h := http.Header{}
	for k, v := range r.Header {
		h.Set(k, v)
	}
	resp := &http.Response{StatusCode: 200, Header: h, Body: io.NopCloser(strings.NewReader(r.Body)), Request: req}
	if r.GzipLen {
		var zb bytes.Buffer
		zw := gzip.NewWriter(&zb)
		zw.Write([]byte(r.Body))
		zw.Close()
		h.Set("Content-Encoding", "gzip")
		h.Set("Content-Length", fmt.Sprint(zb.Len()))
		resp.ContentLength = int64(zb.Len())
	}
	u.SetResponse(resp)
	if r.Direct {
		u.SetMIMEType(mimetype.Detect([]byte(r.Body[:min(len(r.Body), 2048)])))
		sp := spooledtempfile.NewSpooledTempFile("c19", tmpDir, 2097152, false, -1)
		sp.Write([]byte(r.Body))
		u.SetBody(sp)
		u.RewindBody()
	} else if err := archiver.ProcessBody(u, r.DAC, r.DC, maxHops, tmpDir); err != nil {
		res.Panic = "engine: ProcessBody: " + err.Error()
		return
	}
	item := models.NewItem("c19", u, "")
	item.SetStatus(models.ItemArchived)
	outs := postprocessor.VerifC19PostprocessItem(item)
	for _, c := range item.GetChildren() {
		res.Children = append(res.Children, c.GetURL().Raw)
	}
	for _, o := range outs {
		res.Outlinks = append(res.Outlinks, o.GetURL().Raw)
	}
	return
}

// canon says which URL the pipeline will act on for an extracted string: the preprocessor's own
// NormalizeURL (children are resolved against their parent, outlinks are seeds), then fragment
// dropped and query pairs sorted (NormalizeURL emits them in map order, which is C09's business).
// ok=false: the preprocessor rejects the string, i.e. the link is lost.
var canonMemo = map[string]string{}

func canon(raw string, parent *models.URL) (string, bool) {
	key := raw
	if parent != nil {
		key = parent.Raw + "\x00" + raw
	}
	if c, hit := canonMemo[key]; hit {
		return c, c != ""
	}
	c := canon1(raw, parent)
	if len(canonMemo) < 1<<16 {
		canonMemo[key] = c
	}
	return c, c != ""
}

func canon1(raw string, parent *models.URL) string {
	u := &models.URL{Raw: raw}
	if err := preprocessor.NormalizeURL(u, parent); err != nil {
		return ""
	}
	p, err := url.Parse(u.Raw)
	if err != nil {
		return ""
	}
	q, err := url.ParseQuery(p.RawQuery)
	if err != nil {
		return ""
	}
	p.RawQuery = q.Encode()
	p.Fragment = ""
	return p.String()
}

// canonSet: the URLs the pipeline will act on for a list of extracted strings.
func canonSet(list []string, parent *models.URL) map[string]bool {
	m := map[string]bool{}
	for _, e := range list {
		if c, ok := canon(e, parent); ok {
			m[c] = true
		}
	}
	return m
}

func mustCanon(planted string) string {
	w, ok := canon(planted, nil)
	if !ok {
		panic("engine: planted URL is rejected by NormalizeURL: " + planted)
	}
	return w
}
