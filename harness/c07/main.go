// Harness for C07: page requisites referenced through the standard HTML
// embedding attributes are requested as assets, resolved as a browser would;
// anchors are handed over as outlinks when the hop limit allows.
//
// Engine E3 (exhaustive input grid): documents are built by construction (gen.go),
// pushed through the real archiver.ProcessBody -> postprocess() -> preprocess(),
// and the requests attached to the page's children / the outlink items are judged
// by the oracle in oracle.go.
package main

import (
	"encoding/json"
	"fmt"
	"os"
	"path/filepath"
	"sort"
	"strings"

	"github.com/internetarchive/Zeno/internal/pkg/preprocessor/seencheck"
	"github.com/internetarchive/Zeno/internal/verif/vrt/hkit"
)

const propID = "C07"

const shardCount = 64

// group aggregates all failures of one (verdict, carrier) class; the signature
// is derived from the projections of the failing cases (see signature()).
type group struct {
	Verdict string
	Carrier string
	Class   string // key into shardOut.Checked: demand|reason|carrier
	Count   int
	First   *Failure                   // failing case with the lowest id
	Fail    map[string]map[string]bool // dimension -> values seen in failing cases
}

type Failure struct {
	Case     Case     `json:"case"`
	Slot     int      `json:"slot"`
	Verdict  string   `json:"verdict"`
	Ref      string   `json:"ref"`
	Want     string   `json:"want"`
	Got      []string `json:"got"` // what was observed carrying the planted token
	Document string   `json:"document"`
}

// shardOut is what one shard reports.
type shardOut struct {
	Evaluations int
	Documents   int
	NonTrivial  int
	Must        int
	MustNot     int
	NoDemand    int
	Groups      map[string]*group
	Checked     map[string]map[string]map[string]bool // demand|reason|carrier -> dimension -> values enumerated
	Samples     []string
}

func newOut() *shardOut {
	return &shardOut{Groups: map[string]*group{}, Checked: map[string]map[string]map[string]bool{}}
}

func addVals(m map[string]map[string]bool, dims map[string]string) {
	for d, v := range dims {
		if m[d] == nil {
			m[d] = map[string]bool{}
		}
		m[d][v] = true
	}
}

func (o *shardOut) record(c Case, res []Result, doc string) {
	o.Evaluations++
	nontrivial := false
	for _, r := range res {
		switch r.Demand {
		case "must":
			o.Must++
			nontrivial = true
		case "mustnot":
			o.MustNot++
			nontrivial = true
		default:
			o.NoDemand++
			continue
		}
		dims := c.dims(r.Plant)
		ck := r.Demand + "|" + r.Reason + "|" + r.Carrier
		if o.Checked[ck] == nil {
			o.Checked[ck] = map[string]map[string]bool{}
		}
		addVals(o.Checked[ck], dims)
		if r.Verdict == "" {
			continue
		}
		gk := r.Verdict + "|" + r.Carrier
		g := o.Groups[gk]
		if g == nil {
			g = &group{Verdict: r.Verdict, Carrier: r.Carrier, Class: ck, Fail: map[string]map[string]bool{}}
			o.Groups[gk] = g
		}
		g.Count++
		addVals(g.Fail, dims)
		if g.First == nil || c.ID < g.First.Case.ID {
			g.First = &Failure{Case: c, Slot: r.Slot, Verdict: r.Verdict, Ref: r.Ref, Want: r.Want, Got: r.Got, Document: doc}
		}
	}
	if nontrivial {
		o.NonTrivial++
	}
}

func (o *shardOut) merge(p *shardOut) {
	o.Evaluations += p.Evaluations
	o.NonTrivial += p.NonTrivial
	o.Must += p.Must
	o.MustNot += p.MustNot
	o.NoDemand += p.NoDemand
	for k, g := range p.Groups {
		t := o.Groups[k]
		if t == nil {
			o.Groups[k] = g
			continue
		}
		t.Count += g.Count
		for d, vs := range g.Fail {
			for v := range vs {
				addVals(t.Fail, map[string]string{d: v})
			}
		}
		if g.First.Case.ID < t.First.Case.ID {
			t.First = g.First
		}
	}
	for k, dm := range p.Checked {
		if o.Checked[k] == nil {
			o.Checked[k] = map[string]map[string]bool{}
		}
		for d, vs := range dm {
			for v := range vs {
				addVals(o.Checked[k], map[string]string{d: v})
			}
		}
	}
	o.Samples = append(o.Samples, p.Samples...)
}

// signature names the failing input class: verdict, carrier, and every settings/
// input dimension (of those with tier-independent alphabets) on which the failing
// cases cover only part of what was enumerated for that demand side.
func signature(g *group, checked map[string]map[string]bool) (string, string) {
	parts := []string{g.Verdict, g.Carrier}
	var human []string
	for _, d := range sigDims {
		f, e := g.Fail[d], checked[d]
		if len(f) < len(e) {
			parts = append(parts, d+"="+strings.Join(hkit.SortedKeys(f), "+"))
		}
	}
	for _, d := range append(append([]string{}, sigDims...), otherDims...) {
		human = append(human, fmt.Sprintf("%s{%s of %d}", d, strings.Join(hkit.SortedKeys(g.Fail[d]), ","), len(checked[d])))
	}
	return strings.Join(parts, "/"), strings.Join(human, " ")
}

func startSeencheck(tag string) {
	base := os.Getenv("VERIF_TMP")
	if base == "" {
		base = "/dev/shm"
	}
	dir, err := os.MkdirTemp(base, "c07-"+tag+"-")
	if err != nil {
		hkit.EngineError("%v", err)
	}
	tmpDir = dir
	if err := seencheck.Start(dir); err != nil {
		hkit.EngineError("seencheck: %v", err)
	}
}

func stopSeencheck() {
	seencheck.Close()
	os.RemoveAll(tmpDir)
}

func main() {
	a := hkit.ParseArgs()
	if err := crossCheckTable(); err != nil {
		hkit.EngineError("reference-form table disagrees with net/url: %v", err)
	}
	if a.Replay != "" {
		replay(a.Replay)
		return
	}
	if a.Of > 1 {
		startSeencheck(fmt.Sprintf("s%d", a.Shard))
		out := newOut()
		enumerate(a.Tier, func(c Case) {
			if c.ID%a.Of != a.Shard {
				return
			}
			doc, res := evaluate(c, false)
			out.record(c, res, doc)
			if c.ID%20011 == 0 && len(out.Samples) < 4 {
				out.Samples = append(out.Samples, c.String()+" :: "+doc)
			}
		})
		stopSeencheck()
		hkit.EmitShardResult(out)
		return
	}

	total := newOut()
	for _, b := range hkit.Shards(shardCount) {
		var o shardOut
		hkit.ShardResult(b, &o)
		total.merge(&o)
	}
	// every shard must have seen the same enumeration; count the distinct documents
	docs := map[string]bool{}
	n := 0
	enumerate(a.Tier, func(c Case) { n++; docs[c.docKey()] = true })
	if n != total.Evaluations {
		hkit.EngineError("shards evaluated %d cases, enumeration has %d", total.Evaluations, n)
	}
	total.Documents = len(docs)

	for _, k := range hkit.SortedKeys(total.Groups) {
		g := total.Groups[k]
		sig, human := signature(g, total.Checked[g.Class])
		f := g.First
		hkit.Report(propID, sig, map[string]any{"engine": "grid", "harness": "c07", "sig": sig, "failure": f},
			fmt.Sprintf("%s: %d failing evaluations; first: %s ref=%q want=%s got=%v; failing values: %s",
				sig, g.Count, f.Case.String(), f.Ref, f.Want, f.Got, human))
	}
	sort.Strings(total.Samples)
	samples := []any{}
	for _, s := range total.Samples {
		samples = append(samples, s)
	}
	if len(samples) > 24 {
		samples = samples[:24]
	}
	hkit.Evidence(propID, a.Tier, "exploration", map[string]any{
		"evaluations": total.Evaluations, "distinct_nontrivial": total.NonTrivial,
		"rule":                        "one evaluation = one generated document under one settings tuple run through ProcessBody, postprocess() and preprocess(); it is non-trivial when at least one planted reference carries a demand (must be requested / must not be requested); all tuples are distinct by construction",
		"samples":                     samples,
		"exhaustive":                  true,
		"documents":                   total.Documents,
		"documents_rule":              "distinct document shapes (carriers, forms, quoting, nesting), not counting page scheme or the per-evaluation token",
		"planted_refs_must":           total.Must,
		"planted_refs_must_not":       total.MustNot,
		"planted_refs_no_demand":      total.NoDemand,
		"failure_classes":             len(total.Groups),
		"alphabets":                   alphabets(a.Tier),
		"reference_table_cross_check": "every (form, page scheme) entry equals net/url ResolveReference with the fragment removed",
	}, []string{
		"documents are served as 200 text/html; charset=utf-8 without a base element; include/exclude filters empty, domains-crawl off, local LevelDB seen-store",
		"every planted URL carries a token unique to its evaluation, so 'already seen' never applies",
		"queries have a single parameter (map-order independent canonical form)",
		"an outlink is compared after the real preprocess() of the outlink item as a seed (fragment removed there), falling back to its raw text",
	}, hkit.Violations())
	fmt.Printf("C07 %s: %d evaluations over %d documents (%d non-trivial; planted refs: %d must, %d must-not, %d no demand), %d failure classes, wall %.1fs\n",
		a.Tier, total.Evaluations, total.Documents, total.NonTrivial, total.Must, total.MustNot, total.NoDemand, len(total.Groups), hkit.Wall())
	hkit.Exit()
}

func replay(path string) {
	b, err := os.ReadFile(path)
	if err != nil {
		hkit.EngineError("%v", err)
	}
	var r struct {
		Sig     string  `json:"sig"`
		Failure Failure `json:"failure"`
	}
	if err := json.Unmarshal(b, &r); err != nil {
		hkit.EngineError("%v", err)
	}
	startSeencheck("replay")
	defer stopSeencheck()
	c := r.Failure.Case
	fmt.Printf("case: %s\n", c.String())
	doc, res := evaluate(c, true)
	if doc != r.Failure.Document {
		fmt.Printf("note: regenerated document differs from the recorded one:\n%s\n", r.Failure.Document)
	}
	bad := false
	for _, x := range res {
		v := x.Verdict
		if v == "" {
			v = "ok"
		} else {
			bad = true
		}
		fmt.Printf("planted slot %d (%s) ref=%q demand=%s want=%s observed=%v -> %s\n", x.Slot, x.Carrier, x.Ref, x.Demand, x.Want, x.Got, v)
	}
	if !bad {
		fmt.Println("replay: no violation")
		stopSeencheck()
		os.Exit(0)
	}
	fmt.Printf("VIOLATION property=%s replay=%s\n", propID, filepath.Clean(path))
	stopSeencheck()
	os.Exit(1)
}
