// Generator for C07: carriers, quoting styles, reference forms (with the expected
// absolute URL written down next to each form), nestings, settings, and the
// enumeration of the grid.
package main

import (
	"fmt"
	"net/url"
	"strings"
)

const (
	pageHost = "site.example"
	pagePath = "/a/b/page.html"
	cdnHost  = "cdn.example"
)

// ---------------------------------------------------------------- reference forms

var formNames = []string{"abs-http", "abs-https", "scheme-rel", "path-abs", "path-rel", "dot", "dotdot", "query", "fragment", "pct", "colon-query", "colon-name"}

// ref returns the reference text planted in the document and the absolute URL a
// browser requests for it from a page at <scheme>://site.example/a/b/page.html.
// This table IS the oracle for resolution; crossCheckTable() compares it once per
// run with net/url's RFC 3986 resolver (Zeno resolves with the WHATWG parser ada).
func ref(form, scheme, tok, ext string) (text, want string) {
	f := tok + "." + ext
	switch form {
	case "abs-http":
		return "http://" + cdnHost + "/m/" + f, "http://" + cdnHost + "/m/" + f
	case "abs-https":
		return "https://" + cdnHost + "/m/" + f, "https://" + cdnHost + "/m/" + f
	case "scheme-rel":
		return "//" + cdnHost + "/m/" + f, scheme + "://" + cdnHost + "/m/" + f
	case "path-abs":
		return "/m/" + f, scheme + "://" + pageHost + "/m/" + f
	case "path-rel":
		return "m/" + f, scheme + "://" + pageHost + "/a/b/m/" + f
	case "dot":
		return "./m/" + f, scheme + "://" + pageHost + "/a/b/m/" + f
	case "dotdot":
		return "../m/" + f, scheme + "://" + pageHost + "/a/m/" + f
	case "query":
		return "?" + tok + "=1", scheme + "://" + pageHost + pagePath + "?" + tok + "=1"
	case "fragment": // the fragment is not part of the request
		return "m/" + f + "#frag", scheme + "://" + pageHost + "/a/b/m/" + f
	case "colon-query": // a colon after the first path segment's "?": still a path-relative reference, not a scheme
		return f + "?ratio=16:9", scheme + "://" + pageHost + "/a/b/" + f + "?ratio=16:9"
	case "colon-name": // a colon in the file name, behind a "./" as authors write it
		return "./" + tok + "_12:30." + ext, scheme + "://" + pageHost + "/a/b/" + tok + "_12:30." + ext
	case "pct": // an escaped space stays escaped
		return "m/" + tok + "%20v." + ext, scheme + "://" + pageHost + "/a/b/m/" + tok + "%20v." + ext
	}
	panic("unknown form " + form)
}

func crossCheckTable() error {
	for _, scheme := range schemes {
		base, _ := url.Parse(scheme + "://" + pageHost + pagePath)
		for _, form := range formNames {
			text, want := ref(form, scheme, "r1x0", "png")
			r, err := url.Parse(text)
			if err != nil {
				return err
			}
			u := base.ResolveReference(r)
			u.Fragment = ""
			if u.String() != want {
				return fmt.Errorf("form %s on %s: table says %s, net/url says %s", form, scheme, want, u.String())
			}
		}
	}
	return nil
}

// ---------------------------------------------------------------- carriers

type carrierDef struct {
	Name string
	Tag  string // tag name --disable-html-tag refers to ("" = none: style attribute on a div)
	Kind string // "asset" | "alternate" (asset only with capture-alternate-pages) | "outlink"
	Ext  string
	Refs int
	CSS  bool // the quoting style is the CSS url() quoting, not the attribute quoting
}

var carriers = []carrierDef{
	{"img-src", "img", "asset", "png", 1, false},
	{"img-srcset1", "img", "asset", "png", 1, false},
	{"img-srcset2", "img", "asset", "png", 2, false},
	{"img-srcset2-tight", "img", "asset", "png", 2, false},        // candidates separated by a bare comma (what minifiers emit)
	{"img-srcset2-newline", "img", "asset", "png", 2, false},      // ... by a comma, a newline and indentation
	{"source-srcset2-tight", "source", "asset", "webp", 2, false}, // width descriptors, bare comma
	{"script-src", "script", "asset", "js", 1, false},
	{"link-stylesheet", "link", "asset", "css", 1, false},
	{"link-icon", "link", "asset", "ico", 1, false},
	{"link-alternate", "link", "alternate", "xml", 1, false},
	{"source-src", "source", "asset", "mp4", 1, false},
	{"source-srcset", "source", "asset", "webp", 1, false},
	{"video-src", "video", "asset", "mp4", 1, false},
	{"audio-src", "audio", "asset", "mp3", 1, false},
	{"style-elem", "style", "asset", "png", 1, true},
	{"style-attr", "", "asset", "png", 1, true},
	{"a-href", "a", "outlink", "html", 1, false},
}

func carrierByName(n string) carrierDef {
	for _, c := range carriers {
		if c.Name == n {
			return c
		}
	}
	panic("unknown carrier " + n)
}

var quotes = []string{"dq", "sq", "none"}

// attr renders name=value in the given quoting style; ok=false where the
// unquoted syntax is not legal HTML for this value.
func attr(name, v, q string) (string, bool) {
	switch q {
	case "dq":
		return name + `="` + v + `"`, true
	case "sq":
		return name + `='` + v + `'`, true
	}
	if v == "" || strings.ContainsAny(v, " \t\n\"'=<>`") {
		return "", false
	}
	return name + "=" + v, true
}

func cssURL(v, q string) string {
	switch q {
	case "dq":
		return `url("` + v + `")`
	case "sq":
		return `url('` + v + `')`
	}
	return "url(" + v + ")"
}

func (c carrierDef) render(q string, refs []string) (string, bool) {
	var a string
	var ok bool
	switch c.Name {
	case "img-src":
		a, ok = attr("src", refs[0], q)
		return "<img " + a + " alt=x>", ok
	case "img-srcset1":
		a, ok = attr("srcset", refs[0], q)
		return "<img alt=x " + a + ">", ok
	case "img-srcset2":
		a, ok = attr("srcset", refs[0]+" 1x, "+refs[1]+" 2x", q)
		return `<img src="/fallback.png" alt=x ` + a + ">", ok
	case "img-srcset2-tight":
		a, ok = attr("srcset", refs[0]+" 1x,"+refs[1]+" 2x", q)
		return `<img src="/fallback.png" alt=x ` + a + ">", ok
	case "img-srcset2-newline":
		a, ok = attr("srcset", refs[0]+" 1x,\n      "+refs[1]+" 2x", q)
		return `<img src="/fallback.png" alt=x ` + a + ">", ok
	case "source-srcset2-tight":
		a, ok = attr("srcset", refs[0]+" 480w,"+refs[1]+" 960w", q)
		return "<picture><source " + a + ` type=image/webp><img src="/fallback.png" alt=x></picture>`, ok
	case "script-src":
		a, ok = attr("src", refs[0], q)
		return "<script " + a + "></script>", ok
	case "link-stylesheet":
		a, ok = attr("href", refs[0], q)
		return "<link rel=stylesheet " + a + ">", ok
	case "link-icon":
		a, ok = attr("href", refs[0], q)
		return "<link rel=icon " + a + ">", ok
	case "link-alternate":
		a, ok = attr("href", refs[0], q)
		return "<link rel=alternate type=application/rss+xml " + a + ">", ok
	case "source-src":
		a, ok = attr("src", refs[0], q)
		return "<video controls><source " + a + " type=video/mp4></video>", ok
	case "source-srcset":
		a, ok = attr("srcset", refs[0], q)
		return "<picture><source " + a + ` type=image/webp><img src="/fallback.png" alt=x></picture>`, ok
	case "video-src":
		a, ok = attr("src", refs[0], q)
		return "<video " + a + " controls></video>", ok
	case "audio-src":
		a, ok = attr("src", refs[0], q)
		return "<audio " + a + " controls></audio>", ok
	case "style-elem":
		return "<style>.c{background-image:" + cssURL(refs[0], q) + "}</style>", true
	case "style-attr":
		outer := `"`
		if q == "dq" {
			outer = `'`
		}
		return "<div style=" + outer + "background-image:" + cssURL(refs[0], q) + outer + ">x</div>", true
	case "a-href":
		a, ok = attr("href", refs[0], q)
		return "<a " + a + ">link</a>", ok
	}
	panic("unknown carrier")
}

// ---------------------------------------------------------------- nesting

var nests = []string{"body", "div", "media", "comment", "script", "head", "json-script", "bad-json-script"}

func nestLegal(nest string, c carrierDef) bool {
	switch nest {
	case "media":
		return strings.HasPrefix(c.Name, "img-")
	case "head":
		return c.Name == "script-src" || strings.HasPrefix(c.Name, "link-") || c.Name == "style-elem"
	}
	return true
}

func document(nest, x string) string {
	head, body := "", x
	switch nest {
	case "div":
		body = "<div class=o><div class=i>" + x + "</div></div>"
	case "media":
		body = `<picture><source srcset="/decoy/alt.webp" type=image/webp>` + x + "</picture>"
	case "comment":
		body = `<!-- <img src="/decoy/c.png"><a href="/decoy/c.html">x</a><link rel=stylesheet href="/decoy/c.css"> -->` + x
	case "script":
		body = `<script>var s = "<img src='/decoy/s.png'>"; var t = '<a href="/decoy/s.html">';</script>` + x
	case "json-script": // structured data next to the requisites: content that carries none of them
		body = `<script type="application/ld+json">{"@context":"https://schema.org/","@type":"Thing","name":"t"}</script>` + x
	case "bad-json-script": // the same, not well-formed (a trailing comma): the page's requisites are what they were
		body = `<script type="application/ld+json">{"@context":"https://schema.org/","@type":"Thing","name":"t",}</script>` + x
	case "head":
		head, body = x, ""
	}
	return "<!DOCTYPE html><html><head><meta charset=utf-8><title>t</title>" + head + "</head><body><p>text</p>" + body + "</body></html>"
}

// ---------------------------------------------------------------- cases

var schemes = []string{"http", "https"}

type Plant struct {
	Carrier string
	Form    string
}

type Settings struct {
	Disable  string // one tag given to --disable-html-tag, "" = none
	Alt      bool   // --capture-alternate-pages
	DAC      bool   // --disable-assets-capture
	MaxHops  int    // --max-hops
	PageHops int    // hops of the page
	Depth    int    // 0 = the page is the seed, 1 = HTML fetched as asset of the seed, 3 = three levels below the seed
	// Via: "" = the page URL was requested directly; "redirect" = the seed was another URL (other
	// scheme, host and directory) that redirected to the page: references still resolve against the page
	Via string `json:",omitempty"`
	// DC: --domains-crawl: "" = off, "site" = a pattern matching the page's own host (anchors to it are
	// always queued, with hops 0), "other" = a pattern matching neither host (only the hop rule applies)
	DC string `json:",omitempty"`
	// ExcludeFirst: --exclude-string with a string that only the URLs of the document's first carrier contain: those
	// are out of scope, every other requisite of the document stays due (also on the same host)
	ExcludeFirst bool `json:",omitempty"`
}

type Case struct {
	ID int
	// Same: the second carrier references the very URLs of the first (same token, same extension): one requisite
	// referenced twice in one document
	Same   bool
	Plants []Plant
	Quote  string
	Nest   string
	Scheme string
	Set    Settings
}

func (c Case) String() string {
	var p []string
	for _, x := range c.Plants {
		p = append(p, x.Carrier+":"+x.Form)
	}
	if c.Same {
		p = append(p, "same-url")
	}
	return fmt.Sprintf("#%d %s quote=%s nest=%s page=%s disable-html-tag=%q capture-alternate-pages=%v disable-assets-capture=%v max-hops=%d page-hops=%d depth=%d via=%q domains-crawl=%q exclude-string-of-first=%v",
		c.ID, strings.Join(p, "+"), c.Quote, c.Nest, c.Scheme, c.Set.Disable, c.Set.Alt, c.Set.DAC, c.Set.MaxHops, c.Set.PageHops, c.Set.Depth, c.Set.Via, c.Set.DC, c.Set.ExcludeFirst)
}

func (c Case) docKey() string {
	var p []string
	for _, x := range c.Plants {
		p = append(p, x.Carrier+":"+x.Form)
	}
	if c.Same {
		p = append(p, "same-url")
	}
	return strings.Join(p, "+") + "|" + c.Quote + "|" + c.Nest
}

// dimensions used for signatures (alphabets identical in both tiers) and for the human text only.
var sigDims = []string{"form", "page", "tag", "alt", "dac", "hops", "depth", "via", "dc"}
var otherDims = []string{"quote", "nest", "partner"}

func (c Case) dims(slotPlant int) map[string]string {
	p := c.Plants[slotPlant]
	tag := "none"
	if c.Set.Disable != "" {
		tag = "other"
		if c.Set.Disable == carrierByName(p.Carrier).Tag {
			tag = "own"
		}
	}
	partner := "none"
	if len(c.Plants) == 2 {
		partner = c.Plants[1-slotPlant].Carrier
	}
	return map[string]string{
		"form": p.Form, "page": c.Scheme, "tag": tag, "alt": fmt.Sprint(c.Set.Alt), "dac": fmt.Sprint(c.Set.DAC),
		"hops": fmt.Sprintf("page%d-max%d", c.Set.PageHops, c.Set.MaxHops), "depth": fmt.Sprint(c.Set.Depth), "via": map[bool]string{true: "direct", false: c.Set.Via}[c.Set.Via == ""],
		"dc":    map[bool]string{true: "off", false: c.Set.DC}[c.Set.DC == ""],
		"quote": c.Quote, "nest": c.Nest, "partner": partner,
	}
}

// plantedRef is one planted reference of a built document.
type plantedRef struct {
	Plant int // index into Case.Plants
	Slot  int // running number of the reference in the document
	Text  string
	Want  string
	Tok   string
}

// build renders the document of a case; ok=false when the combination is not legal HTML.
func (c Case) build() (doc string, refs []plantedRef, ok bool) {
	var parts []string
	slot := 0
	for pi, p := range c.Plants {
		cd := carrierByName(p.Carrier)
		if !nestLegal(c.Nest, cd) {
			return "", nil, false
		}
		var texts []string
		for k := 0; k < cd.Refs; k++ {
			tok, ext := fmt.Sprintf("r%dx%d", c.ID, slot), cd.Ext
			if c.Same && pi == 1 && k < len(refs) && refs[k].Plant == 0 {
				tok, ext = refs[k].Tok, carrierByName(c.Plants[0].Carrier).Ext
			}
			text, want := ref(p.Form, c.Scheme, tok, ext)
			texts = append(texts, text)
			refs = append(refs, plantedRef{Plant: pi, Slot: slot, Text: text, Want: want, Tok: tok})
			slot++
		}
		x, legal := cd.render(c.Quote, texts)
		if !legal {
			return "", nil, false
		}
		parts = append(parts, x)
	}
	return document(c.Nest, strings.Join(parts, "<p>between</p>")), refs, true
}

func otherTag(c carrierDef) string {
	if c.Tag == "img" {
		return "script"
	}
	return "img"
}

var pairFormsQuick = []string{"scheme-rel", "path-abs", "path-rel", "dotdot"}

func alphabets(tier string) map[string]any {
	var cs []string
	for _, c := range carriers {
		cs = append(cs, c.Name)
	}
	pf, pq, pn := pairFormsQuick, []string{"dq"}, []string{"body"}
	if tier == "thorough" {
		pf, pq, pn = formNames, quotes, []string{"body", "div", "comment", "script", "bad-json-script"}
	}
	return map[string]any{
		"carriers": cs, "quoting": quotes, "reference_forms": formNames, "nesting": nests, "page_url": []string{"http://site.example/a/b/page.html", "https://site.example/a/b/page.html"},
		"domains_crawl":   "anchors once more with --domains-crawl matching the page's own host / another host x (page hops, max-hops) in {(0,0),(0,1),(1,1),(1,2),(2,2)}",
		"via_redirect":    "every carrier x reference form x page scheme once more with the page reached through a redirection from a URL of another scheme, host and directory (seed -> 302 -> page)",
		"single_settings": "disable-html-tag {none, carrier's tag, another tag} x capture-alternate-pages {off,on} x disable-assets-capture {off,on} x depth {0, 1 (HTML as asset), 3} x (page hops, max-hops) {(0,0),(0,1)} (+(1,1),(1,2) for a href; a href only at depth 0)",
		"pairs":           "all ordered pairs of carriers (incl. twice the same) in one document, quoting " + strings.Join(pq, ",") + ", nesting " + strings.Join(pn, ",") + ", forms " + strings.Join(pf, ",") + " for each, both page schemes, settings: disable-html-tag {none, first's tag, second's tag} x capture-alternate-pages {off,on if a link is involved} x (0,1) hops, plus disable-assets-capture on, plus max-hops 0 when an anchor is involved",
	}
}

// enumerate calls f for every case of the tier, in a fixed order, with ids 1,2,3...
// Combinations that are not legal HTML (unquoted value with '=' or blanks, carrier
// not allowed in that nesting) are skipped and get no id.
func enumerate(tier string, f func(Case)) {
	id := 0
	legal := func(c Case) bool { _, _, ok := c.build(); return ok }
	emit := func(c Case) {
		id++
		c.ID = id
		f(c)
	}
	// single-reference documents x full settings grid
	for _, cd := range carriers {
		tagsets := []string{"", otherTag(cd)}
		if cd.Tag != "" {
			tagsets = []string{"", cd.Tag, otherTag(cd)}
		}
		hops := [][2]int{{0, 0}, {0, 1}}
		depths := []int{0, 1, 3}
		if cd.Kind == "outlink" {
			hops = [][2]int{{0, 0}, {0, 1}, {1, 1}, {1, 2}}
			depths = []int{0}
		}
		for _, q := range quotes {
			for _, form := range formNames {
				for _, nest := range nests {
					if !legal(Case{Plants: []Plant{{cd.Name, form}}, Quote: q, Nest: nest, Scheme: "http"}) {
						continue
					}
					for _, scheme := range schemes {
						for _, tg := range tagsets {
							for _, alt := range []bool{false, true} {
								for _, dac := range []bool{false, true} {
									for _, depth := range depths {
										for _, h := range hops {
											emit(Case{Plants: []Plant{{cd.Name, form}}, Quote: q, Nest: nest, Scheme: scheme,
												Set: Settings{Disable: tg, Alt: alt, DAC: dac, PageHops: h[0], MaxHops: h[1], Depth: depth}})
										}
									}
								}
							}
						}
					}
				}
			}
		}
	}
	// the page was reached through a redirection from elsewhere: every carrier x form x page scheme
	for _, cd := range carriers {
		for _, form := range formNames {
			if !legal(Case{Plants: []Plant{{cd.Name, form}}, Quote: "dq", Nest: "body", Scheme: "http"}) {
				continue
			}
			for _, scheme := range schemes {
				emit(Case{Plants: []Plant{{cd.Name, form}}, Quote: "dq", Nest: "body", Scheme: scheme, Set: Settings{PageHops: 0, MaxHops: 1, Via: "redirect"}})
			}
		}
	}
	// anchors with --domains-crawl active: every form x page scheme x pattern {page's host, another host} x hop situations
	for _, cd := range carriers {
		if cd.Kind != "outlink" {
			continue
		}
		for _, form := range formNames {
			if !legal(Case{Plants: []Plant{{cd.Name, form}}, Quote: "dq", Nest: "body", Scheme: "http"}) {
				continue
			}
			for _, scheme := range schemes {
				for _, dc := range []string{"site", "other"} {
					for _, h := range [][2]int{{0, 0}, {0, 1}, {1, 1}, {1, 2}, {2, 2}} {
						emit(Case{Plants: []Plant{{cd.Name, form}}, Quote: "dq", Nest: "body", Scheme: scheme, Set: Settings{PageHops: h[0], MaxHops: h[1], DC: dc}})
					}
				}
			}
		}
	}
	// pairs of carriers in one document (interference)
	pf, pq, pn := pairFormsQuick, []string{"dq"}, []string{"body"}
	if tier == "thorough" {
		pf, pq, pn = formNames, quotes, []string{"body", "div", "comment", "script", "bad-json-script"}
	}
	for _, a := range carriers {
		for _, b := range carriers {
			tagsets := []string{""}
			if a.Tag != "" {
				tagsets = append(tagsets, a.Tag)
			}
			if b.Tag != "" && b.Tag != a.Tag {
				tagsets = append(tagsets, b.Tag)
			}
			alts := []bool{false}
			if a.Tag == "link" || b.Tag == "link" {
				alts = []bool{false, true}
			}
			anchor := a.Kind == "outlink" || b.Kind == "outlink"
			for _, fa := range pf {
				for _, fb := range pf {
					for _, scheme := range schemes {
						for _, q := range pq {
							for _, nest := range pn {
								base := Case{Plants: []Plant{{a.Name, fa}, {b.Name, fb}}, Quote: q, Nest: nest, Scheme: scheme}
								if !legal(base) {
									continue
								}
								for _, tg := range tagsets {
									for _, alt := range alts {
										c := base
										c.Set = Settings{Disable: tg, Alt: alt, MaxHops: 1}
										emit(c)
									}
								}
								c := base
								c.Set = Settings{DAC: true, MaxHops: 1}
								emit(c)
								if a.Name != b.Name || fa != fb {
									c.Set = Settings{MaxHops: 1, ExcludeFirst: true}
									emit(c)
								}
								if anchor {
									c.Set = Settings{MaxHops: 0}
									emit(c)
								}
							}
						}
					}
				}
			}
		}
	}
	// one requisite referenced twice in one document: all ordered pairs of carriers, the second one naming the URLs of the first
	for _, a := range carriers {
		for _, b := range carriers {
			for _, form := range pf {
				for _, scheme := range schemes {
					base := Case{Same: true, Plants: []Plant{{a.Name, form}, {b.Name, form}}, Quote: "dq", Nest: "body", Scheme: scheme}
					if !legal(base) {
						continue
					}
					for _, mh := range []int{1, 0} {
						c := base
						c.Set = Settings{MaxHops: mh}
						emit(c)
					}
				}
			}
		}
	}
}
