// Pipeline driver and oracle for C07.
package main

import (
	"fmt"
	"io"
	"net/http"
	"strings"

	"github.com/internetarchive/Zeno/internal/pkg/archiver"
	"github.com/internetarchive/Zeno/internal/pkg/config"
	"github.com/internetarchive/Zeno/internal/pkg/postprocessor"
	"github.com/internetarchive/Zeno/internal/pkg/postprocessor/domainscrawl"
	"github.com/internetarchive/Zeno/internal/pkg/preprocessor"
	"github.com/internetarchive/Zeno/pkg/models"
)

var tmpDir string

// Result is the judgement on one planted reference.
type Result struct {
	Plant   int
	Slot    int
	Carrier string
	Ref     string
	Want    string
	Demand  string   // "must" | "mustnot" | "" (the property says nothing)
	Reason  string   // which exception makes it a must-not
	Got     []string // observed requests / outlinks that carry the planted token
	Verdict string   // "" = fine, else the failure class
}

// demand is the property, read literally.
//
// Asset carriers: the URL must be requested as an asset unless one of the listed
// exceptions applies - asset capture off, the carrier's tag disabled, rel=alternate
// without --capture-alternate-pages, depth limit (an HTML document that was itself
// fetched as an asset is not expanded; nothing is expanded three levels below the
// seed). "Out of scope" and "already seen" never apply here (no filters, unique
// URLs). When an exception applies the URL must not be requested as an asset
// (design: "exactly when"). The style attribute sits on a div and has no tag of its
// own that --disable-html-tag could name, so it is never enumerated with "own tag".
//
// Anchors: handed over as an outlink whenever page hops < max-hops - the property
// lists no other condition for anchors, in particular not --disable-assets-capture -
// and not handed over when the hop limit forbids it. With --disable-html-tag a the
// property is silent (the tag exception is worded for assets): no demand. Anchors are
// only enumerated on the page itself (depth 0).
func demand(cd carrierDef, s Settings, form string) (string, string) {
	if cd.Kind == "outlink" {
		onPageHost := form != "abs-http" && form != "abs-https" && form != "scheme-rel"
		switch {
		case s.Depth != 0 || s.Disable == "a":
			return "", ""
		case s.DC == "site" && onPageHost:
			return "must", "" // matches --domains-crawl: queued whatever the hop counts are
		case s.PageHops < s.MaxHops:
			return "must", ""
		}
		return "mustnot", "hop-limit"
	}
	switch {
	case s.Depth == 1:
		return "mustnot", "depth1-html-asset"
	case s.Depth >= 3:
		return "mustnot", "depth3"
	case s.DAC:
		return "mustnot", "assets-capture-off"
	case cd.Tag != "" && s.Disable == cd.Tag:
		return "mustnot", "tag-disabled"
	case cd.Kind == "alternate" && !s.Alt:
		return "mustnot", "rel-alternate"
	}
	return "must", ""
}

func newArchived(raw string, hops int, ctype, body string, s Settings) *models.Item {
	u := &models.URL{Raw: raw, Hops: hops}
	if err := u.Parse(); err != nil {
		panic(err)
	}
	u.SetResponse(&http.Response{StatusCode: 200, Header: http.Header{"Content-Type": []string{ctype}}, Body: io.NopCloser(strings.NewReader(body))})
	// the real body handling of the archiver (MIME sniffing, spooled body, discard rule)
	if err := archiver.ProcessBody(u, s.DAC, false, s.MaxHops, tmpDir); err != nil {
		panic(err)
	}
	it := models.NewItem("n-"+raw, u, "")
	it.SetStatus(models.ItemArchived)
	return it
}

// observe runs one document through the real pipeline steps and returns the URLs
// requested as assets of the page and the URLs handed over as outlinks.
func observe(c Case, doc string) (assets, outlinks []string, note string) {
	s := c.Set
	cfg := &config.Config{CaptureAlternatePages: s.Alt, DisableAssetsCapture: s.DAC, MaxHops: s.MaxHops, UserAgent: "verif-c07", MaxRedirect: 20, UseSeencheck: true}
	if s.Disable != "" {
		cfg.DisableHTMLTag = []string{s.Disable}
	}
	if s.ExcludeFirst {
		cfg.ExcludeString = []string{fmt.Sprintf("r%dx0", c.ID)} // the token of the first planted reference (slot 0)
	}
	config.VerifSet(cfg)
	domainscrawl.Reset()
	switch s.DC {
	case "site":
		if err := domainscrawl.AddElements([]string{pageHost}); err != nil {
			panic(err)
		}
	case "other":
		if err := domainscrawl.AddElements([]string{"elsewhere.example"}); err != nil {
			panic(err)
		}
	}

	pageURL := c.Scheme + "://" + pageHost + pagePath
	page := newArchived(pageURL, s.PageHops, "text/html; charset=utf-8", doc, s)
	seed := page
	// depth > 0: the page hangs below a seed through a chain of non-HTML parents
	if s.Depth > 0 {
		var parent *models.Item
		for d := 0; d < s.Depth; d++ {
			n := newArchived(fmt.Sprintf("%s://%s/feed/level%d.json", c.Scheme, pageHost, d), s.PageHops, "application/json", "{}", s)
			if parent == nil {
				seed = n
			} else if err := parent.AddChild(n, models.ItemGotChildren); err != nil {
				panic(err)
			}
			n.SetStatus(models.ItemGotChildren)
			parent = n
		}
		if err := parent.AddChild(page, models.ItemGotChildren); err != nil {
			panic(err)
		}
		page.SetStatus(models.ItemArchived)
	}
	if s.Via == "redirect" {
		// the seed was another URL that answered with a redirection to the page (postprocessItem's
		// AddChild(.., ItemGotRedirected)); the page was then fetched with 200
		other := map[string]string{"http": "https", "https": "http"}[c.Scheme]
		su := &models.URL{Raw: other + "://old.example/moved/start.php?id=1", Hops: s.PageHops}
		if err := su.Parse(); err != nil {
			panic(err)
		}
		start := models.NewItem("n-start", su, "")
		if err := start.AddChild(page, models.ItemGotRedirected); err != nil {
			panic(err)
		}
		page.SetStatus(models.ItemArchived)
		seed = start
	}
	if err := seed.CheckConsistency(); err != nil {
		panic("harness built an inconsistent seed: " + err.Error())
	}

	outItems := postprocessor.VerifC07Postprocess(seed)

	if page.HasChildren() {
		// what the pipeline does next with a seed that got children: feedback -> preprocess
		preprocessor.VerifC07Preprocess(seed)
		for _, ch := range page.GetChildren() {
			if ch.GetStatus() == models.ItemPreProcessed && ch.GetURL().GetRequest() != nil {
				assets = append(assets, ch.GetURL().GetRequest().URL.String())
			}
		}
	} else {
		note = "page got no children (status " + page.GetStatus().String() + ")"
	}
	tokPrefix := fmt.Sprintf("r%dx", c.ID)
	for _, o := range outItems {
		raw := o.GetURL().Raw
		if !strings.Contains(raw, tokPrefix) {
			continue // extra outlinks are not judged
		}
		// the queue hands the outlink back as a seed; the preprocessor normalises it
		preprocessor.VerifC07Preprocess(o)
		if o.GetStatus() == models.ItemPreProcessed && o.GetURL().GetRequest() != nil {
			outlinks = append(outlinks, o.GetURL().GetRequest().URL.String())
		} else if i := strings.IndexByte(raw, '#'); i >= 0 {
			outlinks = append(outlinks, raw[:i])
		} else {
			outlinks = append(outlinks, raw)
		}
	}
	return assets, outlinks, note
}

func evaluate(c Case, verbose bool) (string, []Result) {
	doc, refs, ok := c.build()
	if !ok {
		panic("illegal case " + c.String())
	}
	var assets, outlinks []string
	var note, crashed string
	func() {
		defer func() {
			if r := recover(); r != nil {
				crashed = fmt.Sprint(r)
			}
		}()
		assets, outlinks, note = observe(c, doc)
	}()
	if verbose {
		fmt.Printf("document: %s\n", doc)
		fmt.Printf("requested as assets: %v\nhanded over as outlinks (judged ones): %v\n", assets, outlinks)
		if note != "" {
			fmt.Println("note:", note)
		}
		if crashed != "" {
			fmt.Println("panic:", crashed)
		}
	}
	var res []Result
	for _, r := range refs {
		cd := carrierByName(c.Plants[r.Plant].Carrier)
		x := Result{Plant: r.Plant, Slot: r.Slot, Carrier: cd.Name, Ref: r.Text, Want: r.Want}
		x.Demand, x.Reason = demand(cd, c.Set, c.Plants[r.Plant].Form)
		if c.Set.ExcludeFirst && strings.HasPrefix(r.Tok+".", fmt.Sprintf("r%dx0.", c.ID)) {
			// out of the operator's scope: an asset must not be requested; what happens to an excluded outlink when
			// it comes back as a seed is not this property's business
			x.Demand, x.Reason = "", ""
			if cd.Kind != "outlink" {
				x.Demand, x.Reason = "mustnot", "exclude-string"
			}
		}
		if c.Same && x.Demand == "mustnot" {
			// the URL is named twice: "must not be requested" on account of one carrier holds only if the other
			// carrier (of the same kind) does not demand it
			for _, r2 := range refs {
				cd2 := carrierByName(c.Plants[r2.Plant].Carrier)
				if d2, _ := demand(cd2, c.Set, c.Plants[r2.Plant].Form); r2.Tok == r.Tok && r2.Plant != r.Plant && (cd2.Kind == "outlink") == (cd.Kind == "outlink") && d2 == "must" {
					x.Demand, x.Reason = "", ""
				}
			}
		}
		observed := assets
		what := "asset"
		if cd.Kind == "outlink" {
			observed, what = outlinks, "outlink"
		}
		found := false
		for _, u := range observed {
			if u == r.Want {
				found = true
			}
			if strings.Contains(u, r.Tok+".") || strings.Contains(u, r.Tok+"=") || strings.Contains(u, r.Tok+"%20") {
				x.Got = append(x.Got, u)
			}
		}
		switch {
		case crashed != "" && x.Demand != "":
			x.Verdict, x.Got = "panic", []string{crashed}
		case x.Demand == "must" && !found && len(x.Got) > 0:
			x.Verdict = what + "-misresolved" // requested, but not at the URL a browser would use
		case x.Demand == "must" && !found:
			x.Verdict = map[string]string{"asset": "asset-not-requested", "outlink": "outlink-not-handed-over"}[what]
		case x.Demand == "mustnot" && len(x.Got) > 0:
			x.Verdict = map[string]string{"asset": "asset-requested-despite-", "outlink": "outlink-handed-over-despite-"}[what] + x.Reason
		}
		res = append(res, x)
	}
	return doc, res
}
