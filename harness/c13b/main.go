// Harness for C13, part 3: the penalty clause at the level where the events are produced. Parts 1
// and 2 (harness/c13) drive the token bucket and the bucket manager directly; whether the archiver
// reports every rate-limiting answer to them - also the one that ends an item's last attempt - is
// only visible in the pipeline. Real five-stage pipeline, rate limiter on, fake transport, virtual
// clock; the oracle reads the transport log.
package main

import (
	"encoding/json"
	"fmt"
	"net/url"
	"os"
	"strings"
	"time"

	"github.com/internetarchive/Zeno/internal/verif/lib/world"
	"github.com/internetarchive/Zeno/internal/verif/vrt/hkit"
	"github.com/internetarchive/Zeno/internal/verif/vrt/vsched"
)

const propID = "C13"

const H = world.H

type scen struct {
	Status    int  `json:"status"`    // what /limited answers, for ever
	Challenge bool `json:"challenge"` // 403 with cf-mitigated: challenge (the only 403 the archiver treats as rate limiting)
	FailN     int  `json:"fail_n"`    // 0 = for ever, n = the first n answers, then 200
	MaxRetry  int  `json:"max_retry"`
	Assets    int  `json:"max_concurrent_assets"`
	P         int  `json:"p"`
}

func (s *scen) name() string {
	st := fmt.Sprint(s.Status)
	if s.Challenge {
		st += "-challenge"
	}
	return fmt.Sprintf("limited=%s x%d max-retry=%d a%d", st, s.FailN, s.MaxRetry, s.Assets)
}

func (s *scen) dyn(u string, attempt int) (world.Resp, bool) {
	png := world.Resp{Status: 200, Header: map[string]string{"Content-Type": "image/png"}, Body: "\x89PNG\r\n\x1a\n0000"}
	pu, err := url.Parse(u)
	if err != nil {
		return world.Resp{}, false
	}
	switch pu.Path {
	case "/page": // the rate-limited URL first, then more URLs of the same host and one of another host
		return world.Resp{Status: 200, Header: map[string]string{"Content-Type": "text/html; charset=utf-8"},
			Body: `<!DOCTYPE html><html><body><img src="http://cdn.example/limited.png"><img src="http://cdn.example/b.png"><img src="http://cdn.example/c.png"><img src="http://other.example/d.png"></body></html>`}, true
	case "/limited.png":
		if s.FailN > 0 && attempt >= s.FailN {
			return png, true
		}
		h := map[string]string{"Content-Type": "text/plain"}
		if s.Challenge {
			h["cf-mitigated"] = "challenge"
		}
		return world.Resp{Status: s.Status, Header: h, Body: "slow down"}, true
	case "/b.png", "/c.png", "/d.png":
		return png, true
	}
	return world.Resp{}, false
}

func scenario(s *scen) *vsched.Scenario {
	var w *world.World
	sc := &vsched.Scenario{Name: s.name()}
	sc.Setup = func(x *vsched.Exec) {
		w = world.New(world.Options{Workers: 1, MaxConcurrentAssets: s.Assets, MaxRetry: s.MaxRetry, MaxRedirect: 2, RateLimit: true, Tmp: os.Getenv("VERIF_TMP")}, world.Site{})
		w.Dyn = s.dyn
		x.Data = w
	}
	sc.Body = func() {
		w.Start()
		if err := w.Insert("seed0", H+"/page"); err != nil {
			panic(err)
		}
	}
	sc.Done = func(x *vsched.Exec) bool { return w.FinishedCount() >= 1 }
	sc.Idle = world.IsIdlePoint
	sc.Horizon = 60 * time.Minute
	sc.DelayBounding = true
	sc.AtEnd = func(x *vsched.Exec) error {
		if x.End != vsched.EndDone {
			return fmt.Errorf("never-finishes: the seed did not finish (end: %s %s)", x.End, x.EndInfo)
		}
		return oracle(s, w)
	}
	sc.Outcome = func(x *vsched.Exec) string {
		var p []string
		for _, f := range w.Log {
			p = append(p, fmt.Sprintf("%s=%d@%v", strings.TrimPrefix(f.URL, "http://"), f.Status, f.VStart))
		}
		return strings.Join(p, " ")
	}
	sc.Cleanup = func(x *vsched.Exec) { w.Cleanup() }
	sc.Signature = func(v *vsched.Violation) string {
		if v.Kind == "crash" {
			return vsched.DefaultSignature(v)
		}
		if i := strings.IndexByte(v.Message, ':'); i > 0 {
			return "pipeline:" + v.Message[:i]
		}
		return vsched.DefaultSignature(v)
	}
	sc.KnownSig = func(sg string) bool { return hkit.IsListed(propID, sg) }
	return sc
}

// oracle: after a rate-limiting answer (429, 408, 425, challenge 403) of a host at time t, the k-th
// in a row without a success of that host in between, no request to that host starts before
// t + min(5 s * 2^(k-1), 30 s). k is read in the weakest way (failures since the last success), so
// the bound demanded is never larger than the one the limiter computes.
func oracle(s *scen, w *world.World) error {
	type hs struct {
		streak int
		failAt time.Duration
		until  time.Duration
		cause  string
	}
	hosts := map[string]*hs{}
	for _, f := range w.Log { // the log is in request order
		u, _ := url.Parse(f.URL)
		h := hosts[u.Host]
		if h == nil {
			h = &hs{}
			hosts[u.Host] = h
		}
		// a retry of the same item does not go through the limiter (archiver.go: "Don't use the global
		// bucket manager in the retry loop"): the property speaks of what the limiter releases
		// with two assets in flight a request may have been released by the limiter before the failure of
		// its sibling was known and reach the transport at the same instant (a runnable goroutine does not
		// let the virtual clock advance): only a strictly later start is certainly a release inside the penalty
		if f.Attempt == 0 && f.VStart < h.until && (s.Assets == 1 || f.VStart > h.failAt) {
			return fmt.Errorf("release-inside-penalty:after-%s: the request for %s left at t=%v, but %s: no request to %s before t=%v", h.cause[:strings.IndexByte(h.cause, ' ')], f.URL, f.VStart, h.cause, u.Host, h.until)
		}
		limiting := f.Status == 429 || f.Status == 408 || f.Status == 425 || (f.Status == 403 && s.Challenge && strings.HasSuffix(u.Path, "/limited.png"))
		switch {
		case limiting:
			h.streak++
			pen := 5 * time.Second << (h.streak - 1)
			if pen > 30*time.Second || h.streak > 4 {
				pen = 30 * time.Second
			}
			h.failAt, h.until = f.VStart, f.VStart+pen
			last := "a retried attempt"
			if n := len(w.FetchesOf(f.URL)); f.Attempt == n-1 {
				last = "the item's last attempt"
			}
			h.cause = fmt.Sprintf("%d answered at t=%v (failure %d in a row, %s, penalty %v)", f.Status, f.VStart, h.streak, last, pen)
		case f.Status >= 200 && f.Status < 400:
			h.streak = 0
		}
	}
	return nil
}

func scenarios(tier string) []scen {
	var out []scen
	for _, st := range []struct {
		code int
		ch   bool
	}{{429, false}, {408, false}, {425, false}, {403, true}} {
		for _, rt := range []int{0, 1, 2} {
			for _, fn := range []int{0, 1} {
				for _, a := range []int{1, 2} {
					if fn == 1 && rt == 0 && a == 2 {
						continue
					}
					out = append(out, scen{Status: st.code, Challenge: st.ch, FailN: fn, MaxRetry: rt, Assets: a})
				}
			}
		}
	}
	if tier == "thorough" {
		for i := range out {
			out[i].P = 1
		}
	}
	return out
}

type jobResult struct {
	Name string         `json:"name"`
	Rep  *vsched.Report `json:"rep"`
}

func main() {
	a := hkit.ParseArgs()
	ss := scenarios(a.Tier)
	if a.Replay != "" {
		replay(a.Replay)
		return
	}
	if v, ok := a.Extra["only"]; ok {
		var f []scen
		for _, s := range ss {
			if strings.Contains(s.name(), v) {
				f = append(f, s)
			}
		}
		ss = f
	}
	res := hkit.Jobs(a, len(ss), func(j int) any {
		rep := vsched.Explore(scenario(&ss[j]), vsched.Bounds{P: ss[j].P, MaxWall: 5 * time.Minute})
		if len(rep.Sample) > 40 {
			rep.Sample = rep.Sample[:40]
		}
		return jobResult{ss[j].name(), rep}
	})
	total := &vsched.Report{Exhaustive: true}
	seen := map[string]bool{}
	outcomes := map[string]bool{}
	for j, b := range res {
		var r jobResult
		if err := json.Unmarshal(b, &r); err != nil {
			hkit.EngineError("%v", err)
		}
		for k := range r.Rep.Outcomes {
			outcomes[k] = true
		}
		for _, v := range r.Rep.Violations {
			if seen[v.Sig] {
				continue
			}
			seen[v.Sig] = true
			if err := vsched.Confirm(scenario(&ss[j]), &v); err != nil {
				hkit.EngineError("violation did not replay: %v", err)
			}
			hkit.Report(propID, v.Sig, map[string]any{"engine": "explore", "harness": "c13b", "scenario": ss[j], "violation": v},
				fmt.Sprintf("%s: %s: %s", r.Name, v.Kind, firstLine(v.Message)))
		}
		total.Merge(r.Rep)
	}
	hkit.Evidence(propID, a.Tier, "model_checking", map[string]any{
		"states": total.States, "transitions": total.Transitions, "traces_validated_against_impl": total.Executions,
		"samples": []any{total.Sample}, "exhaustive": total.Exhaustive, "scenarios": len(ss), "distinct_outcomes": len(outcomes),
		"explanation": "part 3: a page whose first asset is answered 429 / 408 / 425 / a Cloudflare-challenge 403 (for ever, or once and then 200) followed by two more assets on the same host and one on another host; max-retry {0,1,2} x max-concurrent-assets {1,2}; real pipeline, rate limiter on (capacity 2, 1/s), virtual clock, canonical schedule with every select outcome (thorough: every schedule within 1 deviation). Oracle on the transport log: after the k-th rate-limiting answer in a row of a host at time t - whether it was retried or ended the item's last attempt - no request to that host starts before t + min(5 s x 2^(k-1), 30 s)",
	}, []string{
		"part 3: a plain 403 is not in the alphabet - the archiver reports a 403 to the limiter only when it is a discarded challenge page, and counts any other 403 as a final answer of the server",
		"part 3: the retries of one item bypass the limiter by design (their spacing is the archiver's own back-off) and are not judged; every first attempt of an item is",
		"part 3: k is the number of rate-limiting answers since the host's last 2xx/3xx answer (the weakest reading)",
	}, hkit.Violations())
	fmt.Printf("C13 %s part 3: %d scenarios, %d executions, %d states, %d transitions, %d distinct outcomes, exhaustive=%v\n", a.Tier, len(ss), total.Executions, total.States, total.Transitions, len(outcomes), total.Exhaustive)
	hkit.Exit()
}

func firstLine(s string) string {
	if i := strings.IndexByte(s, '\n'); i > 0 {
		s = s[:i]
	}
	if len(s) > 600 {
		s = s[:600]
	}
	return s
}

func replay(path string) {
	b, err := os.ReadFile(path)
	if err != nil {
		hkit.EngineError("%v", err)
	}
	var r struct {
		Scenario  scen             `json:"scenario"`
		Violation vsched.Violation `json:"violation"`
	}
	if err := json.Unmarshal(b, &r); err != nil {
		hkit.EngineError("%v", err)
	}
	v, x := vsched.Replay(scenario(&r.Scenario), r.Violation.Choices)
	for _, s := range x.Steps {
		fmt.Printf("  %-44s %-90s case=%d\n", s.Thread, s.Point, s.Case)
	}
	if v == nil {
		fmt.Println("replay: no violation")
		os.Exit(0)
	}
	fmt.Printf("replay: %s: %s\n", v.Kind, v.Message)
	fmt.Printf("VIOLATION property=%s replay=%s\n", propID, path)
	os.Exit(1)
}
