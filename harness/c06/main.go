// Harness for C06: adversarial server families x settings through the real
// pipeline (controlled scheduler, virtual clock for the retry back-off); the
// work done for one seed must stay within the configured bounds.
package main

import (
	"encoding/json"
	"fmt"
	"net/url"
	"os"
	"regexp"
	"sort"
	"strconv"
	"strings"
	"time"

	"github.com/internetarchive/Zeno/internal/verif/lib/world"
	"github.com/internetarchive/Zeno/internal/verif/vrt/hkit"
	"github.com/internetarchive/Zeno/internal/verif/vrt/vsched"
	"github.com/internetarchive/Zeno/pkg/models"
)

const propID = "C06"

const H = world.H

type scen struct {
	Family      string   `json:"family"`
	Seed        string   `json:"seed"`
	SeedHops    int      `json:"seed_hops"`
	MaxRedirect int      `json:"max_redirect"`
	MaxRetry    int      `json:"max_retry"`
	MaxHops     int      `json:"max_hops"`
	DC          string   `json:"domains_crawl"` // off | site | other
	Patterns    []string `json:"patterns"`
	P           int      `json:"p"`
}

func (s *scen) name() string {
	return fmt.Sprintf("%s hops0=%d max-redirect=%d max-retry=%d max-hops=%d domains-crawl=%s", s.Family, s.SeedHops, s.MaxRedirect, s.MaxRetry, s.MaxHops, s.DC)
}

// siteMarkers: substrings that switch on site-specific code (strings.Contains on the whole URL): the bounds and the
// hop rules hold for a page whatever its URL looks like
var siteMarkers = []string{"reddit.com/", "npr.org/", "tiktok.com/", "ina.fr/"}

var numRe = regexp.MustCompile(`/(r|npl|nj|njr|njt)/(\d+)`)

// dyn is the adversarial origin.
func dyn(u string, attempt int) (world.Resp, bool) {
	html := map[string]string{"Content-Type": "text/html; charset=utf-8"}
	if !strings.HasPrefix(u, H+"/") {
		return world.Resp{}, false
	}
	p := strings.TrimPrefix(u, H)
	if m := numRe.FindStringSubmatch(p); m != nil {
		n, _ := strconv.Atoi(m[2])
		switch m[1] {
		case "r": // endless redirect chain
			return world.Resp{Status: 301, Header: map[string]string{"Location": fmt.Sprintf("/r/%d", n+1)}}, true
		case "npl": // playlists nested without end
			body := fmt.Sprintf("#EXTM3U\n#EXT-X-VERSION:3\n#EXT-X-TARGETDURATION:10\n#EXTINF:10.0,\n/npl/%d.m3u8\n#EXT-X-ENDLIST\n", n+1)
			return world.Resp{Status: 200, Header: map[string]string{"Content-Type": "application/vnd.apple.mpegurl"}, Body: body}, true
		case "njr": // JSON documents nested without end, each one behind a redirect
			return world.Resp{Status: 302, Header: map[string]string{"Location": fmt.Sprintf("/njt/%d.json", n)}}, true
		case "njt":
			body := fmt.Sprintf(`{"next": "%s/njr/%d.json", "n": %d}`, H, n+1, n)
			return world.Resp{Status: 200, Header: map[string]string{"Content-Type": "application/json"}, Body: body}, true
		case "nj": // JSON -> JSON -> ...
			body := fmt.Sprintf(`{"next": "%s/nj/%d.json", "n": %d}`, H, n+1, n)
			return world.Resp{Status: 200, Header: map[string]string{"Content-Type": "application/json"}, Body: body}, true
		}
	}
	for _, m := range siteMarkers { // the hub again, under a path that carries a marker of a site-specific code path
		if p == "/m/"+m+"hub" {
			p = "/hub"
		}
	}
	if k, ok := strings.CutPrefix(p, "/down/"); ok { // a URL that fails for good, in one of the ways a URL can fail
		k = strings.TrimSuffix(k, ".png")
		if st, err := strconv.Atoi(k); err == nil {
			return world.Resp{Status: st, Header: map[string]string{"Content-Type": "text/plain"}, Body: "oops"}, true
		}
		if k == "refused" {
			k = ""
		}
		return world.Resp{Err: true, ErrKind: k}, true
	}
	if k, ok := strings.CutPrefix(p, "/pdown/"); ok { // a page with such a URL among its assets
		return world.Resp{Status: 200, Header: html, Body: `<!DOCTYPE html><html><body><img src="/a.png"><img src="/down/` + k + `.png"></body></html>`}, true
	}
	switch p {
	case "/loop/a":
		return world.Resp{Status: 302, Header: map[string]string{"Location": H + "/loop/b"}}, true
	case "/loop/b":
		return world.Resp{Status: 302, Header: map[string]string{"Location": H + "/loop/a"}}, true
	case "/go": // a redirection whose Location is an absolute URL (of the crawled domain, when --domains-crawl names the site)
		return world.Resp{Status: 302, Header: map[string]string{"Location": H + "/hub"}}, true
	case "/self":
		return world.Resp{Status: 301, Header: map[string]string{"Location": "/self"}}, true
	case "/pn":
		return world.Resp{Status: 200, Header: html, Body: `<!DOCTYPE html><html><body><video src="/npl/0.m3u8"></video></body></html>`}, true
	case "/pjr":
		return world.Resp{Status: 200, Header: html, Body: `<!DOCTYPE html><html><body><img src="/njr/0.json"></body></html>`}, true
	case "/pj":
		return world.Resp{Status: 200, Header: html, Body: `<!DOCTYPE html><html><body><img src="/nj/0.json"></body></html>`}, true
	case "/selfpage":
		return world.Resp{Status: 200, Header: html, Body: `<!DOCTYPE html><html><body><img src="/selfpage"><img src="/a.png"><img src="` + H + `/selfpage"><img src="/ra.png"><a href="/selfpage">me</a></body></html>`}, true // an ordinary asset right after the self-reference
	case "/boom":
		return world.Resp{Status: 500, Header: map[string]string{"Content-Type": "text/plain"}, Body: "oops"}, true
	case "/limited":
		if attempt == 0 {
			return world.Resp{Status: 429, Header: map[string]string{"Content-Type": "text/plain"}, Body: "slow down"}, true
		}
		return world.Resp{Status: 200, Header: map[string]string{"Content-Type": "image/png"}, Body: "\x89PNG\r\n\x1a\n0000"}, true
	case "/hub":
		// outlinks from all three sources: <a href>, the Link response header, bare URLs in the text
		hdr := map[string]string{"Content-Type": "text/html; charset=utf-8", "Link": `<http://other.example/hdr1>; rel="next", <` + H + `/in2>; rel="alternate"`}
		return world.Resp{Status: 200, Header: hdr, Body: `<!DOCTYPE html><html><body><img src="/a.png"><img src="/ra"><a href="` + H + `/in1">in</a> <a href="http://other.example/out1">out</a> <a href="http://www.nots.example/look1">lookalike</a> <a href="http://nots.example/look2">lookalike</a> <a href="http://sub.s.example/in4">sub</a> see http://other.example/plain1 and ` + H + `/in3 for more</body></html>`}, true
	case "/feed.xml", "/cut.xml", "/hub.json":
		// documents that are not HTML and name further pages: a feed, the same feed cut inside its last tag (the
		// tokenizer fails after it has read the links), a JSON document
		feed := `<?xml version="1.0" encoding="UTF-8"?><rss version="2.0"><channel><title>t</title><link>http://other.example/feed2</link><item><link>` + H + `/in1</link><enclosure url="` + H + `/a.png"/></item></channel></rss>`
		switch p {
		case "/cut.xml":
			return world.Resp{Status: 200, Header: map[string]string{"Content-Type": "application/xml"}, Body: feed[:len(feed)-len("nnel></rss>")]}, true
		case "/hub.json":
			return world.Resp{Status: 200, Header: map[string]string{"Content-Type": "application/json"}, Body: `{"next": "http://other.example/page2", "self": "` + H + `/in1", "img": "` + H + `/a.png"}`}, true
		}
		return world.Resp{Status: 200, Header: map[string]string{"Content-Type": "application/xml"}, Body: feed}, true
	case "/ra":
		return world.Resp{Status: 301, Header: map[string]string{"Location": "/ra.png"}}, true
	case "/a.png", "/ra.png":
		return world.Resp{Status: 200, Header: map[string]string{"Content-Type": "image/png"}, Body: "\x89PNG\r\n\x1a\n0000"}, true
	}
	return world.Resp{}, false
}

func scenario(s *scen) *vsched.Scenario {
	var w *world.World
	sc := &vsched.Scenario{Name: s.name()}
	sc.Setup = func(x *vsched.Exec) {
		w = world.New(world.Options{Workers: 1, MaxConcurrentAssets: 2, MaxRetry: s.MaxRetry, MaxRedirect: s.MaxRedirect, MaxHops: s.MaxHops,
			DomainsCrawlPatterns: s.Patterns, Tmp: os.Getenv("VERIF_TMP")}, world.Site{})
		w.Dyn = dyn
		x.Data = w
	}
	sc.Body = func() {
		w.Start()
		if err := w.InsertHops("seed0", s.Seed, s.SeedHops); err != nil {
			panic(err)
		}
	}
	sc.Done = func(x *vsched.Exec) bool { return w.FinishedCount() >= 1 }
	sc.Idle = world.IsIdlePoint
	sc.Horizon = 60 * time.Minute
	sc.DelayBounding = true
	// bounded work: none of the families needs more than a few dozen requests within the configured
	// bounds; a run that is still fetching after 150 requests will never stop
	sc.AtStep = func(x *vsched.Exec) error {
		if len(w.Log) > 150 {
			deepest := ""
			for _, f := range w.Log[len(w.Log)-3:] {
				deepest += " " + strings.TrimPrefix(f.URL, H)
			}
			return fmt.Errorf("unbounded-work: %d requests for one seed and still going (last:%s)", len(w.Log), deepest)
		}
		return nil
	}
	sc.AtEnd = func(x *vsched.Exec) error { return oracle(s, x, w) }
	sc.Outcome = func(x *vsched.Exec) string {
		var ps []string
		for _, m := range w.Produced {
			ps = append(ps, fmt.Sprintf("%s@%d", m.URL, m.Item.GetURL().GetHops()))
		}
		sort.Strings(ps)
		return w.LogSummary() + " | produced: " + strings.Join(ps, " ")
	}
	sc.Cleanup = func(x *vsched.Exec) { w.Cleanup() }
	sc.Signature = sig
	sc.KnownSig = func(sg string) bool { return hkit.IsListed(propID, sg) }
	return sc
}

func matchesDC(s *scen, raw string) bool {
	switch s.DC {
	case "site": // a naive domain: the host itself and its sub-domains, nothing that merely ends in the same letters
		pu, err := url.Parse(raw)
		if err != nil {
			return false
		}
		h := strings.ToLower(pu.Hostname())
		return h == "s.example" || strings.HasSuffix(h, ".s.example")
	case "other":
		return strings.Contains(raw, "elsewhere.example")
	case "exact-url": // a full URL with a path matches by string equality only, not its whole host
		return raw == H+"/in1"
	}
	return false
}

// oracle: the bounds of C06, read from the transport log and the produce channel.
func oracle(s *scen, x *vsched.Exec, w *world.World) error {
	if x.End != vsched.EndDone {
		return fmt.Errorf("never-finishes: the seed did not finish (end: %s %s)", x.End, x.EndInfo)
	}
	count := map[string]int{}
	for _, f := range w.Log {
		count[strings.TrimPrefix(f.URL, H)]++
	}
	isChain := func(u string) bool {
		return strings.HasPrefix(u, "/r/") || strings.HasPrefix(u, "/loop/") || u == "/self"
	}
	// each URL is attempted at most max-retry+1 times per visit (outside the redirect
	// families every URL is visited once per seed; a looping redirect visits its URLs repeatedly)
	for u, n := range count {
		visits := 1
		if H+u == s.Seed {
			visits = 2 // a page that embeds itself is visited as the seed and once more as its own asset (the seed node is exempt from de-duplication)
		}
		if !isChain(u) && n > visits*(s.MaxRetry+1) {
			return fmt.Errorf("too-many-attempts: %s was requested %d times (%d visit(s)) with max-retry %d", u, n, visits, s.MaxRetry)
		}
	}
	// at most max-redirect redirects are followed in a chain: the first request plus max-redirect
	// follow-ups (a 3xx answer is never retried, so requests = visits)
	chain := 0
	for u, n := range count {
		if isChain(u) {
			chain += n
		}
	}
	if chain > s.MaxRedirect+1 {
		return fmt.Errorf("redirect-chain-too-long: %d requests were made along the redirect chain with max-redirect %d", chain, s.MaxRedirect)
	}
	if s.Family == "hub" && count["/ra"] > 0 && s.MaxRedirect == 0 && count["/ra.png"] > 0 {
		return fmt.Errorf("redirect-chain-too-long: the asset's redirect was followed with max-redirect 0")
	}
	// embedded resources at most three levels below the page (domains-crawl not active)
	if s.DC == "off" {
		for u := range count {
			if m := numRe.FindStringSubmatch(u); m != nil && m[1] != "r" {
				// /njr/N redirects to /njt/N: both are the resource N+1 levels below the page
				n, _ := strconv.Atoi(m[2])
				if n+1 > 3 {
					return fmt.Errorf("too-deep: %s is %d levels below the page and was requested", u, n+1)
				}
			}
		}
	}
	// assets and redirect targets inherit the page's hops
	var bad string
	w.Finished[0].Item.Traverse(func(n *models.Item) {
		if n.GetURL().GetHops() != s.SeedHops && bad == "" {
			bad = fmt.Sprintf("%s has hops %d, its page has %d", n.GetURL().Raw, n.GetURL().GetHops(), s.SeedHops)
		}
	})
	if bad != "" {
		return fmt.Errorf("hops-not-inherited: %s", bad)
	}
	// outlinks
	for _, m := range w.Produced {
		h := m.Item.GetURL().GetHops()
		if matchesDC(s, m.URL) {
			if h != 0 {
				return fmt.Errorf("outlink-hops: %s matches --domains-crawl but was queued with hops %d", m.URL, h)
			}
			continue
		}
		if s.SeedHops >= s.MaxHops {
			return fmt.Errorf("outlink-beyond-hop-limit: %s was queued from a page with hops %d and max-hops %d", m.URL, s.SeedHops, s.MaxHops)
		}
		if h != s.SeedHops+1 {
			return fmt.Errorf("outlink-hops: %s was queued with hops %d from a page with hops %d", m.URL, h, s.SeedHops)
		}
	}
	return nil
}

func sig(v *vsched.Violation) string {
	if v.Kind == "crash" && strings.HasPrefix(v.Message, "invariant: ") {
		m := strings.TrimPrefix(v.Message, "invariant: ")
		return m[:strings.IndexByte(m, ':')]
	}
	if v.Kind == "crash" {
		return vsched.DefaultSignature(v)
	}
	if i := strings.IndexByte(v.Message, ':'); i > 0 {
		return v.Message[:i]
	}
	return vsched.DefaultSignature(v)
}

var failKinds = []string{"503", "408", "425", "429", "404", "refused", "eof", "reset", "epipe", "timeout"}

func scenarios(tier string) []scen {
	fam := []struct{ name, seed string }{
		{"endless-redirect-chain", H + "/r/0"}, {"redirect-loop", H + "/loop/a"}, {"self-redirect", H + "/self"},
		{"nested-playlists", H + "/pn"}, {"nested-json", H + "/pj"}, {"nested-json-behind-redirects", H + "/pjr"}, {"page-lists-itself", H + "/selfpage"},
		{"always-500", H + "/boom"}, {"429-then-200", H + "/limited"}, {"hub", H + "/hub"}, {"absolute-redirect-to-hub", H + "/go"},
	}
	dcs := map[string][]string{"off": nil, "site": {"s.example"}, "other": {"elsewhere.example"}, "exact-url": {H + "/in1"}}
	var out []scen
	for _, f := range fam {
		for _, mr := range []int{0, 1, 2, 3} {
			for _, rt := range []int{0, 1, 2} {
				for _, mh := range []int{0, 1, 2} {
					for _, dc := range []string{"off", "site", "other"} {
						nested := strings.HasPrefix(f.name, "nested-")
						if nested && dc != "off" {
							continue // with --domains-crawl active (whatever it matches) the depth limit does not apply - the property says so - and these families never end
						}
						hops := []int{0}
						if f.name == "hub" || f.name == "page-lists-itself" || f.name == "absolute-redirect-to-hub" {
							hops = []int{0, 1, 2}
						}
						for _, h0 := range hops {
							out = append(out, scen{Family: f.name, Seed: f.seed, SeedHops: h0, MaxRedirect: mr, MaxRetry: rt, MaxHops: mh, DC: dc, Patterns: dcs[dc]})
						}
					}
				}
			}
		}
	}
	for _, m := range siteMarkers {
		for _, mh := range []int{0, 1, 2} {
			for _, h0 := range []int{0, 1, 2} {
				out = append(out, scen{Family: "hub", Seed: H + "/m/" + m + "hub", SeedHops: h0, MaxRedirect: 1, MaxRetry: 0, MaxHops: mh, DC: "off"})
			}
		}
	}
	// hubs that are not HTML: outlinks found by the XML and JSON extractors obey the same hop rules, also when the
	// document breaks off
	for _, f := range []struct{ name, seed string }{{"xml-hub", H + "/feed.xml"}, {"xml-hub-cut", H + "/cut.xml"}, {"json-hub", H + "/hub.json"}} {
		for _, mh := range []int{0, 1, 2} {
			for _, h0 := range []int{0, 1, 2} {
				for _, dc := range []string{"off", "site", "other"} {
					out = append(out, scen{Family: f.name, Seed: f.seed, SeedHops: h0, MaxRedirect: 1, MaxRetry: 0, MaxHops: mh, DC: dc, Patterns: dcs[dc]})
				}
			}
		}
	}
	// --domains-crawl given as one full URL: only that URL matches, the other links of its host do not
	for _, mh := range []int{0, 1, 2} {
		for _, h0 := range []int{0, 1, 2} {
			out = append(out, scen{Family: "hub", Seed: H + "/hub", SeedHops: h0, MaxRedirect: 1, MaxRetry: 0, MaxHops: mh, DC: "exact-url", Patterns: dcs["exact-url"]})
		}
	}
	// always-failing URLs: every way a URL can fail (the statuses Zeno retries, one it does not, every kind of
	// transport error), as the seed and as an asset, for every --max-retry
	for _, k := range failKinds {
		for _, rt := range []int{0, 1, 2} {
			out = append(out, scen{Family: "always-failing-" + k, Seed: H + "/down/" + k, MaxRedirect: 1, MaxRetry: rt, DC: "off"},
				scen{Family: "asset-always-failing-" + k, Seed: H + "/pdown/" + k, MaxRedirect: 1, MaxRetry: rt, DC: "off"})
		}
	}
	// large limits (the defaults are --max-retry 5, --max-redirect 20): the bounds must hold for every value,
	// not only for the small ones of the grid above
	for _, f := range fam {
		if strings.HasPrefix(f.name, "nested-") || f.name == "hub" || f.name == "page-lists-itself" {
			continue
		}
		for _, lim := range [][2]int{{5, 5}, {6, 7}, {20, 9}, {21, 12}} {
			out = append(out, scen{Family: f.name, Seed: f.seed, MaxRedirect: lim[0], MaxRetry: lim[1], MaxHops: 0, DC: "off"})
		}
	}
	if tier == "thorough" {
		for i := range out {
			out[i].P = 2
		}
	}
	return out
}

type jobResult struct {
	Name string         `json:"name"`
	Rep  *vsched.Report `json:"rep"`
}

func main() {
	a := hkit.ParseArgs()
	ss := scenarios(a.Tier)
	if a.Replay != "" {
		replay(a.Replay)
		return
	}
	if v, ok := a.Extra["only"]; ok {
		var f []scen
		for _, s := range ss {
			if strings.Contains(s.name(), v) {
				f = append(f, s)
			}
		}
		ss = f
	}
	res := hkit.Jobs(a, len(ss), func(j int) any {
		sc := scenario(&ss[j])
		rep := vsched.Explore(sc, vsched.Bounds{P: ss[j].P, MaxWall: 5 * time.Minute})
		if len(rep.Sample) > 40 {
			rep.Sample = rep.Sample[:40]
		}
		return jobResult{ss[j].name(), rep}
	})
	total := &vsched.Report{Exhaustive: true}
	seen := map[string]bool{}
	outcomes := map[string]bool{}
	for j, b := range res {
		var r jobResult
		if err := json.Unmarshal(b, &r); err != nil {
			hkit.EngineError("%v", err)
		}
		for k := range r.Rep.Outcomes {
			outcomes[ss[j].Family+"|"+k] = true
		}
		for _, v := range r.Rep.Violations {
			sg := ss[j].Family + ":" + v.Sig
			if seen[sg] {
				continue
			}
			seen[sg] = true
			if err := vsched.Confirm(scenario(&ss[j]), &v); err != nil {
				hkit.EngineError("violation did not replay: %v", err)
			}
			hkit.Report(propID, sg, map[string]any{"engine": "explore", "harness": "c06", "scenario": ss[j], "violation": v},
				fmt.Sprintf("%s: %s: %s", r.Name, v.Kind, firstLine(v.Message)))
		}
		total.Merge(r.Rep)
	}
	hkit.Evidence(propID, a.Tier, "model_checking", map[string]any{
		"states": total.States, "transitions": total.Transitions, "traces_validated_against_impl": total.Executions,
		"samples": []any{total.Sample}, "exhaustive": total.Exhaustive, "scenarios": len(ss), "distinct_outcomes": len(outcomes),
		"explanation": "10 adversarial server families x max-redirect {0..3} x max-retry {0,1,2} x max-hops {0,1,2} x domains-crawl {off, matching the site, matching another host} (x seed hops {0,1,2} where outlinks matter) through the real pipeline on the virtual clock; every select outcome of the canonical schedule (thorough: plus every single deviation); bounds read from the transport log and the produce channel",
	}, []string{
		"nested playlist/JSON families are only run with --domains-crawl off: the property exempts the depth bound when it is active, and with it active these families never end (observed: >150 000 steps)",
		"every URL of these families is visited at most once per seed, so per-URL request counts are per-visit counts",
	}, hkit.Violations())
	fmt.Printf("C06 %s: %d scenarios, %d executions, %d states, %d transitions, %d distinct outcomes, exhaustive=%v\n", a.Tier, len(ss), total.Executions, total.States, total.Transitions, len(outcomes), total.Exhaustive)
	hkit.Exit()
}

func firstLine(s string) string {
	if i := strings.IndexByte(s, '\n'); i > 0 {
		s = s[:i]
	}
	if len(s) > 600 {
		s = s[:600]
	}
	return s
}

func replay(path string) {
	b, err := os.ReadFile(path)
	if err != nil {
		hkit.EngineError("%v", err)
	}
	var r struct {
		Scenario  scen             `json:"scenario"`
		Violation vsched.Violation `json:"violation"`
	}
	if err := json.Unmarshal(b, &r); err != nil {
		hkit.EngineError("%v", err)
	}
	sc := scenario(&r.Scenario)
	v, x := vsched.Replay(sc, r.Violation.Choices)
	for _, s := range x.Steps {
		fmt.Printf("  %-44s %-90s case=%d\n", s.Thread, s.Point, s.Case)
	}
	if v == nil {
		fmt.Println("replay: no violation")
		os.Exit(0)
	}
	fmt.Printf("replay: %s: %s\n", v.Kind, v.Message)
	fmt.Printf("VIOLATION property=%s replay=%s\n", propID, path)
	os.Exit(1)
}
