// Harness for C10, part B: what a server can do with statuses and headers alone - redirect chains
// longer than the limit, unusual and malformed Location / Link / Content-Type values, status codes
// outside the usual classes - through the real pipeline (all five stages, controlled scheduler,
// virtual clock). Part A (harness/c10) feeds bodies to the extractors one call at a time; a state
// that only crashes a later stage one pipeline round later is invisible there.
// Oracle: no panic, no deadlock, the seed is finished after a bounded number of requests.
package main

import (
	"encoding/json"
	"fmt"
	"os"
	"strconv"
	"strings"
	"time"

	"github.com/internetarchive/Zeno/internal/verif/lib/world"
	"github.com/internetarchive/Zeno/internal/verif/vrt/hkit"
	"github.com/internetarchive/Zeno/internal/verif/vrt/vsched"
)

const propID = "C10"

const H = world.H

type scen struct {
	Family      string `json:"family"`
	Variant     string `json:"variant"`
	MaxRedirect int    `json:"max_redirect"`
	MaxRetry    int    `json:"max_retry"`
	MaxHops     int    `json:"max_hops"`
	P           int    `json:"p"`
}

func (s *scen) name() string {
	return fmt.Sprintf("%s[%s] max-redirect=%d max-retry=%d max-hops=%d", s.Family, s.Variant, s.MaxRedirect, s.MaxRetry, s.MaxHops)
}

var redirectStatuses = []int{300, 301, 302, 303, 304, 305, 306, 307, 308}

// Location values for a 302 answer of the seed (none of them leads anywhere that answers 200 but "/ok")
var locations = []string{"", "/", "//", "/ok", "ok", "../../ok", "?", "#", "http://", "https://", "http:///x", "::", "%zz", "http://[::1", "http://[::1]/x",
	"javascript:alert(1)", "data:text/html,x", "ftp://s.example/x", "http://nodot/x", "http://localhost/x", "http://s.example:99999/x", "http://s.example:abc/x",
	"http://user:pa ss@s.example/x", " /ok", "/ok ", "/o k", "/ok\t", "http://s.example/\x00", "http://s.example/%00", "http://ünï.example/x", "http://xn--/x",
	strings.Repeat("/a", 5000), "http://" + strings.Repeat("a", 300) + ".example/x", H + "/seed"}

var statuses = []int{100, 101, 102, 103, 200, 201, 202, 203, 204, 205, 206, 207, 226, 300, 304, 305, 306, 400, 401, 402, 403, 404, 407, 408, 410, 418, 421, 425, 426, 429, 451,
	499, 500, 501, 502, 503, 504, 511, 520, 599, 600, 700, 999}

var contentTypes = []string{"", " ", ";", ";;;", "text/html", "TEXT/HTML", "text/html;", "text/html; charset", "text/html; charset=", `text/html; charset="`, "text/html; charset=utf-8; charset=x",
	"text", "/", "text/", "/html", "*/*", "application/json", "application/json; charset=utf-8", "application/xml", "text/xml", "application/pdf", "application/vnd.apple.mpegurl",
	"application/x-mpegURL", "image/png", "application/octet-stream", "multipart/form-data; boundary=", "text/html\x00", strings.Repeat("x", 9000) + "/y", "text/html, application/json"}

var linkHeaders = []string{"", "<", ">", "<>", "<>; rel", "<>; rel=", `<>; rel="next"`, "<" + H + "/next>", "<" + H + `/next>; rel="next"`, "<" + H + "/next>;", "<" + H + "/next>; rel=next, ", ",", ",,,",
	"<http://[::1>; rel=next", "<::>; rel=next", "<%zz>; rel=next", "<javascript:x>; rel=next", `<` + H + `/a>; rel="next", <` + H + `/b>; rel="prev"`, "<" + H + "/a b>; rel=next",
	"<" + strings.Repeat("a", 9000) + ">; rel=next", `</next>; rel="next"; title="a,b;c"`, `<` + H + `/x>; rel=next; rel=prev`, "no brackets; rel=next", `<` + H + `/x\x00>; rel=next`}

const page = `<!DOCTYPE html><html><head><title>t</title></head><body><img src="/a.png"><a href="/next">n</a></body></html>`

func (s *scen) dyn(u string, attempt int) (world.Resp, bool) {
	html := map[string]string{"Content-Type": "text/html; charset=utf-8"}
	if !strings.HasPrefix(u, H+"/") {
		return world.Resp{}, false
	}
	p := strings.TrimPrefix(u, H)
	switch {
	case p == "/ok" || p == "/next":
		return world.Resp{Status: 200, Header: html, Body: `<!DOCTYPE html><html><body>ok</body></html>`}, true
	case p == "/a.png":
		return world.Resp{Status: 200, Header: map[string]string{"Content-Type": "image/png"}, Body: "\x89PNG\r\n\x1a\n0000"}, true
	}
	switch s.Family {
	case "redirect-chain": // /c/N answers with the variant's status and Location /c/N+1, for ever
		if strings.HasPrefix(p, "/c/") {
			n, _ := strconv.Atoi(p[3:])
			st, _ := strconv.Atoi(s.Variant)
			return world.Resp{Status: st, Header: map[string]string{"Location": fmt.Sprintf("/c/%d", n+1), "Content-Type": "text/html"}, Body: page}, true
		}
	case "location":
		if p == "/seed" {
			i, _ := strconv.Atoi(s.Variant)
			return world.Resp{Status: 302, Header: map[string]string{"Location": locations[i]}}, true
		}
	case "status":
		if p == "/seed" {
			st, _ := strconv.Atoi(s.Variant)
			return world.Resp{Status: st, Header: map[string]string{"Content-Type": "text/html; charset=utf-8", "Location": "/ok"}, Body: page}, true
		}
	case "content-type":
		if p == "/seed" {
			i, _ := strconv.Atoi(s.Variant)
			return world.Resp{Status: 200, Header: map[string]string{"Content-Type": contentTypes[i]}, Body: page}, true
		}
	case "link":
		if p == "/seed" {
			i, _ := strconv.Atoi(s.Variant)
			return world.Resp{Status: 200, Header: map[string]string{"Content-Type": "text/html; charset=utf-8", "Link": linkHeaders[i]}, Body: page}, true
		}
	case "body-breaks": // variant = content type | bytes delivered | how the transfer breaks
		if p == "/seed" {
			f := strings.Split(s.Variant, "|")
			at, _ := strconv.Atoi(f[1])
			return world.Resp{Status: 200, Header: map[string]string{"Content-Type": f[0]}, Body: page + strings.Repeat("<p>filler</p>\n", 800), CutAt: at, CutErr: f[2]}, true
		}
	case "no-headers":
		if p == "/seed" {
			return world.Resp{Status: 200, Header: map[string]string{}, Body: page}, true
		}
	}
	return world.Resp{}, false
}

func (s *scen) seed() string {
	if s.Family == "redirect-chain" {
		return H + "/c/0"
	}
	return H + "/seed"
}

func scenario(s *scen) *vsched.Scenario {
	var w *world.World
	sc := &vsched.Scenario{Name: s.name()}
	sc.Setup = func(x *vsched.Exec) {
		w = world.New(world.Options{Workers: 1, MaxConcurrentAssets: 2, MaxRetry: s.MaxRetry, MaxRedirect: s.MaxRedirect, MaxHops: s.MaxHops, Tmp: os.Getenv("VERIF_TMP")}, world.Site{})
		w.Dyn = s.dyn
		x.Data = w
	}
	sc.Body = func() {
		w.Start()
		if err := w.Insert("seed0", s.seed()); err != nil {
			// a seed URL the source itself cannot parse never enters the pipeline
			panic(err)
		}
	}
	sc.Done = func(x *vsched.Exec) bool { return w.FinishedCount() >= 1 }
	sc.Idle = world.IsIdlePoint
	sc.Horizon = 60 * time.Minute
	sc.DelayBounding = true
	sc.TimerDeviations = true // one timer may fire although threads are still busy (a slow extraction, a loaded machine)
	sc.AtStep = func(x *vsched.Exec) error {
		if len(w.Log) > 120 {
			return fmt.Errorf("unbounded-work: %d requests for one seed and still going", len(w.Log))
		}
		return nil
	}
	sc.AtEnd = func(x *vsched.Exec) error {
		if x.End != vsched.EndDone {
			return fmt.Errorf("never-finishes: the seed did not finish (end: %s %s)", x.End, x.EndInfo)
		}
		return nil
	}
	sc.Outcome = func(x *vsched.Exec) string { return w.LogSummary() }
	sc.Cleanup = func(x *vsched.Exec) { w.Cleanup() }
	sc.Signature = func(v *vsched.Violation) string {
		if v.Kind == "crash" && strings.HasPrefix(v.Message, "invariant: ") {
			m := strings.TrimPrefix(v.Message, "invariant: ")
			return m[:strings.IndexByte(m, ':')]
		}
		if v.Kind == "crash" {
			return vsched.DefaultSignature(v)
		}
		if i := strings.IndexByte(v.Message, ':'); i > 0 {
			return v.Message[:i]
		}
		return vsched.DefaultSignature(v)
	}
	sc.KnownSig = func(sg string) bool { return hkit.IsListed(propID, sg) }
	return sc
}

func scenarios(tier string) []scen {
	var out []scen
	for _, st := range redirectStatuses {
		for _, mr := range []int{0, 1, 3, 20} {
			out = append(out, scen{Family: "redirect-chain", Variant: strconv.Itoa(st), MaxRedirect: mr, MaxRetry: 1, MaxHops: 1})
		}
	}
	for i := range locations {
		for _, mr := range []int{0, 2} {
			out = append(out, scen{Family: "location", Variant: strconv.Itoa(i), MaxRedirect: mr, MaxRetry: 0, MaxHops: 1})
		}
	}
	for _, st := range statuses {
		for _, rt := range []int{0, 2} {
			out = append(out, scen{Family: "status", Variant: strconv.Itoa(st), MaxRedirect: 2, MaxRetry: rt, MaxHops: 1})
		}
	}
	for i := range contentTypes {
		for _, mh := range []int{0, 1} {
			out = append(out, scen{Family: "content-type", Variant: strconv.Itoa(i), MaxRedirect: 2, MaxRetry: 0, MaxHops: mh})
		}
	}
	for i := range linkHeaders {
		for _, mh := range []int{0, 1} {
			out = append(out, scen{Family: "link", Variant: strconv.Itoa(i), MaxRedirect: 2, MaxRetry: 0, MaxHops: mh})
		}
	}
	out = append(out, scen{Family: "no-headers", Variant: "-", MaxRedirect: 2, MaxRetry: 0, MaxHops: 1})
	// the transfer of the body breaks: inside the part that is sniffed (2 KiB) or after it, for a body that is
	// spooled (html, pdf) or discarded (png), by a reset, an unexpected EOF or a timeout that every further read repeats
	for _, ct := range []string{"text/html; charset=utf-8", "image/png", "application/pdf", ""} {
		for _, at := range []int{1, 100, 3000, 9000} {
			for _, how := range []string{"", "eof", "timeout"} {
				for _, rt := range []int{0, 1} {
					out = append(out, scen{Family: "body-breaks", Variant: fmt.Sprintf("%s|%d|%s", ct, at, how), MaxRedirect: 2, MaxRetry: rt, MaxHops: 1})
				}
			}
		}
	}
	if tier == "thorough" {
		for i := range out {
			out[i].P = 1
		}
	}
	return out
}

type jobResult struct {
	Name string         `json:"name"`
	Rep  *vsched.Report `json:"rep"`
}

func main() {
	a := hkit.ParseArgs()
	ss := scenarios(a.Tier)
	if a.Replay != "" {
		replay(a.Replay)
		return
	}
	if v, ok := a.Extra["only"]; ok {
		var f []scen
		for _, s := range ss {
			if strings.Contains(s.name(), v) {
				f = append(f, s)
			}
		}
		ss = f
	}
	res := hkit.Jobs(a, len(ss), func(j int) any {
		rep := vsched.Explore(scenario(&ss[j]), vsched.Bounds{P: ss[j].P, F: 1, MaxWall: 5 * time.Minute})
		if len(rep.Sample) > 40 {
			rep.Sample = rep.Sample[:40]
		}
		return jobResult{ss[j].name(), rep}
	})
	total := &vsched.Report{Exhaustive: true}
	seen := map[string]bool{}
	outcomes := map[string]bool{}
	for j, b := range res {
		var r jobResult
		if err := json.Unmarshal(b, &r); err != nil {
			hkit.EngineError("%v", err)
		}
		for k := range r.Rep.Outcomes {
			outcomes[ss[j].Family+"|"+k] = true
		}
		for _, v := range r.Rep.Violations {
			sg := "pipeline:" + ss[j].Family + ":" + v.Sig
			if seen[sg] {
				continue
			}
			seen[sg] = true
			if err := vsched.Confirm(scenario(&ss[j]), &v); err != nil {
				hkit.EngineError("violation did not replay: %v", err)
			}
			hkit.Report(propID, sg, map[string]any{"engine": "explore", "harness": "c10b", "scenario": ss[j], "violation": v},
				fmt.Sprintf("%s: %s: %s", r.Name, v.Kind, firstLine(v.Message)))
		}
		total.Merge(r.Rep)
	}
	hkit.Evidence(propID, a.Tier, "exploration", map[string]any{
		"states": total.States, "transitions": total.Transitions, "traces_validated_against_impl": total.Executions, "evaluations": total.Executions,
		"samples": []any{total.Sample}, "exhaustive": total.Exhaustive, "scenarios": len(ss), "distinct_outcomes": len(outcomes),
		"redirect_statuses": redirectStatuses, "locations": len(locations), "statuses": statuses, "content_types": len(contentTypes), "link_headers": len(linkHeaders),
		"explanation": "part B: one seed per scenario through the real five-stage pipeline (fake transport, controlled scheduler, virtual clock): endless redirect chains of every 3xx status x max-redirect {0,1,3,20}; 34 Location values x max-redirect {0,2}; 43 status codes (1xx..999) with an HTML body and a Location header x max-retry {0,2}; 29 Content-Type values x max-hops {0,1}; 24 Link header values x max-hops {0,1}; no headers at all. Canonical schedule with every select outcome (thorough: plus every single deviation). Oracle: no panic in any stage, no deadlock, the seed is finished, at most 120 requests",
	}, []string{
		"part B: the fake transport hands the header values to Zeno as given (a real net/http client would reject some of them - NUL, CR/LF - before Zeno sees them)",
	}, hkit.Violations())
	fmt.Printf("C10 %s (part B): %d scenarios, %d executions, %d states, %d transitions, %d distinct outcomes, exhaustive=%v\n", a.Tier, len(ss), total.Executions, total.States, total.Transitions, len(outcomes), total.Exhaustive)
	hkit.Exit()
}

func firstLine(s string) string {
	if i := strings.IndexByte(s, '\n'); i > 0 {
		s = s[:i]
	}
	if len(s) > 600 {
		s = s[:600]
	}
	return s
}

func replay(path string) {
	b, err := os.ReadFile(path)
	if err != nil {
		hkit.EngineError("%v", err)
	}
	var r struct {
		Scenario  scen             `json:"scenario"`
		Violation vsched.Violation `json:"violation"`
	}
	if err := json.Unmarshal(b, &r); err != nil {
		hkit.EngineError("%v", err)
	}
	v, x := vsched.Replay(scenario(&r.Scenario), r.Violation.Choices)
	for _, s := range x.Steps {
		fmt.Printf("  %-44s %-90s case=%d\n", s.Thread, s.Point, s.Case)
	}
	if v == nil {
		fmt.Println("replay: no violation")
		os.Exit(0)
	}
	fmt.Printf("replay: %s: %s\n", v.Kind, v.Message)
	fmt.Printf("VIOLATION property=%s replay=%s\n", propID, path)
	os.Exit(1)
}
