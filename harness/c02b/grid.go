package main

import (
	"fmt"
	"strconv"
	"strings"

	"github.com/internetarchive/Zeno/internal/verif/lib/e2e"
)

const (
	dedupeSize = 1024 // --warc-dedupe-size, CLI default
	maxRetry   = 1    // --max-retry of the cases: retry 0 sleeps 0 s, so a retried response costs no real time
	MiB2       = 2 << 20
)

// item is one element of the boundary grid: one URL of the site.
type item struct {
	ID      int    `json:"id"`
	Size    string `json:"size"`    // label of the size boundary
	N       int    `json:"n"`       // payload length before content-encoding
	Kind    string `json:"kind"`    // html | text | png
	Enc     string `json:"enc"`     // identity | gzip
	Framing string `json:"framing"` // cl | chunked
	Status  string `json:"status"`  // 200 | 204 | 404 | 301 | 500 | 429 | 403cf
	Path    string `json:"path"`
	Policy  bool   `json:"policy,omitempty"` // element of the discard-policy grid (crawled under non-default --warc-discard-status lists)
	Sweep   bool   `json:"sweep,omitempty"`  // element of the status-code sweep
}

func (it item) class() string { return fmt.Sprintf("%s-%s-%s-%s", it.Status, it.Kind, it.Enc, it.Size) }

var sizeLabels = []string{"0", "1", "2047", "2048", "2049", "dedupe-1", "dedupe", "dedupe+1", "2MiB-1", "2MiB", "2MiB+1",
	// payload sizes for which the WHOLE Content-Length-framed response message is dedupe-1 / dedupe / dedupe+1
	// bytes long: the WARC library compares the message length, not the payload length, with --warc-dedupe-size
	"msg=dedupe-1", "msg=dedupe", "msg=dedupe+1"}

var (
	kinds    = []string{"html", "text", "png"}
	encs     = []string{"identity", "gzip"}
	framings = []string{"cl", "chunked"}
	statuses = []string{"200", "404", "301", "500", "429", "403cf"}
)

func contentType(kind string) string {
	switch kind {
	case "html":
		return "text/html; charset=utf-8"
	case "text":
		return "text/plain; charset=utf-8"
	}
	return "image/png"
}

// payload builds n bytes of the given kind; tag makes payloads of different classes differ.
func payload(kind string, n int, tag string) []byte {
	var head, unit string
	switch kind {
	case "html":
		head = "<!DOCTYPE html>\n<html><head><title>" + tag + "</title></head><body><p>\n"
		unit = "lorem ipsum " + tag + " dolor sit amet consectetur adipiscing elit\n"
	case "text":
		head = "plain text " + tag + "\n"
		unit = "sed do eiusmod " + tag + " tempor incididunt ut labore\n"
	default:
		// incompressible: the WARC writer has real work to do for the large bodies
		b := make([]byte, 0, n+32)
		b = append(b, "\x89PNG\r\n\x1a\n\x00\x00\x00\rIHDR"...)
		b = append(b, tag...)
		x := uint64(88172645463325252)
		for _, c := range []byte(tag) {
			x = x*1099511628211 ^ uint64(c)
		}
		for len(b) < n {
			x ^= x << 13
			x ^= x >> 7
			x ^= x << 17
			b = append(b, byte(x), byte(x>>8), byte(x>>16), byte(x>>24), byte(x>>32), byte(x>>40), byte(x>>48), byte(x>>56))
		}
		return b[:n]
	}
	b := make([]byte, 0, n+len(unit))
	b = append(b, head...)
	for len(b) < n {
		b = append(b, unit...)
	}
	return b[:n]
}

func statusCode(s string) int {
	switch s {
	case "200":
		return 200
	case "204":
		return 204
	case "404":
		return 404
	case "301":
		return 301
	case "500":
		return 500
	case "429":
		return 429
	}
	if n, err := strconv.Atoi(s); err == nil {
		return n
	}
	return 403
}

// response builds the origin's answer carrying the grid body of an item with the given status.
func response(it item, status int, n int) e2e.Resp {
	p := payload(it.Kind, n, it.class())
	r := e2e.Resp{Status: status, Header: [][2]string{{"Content-Type", contentType(it.Kind)}}, Chunked: it.Framing == "chunked"}
	if it.Status == "403cf" {
		r.Header = append(r.Header, [2]string{"cf-mitigated", "challenge"})
	}
	if it.Status == "403srv" { // an ordinary block page of a Cloudflare-fronted site: no challenge, the policy accepts it
		r.Header = append(r.Header, [2]string{"Server", "cloudflare"})
	}
	if it.Enc == "gzip" {
		r.Entity, r.Encoding = e2e.Gzip(p), "gzip"
	} else {
		r.Entity = p
	}
	return r
}

// payloadLen resolves a size label for an item.
func payloadLen(it item) int {
	switch it.Size {
	case "0":
		return 0
	case "1":
		return 1
	case "2047":
		return 2047
	case "2048":
		return 2048
	case "2049":
		return 2049
	case "dedupe-1":
		return dedupeSize - 1
	case "dedupe":
		return dedupeSize
	case "dedupe+1":
		return dedupeSize + 1
	case "2MiB-1":
		return MiB2 - 1
	case "2MiB":
		return MiB2
	case "2MiB+1":
		return MiB2 + 1
	}
	// msg=...: the Content-Length-framed message has exactly that many bytes
	want := dedupeSize
	switch it.Size {
	case "msg=dedupe-1":
		want--
	case "msg=dedupe+1":
		want++
	}
	probe := it
	probe.Framing = "cl"
	st := statusCode(it.Status)
	if it.Status == "301" {
		st = 200
	}
	for n := want; n >= 0; n-- {
		r := response(probe, st, n)
		if e2e.WireLen(&r) == want {
			return n
		}
	}
	return 0
}

// fullGrid enumerates the whole boundary grid in a fixed order.
func fullGrid() []item {
	var out []item
	for _, st := range statuses {
		for _, k := range kinds {
			for _, e := range encs {
				for _, sz := range sizeLabels {
					if strings.HasPrefix(sz, "msg=") && e == "gzip" {
						continue // the message-length boundary is only built for identity bodies
					}
					for _, f := range framings {
						it := item{ID: len(out), Size: sz, Kind: k, Enc: e, Framing: f, Status: st}
						it.N = payloadLen(it)
						it.Path = fmt.Sprintf("/g/%04d-%s-%s-%s-%s-%s", it.ID, st, k, e, strings.NewReplacer("=", "", "+", "p").Replace(sz), f)
						out = append(out, it)
					}
				}
			}
		}
	}
	return out
}

// policyLists are the --warc-discard-status lists of the policy cases: codes below 400 included (the default
// list [429] is what every other case runs with).
var policyLists = [][]int{{301, 204, 429}, {200}}

// policyItems is the small grid crawled under each policy list: every status class, a small and a large body.
func policyItems(start int) []item {
	var out []item
	add := func(st, kind, enc, framing, size string) {
		it := item{ID: start + len(out), Size: size, Kind: kind, Enc: enc, Framing: framing, Status: st, Policy: true}
		if st != "204" {
			it.N = payloadLen(it)
		}
		it.Path = fmt.Sprintf("/p/%04d-%s-%s-%s-%s-%s", it.ID, st, kind, enc, strings.NewReplacer("=", "", "+", "p").Replace(size), framing)
		out = append(out, it)
	}
	for _, st := range []string{"200", "301", "404", "500", "429", "403cf", "403srv"} {
		add(st, "html", "identity", "cl", "2049")
		add(st, "png", "gzip", "chunked", "2MiB+1")
	}
	add("204", "text", "identity", "cl", "0")
	return out
}

// sweepStatuses: every assigned status code that may carry a body and is not a redirection (those are followed,
// part of the 301 class), beyond the representatives of the grid. What the discard policy accepts is decided
// per code, so the "accepted responses are in the WARC" clause is checked per code.
var sweepStatuses = []int{201, 202, 203, 206, 207, 226, 300, 400, 401, 402, 403, 405, 406, 407, 408, 409, 410, 411, 412, 413, 414, 415, 416, 417,
	418, 421, 422, 423, 424, 425, 426, 428, 431, 451, 501, 502, 503, 504, 505, 506, 507, 508, 510, 511, 520, 521, 522, 523, 524, 525, 526, 530, 599}

// sweepItems: one small HTML body per code of sweepStatuses, default policy.
func sweepItems(start int) []item {
	var out []item
	for _, st := range sweepStatuses {
		it := item{ID: start + len(out), Size: "2049", Kind: "html", Enc: "identity", Framing: "cl", Status: strconv.Itoa(st), Sweep: true}
		it.N = payloadLen(it)
		it.Path = fmt.Sprintf("/s/%04d-%d", it.ID, st)
		out = append(out, it)
	}
	return out
}

// program installs the routes of an item on the origin; it returns the number
// of exchanges a complete crawl of the item produces.
func program(o *e2e.Origin, it item) int {
	switch it.Status {
	case "204":
		o.Handle(it.Path, e2e.Resp{Status: 204})
		return 1
	case "200", "404", "403srv":
		o.Handle(it.Path, response(it, statusCode(it.Status), it.N))
		return 1
	case "301":
		o.Handle(it.Path, e2e.Resp{Status: 301, Header: [][2]string{{"Location", it.Path + "-t"}, {"Content-Type", "text/plain"}}, Entity: []byte("moved " + it.class() + "\n")})
		o.Handle(it.Path+"-t", response(it, 200, it.N))
		return 2
	default: // 500, 429, 403cf: the same answer on every attempt
		o.Handle(it.Path, response(it, statusCode(it.Status), it.N))
		if it.Sweep {
			return 1 // whether a code of the sweep is retried is not this check's business
		}
		return maxRetry + 1
	}
}
