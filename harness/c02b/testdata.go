package main

import (
	"encoding/json"
	"fmt"
	"os"
	"path/filepath"

	"github.com/internetarchive/Zeno/internal/verif/lib/e2e"
	"github.com/internetarchive/Zeno/internal/verif/vrt/hkit"
)

// emitTestdata runs a plain child (no trigger but the snapshot) on a small site
// and writes its WARC file and the origin's log: the fixtures of the unit tests
// of harness/lib/e2e/warcread (`c02b quick --emit-testdata=<dir>`).
func emitTestdata(out string) {
	o, err := e2e.NewOrigin("127.0.0.2")
	if err != nil {
		hkit.EngineError("%v", err)
	}
	defer o.Close()
	img := [][2]string{{"Content-Type", "image/png"}}
	txt := [][2]string{{"Content-Type", "text/plain"}}
	png := append([]byte("\x89PNG\r\n\x1a\n"), make([]byte, 3000)...)
	o.Handle("/", e2e.Resp{Status: 200, Header: [][2]string{{"Content-Type", "text/html"}}, Entity: e2e.HTMLPage("t", []string{"/a.png", "/b.png", "/c.txt", "/d.txt", "/e.bin", "/f.png", "/missing.gif"}, nil)})
	o.Handle("/a.png", e2e.Resp{Status: 200, Header: img, Entity: png})
	o.Handle("/b.png", e2e.Resp{Status: 200, Header: img, Entity: png, Chunked: true}) // same payload: a revisit record
	o.Handle("/c.txt", e2e.Resp{Status: 200, Header: txt, Entity: e2e.Gzip([]byte("hello hello hello")), Encoding: "gzip"})
	o.Handle("/d.txt", e2e.Resp{Status: 200, Header: txt, Entity: e2e.Gzip(append([]byte("chunked gzip "), make([]byte, 5000)...)), Encoding: "gzip", Chunked: true, ChunkSize: 7})
	o.Handle("/e.bin", e2e.Resp{Status: 200, Header: [][2]string{{"Content-Type", "application/octet-stream"}}})
	o.Handle("/f.png", e2e.Resp{Status: 301, Header: [][2]string{{"Location", "/a2.png"}}, Entity: []byte("moved")})
	o.Handle("/a2.png", e2e.Resp{Status: 200, Header: img, Entity: append(append([]byte{}, png...), 1, 2, 3), Chunked: true})
	dir, err := e2e.Scratch("testdata")
	if err != nil {
		hkit.EngineError("%v", err)
	}
	defer os.RemoveAll(dir)
	spec := &e2e.ChildSpec{Dir: dir, Mode: "drain", ExpectFinished: 1,
		Conf: e2e.Conf{Job: "j", Workers: 1, MaxConcurrentAssets: 1, MaxRetry: 1, InputSeeds: []string{o.URL("/")}}}
	res, err := e2e.RunChild(spec, e2e.RunHooks{})
	if err != nil || res.ExitCode != 0 {
		hkit.EngineError("plain run failed: %v %+v", err, res)
	}
	ms, _ := filepath.Glob(filepath.Join(dir, "jobs/j/warcs/*.warc.gz"))
	if len(ms) != 1 {
		hkit.EngineError("expected one WARC file, found %v", ms)
	}
	os.MkdirAll(out, 0o755)
	b, _ := os.ReadFile(ms[0])
	os.WriteFile(filepath.Join(out, "plain.warc.gz"), b, 0o644)
	lb, _ := json.MarshalIndent(o.Log(), "", " ")
	os.WriteFile(filepath.Join(out, "plain.origin.json"), lb, 0o644)
	fmt.Printf("wrote %s/plain.warc.gz (%d bytes) and plain.origin.json (%d exchanges)\n", out, len(b), len(o.Log()))
}
