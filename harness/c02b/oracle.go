package main

import (
	"encoding/base32"
	"encoding/hex"
	"fmt"
	"os"
	"path/filepath"
	"sort"
	"strings"

	"github.com/internetarchive/Zeno/internal/verif/lib/e2e"
	"github.com/internetarchive/Zeno/internal/verif/lib/e2e/warcread"
)

func b32(hexsha string) string {
	b, _ := hex.DecodeString(hexsha)
	return "sha1:" + base32.StdEncoding.EncodeToString(b)
}

type recIndex struct {
	byURL map[string][]*warcread.Record
	byID  map[string]*warcread.Record
	used  map[*warcread.Record]bool
	n     int
}

func index(files []*warcread.File) *recIndex {
	ix := &recIndex{byURL: map[string][]*warcread.Record{}, byID: map[string]*warcread.Record{}, used: map[*warcread.Record]bool{}}
	for _, f := range files {
		for _, r := range f.Records {
			ix.n++
			ix.byURL[r.TargetURI] = append(ix.byURL[r.TargetURI], r)
			if r.RecordID != "" {
				ix.byID[r.RecordID] = r
			}
		}
	}
	return ix
}

// matches reports whether record r stores exchange e (the property's words:
// record for exactly the requested URL, payload of the logged length and SHA-1;
// a revisit must refer to a response with the same payload digest).
func (ix *recIndex) matches(r *warcread.Record, e *e2e.Exchange) (bool, string) {
	if r.TargetURI != e.URL {
		return false, "other URL"
	}
	switch r.Type {
	case "response":
		if r.HTTPErr != "" || r.EntityErr != "" {
			return false, "the stored HTTP message does not parse: " + r.HTTPErr + r.EntityErr
		}
		if r.Status != e.Status {
			return false, fmt.Sprintf("status %d stored, %d sent", r.Status, e.Status)
		}
		if r.EntityLen != e.EntityLen || r.EntitySHA1 != e.EntitySHA1 {
			return false, fmt.Sprintf("entity of %d bytes sha1 %s stored, %d bytes sha1 %s sent", r.EntityLen, r.EntitySHA1, e.EntityLen, e.EntitySHA1)
		}
		// the digest the record declares (what de-duplication and replay go by) is the digest of that payload
		if r.PayloadDigest != "" && r.PayloadDigest != b32(e.EntitySHA1) {
			return false, fmt.Sprintf("response record declares payload digest %s, the payload sent (and stored) has %s", r.PayloadDigest, b32(e.EntitySHA1))
		}
		return true, ""
	case "revisit":
		if r.HTTPErr != "" {
			return false, "the stored HTTP header does not parse: " + r.HTTPErr
		}
		if r.Status != e.Status {
			return false, fmt.Sprintf("status %d stored, %d sent", r.Status, e.Status)
		}
		if r.PayloadDigest != b32(e.EntitySHA1) {
			return false, fmt.Sprintf("revisit with payload digest %s, sent payload has %s", r.PayloadDigest, b32(e.EntitySHA1))
		}
		// the record it refers to must be a response with this very payload
		var ref *warcread.Record
		if r.RefersTo != "" {
			ref = ix.byID[r.RefersTo]
		}
		if ref == nil {
			for _, c := range ix.byURL[r.RefersToURI] {
				if c.Type == "response" && c.EntitySHA1 == e.EntitySHA1 {
					ref = c
					break
				}
			}
		}
		if ref == nil {
			return false, fmt.Sprintf("revisit refers to %s %s, no such response record on disk", r.RefersTo, r.RefersToURI)
		}
		if ref.Type != "response" || ref.EntitySHA1 != e.EntitySHA1 || ref.EntityLen != e.EntityLen {
			return false, fmt.Sprintf("revisit refers to a %s record with entity %d/%s, sent %d/%s", ref.Type, ref.EntityLen, ref.EntitySHA1, e.EntityLen, e.EntitySHA1)
		}
		return true, ""
	}
	return false, "not a response record"
}

func readSnapshot(warcDir string, snap map[string]int64) (atFinish, atEnd []*warcread.File, problems []string) {
	names := make([]string, 0, len(snap))
	for n := range snap {
		names = append(names, n)
	}
	sort.Strings(names)
	inSnap := map[string]bool{}
	for _, n := range names {
		final := strings.TrimSuffix(n, ".open")
		inSnap[final] = true
		p := filepath.Join(warcDir, final)
		if _, err := os.Stat(p); err != nil {
			p = filepath.Join(warcDir, n)
		}
		f, err := warcread.ReadFile(p, snap[n], warcread.Options{})
		if err != nil {
			problems = append(problems, fmt.Sprintf("unreadable:%s: %v", n, err))
			continue
		}
		if f.Size < snap[n] {
			problems = append(problems, fmt.Sprintf("shrunk:%s: %d bytes at the finish, %d bytes now", n, snap[n], f.Size))
		}
		atFinish = append(atFinish, f)
	}
	es, _ := os.ReadDir(warcDir)
	for _, e := range es {
		f, err := warcread.ReadFile(filepath.Join(warcDir, e.Name()), -1, warcread.Options{})
		if err == nil {
			atEnd = append(atEnd, f)
		}
	}
	return
}

func sizeClass(it *item) string {
	if it == nil {
		return "seed-page"
	}
	return it.Size
}

func evaluate(v *verdict, cs caseSpec, conf e2e.Conf, grid []item, byPath map[string]*item, log []e2e.Exchange, snap map[string]int64, warcDir string) {
	atFinish, atEnd, problems := readSnapshot(warcDir, snap)
	add := func(sig, detail string, it *item) {
		v.Violations = append(v.Violations, violation{Sig: sig, Detail: detail, Item: it})
	}
	for _, p := range problems {
		add("warc-file-"+strings.SplitN(p, ":", 2)[0], p, nil)
	}
	fin, end := index(atFinish), index(atEnd)
	v.Records = fin.n
	tornTail := ""
	for _, f := range atFinish {
		if f.Problem != nil {
			if f.Problem.Kind == "truncated-member" {
				tornTail = fmt.Sprintf("%s: %v (file had %d bytes at the finish)", filepath.Base(f.Path), f.Problem, f.Size)
			} else {
				add("member-not-decompressible:"+f.Problem.Kind, fmt.Sprintf("%s: %v", filepath.Base(f.Path), f.Problem), nil)
			}
		}
		for _, m := range f.Members {
			if m.Records > 1 {
				add("several-records-in-one-member", fmt.Sprintf("%s: the member at offset %d holds %d records", filepath.Base(f.Path), m.Start, m.Records), nil)
				break
			}
		}
	}
	classes := map[string]bool{}
	attempts := map[string]int{}
	for _, e := range log {
		attempts[e.Path]++
	}
	missing := 0
	for i := range log {
		e := &log[i]
		it := byPath[e.Path]
		if it != nil {
			classes[fmt.Sprintf("%d|%s|%s|%s|%s", e.Status, it.Kind, it.Enc, it.Framing, it.Size)] = true
		} else {
			classes[fmt.Sprintf("%d|seed-page", e.Status)] = true
		}
		if !e.Sent {
			// the client went away before the origin had sent everything: "what the server sent" is not defined
			v.Incomplete = append(v.Incomplete, fmt.Sprintf("%s (status %d, %d entity bytes)", e.URL, e.Status, e.EntityLen))
			continue
		}
		if rejectedBy(conf, *e) {
			v.Rejected++
			for _, r := range end.byURL[e.URL] {
				if r.Type == "response" || r.Type == "revisit" {
					what := fmt.Sprint(e.Status)
					if e.Status == 403 {
						what = "403-cf-challenge"
					}
					add("rejected-response-stored:status="+what, fmt.Sprintf("%s answered %d (rejected by the discard policy) but a %s record for it is in %s", e.URL, e.Status, r.Type, "the WARC files"), it)
					break
				}
			}
			continue
		}
		v.Accepted++
		attempt := "only"
		if attempts[e.Path] > 1 {
			attempt = "retried"
			if e.Attempt == attempts[e.Path]-1 {
				attempt = "final"
			}
		}
		// request record
		var req *warcread.Record
		for _, r := range fin.byURL[e.URL] {
			if r.Type == "request" && !fin.used[r] {
				req = r
				break
			}
		}
		// response or revisit record
		var got *warcread.Record
		why := ""
		candidates := 0
		for _, r := range fin.byURL[e.URL] {
			if (r.Type != "response" && r.Type != "revisit") || fin.used[r] {
				continue
			}
			candidates++
			ok, w := fin.matches(r, e)
			if ok {
				got = r
				break
			}
			why = w
		}
		if got != nil {
			fin.used[got] = true
			if got.Type == "revisit" {
				v.Revisits++
			}
			if req == nil {
				add(fmt.Sprintf("request-record-missing:status=%d", e.Status), fmt.Sprintf("%s: the response record is on disk at the finish but no request record for this URL", e.URL), it)
			} else {
				fin.used[req] = true
			}
			if v.Sample == nil && it != nil && got.Type == "response" && e.EntityLen > 0 {
				v.Sample = map[string]any{"case": cs.Name, "exchange": e, "record": got}
			}
			continue
		}
		if candidates > 0 {
			cls := "seed-page"
			if it != nil {
				cls = fmt.Sprintf("%s-%s-%s", it.Enc, it.Framing, sizeClass(it))
			}
			add(fmt.Sprintf("stored-payload-differs:status=%d:%s", e.Status, cls), fmt.Sprintf("%s (status %d, %d entity bytes, sha1 %s): a record for the URL is on disk at the finish but: %s", e.URL, e.Status, e.EntityLen, e.EntitySHA1, why), it)
			continue
		}
		// nothing on disk at the finish: is it there after the stop?
		missing++
		when := "never"
		for _, r := range end.byURL[e.URL] {
			if r.Type == "response" || r.Type == "revisit" {
				if ok, _ := end.matches(r, e); ok && !end.used[r] {
					end.used[r] = true
					when = "late"
					break
				}
			}
		}
		add(fmt.Sprintf("response-not-in-warc-at-finish:status=%d:attempt=%s:%s", e.Status, attempt, when),
			fmt.Sprintf("%s answered %d with %d entity bytes (attempt %d of %d); the discard policy accepts it, but at the instant before the finish message no response/revisit record for it is in the WARC files (%s; torn member at the tail then: %q)",
				e.URL, e.Status, e.EntityLen, e.Attempt+1, attempts[e.Path], map[string]string{"late": "it was written after the finish", "never": "it was never written"}[when], tornTail), it)
	}
	if tornTail != "" && missing == 0 {
		add("torn-member-at-finish", "every response is accounted for, yet a member is cut short at the finish instant: "+tornTail, nil)
	}
	for c := range classes {
		v.Classes = append(v.Classes, c)
	}
	sort.Strings(v.Classes)
}
