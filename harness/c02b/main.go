package main

import (
	"encoding/json"
	"fmt"
	"os"
	"path/filepath"
	"sort"

	"github.com/internetarchive/Zeno/internal/verif/lib/e2e"
	"github.com/internetarchive/Zeno/internal/verif/lib/e2e/warcread"
)

func main() {
	if e2e.IsChild() {
		e2e.ChildMain()
	}
	o, err := e2e.NewOrigin("127.0.0.2")
	if err != nil {
		panic(err)
	}
	defer o.Close()
	png := append([]byte("\x89PNG\r\n\x1a\n"), make([]byte, 3000)...)
	o.Handle("/", e2e.Resp{Status: 200, Header: [][2]string{{"Content-Type", "text/html"}}, Entity: e2e.HTMLPage("t", []string{"/a.png", "/b.png", "/c.txt", "/d.txt", "/e.bin", "/f.png", "/missing.gif"}, nil)})
	o.Handle("/a.png", e2e.Resp{Status: 200, Header: [][2]string{{"Content-Type", "image/png"}}, Entity: png})
	o.Handle("/b.png", e2e.Resp{Status: 200, Header: [][2]string{{"Content-Type", "image/png"}}, Entity: png, Chunked: true})
	o.Handle("/d.txt", e2e.Resp{Status: 200, Header: [][2]string{{"Content-Type", "text/plain"}}, Entity: e2e.Gzip(append([]byte("chunked gzip "), make([]byte, 5000)...)), Encoding: "gzip", Chunked: true, ChunkSize: 7})
	o.Handle("/e.bin", e2e.Resp{Status: 200, Header: [][2]string{{"Content-Type", "application/octet-stream"}}, Entity: nil})
	o.Handle("/f.png", e2e.Resp{Status: 301, Header: [][2]string{{"Location", "/a2.png"}}, Entity: []byte("moved")})
	o.Handle("/a2.png", e2e.Resp{Status: 200, Header: [][2]string{{"Content-Type", "image/png"}}, Entity: append(append([]byte{}, png...), 1, 2, 3), Chunked: true})
	o.Handle("/c.txt", e2e.Resp{Status: 200, Header: [][2]string{{"Content-Type", "text/plain"}}, Entity: e2e.Gzip([]byte("hello hello hello")), Encoding: "gzip"})
	dir, err := e2e.Scratch("spike")
	if err != nil {
		panic(err)
	}
	spec := &e2e.ChildSpec{Dir: dir, Mode: "drain", ExpectFinished: 1, Profile: true,
		Conf: e2e.Conf{Job: "j", Workers: 1, MaxConcurrentAssets: 1, MaxRetry: 1, InputSeeds: []string{o.URL("/")}},
		Triggers: []e2e.Trigger{{Name: "snap", Match: e2e.PointFinish, N: 0, Do: []string{"sizes:sizes.jsonl"}}}}
	res, err := e2e.RunChild(spec, e2e.RunHooks{})
	if err != nil {
		panic(err)
	}
	fmt.Printf("exit=%d sig=%s wall=%.1f panic=%q\n", res.ExitCode, res.Signal, res.WallS, res.Panic)
	for _, e := range res.Events {
		fmt.Println("  ev:", e)
	}
	fmt.Println(res.Stderr)
	for _, e := range o.Log() {
		fmt.Printf("  origin: %s %d len=%d sha=%s sent=%v wire=%d\n", e.URL, e.Status, e.EntityLen, e.EntitySHA1[:8], e.Sent, e.WireLen)
	}
	b, _ := os.ReadFile(filepath.Join(dir, "sizes.jsonl"))
	fmt.Printf("sizes: %s", b)
	ms, _ := filepath.Glob(filepath.Join(dir, "jobs/j/warcs/*"))
	for _, m := range ms {
		f, err := warcread.ReadFile(m, -1, warcread.Options{})
		fmt.Println(m, err, "members", len(f.Members), "empty", f.EmptyMembers, "problem", f.Problem, "good", f.GoodUpTo, "size", f.Size)
		for _, r := range f.Records {
			fmt.Printf("   %s %s st=%d len=%d sha=%.8s err=%s/%s pd=%s refers=%s\n", r.Type, r.TargetURI, r.Status, r.EntityLen, r.EntitySHA1, r.HTTPErr, r.EntityErr, r.PayloadDigest, r.RefersToURI)
		}
	}
	if td := os.Getenv("E2E_TESTDATA"); td != "" {
		os.MkdirAll(td, 0o755)
		for _, m := range ms {
			b, _ := os.ReadFile(m)
			os.WriteFile(filepath.Join(td, "plain.warc.gz"), b, 0o644)
		}
		lb, _ := json.MarshalIndent(o.Log(), "", " ")
		os.WriteFile(filepath.Join(td, "plain.origin.json"), lb, 0o644)
	}
	hits := e2e.ReadHits(filepath.Join(dir, "hits.json"))
	var ks []string
	for k := range hits {
		ks = append(ks, k)
	}
	sort.Strings(ks)
	for _, k := range ks {
		fmt.Printf("%6d %s\n", hits[k], k)
	}
}
