// Harness for C02, part B (E4, fault/input enumeration on the real process):
// the boundary grid of response bodies is crawled by the real pipeline - real
// WARC writer - in a child process; at the instant before the finish message
// of the seed is sent the sizes of the WARC files are recorded; the parent
// reads every file up to that size with an independent reader and compares
// with what the origin sent.
package main

import (
	"encoding/json"
	"fmt"
	"os"
	"os/exec"
	"path/filepath"
	"sort"
	"strings"

	"github.com/internetarchive/Zeno/internal/verif/lib/e2e"
	"github.com/internetarchive/Zeno/internal/verif/vrt/hkit"
)

const propID = "C02"

// caseSpec is one child run: a seed page with a slice of the grid as assets
// ("grid"), or a seed whose own response is a grid element ("direct").
type caseSpec struct {
	Name  string   `json:"name"`
	Kind  string   `json:"kind"`
	Conf  e2e.Conf `json:"conf"`
	Items []int    `json:"items"` // grid ids
	// Proxy: the crawl goes through a SOCKS5 proxy (--proxy): the WARC-writing client is then the proxied
	// one, which is built separately and must carry the same discard policy
	Proxy bool `json:"proxy,omitempty"`
}

type confDim struct {
	pool    int
	onDisk  bool
	dedupe  bool
	workers int
	assets  int
}

func (d confDim) conf() e2e.Conf {
	// the rate limiter is off: its 429/403/5xx penalties on the single loopback host would stretch a page of the grid to minutes
	return e2e.Conf{Job: "c02b", Workers: d.workers, MaxConcurrentAssets: d.assets, MaxRetry: maxRetry, WARCPoolSize: d.pool, WARCOnDisk: d.onDisk,
		DisableLocalDedupe: !d.dedupe, WARCDedupeSize: dedupeSize, DisableRateLimit: true}
}

func (d confDim) name() string {
	m := "ram"
	if d.onDisk {
		m = "disk"
	}
	return fmt.Sprintf("pool%d-%s-dedupe%v-%dx%d", d.pool, m, d.dedupe, d.workers, d.assets)
}

func configs(tier string) []confDim {
	if tier != "thorough" {
		return []confDim{{1, false, true, 1, 1}}
	}
	var out []confDim
	for _, pool := range []int{1, 2} {
		for _, disk := range []bool{false, true} {
			for _, dd := range []bool{true, false} {
				for _, wa := range [][2]int{{1, 1}, {2, 4}} {
					out = append(out, confDim{pool, disk, dd, wa[0], wa[1]})
				}
			}
		}
	}
	return out
}

// cases builds the deterministic case list of a tier.
func cases(tier string, grid []item) []caseSpec {
	var out []caseSpec
	shards := 2
	if tier != "thorough" {
		shards = 6
	}
	for _, d := range configs(tier) {
		// grid pages: classes (both framings of a payload) stay together so that revisit records occur
		pages := make([][]int, shards)
		classIdx := map[string]int{}
		for _, it := range grid {
			if it.Policy || it.Sweep {
				continue
			}
			c := it.class()
			if _, ok := classIdx[c]; !ok {
				classIdx[c] = len(classIdx)
			}
			p := classIdx[c] % shards
			pages[p] = append(pages[p], it.ID)
		}
		for p, ids := range pages {
			out = append(out, caseSpec{Name: fmt.Sprintf("grid %s page %d/%d", d.name(), p+1, shards), Kind: "grid", Conf: d.conf(), Items: ids})
		}
		// direct seeds: the seed's own response is the grid element, so the finish follows the fetch immediately
		for _, it := range grid {
			if it.Policy || it.Sweep || it.Kind == "text" || it.Enc == "gzip" && it.Framing == "cl" || it.Enc == "identity" && it.Framing == "chunked" {
				continue
			}
			switch it.Size {
			case "0", "2049", "msg=dedupe", "2MiB+1":
			default:
				continue
			}
			if tier != "thorough" && (it.Size == "msg=dedupe" || it.Size == "0" && it.Status != "200") {
				continue
			}
			out = append(out, caseSpec{Name: fmt.Sprintf("direct %s %s", d.name(), it.Path), Kind: "direct", Conf: d.conf(), Items: []int{it.ID}})
		}
		// the status-code sweep: one page with an asset per code; in the thorough tier each code as a seed as well
		var sweep []int
		for _, it := range grid {
			if it.Sweep {
				sweep = append(sweep, it.ID)
				if tier == "thorough" {
					out = append(out, caseSpec{Name: fmt.Sprintf("sweep direct %s %s", d.name(), it.Path), Kind: "direct", Conf: d.conf(), Items: []int{it.ID}})
				}
			}
		}
		out = append(out, caseSpec{Name: fmt.Sprintf("sweep grid %s", d.name()), Kind: "grid", Conf: d.conf(), Items: sweep})
		// the discard policy with codes below 400: --warc-discard-status lists other than the default
		for _, list := range policyLists {
			conf := d.conf()
			conf.WARCDiscardStatus = list
			var ids []int
			for _, it := range grid {
				if it.Policy {
					ids = append(ids, it.ID)
				}
			}
			out = append(out, caseSpec{Name: fmt.Sprintf("policy%v grid %s", list, d.name()), Kind: "grid", Conf: conf, Items: ids})
			out = append(out, caseSpec{Name: fmt.Sprintf("policy%v grid %s through a proxy", list, d.name()), Kind: "grid", Conf: conf, Items: ids, Proxy: true})
			for _, id := range ids {
				it := grid[id]
				if tier != "thorough" && (it.Size != "2049" && it.Status != "204" || it.Status == "500" || it.Status == "403cf" || it.Status == "404") {
					continue
				}
				out = append(out, caseSpec{Name: fmt.Sprintf("policy%v direct %s %s", list, d.name(), it.Path), Kind: "direct", Conf: conf, Items: []int{id}})
			}
		}
	}
	return out
}

// verdict of one case.
type verdict struct {
	Case       string      `json:"case"`
	Exchanges  int         `json:"exchanges"`
	Accepted   int         `json:"accepted"`
	Rejected   int         `json:"rejected"`
	Revisits   int         `json:"revisits"`
	Records    int         `json:"records"`
	Unfetched  int         `json:"unfetched"`
	Incomplete []string    `json:"incomplete,omitempty"` // responses the origin could not send completely (the client closed the connection)
	Classes    []string    `json:"classes"`              // distinct (status, kind, enc, framing, size) seen on the wire
	WallS      float64     `json:"wall_s"`
	Violations []violation `json:"violations,omitempty"`
	Anomaly    string      `json:"anomaly,omitempty"` // the case could not be judged
	Sample     any         `json:"sample,omitempty"`
}

type violation struct {
	Sig    string `json:"sig"`
	Detail string `json:"detail"`
	Item   *item  `json:"item,omitempty"`
}

func rejectedBy(conf e2e.Conf, e e2e.Exchange) bool {
	ds := conf.WARCDiscardStatus
	if ds == nil {
		ds = []int{429}
	}
	for _, s := range ds {
		if s == e.Status {
			return true
		}
	}
	if e.Status == 403 {
		for _, kv := range e.Header {
			if strings.EqualFold(kv[0], "cf-mitigated") && kv[1] == "challenge" {
				return true
			}
		}
	}
	return false
}

func runCase(cs caseSpec, grid []item, keep bool) (v verdict) {
	v = verdict{Case: cs.Name}
	o, err := e2e.NewOrigin("127.0.0.2")
	if err != nil {
		hkit.EngineError("origin: %v", err)
	}
	defer o.Close()
	byPath := map[string]*item{}
	expect := 0
	var paths []string
	for _, id := range cs.Items {
		it := grid[id]
		expect += program(o, it)
		byPath[it.Path] = &grid[id]
		byPath[it.Path+"-t"] = &grid[id]
		paths = append(paths, it.Path)
	}
	seed := "/"
	if cs.Kind == "direct" {
		seed = paths[0]
	} else {
		o.Handle("/", e2e.Resp{Status: 200, Header: [][2]string{{"Content-Type", "text/html; charset=utf-8"}}, Entity: e2e.HTMLPage("grid", paths, nil)})
		expect++
	}
	dir, err := e2e.Scratch("c02b")
	if err != nil {
		hkit.EngineError("%v", err)
	}
	defer func() {
		if d := os.Getenv("E2E_DEBUG_DIR"); d != "" && (len(v.Violations) > 0 || v.Anomaly != "" || os.Getenv("E2E_DEBUG_ALL") != "") {
			os.MkdirAll(d, 0o755)
			exec.Command("cp", "-r", dir, d).Run()
		}
		if !keep {
			os.RemoveAll(dir)
		}
	}()
	conf := cs.Conf
	if cs.Proxy {
		sp, err := e2e.NewSocks5("127.0.0.3")
		if err != nil {
			hkit.EngineError("socks5: %v", err)
		}
		defer sp.Close()
		conf.Proxy = sp.URL()
	}
	conf.InputSeeds = []string{o.URL(seed)}
	spec := &e2e.ChildSpec{Dir: dir, Conf: conf, Mode: "drain", ExpectFinished: 1, DeadlineS: 55,
		Triggers: []e2e.Trigger{{Name: "finish", Match: e2e.PointFinish, N: 0, Do: []string{"sizes:sizes.jsonl"}}}}
	res, err := e2e.RunChild(spec, e2e.RunHooks{})
	if err != nil {
		hkit.EngineError("child: %v", err)
	}
	v.WallS = res.WallS
	log := o.Log()
	v.Exchanges = len(log)
	if res.ExitCode != 0 || res.TimedOut || res.Panic != "" || !res.HasEvent("work: drained") {
		v.Anomaly = fmt.Sprintf("the crawl did not run to its end: exit=%d signal=%s timed_out=%v panic=%q events=%v stderr-tail=%q log-tail=%q", res.ExitCode, res.Signal, res.TimedOut, res.Panic,
			res.Events, tail(res.Stderr, 1500), tail(e2e.LogTail(dir, conf.Job, 3000), 3000))
		return v
	}
	// the snapshot taken at the instant before the finish message was sent
	sb, err := os.ReadFile(filepath.Join(dir, "sizes.jsonl"))
	if err != nil {
		v.Anomaly = "no snapshot: " + err.Error()
		return v
	}
	lines := strings.Split(strings.TrimSpace(string(sb)), "\n")
	if len(lines) != 1 {
		v.Anomaly = fmt.Sprintf("%d finish messages for one seed", len(lines))
		return v
	}
	snap := map[string]int64{}
	json.Unmarshal([]byte(lines[0]), &snap)
	evaluate(&v, cs, conf, grid, byPath, log, snap, filepath.Join(dir, "jobs", conf.Job, "warcs"))
	if v.Exchanges < expect {
		v.Unfetched = expect - v.Exchanges
	}
	return v
}

func tail(s string, n int) string {
	if len(s) > n {
		return s[len(s)-n:]
	}
	return s
}

func main() {
	if e2e.IsChild() {
		e2e.ChildMain()
	}
	a := hkit.ParseArgs()
	grid := fullGrid()
	grid = append(grid, policyItems(len(grid))...)
	grid = append(grid, sweepItems(len(grid))...)
	if a.Replay != "" {
		replay(a.Replay, grid)
		return
	}
	if d, ok := a.Extra["emit-testdata"]; ok {
		emitTestdata(d)
		return
	}
	cs := cases(a.Tier, grid)
	if f, ok := a.Extra["only"]; ok {
		var keep []caseSpec
		for _, c := range cs {
			if strings.Contains(c.Name, f) {
				keep = append(keep, c)
			}
		}
		cs = keep
	}
	res := hkit.Jobs(a, len(cs), func(j int) any { return runCase(cs[j], grid, false) })
	var (
		classes                                       = map[string]bool{}
		exchanges, accepted, rejected, revisits, recs int
		unfetched                                     int
		incomplete                                    []string
		samples                                       []any
		seen                                          = map[string]bool{}
		anomalies                                     []string
		per                                           []map[string]any
	)
	for j, b := range res {
		var v verdict
		if err := json.Unmarshal(b, &v); err != nil {
			hkit.EngineError("%v", err)
		}
		if v.Anomaly != "" {
			// once more, alone: a loaded machine must not turn into a verdict
			v = runCase(cs[j], grid, false)
		}
		if v.Anomaly != "" {
			anomalies = append(anomalies, v.Case+": "+v.Anomaly)
			continue
		}
		for _, c := range v.Classes {
			classes[c] = true
		}
		exchanges += v.Exchanges
		accepted += v.Accepted
		rejected += v.Rejected
		revisits += v.Revisits
		recs += v.Records
		unfetched += v.Unfetched
		incomplete = append(incomplete, v.Incomplete...)
		per = append(per, map[string]any{"case": v.Case, "exchanges": v.Exchanges, "accepted": v.Accepted, "rejected": v.Rejected, "revisits": v.Revisits, "unfetched": v.Unfetched, "wall_s": v.WallS})
		if len(samples) < 4 && v.Sample != nil {
			samples = append(samples, v.Sample)
		}
		for _, vi := range v.Violations {
			if seen[vi.Sig] {
				continue
			}
			seen[vi.Sig] = true
			hkit.Report(propID, vi.Sig, map[string]any{"engine": "e2e", "harness": "c02b", "case": cs[j], "violation": vi}, fmt.Sprintf("%s: %s", v.Case, vi.Detail))
		}
	}
	if len(samples) == 0 {
		samples = append(samples, "no case produced a sample")
	}
	hkit.Evidence(propID, a.Tier, "fault_enumeration", map[string]any{
		"evaluations": exchanges, "distinct_nontrivial": len(classes),
		"rule":    "one evaluation = one response sent by the origin and judged against the WARC snapshot; distinct = distinct (status, kind, content-encoding, framing, size boundary) classes among them; every one is non-trivial (a full HTTP fetch through the real WARC-writing client)",
		"samples": samples, "exhaustive": len(anomalies) == 0, "cases": len(cs), "configurations": len(configs(a.Tier)), "grid_items": len(grid),
		"accepted_responses": accepted, "rejected_responses": rejected, "revisit_records": revisits, "records_read": recs, "responses_never_requested": unfetched, "responses_cut_by_the_client": incomplete,
		"per_case": per, "anomalies": anomalies,
		"explanation": "part B: boundary grid (sizes x kinds x encodings x framings x statuses) crawled by the real pipeline in a child process per case; snapshot of the WARC file sizes at the instant before the finisher's send to the source; files read up to the snapshot by an independent reader (harness/lib/e2e/warcread)",
	}, []string{
		"goroutine schedules inside a child are whatever the OS gives; they are not enumerated here (part A carries the schedule quantifier)",
		"whether the discard policy rejects a response is decided by the harness from the case's --warc-discard-status list and the cf-mitigated header of the response the origin sent, never by asking Zeno's hook chain",
		"the finish instant is the instrumented point before the finisher's send on sourceFinishedCh; files are append-only, so reading them later up to the recorded size shows exactly what was on disk then",
		"max-retry 1 (retry 0 sleeps 0 s); the grid page is split over several seed pages per configuration, classes sharing a payload stay on one page",
	}, hkit.Violations())
	fmt.Printf("C02 %s (part B): %d cases, %d responses judged (%d accepted, %d rejected, %d revisit records), %d distinct classes, %d anomalies\n", a.Tier, len(cs), exchanges, accepted, rejected, revisits, len(classes), len(anomalies))
	if len(anomalies) > 0 {
		for _, s := range anomalies {
			fmt.Fprintln(os.Stderr, "anomaly:", s)
		}
		if hkit.Violations() == 0 {
			hkit.EngineError("%d cases could not be judged (the crawl did not run to its end twice)", len(anomalies))
		}
	}
	hkit.Exit()
}

func replay(path string, grid []item) {
	b, err := os.ReadFile(path)
	if err != nil {
		hkit.EngineError("%v", err)
	}
	var r struct {
		Case      caseSpec  `json:"case"`
		Violation violation `json:"violation"`
	}
	if err := json.Unmarshal(b, &r); err != nil {
		hkit.EngineError("%v", err)
	}
	v := runCase(r.Case, grid, os.Getenv("VERIF_KEEP") != "")
	if v.Anomaly != "" {
		hkit.EngineError("replay could not be judged: %s", v.Anomaly)
	}
	sort.Slice(v.Violations, func(i, j int) bool { return v.Violations[i].Sig < v.Violations[j].Sig })
	hit := false
	for _, vi := range v.Violations {
		fmt.Printf("replay: [sig=%s] %s\n", vi.Sig, vi.Detail)
		if vi.Sig == r.Violation.Sig {
			hit = true
		}
	}
	if len(v.Violations) == 0 {
		fmt.Println("replay: no violation")
		os.Exit(0)
	}
	if !hit {
		fmt.Printf("replay: the recorded signature %s did not recur, others did\n", r.Violation.Sig)
	}
	fmt.Printf("VIOLATION property=%s replay=%s\n", propID, path)
	os.Exit(1)
}
