package main

import (
	"fmt"
	"sort"
	"strings"
)

// op is one call on the reactor as observed by the harness.
type op struct {
	Thread string `json:"thread"`
	Seq    int    `json:"seq"` // program order within the thread
	Kind   string `json:"kind"`
	ID     string `json:"id,omitempty"`
	Inv    int    `json:"inv"` // scheduler step at invocation
	Ret    int    `json:"ret"` // scheduler step at return (-1 = pending)
	Res    string `json:"res"`
}

// spec is the sequential specification of the reactor.
type spec struct {
	tracked map[string]bool
	cap     int
	frozen  bool
	stopped bool
}

func (s *spec) clone() *spec {
	c := &spec{tracked: map[string]bool{}, cap: s.cap, frozen: s.frozen, stopped: s.stopped}
	for k := range s.tracked {
		c.tracked[k] = true
	}
	return c
}

// apply returns the set of results the specification allows for o in s and
// the successor state per result; ok=false when o cannot take effect here
// (an insert that must wait for a token).
func (s *spec) apply(o *op) (results map[string]*spec) {
	results = map[string]*spec{}
	switch o.Kind {
	case "insert":
		if s.stopped {
			// stopping also cancels the freeze context: any rejection is right
			results["shutting-down"] = s
			results["not-initialized"] = s
			results["frozen"] = s
			return
		}
		if s.frozen {
			results["frozen"] = s
			return
		}
		if len(s.tracked) < s.cap && !s.tracked[o.ID] {
			n := s.clone()
			n.tracked[o.ID] = true
			results["ok"] = n
		}
		// otherwise the call blocks: no result here
	case "feedback":
		if s.stopped {
			results["shutting-down"] = s
			results["not-initialized"] = s
			results["frozen"] = s
		}
		if s.frozen {
			results["frozen"] = s
		}
		if !s.tracked[o.ID] {
			results["not-present"] = s
		}
		if !s.stopped && !s.frozen && s.tracked[o.ID] {
			results["ok"] = s
		}
	case "finish":
		if s.tracked[o.ID] {
			n := s.clone()
			delete(n.tracked, o.ID)
			results["ok"] = n
		} else {
			results["not-found"] = s
			if s.stopped {
				results["not-initialized"] = s
			}
		}
		if s.stopped {
			results["not-initialized"] = s
		}
	case "freeze":
		n := s.clone()
		n.frozen = true
		results["done"] = n
	case "stop":
		n := s.clone()
		n.stopped = true
		results["done"] = n
	}
	return
}

func (s *spec) key() string {
	ks := make([]string, 0, len(s.tracked))
	for k := range s.tracked {
		ks = append(ks, k)
	}
	sort.Strings(ks)
	return fmt.Sprintf("%s|%v|%v", strings.Join(ks, ","), s.frozen, s.stopped)
}

// linearizable searches for a sequential order of the completed operations
// (pending ones may take effect or not) that respects real-time order and
// program order and gives every completed operation its observed result.
// It returns the final specification states reachable (for the accounting check).
func linearizable(ops []*op, cap int) (bool, []*spec) {
	n := len(ops)
	// before[i][j]: i must be linearized before j
	before := make([][]bool, n)
	for i := range before {
		before[i] = make([]bool, n)
		for j := range ops {
			if i == j {
				continue
			}
			if ops[i].Ret >= 0 && ops[i].Ret < ops[j].Inv {
				before[i][j] = true
			}
			if ops[i].Thread == ops[j].Thread && ops[i].Seq < ops[j].Seq {
				before[i][j] = true
			}
		}
	}
	seen := map[string]bool{}
	var finals []*spec
	var rec func(done uint64, s *spec) bool
	found := false
	rec = func(done uint64, s *spec) bool {
		k := fmt.Sprintf("%d|%s", done, s.key())
		if seen[k] {
			return false
		}
		seen[k] = true
		all := true
		for i := 0; i < n; i++ {
			if done&(1<<uint(i)) == 0 && ops[i].Ret >= 0 {
				all = false
			}
		}
		if all {
			// every completed op placed; pending ones may be dropped
			found = true
			finals = append(finals, s)
		}
		for i := 0; i < n; i++ {
			if done&(1<<uint(i)) != 0 {
				continue
			}
			ready := true
			for j := 0; j < n; j++ {
				if before[j][i] && done&(1<<uint(j)) == 0 {
					// a pending predecessor may be skipped only if it is pending
					if ops[j].Ret >= 0 {
						ready = false
						break
					}
				}
			}
			if !ready {
				continue
			}
			for res, ns := range s.apply(ops[i]) {
				if ops[i].Ret >= 0 && res != ops[i].Res {
					continue
				}
				rec(done|1<<uint(i), ns)
			}
		}
		return false
	}
	rec(0, &spec{tracked: map[string]bool{}, cap: cap})
	return found, finals
}
