// Harness for C12: the real reactor under the controlled scheduler.
package main

import (
	"encoding/json"
	"fmt"
	"os"
	"sort"
	"strings"
	"sync"
	"time"

	"github.com/internetarchive/Zeno/internal/pkg/config"
	"github.com/internetarchive/Zeno/internal/pkg/reactor"
	"github.com/internetarchive/Zeno/internal/verif/vrt/hkit"
	"github.com/internetarchive/Zeno/internal/verif/vrt/vsched"
	"github.com/internetarchive/Zeno/pkg/models"
)

// The same harness is part B of C16 (harness/c16b/main.go is a link to this file): there only the
// variants with a second caller on the same seed are run and the clause judged is C16's "after the
// queue drains the reactor tracks no seed and all tokens are free".
var (
	propID      = "C12"
	harnessName = "c12"
	drainMode   = false
)

func init() {
	if os.Getenv("VERIF_HARNESS") == "c16b" || os.Getenv("VERIF_PART") == "c16b" {
		propID, harnessName, drainMode = "C16", "c16b", true
	}
}

type variant struct {
	Name     string
	Tokens   int
	Freeze   bool
	Stop     bool // Stop() issued while calls may still be in flight
	StopRest bool // Stop() issued once producers and consumer are at rest, then late calls
	Extra    bool // consumer also issues feedback(unknown) and a repeated finish
	// Dup: when the consumer finishes seed "a", a second caller issues this call for the same seed
	// at the same time ("finish" = a concurrent repeated finish, "feedback" = a feedback racing the finish)
	Dup string
	// PBonus: preemptions on top of the tier's bound (the two-caller races need two: one to let the
	// second caller start, one to bring the first back between the second's two steps)
	PBonus int
	// ByID: the consumer finishes a seed with a freshly built item that carries the seed's ID (the reactor
	// tracks seeds by ID; which Go object carries the ID is not part of its contract)
	ByID bool
	// Unread: the output channel is unbuffered and the consumer leaves after Unread items (the stage behind
	// the reactor was stopped first): the run loop is left holding a seed nobody takes when Stop() comes
	Unread   int
	Inserts1 []string
	Inserts2 []string
}

// world is the per-execution observation record.
type world struct {
	mu       sync.Mutex
	ops      []*op
	seq      map[string]int
	inflight int
	received []string
	finished int
	out      chan *models.Item
	quit     chan struct{}
	prodWG   sync.WaitGroup
	consWG   sync.WaitGroup
	v        variant
}

func (w *world) call(thread, kind, id string, f func() error) string {
	x := vsched.Cur()
	w.mu.Lock()
	o := &op{Thread: thread, Seq: w.seq[thread], Kind: kind, ID: id, Inv: x.StepIndex(), Ret: -1}
	w.seq[thread]++
	w.ops = append(w.ops, o)
	w.inflight++
	w.mu.Unlock()
	err := f()
	res := classify(kind, err)
	w.mu.Lock()
	o.Res = res
	o.Ret = x.StepIndex()
	w.inflight--
	w.mu.Unlock()
	return res
}

func classify(kind string, err error) string {
	switch err {
	case nil:
		if kind == "freeze" || kind == "stop" {
			return "done"
		}
		return "ok"
	case reactor.ErrReactorFrozen:
		return "frozen"
	case reactor.ErrReactorShuttingDown:
		return "shutting-down"
	case reactor.ErrReactorNotInitialized:
		return "not-initialized"
	case reactor.ErrFeedbackItemNotPresent:
		return "not-present"
	case reactor.ErrFinisehdItemNotFound:
		return "not-found"
	}
	return "error:" + err.Error()
}

func newItem(id string) *models.Item {
	return models.NewItem(id, &models.URL{Raw: "http://site.example/" + id}, "")
}

func scenario(v variant) *vsched.Scenario {
	var w *world
	sc := &vsched.Scenario{Name: v.Name}
	sc.Setup = func(x *vsched.Exec) {
		reactor.VerifReset()
		config.VerifSet(&config.Config{NoStdoutLogging: true, NoStderrLogging: true, NoFileLogging: true})
		outCap := v.Tokens
		if v.Unread > 0 {
			outCap = 0
		}
		w = &world{seq: map[string]int{}, v: v, out: make(chan *models.Item, outCap), quit: make(chan struct{})}
		x.Data = w
	}
	sc.Body = func() {
		if err := reactor.Start(v.Tokens, w.out); err != nil {
			panic(err)
		}
		producer := func(name string, ids []string) {
			defer w.prodWG.Done()
			for _, id := range ids {
				it := newItem(id)
				w.call(name, "insert", id, func() error { return reactor.ReceiveInsert(it) })
			}
		}
		if len(v.Inserts1) > 0 {
			w.prodWG.Add(1)
			go producer("p1", v.Inserts1)
		}
		if len(v.Inserts2) > 0 {
			w.prodWG.Add(1)
			go producer("p2", v.Inserts2)
		}
		w.consWG.Add(1)
		go consumer(w)
		if v.Freeze || v.Stop || v.StopRest {
			go func() {
				if v.Freeze {
					w.call("ctl", "freeze", "", func() error { reactor.Freeze(); return nil })
				}
				if v.Stop {
					w.call("ctl", "stop", "", func() error { reactor.Stop(); return nil })
				}
				if v.StopRest {
					// Zeno's own order: sources and finisher are stopped first
					w.prodWG.Wait()
					close(w.quit)
					w.consWG.Wait()
					w.call("ctl", "stop", "", func() error { reactor.Stop(); return nil })
					late := newItem("late")
					w.call("ctl", "insert", "late", func() error { return reactor.ReceiveInsert(late) })
					w.call("ctl", "feedback", "a", func() error { return reactor.ReceiveFeedback(newItem("a")) })
					w.call("ctl", "finish", "a", func() error { return reactor.MarkAsFinished(newItem("a")) })
				}
			}()
		}
	}
	sc.Idle = func(p string) bool {
		return strings.Contains(p, "recv w.out") || strings.Contains(p, "reactor.go") && strings.Contains(p, "recv r.input")
	}
	sc.AtStep = func(x *vsched.Exec) error {
		// (2) whenever no call is in flight the tokens in use equal the tracked seeds. An insert that is parked
		// waiting for a token (every token is in use) has not been accepted: it counts as not in flight
		waiting := 0
		for _, t := range x.ParkedThreads() {
			if strings.Contains(t.Point, "select") && strings.Contains(t.Point, "send globalReactor.tokenPool") && !t.Enabled {
				waiting++
			}
		}
		if w.inflight == waiting && reactor.VerifAlive() {
			if a, b := reactor.VerifTokens(), reactor.VerifTracked(); a != b {
				if waiting > 0 {
					return fmt.Errorf("at rest: %d tokens in use but %d seeds tracked while %d insert(s) wait for a token: a seed is tracked before it is accepted", a, b, waiting)
				}
				return fmt.Errorf("at rest: %d tokens in use but %d seeds tracked", a, b)
			}
		}
		// (3) feeding a tracked seed back never blocks
		for _, t := range x.ParkedThreads() {
			if strings.Contains(t.Point, "select") && strings.Contains(t.Point, "send globalReactor.input") && !t.Enabled {
				return fmt.Errorf("feedback blocked: thread %s is disabled at %s", t.Name, t.Point)
			}
		}
		return nil
	}
	sc.AtEnd = func(x *vsched.Exec) error { return oracle(x, w) }
	sc.Outcome = func(x *vsched.Exec) string {
		var parts []string
		for _, o := range w.ops {
			parts = append(parts, fmt.Sprintf("%s:%s(%s)=%s", o.Thread, o.Kind, o.ID, o.Res))
		}
		sort.Strings(parts)
		return strings.Join(parts, " ") + fmt.Sprintf(" recv=%d", len(w.received))
	}
	sc.Horizon = time.Minute
	sc.Signature = func(vio *vsched.Violation) string {
		if v.Stop {
			if sg := signature(vio); sg != "" {
				return sg
			}
		}
		return vsched.DefaultSignature(vio)
	}
	sc.KnownSig = func(sig string) bool { return hkit.IsListed(propID, sig) }
	return sc
}

// bulkScenario: "feeding a tracked seed back never blocks" for a large token count. n seeds are
// inserted and taken by the consumer, which then feeds every one of them back while nobody reads the
// output (capacity 1): the reactor must have room for all of them. One schedule (the canonical one).
func bulkScenario(n int) *vsched.Scenario {
	var fedBack, finished int
	var out chan *models.Item
	sc := &vsched.Scenario{Name: fmt.Sprintf("t%d-bulk-feedback-without-reader", n)}
	sc.Setup = func(x *vsched.Exec) {
		reactor.VerifReset()
		config.VerifSet(&config.Config{NoStdoutLogging: true, NoStderrLogging: true, NoFileLogging: true})
		fedBack, finished = 0, 0
		out = make(chan *models.Item, 1)
	}
	sc.Body = func() {
		if err := reactor.Start(n, out); err != nil {
			panic(err)
		}
		go func() { // producer
			for i := 0; i < n; i++ {
				if err := reactor.ReceiveInsert(newItem(fmt.Sprintf("s%d", i))); err != nil {
					panic(err)
				}
			}
		}()
		go func() { // consumer
			items := make([]*models.Item, 0, n)
			for len(items) < n {
				items = append(items, <-out)
			}
			for _, it := range items { // nobody reads the output now
				if err := reactor.ReceiveFeedback(it); err != nil {
					panic(err)
				}
				fedBack++
			}
			for i := 0; i < n; i++ {
				it := <-out
				if err := reactor.MarkAsFinished(it); err != nil {
					panic(err)
				}
				finished++
			}
		}()
	}
	sc.Idle = func(p string) bool { return strings.Contains(p, "reactor.go") && strings.Contains(p, "recv r.input") }
	sc.OKEnds = []string{vsched.EndQuiescent, vsched.EndDeadlock, vsched.EndDone}
	sc.AtEnd = func(x *vsched.Exec) error {
		if fedBack != n {
			return fmt.Errorf("feedback-blocks: with %d tokens only %d of %d tracked seeds could be fed back while the output was not read; blocked: %s", n, fedBack, n, strings.Join(x.Blocked(), "; "))
		}
		if finished != n || reactor.VerifTokens() != 0 || reactor.VerifTracked() != 0 {
			return fmt.Errorf("bulk: %d of %d finished, %d tokens in use, %d tracked", finished, n, reactor.VerifTokens(), reactor.VerifTracked())
		}
		return nil
	}
	sc.Horizon = time.Minute
	sc.Signature = func(v *vsched.Violation) string {
		if i := strings.IndexByte(v.Message, ':'); i > 0 && v.Kind != "crash" {
			return v.Message[:i]
		}
		return vsched.DefaultSignature(v)
	}
	sc.KnownSig = func(sig string) bool { return hkit.IsListed(propID, sig) }
	return sc
}

// redeliverScenario: a source delivers a seed again while the reactor may still track it (another object, the same
// ID). The reactor may accept it (the first one was finished meanwhile), or refuse it - fail-stop (a panic: nothing
// goes on running on this pool) or with an error - but a refused insert must not keep the token it took. Three
// threads: the producer (a, then a again), a second producer (b), the consumer that finishes what it receives.
var realStdout = os.Stdout

func redeliverScenario(tokens int) *vsched.Scenario {
	var w *world
	var failStop bool
	sc := &vsched.Scenario{Name: fmt.Sprintf("t%d-seed-delivered-again", tokens)}
	sc.Setup = func(x *vsched.Exec) {
		reactor.VerifReset()
		config.VerifSet(&config.Config{NoStdoutLogging: true, NoStderrLogging: true, NoFileLogging: true})
		w = &world{seq: map[string]int{}, out: make(chan *models.Item, tokens+1), quit: make(chan struct{})}
		failStop = false
		os.Stdout = realStdout // a call left parked at the end of the last execution never put it back
		x.Data = w
	}
	guarded := func(thread, id string) string {
		it := newItem(id)
		return w.call(thread, "insert", id, func() (err error) {
			if null, e := os.OpenFile(os.DevNull, os.O_WRONLY, 0); e == nil {
				os.Stdout = null // the refusal dumps both items
				defer func() { os.Stdout = realStdout; null.Close() }()
			}
			defer func() {
				if r := recover(); r != nil {
					failStop = true
					err = fmt.Errorf("panic: %v", r)
				}
			}()
			return reactor.ReceiveInsert(it)
		})
	}
	sc.Body = func() {
		if err := reactor.Start(tokens, w.out); err != nil {
			panic(err)
		}
		go func() { guarded("p1", "a"); guarded("p1", "a") }()
		go func() { guarded("p2", "b") }()
		go func() { // consumer
			for {
				it := <-w.out
				w.call("cons", "finish", it.GetID(), func() error { return reactor.MarkAsFinished(it) })
			}
		}()
	}
	sc.Idle = func(p string) bool {
		return strings.Contains(p, "recv w.out") || strings.Contains(p, "reactor.go") && strings.Contains(p, "recv r.input")
	}
	sc.OKEnds = []string{vsched.EndQuiescent, vsched.EndDeadlock, vsched.EndDone}
	rest := func(x *vsched.Exec) error {
		if failStop || !reactor.VerifAlive() {
			return nil
		}
		waiting := 0
		for _, t := range x.ParkedThreads() {
			if strings.Contains(t.Point, "select") && strings.Contains(t.Point, "send globalReactor.tokenPool") && !t.Enabled {
				waiting++
			}
		}
		if a, b := reactor.VerifTokens(), reactor.VerifTracked(); w.inflight == waiting && a != b {
			var h []string
			for _, o := range w.ops {
				h = append(h, fmt.Sprintf("%s:%s(%s)=%s", o.Thread, o.Kind, o.ID, o.Res))
			}
			return fmt.Errorf("refused-insert-keeps-a-token: at rest %d tokens in use but %d seeds tracked after %s", a, b, strings.Join(h, " "))
		}
		return nil
	}
	sc.AtStep = rest
	sc.AtEnd = func(x *vsched.Exec) error {
		if err := rest(x); err != nil || failStop {
			return err
		}
		if w.inflight != 0 {
			return fmt.Errorf("call-blocked: %d calls never returned although nothing was refused; blocked: %s", w.inflight, strings.Join(x.Blocked(), "; "))
		}
		return nil
	}
	sc.Outcome = func(x *vsched.Exec) string {
		var parts []string
		for _, o := range w.ops {
			parts = append(parts, fmt.Sprintf("%s:%s(%s)=%s", o.Thread, o.Kind, o.ID, strings.SplitN(o.Res, ":", 3)[0]))
		}
		sort.Strings(parts)
		return strings.Join(parts, " ")
	}
	sc.Horizon = time.Minute
	sc.Signature = func(v *vsched.Violation) string {
		if i := strings.IndexByte(v.Message, ':'); i > 0 && v.Kind != "crash" {
			return v.Message[:i]
		}
		return vsched.DefaultSignature(v)
	}
	sc.KnownSig = func(sig string) bool { return hkit.IsListed(propID, sig) }
	return sc
}

var redeliverTokens = []int{2, 3}

var bulkTokens = []int{1000, 10000} // 10 000 tokens = ~110 k scheduler steps (the engine stops an execution at 200 k)

func consumer(w *world) {
	seen := map[string]int{}
	extra := w.v.Extra
	defer w.consWG.Done()
	for n := 0; ; n++ {
		if w.v.Unread > 0 && n == w.v.Unread-1 {
			return
		}
		var it *models.Item
		select {
		case it = <-w.out:
		case <-w.quit:
			return
		}
		id := it.GetID()
		w.mu.Lock()
		w.received = append(w.received, id)
		w.mu.Unlock()
		seen[id]++
		if seen[id] == 1 {
			res := w.call("cons", "feedback", id, func() error { return reactor.ReceiveFeedback(it) })
			if res == "ok" {
				continue
			}
			// a frozen/stopped reactor refused the feedback: like the finisher, drop it
			continue
		}
		var dupDone chan struct{}
		if w.v.Dup != "" && id == "a" {
			dupDone = make(chan struct{})
			go func() { // dup
				if w.v.Dup == "finish" {
					w.call("dup", "finish", id, func() error { return reactor.MarkAsFinished(it) })
				} else {
					w.call("dup", "feedback", id, func() error { return reactor.ReceiveFeedback(it) })
				}
				close(dupDone)
			}()
		}
		fin := it
		if w.v.ByID {
			fin = newItem(id)
		}
		fres := w.call("cons", "finish", id, func() error { return reactor.MarkAsFinished(fin) })
		if dupDone != nil {
			<-dupDone
		}
		if fres == "ok" || w.v.Dup == "" {
			w.mu.Lock()
			w.finished++
			w.mu.Unlock()
		}
		if extra {
			extra = false
			w.call("cons", "finish", id, func() error { return reactor.MarkAsFinished(it) })
			unk := newItem("unknown")
			w.call("cons", "feedback", "unknown", func() error { return reactor.ReceiveFeedback(unk) })
		}
	}
}

func oracle(x *vsched.Exec, w *world) error {
	// (1) linearizability against the sequential specification
	ok, finals := linearizable(w.ops, w.v.Tokens)
	if !ok {
		b, _ := json.Marshal(w.ops)
		return fmt.Errorf("history is not linearizable against the reactor specification: %s", b)
	}
	// (2) at the end (no call in flight, or only blocked ones) the accounting matches some final spec state
	if reactor.VerifAlive() && w.inflight == 0 {
		tok, trk := reactor.VerifTokens(), reactor.VerifTracked()
		match := false
		for _, f := range finals {
			if len(f.tracked) == tok && tok == trk {
				match = true
			}
		}
		if !match {
			return fmt.Errorf("accounting: tokens=%d tracked=%d match no final state of the specification", tok, trk)
		}
	}
	// (4) every accepted insert and feedback reached the output while the consumer was reading
	accepted := 0
	for _, o := range w.ops {
		if (o.Kind == "insert" || o.Kind == "feedback") && o.Res == "ok" {
			accepted++
		}
	}
	if !w.v.Stop && !w.v.Freeze && !w.v.StopRest {
		if len(w.received) != accepted {
			return fmt.Errorf("output: %d accepted inserts+feedbacks but the consumer received %d items", accepted, len(w.received))
		}
		want := len(w.v.Inserts1) + len(w.v.Inserts2)
		fin := map[string]bool{}
		for _, o := range w.ops {
			if o.Kind == "finish" && o.Res == "ok" {
				fin[o.ID] = true
			}
		}
		if len(fin) != want {
			return fmt.Errorf("liveness: %d of %d seeds finished at quiescence", len(fin), want)
		}
	} else if !w.v.Stop && !w.v.StopRest {
		// frozen, never stopped: the run loop keeps draining, nothing accepted may be lost
		if len(w.received)+reactor.VerifInputLen() != accepted {
			return fmt.Errorf("output: %d accepted but %d received and %d buffered", accepted, len(w.received), reactor.VerifInputLen())
		}
	}
	return nil
}

func variants(tier string) []variant {
	vs := []variant{
		{Name: "t1-three-seeds", Tokens: 1, Extra: true, Inserts1: []string{"a", "b"}, Inserts2: []string{"c"}},
		{Name: "t2-three-seeds", Tokens: 2, Extra: true, Inserts1: []string{"a", "b"}, Inserts2: []string{"c"}},
		{Name: "t2-concurrent-repeated-finish", Tokens: 2, Dup: "finish", PBonus: 1, Inserts1: []string{"a", "b"}},
		{Name: "t2-feedback-racing-finish", Tokens: 2, Dup: "feedback", PBonus: 1, Inserts1: []string{"a", "b"}},
		{Name: "t2-finish-by-id", Tokens: 2, ByID: true, Inserts1: []string{"a", "b"}, Inserts2: []string{"c"}},
		{Name: "t1-freeze", Tokens: 1, Freeze: true, Inserts1: []string{"a", "b"}, Inserts2: []string{"c"}},
		{Name: "t2-freeze", Tokens: 2, Freeze: true, Inserts1: []string{"a", "b"}, Inserts2: []string{"c"}},
		{Name: "t1-freeze-rest-stop-late-calls", Tokens: 1, Freeze: true, StopRest: true, Inserts1: []string{"a"}, Inserts2: []string{"b"}},
		{Name: "t2-freeze-rest-stop-late-calls", Tokens: 2, Freeze: true, StopRest: true, Inserts1: []string{"a", "b"}, Inserts2: []string{"c"}},
		{Name: "t2-rest-stop-output-unread", Tokens: 2, StopRest: true, Unread: 1, Inserts1: []string{"a", "b"}},
		{Name: "t2-freeze-rest-stop-output-unread", Tokens: 2, Freeze: true, StopRest: true, Unread: 1, Inserts1: []string{"a"}, Inserts2: []string{"b"}},
		{Name: "t2-rest-stop-output-read-once", Tokens: 2, StopRest: true, Unread: 2, Inserts1: []string{"a", "b"}},
		{Name: "t1-stop-overlapping-calls", Tokens: 1, Freeze: true, Stop: true, Inserts1: []string{"a"}, Inserts2: []string{"b"}},
	}
	return vs
}

func main() {
	a := hkit.ParseArgs()
	P, K := 1, 2
	maxWall := 90 * time.Second
	if a.Tier == "thorough" {
		P, K = 2, 4
		maxWall = 25 * time.Minute
	}
	if v, ok := a.Extra["p"]; ok {
		fmt.Sscanf(v, "%d", &P)
	}
	if v, ok := a.Extra["k"]; ok {
		fmt.Sscanf(v, "%d", &K)
	}
	vs := variants(a.Tier)
	if drainMode {
		var f []variant
		for _, v := range vs {
			if v.Dup != "" {
				f = append(f, v)
			}
		}
		vs = f
		bulkTokens, redeliverTokens = nil, nil
	}
	if o, ok := a.Extra["only"]; ok {
		var f []variant
		for _, v := range vs {
			if strings.Contains(v.Name, o) {
				f = append(f, v)
			}
		}
		vs = f
		bulkTokens, redeliverTokens = nil, nil
	}
	if a.Replay != "" {
		replay(a.Replay, vs)
		return
	}
	if a.Of > 1 {
		// shard worker: variant = shard / K, frontier sub-shard = shard % K
		v := vs[a.Shard/K]
		sc := scenario(v)
		rep := vsched.Explore(sc, vsched.Bounds{P: P + v.PBonus, F: 0, MaxWall: maxWall, Shard: a.Shard % K, Of: K})
		hkit.EmitShardResult(rep)
		return
	}
	// the reactor is a singleton that can be started again after Stop(): three lives in a row, ended by the real
	// Stop(), must answer the same calls in the same way (every exploration below starts from VerifReset, which
	// forgets exactly what Stop() forgets: state that survives it would make the executions depend on each other)
	if !drainMode && a.Extra["only"] == "" {
		if msg := lives(); msg != "" {
			hkit.Report(propID, "later-life-differs", map[string]any{"engine": "explore", "harness": harnessName, "lives": msg}, msg)
			hkit.Evidence(propID, a.Tier, "model_checking", map[string]any{"states": 0, "transitions": 0, "traces_validated_against_impl": 3, "exhaustive": false,
				"explanation": "three consecutive lives of the reactor singleton differ: the explorations, which need independent executions, were not run"}, nil, hkit.Violations())
			fmt.Printf(propID+" %s: the lives of the singleton differ, explorations not run\n", a.Tier)
			hkit.Exit()
		}
	}
	for _, v := range vs {
		if err := vsched.DeterminismCheck(scenario(v)); err != nil {
			hkit.EngineError("%v", err)
		}
	}
	shardArgs := []string{fmt.Sprintf("--p=%d", P), fmt.Sprintf("--k=%d", K)}
	if o, ok := a.Extra["only"]; ok {
		shardArgs = append(shardArgs, "--only="+o)
	}
	outs := hkit.Shards(len(vs)*K, shardArgs...)
	total := &vsched.Report{Exhaustive: true}
	var per []map[string]any
	seenSig := map[string]bool{}
	for _, n := range bulkTokens {
		sc := bulkScenario(n)
		r := vsched.Explore(sc, vsched.Bounds{P: 0, F: 0, MaxWall: maxWall})
		per = append(per, map[string]any{"scenario": r.Scenario, "executions": r.Executions, "states": r.States, "transitions": r.Transitions, "ends": r.Ends, "exhaustive": r.Exhaustive, "wall_s": r.WallS})
		for _, v := range r.Violations {
			v := v
			if err := vsched.Confirm(bulkScenario(n), &v); err != nil {
				hkit.EngineError("violation did not replay: %v", err)
			}
			hkit.Report(propID, v.Sig, map[string]any{"engine": "explore", "harness": harnessName, "bulk_tokens": n, "violation": v}, fmt.Sprintf("%s: %s: %s", r.Scenario, v.Kind, firstLine(v.Message)))
		}
		r.Sample = nil
		total.Merge(r)
	}
	for _, n := range redeliverTokens {
		if err := vsched.DeterminismCheck(redeliverScenario(n)); err != nil {
			hkit.EngineError("%v", err)
		}
		r := vsched.Explore(redeliverScenario(n), vsched.Bounds{P: P + 1, F: 0, MaxWall: maxWall})
		per = append(per, map[string]any{"scenario": r.Scenario, "executions": r.Executions, "states": r.States, "transitions": r.Transitions, "distinct_outcomes": len(r.Outcomes), "outcomes": vsched.SortedKeys(r.Outcomes), "ends": r.Ends, "exhaustive": r.Exhaustive, "wall_s": r.WallS})
		for _, v := range r.Violations {
			v := v
			if err := vsched.Confirm(redeliverScenario(n), &v); err != nil {
				hkit.EngineError("violation did not replay: %v", err)
			}
			hkit.Report(propID, v.Sig, map[string]any{"engine": "explore", "harness": harnessName, "redeliver_tokens": n, "violation": v}, fmt.Sprintf("%s: %s: %s", r.Scenario, v.Kind, firstLine(v.Message)))
			break
		}
		os.Stdout = realStdout
		r.Sample = nil
		total.Merge(r)
	}
	for i, b := range outs {
		var r vsched.Report
		hkit.ShardResult(b, &r)
		per = append(per, map[string]any{"scenario": r.Scenario, "executions": r.Executions, "pruned": r.Pruned, "states": r.States,
			"transitions": r.Transitions, "distinct_outcomes": len(r.Outcomes), "ends": r.Ends, "exhaustive": r.Exhaustive, "cap_hit": r.CapHit, "wall_s": r.WallS})
		for _, v := range r.Violations {
			if v.Sig != "" && seenSig[vs[i/K].Name+v.Sig] {
				continue
			}
			seenSig[vs[i/K].Name+v.Sig] = true
			handleViolation(vs[i/K], &v)
		}
		total.Merge(&r)
	}
	sample := total.Sample
	if len(sample) > 40 {
		sample = sample[:40]
	}
	hkit.Evidence(propID, a.Tier, "model_checking", map[string]any{
		"states": total.States, "transitions": total.Transitions, "traces_validated_against_impl": total.Executions,
		"samples": []any{sample}, "exhaustive": total.Exhaustive, "preemption_bound": P,
		"distinct_outcomes": len(total.Outcomes), "pruned_by_state_cache": total.Pruned, "scenarios": per,
		"explanation": "stateless DFS over the real reactor under the controlled scheduler; states = distinct happens-before fingerprints; every execution is on the implementation",
	}, []string{
		"scheduling points at channel operations, sync.Map/WaitGroup/Once operations and context cancellation of internal/pkg/reactor (instrumented from the working tree)",
		"sync.Map.Range iterates in insertion order",
		"state cache: two prefixes with equal happens-before fingerprints have equal futures",
	}, hkit.Violations())
	fmt.Printf(propID+" %s"+map[bool]string{true: " (part B)", false: ""}[drainMode]+": %d executions, %d states, %d transitions, %d outcomes, exhaustive=%v\n", a.Tier, total.Executions, total.States, total.Transitions, len(total.Outcomes), total.Exhaustive)
	hkit.Exit()
}

func signature(v *vsched.Violation) string {
	m := v.Message
	switch {
	case v.Kind == "crash" && strings.Contains(m, "send on closed channel"):
		return "stop-overlapping-call-send-on-closed-input"
	case v.Kind == "crash" && strings.Contains(m, "nil pointer"):
		return "stop-overlapping-call-nil-reactor"
	}
	return ""
}

func handleViolation(v variant, vio *vsched.Violation) {
	sc := scenario(v)
	if err := vsched.Confirm(sc, vio); err != nil {
		hkit.EngineError("violation did not replay: %v", err)
	}
	sig := vio.Sig
	hkit.Report(propID, sig, map[string]any{"engine": "explore", "harness": harnessName, "variant": v, "violation": vio},
		fmt.Sprintf("%s: %s: %s", v.Name, vio.Kind, firstLine(vio.Message)))
}

func firstLine(s string) string {
	if i := strings.IndexByte(s, '\n'); i > 0 {
		s = s[:i]
	}
	if len(s) > 600 {
		s = s[:600]
	}
	return s
}

// lives runs the same short history in three consecutive lives of the singleton (plain goroutines, no scheduler) and
// returns a description of the first call that answers differently in a later life ("" = none).
func lives() string {
	reactor.VerifReset()
	config.VerifSet(&config.Config{NoStdoutLogging: true, NoStderrLogging: true, NoFileLogging: true})
	var first []string
	for life := 1; life <= 3; life++ {
		var got []string
		out := make(chan *models.Item, 1)
		if err := reactor.Start(1, out); err != nil {
			return fmt.Sprintf("life %d: Start: %v", life, err)
		}
		a := newItem(fmt.Sprintf("life%d-a", life))
		got = append(got, "insert(a)="+classify("insert", reactor.ReceiveInsert(a)))
		select {
		case <-out:
			got = append(got, "a forwarded")
		case <-time.After(5 * time.Second):
			got = append(got, "a not forwarded")
		}
		reactor.Freeze()
		bounded := func(f func() error) string { // a call that does not return within 3 s is an answer too
			ch := make(chan string, 1)
			go func() { ch <- classify("insert", f()) }()
			select {
			case r := <-ch:
				return r
			case <-time.After(3 * time.Second):
				return "blocked"
			}
		}
		b := newItem(fmt.Sprintf("life%d-b", life))
		got = append(got, "frozen: insert(b)="+bounded(func() error { return reactor.ReceiveInsert(b) }))
		if got[len(got)-1] == "frozen: insert(b)=blocked" {
			return fmt.Sprintf("later-life-differs: life %d of the reactor singleton (Start after Stop): an insert after Freeze() blocks instead of being rejected (%v; first life: %v)", life, got, first)
		}
		got = append(got, "frozen: feedback(a)="+bounded(func() error { return reactor.ReceiveFeedback(a) }))
		got = append(got, "frozen: finish(a)="+bounded(func() error { return reactor.MarkAsFinished(a) }))
		got = append(got, fmt.Sprintf("tokens=%d tracked=%d", reactor.VerifTokens(), reactor.VerifTracked()))
		reactor.Stop()
		got = append(got, "stopped: insert(c)="+classify("insert", reactor.ReceiveInsert(newItem(fmt.Sprintf("life%d-c", life)))))
		if life == 1 {
			first = got
			continue
		}
		for i := range got {
			if got[i] != first[i] {
				return fmt.Sprintf("later-life-differs: life %d of the reactor singleton (Start after Stop): %q, in its first life: %q (whole lives: %v versus %v)", life, got[i], first[i], got, first)
			}
		}
	}
	return ""
}

func replay(path string, vs []variant) {
	b, err := os.ReadFile(path)
	if err != nil {
		hkit.EngineError("%v", err)
	}
	var r struct {
		Variant   variant          `json:"variant"`
		Bulk      int              `json:"bulk_tokens"`
		Redeliver int              `json:"redeliver_tokens"`
		Violation vsched.Violation `json:"violation"`
	}
	if err := json.Unmarshal(b, &r); err != nil {
		hkit.EngineError("%v", err)
	}
	sc := scenario(r.Variant)
	if r.Bulk > 0 {
		sc = bulkScenario(r.Bulk)
	}
	if r.Redeliver > 0 {
		sc = redeliverScenario(r.Redeliver)
	}
	v, x := vsched.Replay(sc, r.Violation.Choices)
	os.Stdout = realStdout
	if r.Bulk == 0 {
		for _, s := range x.Steps {
			fmt.Printf("  %-28s %-70s case=%d\n", s.Thread, s.Point, s.Case)
		}
	}
	if v == nil {
		fmt.Println("replay: no violation")
		os.Exit(0)
	}
	fmt.Printf("replay: %s: %s\n", v.Kind, v.Message)
	fmt.Printf("VIOLATION property=%s replay=%s\n", propID, path)
	os.Exit(1)
}
