// Harness for C02, part A: with synchronous WARC writing, every accepted
// response fetched for a seed is written before the seed's finish message,
// and no rejected response is written. Real pipeline under the controlled
// scheduler; the WARC write of each response is a separate scheduled thread
// started when the body is closed (as the library does per connection).
package main

import (
	"encoding/json"
	"fmt"
	"os"
	"sort"
	"strings"
	"time"

	"github.com/internetarchive/Zeno/internal/pkg/config"
	"github.com/internetarchive/Zeno/internal/verif/lib/world"
	"github.com/internetarchive/Zeno/internal/verif/vrt/hkit"
	"github.com/internetarchive/Zeno/internal/verif/vrt/vsched"
	"github.com/internetarchive/Zeno/pkg/models"
)

var (
	propID      = "C02"
	harnessName = "c02"
)

func init() {
	// part B of C04: the same harness judged for "every URL reported finished has its captures in the WARC files":
	// a kill at any step leaves the queue with the finish messages sent so far and the files with the records
	// written so far, so a finish message that precedes the write of an accepted response is a lost capture
	if os.Getenv("VERIF_HARNESS") == "c04b" || os.Getenv("VERIF_PART") == "c04b" {
		propID, harnessName = "C04", "c04b"
	}
}

type scen struct {
	Def world.SiteDef `json:"site"`
	Opt world.Options `json:"options"`
	P   int           `json:"p"`
	// Stop: a stop request (the real stop order) is a thread of the scenario: every deviation places it
	// somewhere in the run; a seed that is still reported finished around it must have its records written
	Stop bool `json:"stop,omitempty"`
	// TempDirGone: the temp dir (--warc-temp-dir) has vanished when the crawl starts: spooling a large text
	// body fails. A local fault costs the URL (it is reported failed); it must never be reported archived
	TempDirGone bool `json:"temp_dir_gone,omitempty"`
}

func (s *scen) name() string {
	n := fmt.Sprintf("%s w%d a%d", s.Def.Name, s.Opt.Workers, s.Opt.MaxConcurrentAssets)
	if s.Stop {
		n += " +stop"
	}
	if s.TempDirGone {
		n += " +temp-dir-gone"
	}
	if s.Opt.HTTPTimeout > 0 {
		n += fmt.Sprintf(" http-timeout=%ds", s.Opt.HTTPTimeout)
	}
	return n
}

func scenario(s *scen) *vsched.Scenario {
	var w *world.World
	sc := &vsched.Scenario{Name: s.name()}
	sc.Setup = func(x *vsched.Exec) {
		o := s.Opt
		o.Tmp = os.Getenv("VERIF_TMP")
		o.SlowWrites = true
		w = world.New(o, s.Def.Build())
		if s.TempDirGone {
			os.RemoveAll(config.Get().WARCTempDir)
		}
		x.Data = w
	}
	sc.Body = func() {
		w.Start()
		if s.Stop {
			go func() { // stop request: after the drain by default, every deviation moves it earlier
				vsched.Point("h:stop requested", nil)
				w.Stop()
			}()
		}
		for i, u := range s.Def.Seeds {
			if err := w.Insert(fmt.Sprintf("seed%d", i), u); err != nil {
				if s.Stop {
					return // frozen reactor
				}
				panic(err)
			}
		}
	}
	if !s.Stop {
		sc.Done = func(x *vsched.Exec) bool { return w.FinishedCount() >= len(s.Def.Seeds) }
	} else {
		sc.OKEnds = []string{vsched.EndQuiescent, vsched.EndDeadlock, vsched.EndDone, vsched.EndHorizon}
	}
	sc.Idle = world.IsIdlePoint
	sc.Horizon = 30 * time.Minute
	sc.DelayBounding = true
	sc.AtEnd = func(x *vsched.Exec) error { return oracle(s, w) }
	sc.Outcome = func(x *vsched.Exec) string {
		var parts []string
		for _, f := range w.Log {
			parts = append(parts, fmt.Sprintf("%s#%d:%d:%v", strings.TrimPrefix(f.URL, world.H), f.Attempt, f.Status, f.Written >= 0))
		}
		sort.Strings(parts)
		return strings.Join(parts, " ")
	}
	sc.Cleanup = func(x *vsched.Exec) { w.Cleanup() }
	sc.Signature = sig
	sc.KnownSig = func(sg string) bool { return hkit.IsListed(propID, sg) }
	return sc
}

// oracle: C02's ordering clause on one execution.
func oracle(s *scen, w *world.World) error {
	if len(w.Finished) != len(s.Def.Seeds) && !s.Stop {
		return fmt.Errorf("not-finished: %d of %d seeds finished", len(w.Finished), len(s.Def.Seeds))
	}
	// which seed owns which URL (reference trees; shared URLs are judged for whoever fetched them, at the end)
	owner := map[string]int{}
	shared := map[string]bool{}
	for i, u := range s.Def.Seeds {
		for k := range s.Def.Reference(u, s.Opt).Attempts {
			if _, ok := owner[k]; ok {
				shared[k] = true
			}
			owner[k] = i
		}
	}
	for _, f := range w.Log {
		if f.Status == 0 {
			continue // transport error: no response
		}
		// a response the discard policy rejects is never written
		if !f.Policy && f.Written >= 0 {
			return fmt.Errorf("rejected-written: the %d response of %s (attempt %d) is rejected by the discard policy but was written", f.Status, f.URL, f.Attempt)
		}
		if !f.Policy {
			continue
		}
		// byte-exact: the record holds what crossed the connection, so the crawler must have read
		// the whole body of every response it lets the writer record
		if f.End >= 0 && f.BodyRead != f.BodyLen && !failedInTree(w, f.URL) {
			return fmt.Errorf("payload-truncated: the accepted %d response of %s (attempt %d) was closed after %d of %d body bytes: its record cannot be byte-identical", f.Status, f.URL, f.Attempt, f.BodyRead, f.BodyLen)
		}
		i, ok := owner[f.URL]
		if !ok || shared[f.URL] {
			continue
		}
		var fin *world.Msg
		for k := range w.Finished {
			if w.Finished[k].ID == fmt.Sprintf("seed%d", i) {
				fin = &w.Finished[k]
			}
		}
		if fin == nil {
			continue
		}
		if f.Start > fin.Step {
			continue // fetched after the finish: C01's business
		}
		if f.BodyRead != f.BodyLen && failedInTree(w, f.URL) {
			continue // a local fault cut the read short: the URL is reported failed, nothing is claimed about it
		}
		last := len(w.FetchesOf(f.URL))-1 == f.Attempt
		if f.Written < 0 || f.Written > fin.Step {
			kind := "final-attempt"
			if !last {
				kind = "retried-attempt"
			}
			return fmt.Errorf("finish-before-write:%s: seed%d was reported finished at step %d but the accepted %d response of %s (attempt %d) was written at step %d", kind, i, fin.Step, f.Status, f.URL, f.Attempt, f.Written)
		}
	}
	return nil
}

// failedInTree: the crawler itself reports the URL as failed (it makes no claim to have archived it).
func failedInTree(w *world.World, u string) bool {
	failed := false
	for _, m := range w.Finished {
		m.Item.Traverse(func(n *models.Item) {
			if n.GetURL().String() == u && n.GetStatus() == models.ItemFailed {
				failed = true
			}
		})
	}
	return failed
}

func sig(v *vsched.Violation) string {
	if v.Kind == "crash" {
		return vsched.DefaultSignature(v)
	}
	m := v.Message
	if strings.HasPrefix(m, "finish-before-write:") {
		rest := m[len("finish-before-write:"):]
		return "finish-before-write:" + rest[:strings.IndexByte(rest, ':')]
	}
	if i := strings.IndexByte(m, ':'); i > 0 {
		return m[:i]
	}
	return vsched.DefaultSignature(v)
}

func scenarios(tier string) []scen {
	var out []scen
	H := world.H
	P := 2
	if tier == "thorough" {
		P = 3
	}
	page := func(u string, refs ...string) world.Node { return world.Node{URL: u, Kind: "html", Refs: refs} }
	defs := []world.SiteDef{
		world.MkSite("page+bin+m3u8", "page", []string{"bin", "m3u8"}),
		world.MkSite("redirect chain+bin", "redir2", []string{"bin"}),
		world.MkSite("page+404+redirect asset", "page", []string{"404", "redir"}),
		world.MkSite("page+flaky (500 then 200)", "page", []string{"flaky"}),
		world.MkSite("page+always 500", "page", []string{"500"}),
		{Name: "page+always 500 with a 1.5 MiB error page", Seeds: []string{H + "/page"}, Nodes: []world.Node{page(H+"/page", H+"/bigboom.png"), {URL: H + "/bigboom.png", Kind: "fail5xx-big"}}},
		world.MkSite("page+429 (discarded, retried)", "page", []string{"429", "bin"}),
		{Name: "page+cloudflare challenge (discarded, retried)", Seeds: []string{H + "/page"}, Nodes: []world.Node{page(H+"/page", H+"/cf.png", H+"/a.png"),
			{URL: H + "/cf.png", Kind: "status", Code: 403, Header: map[string]string{"cf-mitigated": "challenge"}}, {URL: H + "/a.png", Kind: "bin"}}},
		{Name: "page+plain 403 (accepted)", Seeds: []string{H + "/page"}, Nodes: []world.Node{page(H+"/page", H+"/forbidden.png"),
			{URL: H + "/forbidden.png", Kind: "status", Code: 403}}},
		// a discard list that holds codes below 400 as well: the redirect and the 404 are followed / final, none is written
		{Name: "discard-status 301,404,429: page+redirect asset+404", Seeds: []string{H + "/page"}, Nodes: []world.Node{page(H+"/page", H+"/ra", H+"/missing.png"),
			{URL: H + "/ra", Kind: "redirect", Location: H + "/ra.png"}, {URL: H + "/ra.png", Kind: "bin"}, {URL: H + "/missing.png", Kind: "status", Code: 404}}},
		{Name: "discard-status 200: page (nothing of it is written)", Seeds: []string{H + "/page"}, Nodes: []world.Node{page(H+"/page", H+"/gone.png"), {URL: H + "/gone.png", Kind: "status", Code: 410}}},
		// a redirection that is the seed's last record: its target is excluded, nothing else is fetched afterwards
		{Name: "seed redirects to an excluded host (terminal redirection)", Seeds: []string{H + "/moved"}, Nodes: []world.Node{{URL: H + "/moved", Kind: "redirect", Location: "http://excluded.example/x"}}},
		world.MkSite("page+asset redirecting to an excluded host", "page", []string{"redirEx", "bin"}),
		{Name: "seed answers 429 for good", Seeds: []string{H + "/limited"}, Nodes: []world.Node{{URL: H + "/limited", Kind: "status", Code: 429}}},
		// framings of a body that is not kept for extraction: with and without a Content-Length, past the sniffed 2 KiB
		{Name: "page+9 KiB image with and without Content-Length", Seeds: []string{H + "/page"}, Nodes: []world.Node{page(H+"/page", H+"/big.png", H+"/bigc.png"),
			{URL: H + "/big.png", Kind: "bigbin"}, {URL: H + "/bigc.png", Kind: "bigbin-chunked"}}},
		{Name: "two seeds", Seeds: []string{H + "/p1", H + "/p2"}, Nodes: []world.Node{page(H+"/p1", H+"/a.png"), page(H+"/p2", H+"/b.png"), {URL: H + "/a.png", Kind: "bin"}, {URL: H + "/b.png", Kind: "bin"}}},
	}
	for _, d := range defs {
		for _, ca := range [][2]int{{1, 1}, {1, 2}, {2, 2}} {
			p := P
			if ca[0] > 1 {
				if len(d.Seeds) < 2 && tier == "quick" {
					continue
				}
				p = P - 1
			}
			opt := world.Options{Workers: ca[0], MaxConcurrentAssets: ca[1], MaxRetry: 1, MaxRedirect: 2, ExcludeHosts: []string{"excluded.example"}}
			if strings.HasPrefix(d.Name, "discard-status 301") {
				opt.DiscardStatus = []int{301, 404, 429}
			} else if strings.HasPrefix(d.Name, "discard-status 200") {
				opt.DiscardStatus = []int{200}
			}
			out = append(out, scen{Def: d, Opt: opt, P: p})
		}
	}
	// a local fault while a large text body is spooled
	out = append(out, scen{Def: world.SiteDef{Name: "page+2.2 MiB text asset", Seeds: []string{H + "/page"}, Nodes: []world.Node{page(H+"/page", H+"/big.txt", H+"/a.png"),
		{URL: H + "/big.txt", Kind: "bigtext"}, {URL: H + "/a.png", Kind: "bin"}}}, Opt: world.Options{Workers: 1, MaxConcurrentAssets: 1, MaxRetry: 0, MaxRedirect: 2}, P: 1, TempDirGone: true})
	out = append(out, scen{Def: world.SiteDef{Name: "page+2.2 MiB text asset", Seeds: []string{H + "/page"}, Nodes: []world.Node{page(H+"/page", H+"/big.txt", H+"/a.png"),
		{URL: H + "/big.txt", Kind: "bigtext"}, {URL: H + "/a.png", Kind: "bin"}}}, Opt: world.Options{Workers: 1, MaxConcurrentAssets: 1, MaxRetry: 0, MaxRedirect: 2}, P: 1})
	// --http-timeout set (the default is none): a slow WARC write (5 virtual minutes) outlasts it
	for _, d := range defs[:2] {
		for _, ca := range [][2]int{{1, 1}, {1, 2}} {
			out = append(out, scen{Def: d, Opt: world.Options{Workers: 1, MaxConcurrentAssets: ca[1], MaxRetry: 1, MaxRedirect: 2, HTTPTimeout: 30}, P: P - 1})
		}
	}
	// the same ordering clause around a stop request
	for _, d := range defs[:4] {
		out = append(out, scen{Def: d, Opt: world.Options{Workers: 1, MaxConcurrentAssets: 1, MaxRetry: 1, MaxRedirect: 2}, P: P - 1, Stop: true})
	}
	return out
}

type jobResult struct {
	Name string         `json:"name"`
	Rep  *vsched.Report `json:"rep"`
}

func main() {
	a := hkit.ParseArgs()
	ss := scenarios(a.Tier)
	if a.Replay != "" {
		replay(a.Replay)
		return
	}
	maxWall := 45 * time.Second
	if a.Tier == "thorough" {
		maxWall = 15 * time.Minute
	}
	if v, ok := a.Extra["only"]; ok {
		var f []scen
		for _, s := range ss {
			if strings.Contains(s.name(), v) {
				f = append(f, s)
			}
		}
		ss = f
	}
	if v, ok := a.Extra["p"]; ok {
		for i := range ss {
			fmt.Sscanf(v, "%d", &ss[i].P)
		}
	}
	res := hkit.Jobs(a, len(ss), func(j int) any {
		sc := scenario(&ss[j])
		if err := vsched.DeterminismCheck(sc); err != nil {
			hkit.EngineError("%v", err)
		}
		rep := vsched.Explore(sc, vsched.Bounds{P: ss[j].P, F: 1, MaxWall: maxWall})
		if len(rep.Sample) > 60 {
			rep.Sample = rep.Sample[:60]
		}
		return jobResult{ss[j].name(), rep}
	})
	total := &vsched.Report{Exhaustive: true}
	seen := map[string]bool{}
	outcomes := map[string]bool{}
	var per []map[string]any
	for j, b := range res {
		var r jobResult
		if err := json.Unmarshal(b, &r); err != nil {
			hkit.EngineError("%v", err)
		}
		per = append(per, map[string]any{"scenario": r.Name, "p": ss[j].P, "executions": r.Rep.Executions, "states": r.Rep.States,
			"transitions": r.Rep.Transitions, "outcomes": len(r.Rep.Outcomes), "exhaustive": r.Rep.Exhaustive})
		for k := range r.Rep.Outcomes {
			outcomes[k] = true
		}
		for _, v := range r.Rep.Violations {
			if seen[v.Sig] {
				continue
			}
			seen[v.Sig] = true
			if err := vsched.Confirm(scenario(&ss[j]), &v); err != nil {
				hkit.EngineError("violation did not replay: %v", err)
			}
			hkit.Report(propID, v.Sig, map[string]any{"engine": "explore", "harness": harnessName, "scenario": ss[j], "violation": v},
				fmt.Sprintf("%s: %s: %s", r.Name, v.Kind, firstLine(v.Message)))
		}
		total.Merge(r.Rep)
	}
	hkit.Evidence(propID, a.Tier, "model_checking", map[string]any{
		"states": total.States, "transitions": total.Transitions, "traces_validated_against_impl": total.Executions,
		"samples": []any{total.Sample}, "exhaustive": total.Exhaustive, "scenarios": len(ss), "distinct_outcomes": len(outcomes),
		"per_scenario": per,
		"explanation":  map[bool]string{true: "part B of C04 (a kill at any step of the run): the C02 part A harness - a finish message that precedes the write of an accepted response of that seed is a capture a kill would lose for good - ", false: ""}[harnessName == "c04b"] + "part A (ordering): real pipeline on fake sites incl. responses the real discard hook chain rejects (429, 403+cf-mitigated) and retried failures; the WARC write of every response is its own scheduled thread started at body close; every schedule with at most P deviations plus at most one slow write (a write that takes 5 virtual minutes: F<=1); oracle at each finish message: every accepted response fetched for the seed has been written, no rejected response is ever written",
	}, []string{
		"the fake writer signals feedback only after marking the response written (that the real library does so after flushing the record is decided by part B on the real writer)",
		"the fake writer writes what the real hook chain (discard.NewBuilder().AddDefaultHooks()) lets through; whether the policy accepts a response is computed independently from --warc-discard-status and the cf-mitigated header",
	}, hkit.Violations())
	fmt.Printf(propID+" %s (part "+map[bool]string{true: "B", false: "A"}[harnessName == "c04b"]+"): %d scenarios, %d executions, %d states, %d transitions, exhaustive=%v\n", a.Tier, len(ss), total.Executions, total.States, total.Transitions, total.Exhaustive)
	hkit.Exit()
}

func firstLine(s string) string {
	if i := strings.IndexByte(s, '\n'); i > 0 {
		s = s[:i]
	}
	if len(s) > 600 {
		s = s[:600]
	}
	return s
}

func replay(path string) {
	b, err := os.ReadFile(path)
	if err != nil {
		hkit.EngineError("%v", err)
	}
	var r struct {
		Scenario  scen             `json:"scenario"`
		Violation vsched.Violation `json:"violation"`
	}
	if err := json.Unmarshal(b, &r); err != nil {
		hkit.EngineError("%v", err)
	}
	v, x := vsched.Replay(scenario(&r.Scenario), r.Violation.Choices)
	for _, s := range x.Steps {
		fmt.Printf("  %-44s %-90s case=%d\n", s.Thread, s.Point, s.Case)
	}
	if v == nil {
		fmt.Println("replay: no violation")
		os.Exit(0)
	}
	fmt.Printf("replay: %s: %s\n", v.Kind, v.Message)
	fmt.Printf("VIOLATION property=%s replay=%s\n", propID, path)
	os.Exit(1)
}
