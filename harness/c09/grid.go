package main

import "strings"

// Case is one input of the enumeration: a URL text and its parent URL ("" = nil parent).
type Case struct {
	Text   string `json:"text"`
	Parent string `json:"parent"`
	// Query is the query component the generator put into Text (absolute grid), "-" = not known.
	Query string `json:"query"`
	// WellFormed: the text is a plain URL (possibly quote-wrapped), so clause (e) applies.
	WellFormed bool `json:"well_formed"`
	// RFC: relative reference from the ASCII sub-alphabet on which RFC 3986 and WHATWG agree, so clause (d) applies.
	RFC bool `json:"rfc"`
	// Rank: distance from the plainest input (sum of alphabet indices / text length); the failing input kept
	// per signature is the one of least rank.
	Rank int `json:"rank"`
}

type wrap struct{ Pre, Suf string }

type alphabet struct {
	Schemes, Users, Hosts, Ports, Paths, Queries, Frags []string
	Wraps                                               []wrap
	AbsParents                                          []string // parents given to the absolute grid ("" = nil)
	Segs                                                []string // segment alphabet of the relative grid
	SegDepth                                            int
	RelQueries, RelFrags                                []string
	RelWraps                                            []wrap
	RelParents                                          []string
}

// canonical parents (checked at start-up to be fixed points of NormalizeURL)
var parents = []string{
	"http://a.example/",
	"http://a.example/d/p",
	"https://a.example/d/e/?q=1",
	"http://a.example:8080/d/p",
	"http://u:p@a.example/d/p",
	"http://a.example/d/e/f/g?b=2&a=1",
	// escaped delimiters in the path: a "?", a "#" and a "%" that are data, and one next to an escaped slash
	"http://a.example/a%3Fb/c/d",
	"http://a.example/issue%2342/i.html?q=1",
	"http://a.example/100%2541/c",
	"http://a.example/a%2Fb/c%3Fd/e",
}

func alphabets(tier string) alphabet {
	a := alphabet{
		Schemes: []string{"http://", "https://", "HTTP://", "ftp://", "", "//", "httpx://", "https+x://"}, // the last two: schemes that merely begin like the accepted ones
		Users:   []string{"", "u:p@"},
		Hosts: []string{"a.example", "A.Example", "bücher.example", "xn--bcher-kva.example", "1.2.3.4", "127.0.0.1",
			"127.1", "2130706433", "localhost", "LOCALHOST", "nodot", "[::1]", "0x7f.0.0.1", "localhost.", "a.example."},
		Ports: []string{"", ":80", ":8080"},
		Paths: []string{"/", "", "/a/./b/../c", "/%7Ea", "/a b", "/a;p=1", "//a"},
		Queries: []string{"", "?a=1", "?a=1&b=2", "?b=2&a=1", "?a=1&a=2", "?a=1&b=2&c=3", "?a=1&b=2&a=3", "?a=1;b=2", "?a", "?a=&b",
			"?a=b%20c", "?a=b+c", "?", "?n=/a:b,c%20", "?u=x/y&u=caf%C3%A9"}, // the last two: a pair that ends in an escape and holds bytes the URL standard keeps and form-encoding rewrites
		Frags:      []string{"", "#f", "#"},
		Wraps:      []wrap{{"", ""}, {`"`, `"`}, {"", " "}},
		AbsParents: []string{""},
		Segs:       []string{"x", ".", ".."},
		SegDepth:   3,
		RelQueries: []string{"", "?k=v", "?b=2&a=1", "?a=1;b=2", "?a", "?n=/a:b,c%20"},
		RelFrags:   []string{"", "#f", "#"}, // "#" = an empty fragment: present, nothing in it
		RelWraps:   []wrap{{"", ""}, {`'`, `'`}},
		RelParents: parents,
	}
	if tier == "thorough" {
		a.Users = []string{"", "u@", "u:p@"}
		a.Hosts = append(a.Hosts, "www.a.example", "BÜCHER.example", "16909060", "127.0.0.2", "preview.redd.it")
		a.Ports = append(a.Ports, ":443")
		a.Paths = append(a.Paths, "/a/b", "/a/..", "/a'")
		a.Wraps = append(a.Wraps, wrap{`'`, `'`}, wrap{" ", ""})
		a.AbsParents = []string{"", parents[1]}
		a.Segs = []string{"x", "y", ".", "..", "..."}
		a.SegDepth = 4
		a.RelQueries = append(a.RelQueries, "?", "?a=1&b=2")
		a.RelWraps = append(a.RelWraps, wrap{`"`, `"`})
	}
	return a
}

func (a *alphabet) absCount() int {
	return len(a.AbsParents) * len(a.Schemes) * len(a.Users) * len(a.Hosts) * len(a.Ports) * len(a.Paths) * len(a.Queries) * len(a.Frags) * len(a.Wraps)
}

// absCase decodes index i of the absolute grid (mixed radix, wrapper fastest).
func (a *alphabet) absCase(i int) Case {
	rank := 0
	pick := func(n int) int { r := i % n; i /= n; rank += r; return r }
	w := a.Wraps[pick(len(a.Wraps))]
	f := a.Frags[pick(len(a.Frags))]
	q := a.Queries[pick(len(a.Queries))]
	p := a.Paths[pick(len(a.Paths))]
	po := a.Ports[pick(len(a.Ports))]
	h := a.Hosts[pick(len(a.Hosts))]
	u := a.Users[pick(len(a.Users))]
	s := a.Schemes[pick(len(a.Schemes))]
	par := a.AbsParents[pick(len(a.AbsParents))]
	return Case{Text: w.Pre + s + u + h + po + p + q + f + w.Suf, Parent: par, Query: q, WellFormed: strings.TrimSpace(w.Pre+w.Suf) == w.Pre+w.Suf, Rank: rank}
}

// relCases: every sequence of up to SegDepth segments x {leading "/"} x {trailing "/"} x query x fragment,
// plus query-only, fragment-only, empty and scheme-relative forms; each x wrapper x parent.
func (a *alphabet) relCases() []Case {
	var paths []string
	var rec func(prefix []string, d int)
	rec = func(prefix []string, d int) {
		if len(prefix) > 0 {
			j := strings.Join(prefix, "/")
			paths = append(paths, j, "/"+j, j+"/", "/"+j+"/")
		}
		if d == 0 {
			return
		}
		for _, s := range a.Segs {
			rec(append(append([]string{}, prefix...), s), d-1)
		}
	}
	rec(nil, a.SegDepth)
	paths = append(paths, "", "/", "//b.example", "//b.example/", "//b.example/x/../y", "//b.example:8080/x", "//u@b.example/x")
	// references that net/url takes and the URL standard rejects (they fail late, inside the resolution against the parent)
	paths = append(paths, "//b.example:65536/x", "//:80/x", "//b.example:0/x", "/x%zz", "//b.ex ample/x", "//[::1/x")
	var out []Case
	seen := map[string]bool{}
	for _, p := range paths {
		for _, q := range a.RelQueries {
			for _, f := range a.RelFrags {
				for _, w := range a.RelWraps {
					t := w.Pre + p + q + f + w.Suf
					if seen[t] {
						continue
					}
					seen[t] = true
					for pi, par := range a.RelParents {
						out = append(out, Case{Text: t, Parent: par, Query: "-", WellFormed: true, RFC: true, Rank: len(t) + pi})
					}
				}
			}
		}
	}
	return out
}

// refKind names the kind of relative reference (for signatures and counts).
func refKind(ref string) string {
	switch {
	case ref == "":
		return "empty"
	case strings.HasPrefix(ref, "//"):
		return "scheme-relative"
	case strings.HasPrefix(ref, "/"):
		return "path-absolute"
	case strings.HasPrefix(ref, "?"):
		return "query-only"
	case strings.HasPrefix(ref, "#"):
		return "fragment-only"
	}
	return "path-relative"
}
