package main

import (
	"fmt"
	"net/url"
	"strconv"
	"strings"

	"github.com/internetarchive/Zeno/internal/pkg/preprocessor"
	"github.com/internetarchive/Zeno/internal/verif/vrt/vsched"
	"github.com/internetarchive/Zeno/pkg/models"
)

// result of one evaluation of the real code: NormalizeURL on a fresh object, then URL.String().
type result struct{ Err, Raw, Str string }

func (r result) String() string {
	if r.Err != "" {
		return "rejected(" + r.Err + ")"
	}
	return fmt.Sprintf("Raw=%q String()=%q", r.Raw, r.Str)
}

var evals int

// eval runs the real Zeno code once. parentStringed: parent.String() was called before (as the
// archiver does), which must not matter for a pure function of (text, parent URL).
func eval(text, parent string, parentStringed bool) (r result) {
	return evalP(text, parent, parentStringed, false)
}

// evalP: preParsed = the URL value went through Parse() before NormalizeURL, the way the queue
// sources and the command line build a seed (hq/lq consumer, pipeline.go); the second result tells
// whether that Parse succeeded (else the evaluation is the same as a fresh one and is skipped).
func evalP(text, parent string, parentStringed, preParsed bool) (r result) {
	evals++
	defer func() {
		if p := recover(); p != nil {
			if e, ok := p.(vsched.EngineError); ok {
				panic(e)
			}
			r = result{Err: fmt.Sprintf("PANIC: %v", p)}
		}
	}()
	u := &models.URL{Raw: text}
	var p *models.URL
	if parent != "" {
		p = &models.URL{Raw: parent}
		if err := p.Parse(); err != nil {
			panic(vsched.EngineError{Msg: "bad parent " + parent})
		}
		if parentStringed {
			_ = p.String()
		}
	}
	if preParsed {
		if err := u.Parse(); err != nil {
			return result{Err: "pre-parse failed"}
		}
	}
	if err := preprocessor.NormalizeURL(u, p); err != nil {
		return result{Err: err.Error()}
	}
	r = result{Raw: u.Raw, Str: u.String()}
	if pu := u.GetParsed(); pu == nil || pu.String() != r.Str {
		r.Str += fmt.Sprintf(" [GetParsed()=%v]", pu) // the parsed form is what is fetched: it must be the canonical one
	}
	return r
}

var sharedParents = map[string]*models.URL{}

// evalShared normalises text against the long-lived parent object of this process and reports whether the
// parent still reads as it did (if not, the object is replaced so that one mutation is one failure).
func evalShared(text, parent string) (r result, mutated string) {
	p := sharedParents[parent]
	if p == nil {
		p = &models.URL{Raw: parent}
		if err := p.Parse(); err != nil {
			panic(vsched.EngineError{Msg: "bad parent " + parent})
		}
		sharedParents[parent] = p
	}
	evals++
	defer func() {
		if x := recover(); x != nil {
			r = result{Err: fmt.Sprintf("PANIC: %v", x)}
		}
		if got := p.GetParsed().String(); got != parent || p.Raw != parent {
			mutated = fmt.Sprintf("parent %q reads %q (Raw %q) after normalising %q against it", parent, got, p.Raw, text)
			delete(sharedParents, parent)
		}
	}()
	u := &models.URL{Raw: text}
	if err := preprocessor.NormalizeURL(u, p); err != nil {
		return result{Err: err.Error()}, ""
	}
	r = result{Raw: u.Raw, Str: u.String()}
	if pu := u.GetParsed(); pu == nil || pu.String() != r.Str {
		r.Str += fmt.Sprintf(" [GetParsed()=%v]", pu)
	}
	return r, ""
}

// Fail is one oracle failure; Sig names clause, observable and failing input class.
type Fail struct {
	Sig    string `json:"sig"`
	Case   Case   `json:"case"`
	Detail string `json:"detail"`
	// the enumeration this failure was found in: a verdict that depends on earlier evaluations
	// (hidden state in the code under test) only reproduces with the same history
	Tier  string `json:"tier,omitempty"`
	Shard int    `json:"shard"`
	Of    int    `json:"of,omitempty"`
}

type stats struct {
	accepted, rejected int
	rejectClass        map[string]int
	maxOrders          int
	notedLoopbackLike  map[string]bool
	canon              map[string]bool // canonical strings of accepted inputs that differ from the input text
	clause             map[string]int  // how many cases each clause was evaluated on
}

const reps = 2 // extra evaluations in the default order (hidden state), on top of all map orders

// check decides clauses (a)-(e) for one case and returns the failures.
func check(c Case, st *stats) (fails []Fail) {
	add := func(sig, format string, a ...any) {
		for _, f := range fails {
			if f.Sig == sig {
				return
			}
		}
		fails = append(fails, Fail{Sig: sig, Case: c, Detail: fmt.Sprintf(format, a...)})
	}
	form := "absolute"
	if c.RFC {
		form = refKind(strings.Trim(c.Text, `"'`))
	}

	// ---- (a) determinism: one outcome over every map-iteration order (exhaustive, via vsched.MapOrder
	// in the instrumented pkg/models), over repeated evaluations, and whether or not parent.String() ran before.
	var def result
	byOrder := map[result]bool{}
	n := 0
	runs := vsched.EnumerateSeq(func() {
		r := eval(c.Text, c.Parent, false)
		if n == 0 {
			def = r
		}
		n++
		byOrder[r] = true
	}, 0)
	if runs > st.maxOrders {
		st.maxOrders = runs
	}
	st.clause["a"]++
	if strings.HasPrefix(def.Err, "PANIC") {
		add("panic:"+form, "%s", def.Err)
		return
	}
	diff := func(cause string, r result) {
		switch {
		case (r.Err == "") != (def.Err == ""):
			add("determinism:verdict:"+cause, "%v versus %v", def, r)
		case r.Raw != def.Raw:
			add("determinism:Raw:"+cause, "URL.Raw after NormalizeURL: %q versus %q", def.Raw, r.Raw)
		case r.Str != def.Str:
			add("determinism:String:"+cause, "URL.String() after NormalizeURL: %q versus %q", def.Str, r.Str)
		}
	}
	for r := range byOrder {
		diff("map-order", r)
	}
	for i := 0; i < reps; i++ {
		diff("repeated-evaluation", eval(c.Text, c.Parent, false))
	}
	if c.Parent != "" {
		diff("parent-String-called-first", eval(c.Text, c.Parent, true))
	}
	if r := evalP(c.Text, c.Parent, false, true); r.Err != "pre-parse failed" {
		diff("url-parsed-before-as-sources-do", r)
	}
	if c.Parent != "" {
		// the parent is one object for all the children of a page (preprocess() walks them in a loop): the
		// same object serves every case of this shard, accepted and rejected ones, and must come out of each
		// call as it went in
		r, mutated := evalShared(c.Text, c.Parent)
		diff("parent-object-shared-with-earlier-siblings", r)
		if mutated != "" {
			add("determinism:parent-mutated:"+form, "NormalizeURL changed its parent argument: %s", mutated)
		}
	}

	if def.Err != "" {
		st.rejected++
		cl := def.Err
		if i := strings.LastIndex(cl, "\": "); i >= 0 { // url.Error: parse "<text>": <reason>
			cl = cl[i+3:]
		}
		st.rejectClass[cl]++
		// (d) a reference of one of the four kinds the property names must resolve when the standard's result is acceptable
		if c.RFC {
			if want, ok := rfcResolve(c.Parent, strings.Trim(c.Text, `"'`)); ok && form != "empty" && form != "fragment-only" && shape(want) == "" {
				add("resolution:"+form+":rejected", "rejected (%s), the standard resolves it to %q", def.Err, want)
			}
		}
		return
	}
	st.accepted++
	if def.Str != c.Text {
		st.canon[def.Str] = true
	}

	obs := []struct{ name, s string }{{"Raw", def.Raw}, {"String", def.Str}}
	for _, o := range obs {
		// ---- (c) shape of every accepted result
		st.clause["c"]++
		if why := shape(o.s); why != "" {
			add("shape:"+o.name+":"+why, "accepted result %q: %s", o.s, why)
		}
		if h := hostOf(o.s); h == "localhost." || (strings.HasPrefix(h, "127.") && h != "127.0.0.1") {
			st.notedLoopbackLike[h] = true // literal reading: only localhost / 127.0.0.1 count as loopback; noted, not alarmed
		}
	}
	// ---- (b) idempotence: normalising a canonical string again (without parent and with the same parent)
	// gives it back; when it has surrounding quote characters the stripped string is accepted as well
	// (the deliberate stripping the property exempts).
	st.clause["b"]++
	same := func(name, s, got string) {
		if got != s && got != strings.Trim(s, `"'`) {
			add("idempotence:"+name+":"+diffClass(s, got), "canonical %q becomes %q when normalised again", s, got)
		}
	}
	for i, o := range obs {
		if i == 1 && def.Str == def.Raw {
			break // same text, both observables were judged in the first round
		}
		for _, par := range []string{"", c.Parent} {
			r2 := eval(o.s, par, false)
			if r2.Err != "" {
				add("idempotence:"+o.name+":rejected", "canonical %q is rejected when normalised again: %s", o.s, r2.Err)
			} else {
				if o.s == def.Raw {
					same("Raw", o.s, r2.Raw)
				}
				if o.s == def.Str {
					same("String", o.s, r2.Str)
				}
			}
			if c.Parent == "" {
				break
			}
		}
	}

	// ---- (d) relative references resolve as RFC 3986 / WHATWG prescribe (reference: net/url.ResolveReference)
	wantQuery := c.Query
	if c.RFC {
		st.clause["d"]++
		want, ok := rfcResolve(c.Parent, strings.Trim(c.Text, `"'`))
		if !ok {
			panic(vsched.EngineError{Msg: "reference model cannot resolve " + c.Text})
		}
		wantQuery = queryOf(want) // the query of the resolved URL is clause (e)'s business (decoded pairs)
		for _, o := range obs {
			got, w := beforeQuery(o.s), beforeQuery(want)
			if got == w {
				continue
			}
			class := diffClass(w, got)
			if ui := userinfoOf(w); ui != "" && strings.Replace(w, ui+"@", "", 1) == got {
				class = "parent-userinfo-dropped"
			}
			add("resolution:"+form+":"+class, "%s is %q, the standard prescribes %q", o.name, o.s, want)
		}
	}

	// ---- (e) well-formed queries keep the sequence of decoded (key, value) pairs
	if c.WellFormed && wantQuery != "-" {
		st.clause["e"]++
		want := pairs(wantQuery)
		for _, o := range obs {
			got := pairs(queryOf(o.s))
			if fmt.Sprint(got) == fmt.Sprint(want) {
				continue
			}
			class := "altered"
			switch {
			case len(got) < len(want):
				class = "dropped"
			case sameMultiset(got, want):
				class = "reordered"
			}
			if strings.Contains(wantQuery, ";") {
				class += "-semicolon"
			}
			add("query-sequence:"+o.name+":"+class, "query %q became %q: pairs %v versus %v", wantQuery, queryOf(o.s), want, got)
		}
	}
	return
}

// ---------------------------------------------------------------- reference helpers (independent of Zeno and ada)

// shape returns "" when s is an absolute http(s) URL with a dotted host other than localhost/127.0.0.1 and no fragment.
func shape(s string) string {
	if !strings.HasPrefix(s, "http://") && !strings.HasPrefix(s, "https://") {
		return "not-absolute-http"
	}
	if strings.Contains(s, "#") {
		return "fragment"
	}
	h := hostOf(s)
	if h == "" || !strings.Contains(h, ".") {
		return "undotted-host"
	}
	if h == "localhost" || ipv4(h) == "127.0.0.1" {
		return "loopback-host"
	}
	return ""
}

// diffClass names the first component in which two absolute URL texts differ (for signatures).
func diffClass(want, got string) string {
	authority := func(s string) string {
		if i := strings.Index(s, "://"); i >= 0 {
			s = s[i+3:]
		}
		if j := strings.IndexAny(s, "/?#"); j >= 0 {
			s = s[:j]
		}
		return s
	}
	wf, gf := "", ""
	if i := strings.Index(want, "#"); i >= 0 {
		want, wf = want[:i], want[i:]
	}
	if i := strings.Index(got, "#"); i >= 0 {
		got, gf = got[:i], got[i:]
	}
	switch {
	case wf != gf:
		return "fragment-changed"
	case strings.SplitN(want, ":", 2)[0] != strings.SplitN(got, ":", 2)[0]:
		return "scheme-changed"
	case userinfoOf(want) != userinfoOf(got):
		return "userinfo-changed"
	case authority(want) != authority(got):
		return "host-or-port-changed"
	case beforeQuery(want) != beforeQuery(got):
		return "path-changed"
	case queryOf(want) != queryOf(got) && fmt.Sprint(pairs(queryOf(want))) == fmt.Sprint(pairs(queryOf(got))):
		return "query-respelled"
	case queryOf(want) != queryOf(got) && sameMultiset(pairs(queryOf(want)), pairs(queryOf(got))):
		return "query-reordered"
	case queryOf(want) != queryOf(got):
		return "query-changed"
	}
	return "same"
}

// hostOf extracts the lower-cased host name (no userinfo, no port) of an absolute URL text.
func hostOf(s string) string {
	i := strings.Index(s, "://")
	if i < 0 {
		return ""
	}
	a := s[i+3:]
	if j := strings.IndexAny(a, "/?#"); j >= 0 {
		a = a[:j]
	}
	if j := strings.LastIndex(a, "@"); j >= 0 {
		a = a[j+1:]
	}
	if strings.HasPrefix(a, "[") {
		if j := strings.Index(a, "]"); j >= 0 {
			return strings.ToLower(a[:j+1])
		}
	}
	if j := strings.LastIndex(a, ":"); j >= 0 {
		a = a[:j]
	}
	return strings.ToLower(a)
}

func userinfoOf(s string) string {
	i := strings.Index(s, "://")
	if i < 0 {
		return ""
	}
	a := s[i+3:]
	if j := strings.IndexAny(a, "/?#"); j >= 0 {
		a = a[:j]
	}
	if j := strings.LastIndex(a, "@"); j >= 0 {
		return a[:j]
	}
	return ""
}

// ipv4 reads a host the way the URL standard's IPv4 parser does (decimal/octal/hex parts, last part fills
// the remaining bytes, one trailing dot allowed) and returns dotted decimal, or "" when it is not an address.
func ipv4(h string) string {
	parts := strings.Split(strings.TrimSuffix(h, "."), ".")
	if len(parts) > 4 {
		return ""
	}
	var nums []uint64
	for _, p := range parts {
		base := 10
		switch {
		case strings.HasPrefix(p, "0x") || strings.HasPrefix(p, "0X"):
			p, base = p[2:], 16
		case len(p) > 1 && p[0] == '0':
			p, base = p[1:], 8
		}
		if p == "" {
			if base == 16 {
				p = "0"
			} else {
				return ""
			}
		}
		v, err := strconv.ParseUint(p, base, 64)
		if err != nil {
			return ""
		}
		nums = append(nums, v)
	}
	last := nums[len(nums)-1]
	var ip uint64
	for i, v := range nums[:len(nums)-1] {
		if v > 255 {
			return ""
		}
		ip |= v << (8 * (3 - uint(i)))
	}
	if last >= 1<<(8*(5-uint(len(nums)))) {
		return ""
	}
	ip |= last
	return fmt.Sprintf("%d.%d.%d.%d", ip>>24&255, ip>>16&255, ip>>8&255, ip&255)
}

// rfcResolve is the reference for (d): RFC 3986 section 5 as implemented by net/url, fragment removed,
// empty path of an http URL written "/".
func rfcResolve(parent, ref string) (string, bool) {
	b, err := url.Parse(parent)
	if err != nil {
		return "", false
	}
	r, err := url.Parse(ref)
	if err != nil {
		return "", false
	}
	t := b.ResolveReference(r)
	if p := t.Port(); p != "" {
		// net/url accepts any digits; the URL standard's port is at most 65535: no result to demand
		if n, err := strconv.Atoi(p); err != nil || n > 65535 {
			return "", false
		}
	}
	t.Fragment, t.RawFragment = "", ""
	if t.Path == "" {
		t.Path = "/"
	}
	return t.String(), true
}

func queryOf(s string) string {
	if i := strings.Index(s, "#"); i >= 0 {
		s = s[:i]
	}
	if i := strings.Index(s, "?"); i >= 0 {
		return s[i:]
	}
	return ""
}

func beforeQuery(s string) string {
	if i := strings.IndexAny(s, "?#"); i >= 0 {
		return s[:i]
	}
	return s
}

// pairs decodes a query the way application/x-www-form-urlencoded prescribes: split on "&", skip empty
// pieces, split on the first "=", "+" is a space, percent-decoding. ";" is an ordinary character.
func pairs(q string) [][2]string {
	q = strings.TrimPrefix(q, "?")
	out := [][2]string{}
	for _, piece := range strings.Split(q, "&") {
		if piece == "" {
			continue
		}
		k, v, _ := strings.Cut(piece, "=")
		out = append(out, [2]string{pctDecode(k), pctDecode(v)})
	}
	return out
}

func pctDecode(s string) string {
	s = strings.ReplaceAll(s, "+", " ")
	var b strings.Builder
	for i := 0; i < len(s); i++ {
		if s[i] == '%' && i+2 < len(s) {
			if v, err := strconv.ParseUint(s[i+1:i+3], 16, 8); err == nil {
				b.WriteByte(byte(v))
				i += 2
				continue
			}
		}
		b.WriteByte(s[i])
	}
	return b.String()
}

func distinctKeys(q string) int {
	m := map[string]bool{}
	for _, p := range pairs(q) {
		m[p[0]] = true
	}
	return len(m)
}

func sameMultiset(a, b [][2]string) bool {
	if len(a) != len(b) {
		return false
	}
	m := map[[2]string]int{}
	for _, p := range a {
		m[p]++
	}
	for _, p := range b {
		m[p]--
	}
	for _, v := range m {
		if v != 0 {
			return false
		}
	}
	return true
}
