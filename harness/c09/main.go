// Harness for C09: URL canonicalisation (preprocessor.NormalizeURL + models.URL.String) is deterministic,
// idempotent and yields only http(s) URLs. Exhaustive grid of URL texts x parents through the real code;
// pkg/models is instrumented so that every iteration order of the query map is enumerated (vsched.MapOrder).
package main

import (
	"encoding/json"
	"fmt"
	"hash/fnv"
	"io"
	"log/slog"
	"os"
	"sort"

	"github.com/internetarchive/Zeno/internal/verif/vrt/hkit"
)

const propID = "C09"

type sample struct {
	Case   Case   `json:"case"`
	Result string `json:"result"`
}

// shardOut is what one shard reports to the parent process.
type shardOut struct {
	Cases, AbsCases, RelCases, Evals, Accepted, Rejected, MaxOrders int
	RejectClass                                                     map[string]int
	Clause                                                          map[string]int
	Noted                                                           []string
	Canon                                                           []uint64 // hashes of distinct canonical strings != input
	Fails                                                           map[string]Fail
	FailCount                                                       map[string]int
	Samples                                                         []sample
}

func newStats() *stats {
	return &stats{rejectClass: map[string]int{}, notedLoopbackLike: map[string]bool{}, canon: map[string]bool{}, clause: map[string]int{}}
}

// smaller: the failing input kept per signature is the one of least rank (then shortest, then lexicographic):
// stable and close to a plain URL.
func smaller(a, b Case) bool {
	if a.Rank != b.Rank {
		return a.Rank < b.Rank
	}
	if la, lb := len(a.Text)+len(a.Parent), len(b.Text)+len(b.Parent); la != lb {
		return la < lb
	}
	return a.Text+"\x00"+a.Parent < b.Text+"\x00"+b.Parent
}

func runShard(a hkit.Args, al alphabet) shardOut {
	st := newStats()
	out := shardOut{Fails: map[string]Fail{}, FailCount: map[string]int{}}
	do := func(c Case) {
		out.Cases++
		for _, f := range check(c, st) {
			f.Tier, f.Shard, f.Of = a.Tier, a.Shard, a.Of
			out.FailCount[f.Sig]++
			if old, ok := out.Fails[f.Sig]; !ok || smaller(f.Case, old.Case) {
				out.Fails[f.Sig] = f
			}
		}
	}
	nAbs := al.absCount()
	for i := a.Shard; i < nAbs; i += a.Of {
		c := al.absCase(i)
		do(c)
		out.AbsCases++
		if a.Shard == 0 && out.AbsCases%(nAbs/a.Of/12+1) == 1 {
			out.Samples = append(out.Samples, sample{c, eval(c.Text, c.Parent, false).String()})
		}
	}
	rel := al.relCases()
	for i := a.Shard; i < len(rel); i += a.Of {
		do(rel[i])
		out.RelCases++
		if a.Shard == 0 && out.RelCases%(len(rel)/a.Of/8+1) == 1 {
			out.Samples = append(out.Samples, sample{rel[i], eval(rel[i].Text, rel[i].Parent, false).String()})
		}
	}
	if a.Shard == 0 {
		// (f) the stage uses what the function computes: every input of the absolute grid with at most K components
		// away from the plainest one, handed to the real preprocessor worker as a source builds a seed, with logging
		// off and with a sink that takes debug records
		stageFails, n := stagePass(al, a.Tier)
		st.clause["f"] += n
		lf, ln := levelPass(al)
		st.clause["g"] += ln
		stageFails = append(stageFails, lf...)
		sf, sn := spacePass(al)
		st.clause["h"] += sn
		stageFails = append(stageFails, sf...)
		for _, f := range stageFails {
			f.Tier, f.Shard, f.Of = a.Tier, a.Shard, a.Of
			out.FailCount[f.Sig]++
			if old, ok := out.Fails[f.Sig]; !ok || smaller(f.Case, old.Case) {
				out.Fails[f.Sig] = f
			}
		}
	}
	out.Evals, out.Accepted, out.Rejected, out.MaxOrders = evals, st.accepted, st.rejected, st.maxOrders
	out.RejectClass, out.Clause = st.rejectClass, st.clause
	out.Noted = hkit.SortedKeys(st.notedLoopbackLike)
	for s := range st.canon {
		h := fnv.New64a()
		h.Write([]byte(s))
		out.Canon = append(out.Canon, h.Sum64())
	}
	return out
}

func main() {
	slog.SetDefault(slog.New(slog.NewTextHandler(io.Discard, nil))) // URLToString warns about odd hosts
	a := hkit.ParseArgs()
	al := alphabets(a.Tier)
	if t, ok := a.Extra["text"]; ok { // ad-hoc: --text=<url> [--parent=<url>]
		show(Case{Text: t, Parent: a.Extra["parent"], Query: "-", WellFormed: true, RFC: a.Extra["parent"] != "" && a.Extra["rfc"] != "0"})
		return
	}
	if a.Replay != "" {
		replay(a.Replay)
		return
	}
	if a.Of > 1 {
		hkit.EmitShardResult(runShard(a, al))
		return
	}
	// the parents must be canonical URLs, as they are in Zeno (a parent is an earlier result): fixed points of
	// NormalizeURL, up to the query (the last parent is the URL.Raw that the reference "g?b=2&a=1" produces)
	for _, p := range parents {
		if r := eval(p, "", false); r.Err != "" || beforeQuery(r.Raw) != beforeQuery(p) || (distinctKeys(queryOf(p)) < 2 && r.Raw != p) {
			hkit.EngineError("parent %q is not canonical: %v", p, r)
		}
	}
	const nShards = 64
	tot := shardOut{RejectClass: map[string]int{}, Clause: map[string]int{}, Fails: map[string]Fail{}, FailCount: map[string]int{}}
	canon, noted := map[uint64]bool{}, map[string]bool{}
	for _, b := range hkit.Shards(nShards) {
		var r shardOut
		hkit.ShardResult(b, &r)
		tot.Cases += r.Cases
		tot.AbsCases += r.AbsCases
		tot.RelCases += r.RelCases
		tot.Evals += r.Evals
		tot.Accepted += r.Accepted
		tot.Rejected += r.Rejected
		if r.MaxOrders > tot.MaxOrders {
			tot.MaxOrders = r.MaxOrders
		}
		for k, v := range r.RejectClass {
			tot.RejectClass[k] += v
		}
		for k, v := range r.Clause {
			tot.Clause[k] += v
		}
		for k, v := range r.FailCount {
			tot.FailCount[k] += v
		}
		for k, f := range r.Fails {
			if old, ok := tot.Fails[k]; !ok || smaller(f.Case, old.Case) {
				tot.Fails[k] = f
			}
		}
		for _, h := range r.Canon {
			canon[h] = true
		}
		for _, h := range r.Noted {
			noted[h] = true
		}
		tot.Samples = append(tot.Samples, r.Samples...)
	}
	// one report per signature, with the minimal failing input of that class
	for _, sig := range hkit.SortedKeys(tot.Fails) {
		f := tot.Fails[sig]
		hkit.Report(propID, sig, f, fmt.Sprintf("text=%q parent=%q: %s (%d cases in this class)", f.Case.Text, f.Case.Parent, f.Detail, tot.FailCount[sig]))
	}
	samples := []any{}
	for _, s := range tot.Samples {
		samples = append(samples, s)
	}
	hkit.Evidence(propID, a.Tier, "exploration", map[string]any{
		"evaluations": tot.Evals, "cases": tot.Cases, "absolute_grid_cases": tot.AbsCases, "relative_grid_cases": tot.RelCases,
		"distinct_nontrivial": len(canon),
		"rule": "every text of the product scheme x userinfo x host x port x path x query x fragment x wrapper (x parent) and every relative reference " +
			"(all segment sequences up to the depth x leading/trailing slash x query x fragment x wrapper, plus query-only, fragment-only, empty, scheme-relative) x 10 parents " +
			"is evaluated on fresh objects under every iteration order of the query map, twice more in the default order, and its canonical strings are normalised again; " +
			"evaluations = calls of NormalizeURL; a case is non-trivial when it is accepted and its canonical String() differs from the input text, " +
			"distinct_nontrivial = number of distinct such canonical strings (FNV-64 of the string, merged over shards)",
		"samples": samples, "exhaustive": true, "accepted": tot.Accepted, "rejected": tot.Rejected, "reject_classes": tot.RejectClass,
		"cases_per_clause": tot.Clause, "max_map_order_combinations_per_case": tot.MaxOrders,
		"failing_cases_per_signature":                    tot.FailCount,
		"noted_not_alarmed_loopback_like_hosts_accepted": hkit.SortedKeys(noted),
		"alphabets": al,
	}, []string{
		"pkg/models is the instrumented copy of the working tree (map iteration in encodeQuery goes through vsched.MapOrder: all permutations up to 4 keys); internal/pkg/preprocessor and goada are unmodified",
		"clause (d) reference is net/url.ResolveReference on references over [a-z./?=&#] where RFC 3986 and the WHATWG standard agree; a result with an empty path is written with \"/\"",
		"clause (e) reference is a hand-written application/x-www-form-urlencoded pair parser; it is applied to plain and quote-wrapped texts only (not to texts with surrounding white space)",
		"non-loopback is read literally: canonical host is not localhost and not 127.0.0.1 (localhost. and other 127/8 literals are counted in the evidence, not alarmed)",
		"idempotence is judged in the default (sorted) map order; map-order dependence is reported by the determinism clause only",
	}, hkit.Violations())
	fmt.Printf("C09 %s: %d cases (%d absolute, %d relative), %d evaluations, %d accepted, %d rejected, %d distinct non-trivial canonical strings, %d failing signatures\n",
		a.Tier, tot.Cases, tot.AbsCases, tot.RelCases, tot.Evals, tot.Accepted, tot.Rejected, len(canon), len(tot.Fails))
	hkit.Exit()
}

// show evaluates one case verbosely (used by --replay and --text).
func show(c Case) []Fail {
	fmt.Printf("text=%q parent=%q\n", c.Text, c.Parent)
	fmt.Printf("  default order: %v\n", eval(c.Text, c.Parent, false))
	if c.RFC {
		w, _ := rfcResolve(c.Parent, c.Text)
		fmt.Printf("  reference resolution: %q\n", w)
	}
	fails := check(c, newStats())
	sort.Slice(fails, func(i, j int) bool { return fails[i].Sig < fails[j].Sig })
	for _, f := range fails {
		fmt.Printf("  FAIL [%s] %s\n", f.Sig, f.Detail)
	}
	if len(fails) == 0 {
		fmt.Println("  all clauses hold")
	}
	return fails
}

func replay(path string) {
	b, err := os.ReadFile(path)
	if err != nil {
		hkit.EngineError("%v", err)
	}
	var f Fail
	if err := json.Unmarshal(b, &f); err != nil {
		hkit.EngineError("%v", err)
	}
	for _, g := range show(f.Case) {
		if g.Sig == f.Sig {
			fmt.Printf("replay: %s reproduced\n", f.Sig)
			fmt.Printf("VIOLATION property=%s replay=%s\n", propID, path)
			os.Exit(1)
		}
	}
	if f.Of > 1 {
		// not reproducible in isolation: re-run the enumeration the failure was found in, in the same order
		fmt.Printf("replay: %s not reproduced on a fresh process; re-running shard %d of %d (%s) for its history\n", f.Sig, f.Shard, f.Of, f.Tier)
		out := runShard(hkit.Args{Tier: f.Tier, Shard: f.Shard, Of: f.Of}, alphabets(f.Tier))
		if g, ok := out.Fails[f.Sig]; ok {
			fmt.Printf("replay: %s reproduced with the history of its shard (the verdict depends on earlier evaluations: hidden state): text=%q parent=%q: %s\n", f.Sig, g.Case.Text, g.Case.Parent, g.Detail)
			fmt.Printf("VIOLATION property=%s replay=%s\n", propID, path)
			os.Exit(1)
		}
	}
	fmt.Printf("replay: %s not reproduced\n", f.Sig)
	os.Exit(0)
}
