package main

import (
	"fmt"
	"net/url"
	"os"
	"strings"

	"github.com/internetarchive/Zeno/internal/pkg/config"
	zlog "github.com/internetarchive/Zeno/internal/pkg/log"
	"github.com/internetarchive/Zeno/internal/pkg/preprocessor"
	"github.com/internetarchive/Zeno/pkg/models"
)

// nearCases: the cases of the absolute grid in which at most k components differ from the plainest value.
func (a *alphabet) nearCases(k int) []Case {
	var out []Case
	n := a.absCount()
	radix := []int{len(a.Wraps), len(a.Frags), len(a.Queries), len(a.Paths), len(a.Ports), len(a.Hosts), len(a.Users), len(a.Schemes), len(a.AbsParents)}
	for i := 0; i < n; i++ {
		j, away := i, 0
		for _, r := range radix {
			if j%r != 0 {
				away++
			}
			j /= r
		}
		if away <= k {
			if c := a.absCase(i); c.Parent == "" {
				out = append(out, c)
			}
		}
	}
	return out
}

// throughStage hands text to the real stage worker the way a source does (URL value parsed, then the item
// inserted) and reports what the crawler goes on with.
func throughStage(text string) (r result, ok bool) {
	defer func() {
		if p := recover(); p != nil {
			r, ok = result{Err: fmt.Sprintf("PANIC: %v", p)}, true
		}
	}()
	u := &models.URL{Raw: text}
	if err := u.Parse(); err != nil {
		return result{}, false // no source hands such a seed over
	}
	it := models.NewItem("c09-stage", u, "")
	preprocessor.VerifC05Preprocess(it)
	if it.GetStatus() != models.ItemPreProcessed || it.GetURL().GetRequest() == nil {
		return result{Err: "rejected by the stage: " + it.GetStatus().String()}, true
	}
	r = result{Raw: it.GetURL().Raw, Str: it.GetURL().String()}
	if q := it.GetURL().GetRequest().URL.String(); q != r.Str {
		r.Str += " [request=" + q + "]"
	}
	return r, true
}

func stagePass(al alphabet, tier string) (fails []Fail, n int) {
	k := 2
	if tier == "thorough" {
		k = 3
	}
	cases := al.nearCases(k)
	tmp := os.Getenv("VERIF_TMP")
	if tmp == "" {
		tmp = os.TempDir()
	}
	for _, level := range []string{"off", "debug"} {
		cfg := &config.Config{NoStdoutLogging: true, NoStderrLogging: true, NoFileLogging: level == "off", LogFileLevel: level,
			LogFileOutputDir: tmp + "/c09-logs", LogFilePrefix: "c09", UserAgent: "verif-c09", MaxRedirect: 20}
		config.VerifSet(cfg)
		if level != "off" {
			if err := zlog.Start(); err != nil {
				panic(err)
			}
		}
		for _, c := range cases {
			direct := evalP(c.Text, "", false, true)
			if direct.Err == "pre-parse failed" {
				continue
			}
			got, ok := throughStage(c.Text)
			if !ok {
				continue
			}
			n++
			sig, detail := "", ""
			switch {
			case (got.Err == "") != (direct.Err == ""):
				sig, detail = "stage:verdict", fmt.Sprintf("NormalizeURL: %v; through the preprocessor worker: %v", direct, got)
			case got.Err == "" && got.Raw != direct.Raw:
				sig, detail = "stage:Raw", fmt.Sprintf("NormalizeURL gives Raw %q, the seed leaves the preprocessor with Raw %q", direct.Raw, got.Raw)
			case got.Err == "" && got.Str != direct.Str:
				sig, detail = "stage:String", fmt.Sprintf("NormalizeURL gives %q, the seed leaves the preprocessor with %q", direct.Str, got.Str)
			}
			if sig != "" {
				dup := false
				for _, f := range fails {
					dup = dup || f.Sig == sig+":log="+level
				}
				if !dup {
					fails = append(fails, Fail{Sig: sig + ":log=" + level, Case: c, Detail: "log level " + level + ": " + detail})
				}
			}
		}
		if level != "off" {
			zlog.Stop()
			os.RemoveAll(tmp + "/c09-logs")
		}
	}
	return fails, n
}

// levelPass, clause (g): "a pure function of the URL text and ITS parent" inside the stage. A seed whose deepest
// level holds the children of two different documents (two playlists, two feeds ... of one page) is handed to the real
// preprocess(): every relative reference of the relative grid, as the child of the second document, for every
// ordered pair of distinct parents, must come out as NormalizeURL(text, its own parent) gives it - or be dropped
// exactly when NormalizeURL rejects it.
func levelPass(al alphabet) (fails []Fail, n int) {
	config.VerifSet(&config.Config{NoStdoutLogging: true, NoStderrLogging: true, NoFileLogging: true, UserAgent: "verif-c09", MaxRedirect: 20})
	texts, seen := []string{}, map[string]bool{}
	for _, c := range al.relCases() {
		if !seen[c.Text] {
			seen[c.Text] = true
			texts = append(texts, c.Text)
		}
	}
	mk := func(id, raw string, parse bool) *models.Item {
		u := &models.URL{Raw: raw}
		if parse {
			if err := u.Parse(); err != nil {
				panic(err)
			}
		}
		return models.NewItem(id, u, "")
	}
	reported := map[string]bool{}
	for _, p1 := range al.RelParents {
		for _, p2 := range al.RelParents {
			if p1 == p2 {
				continue
			}
			for _, t := range texts {
				direct := eval(t, p2, false)
				first := eval("first-child.bin", p1, false)
				if direct.Err == "" && (direct.Raw == first.Raw || direct.Raw == eval(p1, "", false).Raw || direct.Raw == eval(p2, "", false).Raw || direct.Raw == "http://seed.example/") {
					continue // the reference names a URL that is in the tree already: the de-duplication rightly removes it
				}
				if pu, err := url.Parse(direct.Raw); direct.Err == "" && (err != nil || pu.Path == "" || pu.Path == "/") {
					continue // a child that is a bare site root is dropped by the stage on purpose ("false positive" assets)
				}
				seed := mk("seed", "http://seed.example/", true)
				d1, d2 := mk("d1", p1, true), mk("d2", p2, true)
				c1, c2 := mk("c1", "first-child.bin", false), mk("c2", t, false)
				for _, e := range []error{seed.AddChild(d1, models.ItemGotChildren), seed.AddChild(d2, models.ItemGotChildren), d1.AddChild(c1, models.ItemGotChildren), d2.AddChild(c2, models.ItemGotChildren)} {
					if e != nil {
						panic(e)
					}
				}
				var got result
				func() {
					defer func() {
						if p := recover(); p != nil {
							got = result{Err: fmt.Sprintf("PANIC: %v", p)}
						}
					}()
					preprocessor.VerifC07Preprocess(seed)
					kept := false
					for _, ch := range d2.GetChildren() {
						kept = kept || ch == c2
					}
					if !kept || c2.GetStatus() != models.ItemPreProcessed {
						got = result{Err: "dropped by the stage"}
						return
					}
					got = result{Raw: c2.GetURL().Raw, Str: c2.GetURL().String()}
				}()
				n++
				sig, detail := "", ""
				switch {
				case strings.HasPrefix(got.Err, "PANIC"):
					sig, detail = "level:panic", got.Err
				case (got.Err == "") != (direct.Err == ""):
					sig, detail = "level:verdict", fmt.Sprintf("NormalizeURL(%q, parent %q): %v; as the child of the second document of a level (first document %q): %v", t, p2, direct, p1, got)
				case got.Err == "" && (got.Raw != direct.Raw || got.Str != direct.Str):
					sig, detail = "level:resolved-against-another-parent", fmt.Sprintf("reference %q of %q: NormalizeURL gives %q; as the child of the second document of a level whose first document is %q the stage made it %q", t, p2, direct.Raw, p1, got.Raw)
				}
				if sig != "" && !reported[sig] {
					reported[sig] = true
					fails = append(fails, Fail{Sig: sig, Case: Case{Text: t, Parent: p2, Query: "-", WellFormed: true, RFC: true}, Detail: detail})
				}
			}
		}
	}
	return fails, n
}

// spacePass, clause (h): white space that is not ASCII is part of the reference. The URL standard strips C0 controls
// and U+0020 from both ends of its input and nothing else: a reference that ends in U+00A0, U+3000, U+2028 ... keeps
// that code point, percent-encoded. For every near-plain absolute text and every relative reference of the grid
// (without a fragment, with a path) the text followed by such a code point must normalise to a string that holds the
// code point's percent-encoding.
func spacePass(al alphabet) (fails []Fail, n int) {
	spaces := []string{"\u0085", "\u00a0", "\u1680", "\u2000", "\u2009", "\u2028", "\u2029", "\u202f", "\u205f", "\u3000"}
	type tc struct{ text, parent string }
	var cs []tc
	for _, c := range al.nearCases(2) {
		cs = append(cs, tc{c.Text, ""})
	}
	seen := map[string]bool{}
	for _, c := range al.relCases() {
		if !seen[c.Text] {
			seen[c.Text] = true
			cs = append(cs, tc{c.Text, al.RelParents[1]})
		}
	}
	reported := map[string]bool{}
	for _, c := range cs {
		t := strings.Trim(c.text, `"' `)
		if t != c.text || strings.Contains(t, "#") || t == "" {
			continue
		}
		rest := t
		if i := strings.Index(t, "://"); i >= 0 {
			rest = t[i+3:]
		} else if strings.HasPrefix(t, "//") {
			rest = t[2:]
		}
		if c.parent == "" && !strings.Contains(rest, "/") && !strings.Contains(rest, "?") {
			continue // the code point would land in the host
		}
		if strings.HasPrefix(t, "//") && !strings.Contains(rest, "/") && !strings.Contains(rest, "?") {
			continue
		}
		for _, sp := range spaces {
			enc := ""
			for _, b := range []byte(sp) {
				enc += fmt.Sprintf("%%%02X", b)
			}
			got, want := eval(t+sp, c.parent, false), eval(t+enc, c.parent, false)
			n++
			if got.Err != "" || want.Err != "" {
				continue // rejected references carry no demand here
			}
			// (the rest of the string may differ: a query with raw bytes in it is re-encoded as a whole)
			if !strings.Contains(strings.ToUpper(got.Raw), enc) {
				sig := "unicode-space-at-the-end-not-kept"
				if !reported[sig] {
					reported[sig] = true
					fails = append(fails, Fail{Sig: sig, Case: Case{Text: t + sp, Parent: c.parent, Query: "-", WellFormed: true}, Detail: fmt.Sprintf("%q (ends in U+%04X) normalises to %v, the same text with that code point percent-encoded (%q) to %v", t+sp, []rune(sp)[0], got, t+enc, want)})
				}
			}
		}
	}
	return fails, n
}
