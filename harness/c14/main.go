// Harness for C14: the pause/resume protocol between independent controllers
// and the real stage workers, under the controlled scheduler.
package main

import (
	"encoding/json"
	"fmt"
	"os"
	"strings"
	"time"

	"syscall"

	"github.com/internetarchive/Zeno/internal/pkg/config"
	"github.com/internetarchive/Zeno/internal/pkg/controler/pause"
	"github.com/internetarchive/Zeno/internal/pkg/controler/watchers"
	"github.com/internetarchive/Zeno/internal/verif/lib/world"
	"github.com/internetarchive/Zeno/internal/verif/vrt/hkit"
	"github.com/internetarchive/Zeno/internal/verif/vrt/vsched"
)

// The same harness serves as part B of C18 (harness/c18b is a link to this directory's main.go): there only
// the scenarios with the real disk watchdog on a disk that fills up are run, and the clause judged is
// C18's "pauses while running exactly when free space is below the threshold".
var (
	propID      = "C14"
	harnessName = "c14"
	diskMode    = false
	// stopMode: the harness as part C of C03: the scenarios that end with the real stop order (scripted controllers
	// or the real watchdogs before it), judged for "the stop request returns" only
	stopMode = false
)

func init() {
	if os.Getenv("VERIF_PART") == "c03c" || os.Getenv("VERIF_HARNESS") == "c03c" {
		propID, harnessName, stopMode = "C03", "c03c", true
	}
	if os.Getenv("VERIF_PART") == "c18b" || strings.HasSuffix(os.Args[0], "c18b") || os.Getenv("VERIF_HARNESS") == "c18b" {
		propID, harnessName, diskMode = "C18", "c18b", true
	}
}

const H = "http://s.example"

type scen struct {
	// Watchers: instead of scripted controllers, the two real watchdogs (disk space, WARC writing
	// queue) and the operator's toggle are the controllers; StopAt is the virtual second at which
	// the real stop order begins, Operator the second at which the operator toggles pause (0 = never)
	Watchers bool `json:"watchers,omitempty"`
	StopAt   int  `json:"stop_at,omitempty"`
	Operator int  `json:"operator,omitempty"`
	F        int  `json:"f,omitempty"`
	// DiskFullFrom: from this virtual second on the disk is full and stays full (0 = readings are
	// a choice at every tick): a stop request then finds the pipeline paused by the disk watchdog
	DiskFullFrom int `json:"disk_full_from,omitempty"`
	// DiskLowFirst: the disk is also full during [a,b) seconds before that (it hovers around the threshold);
	// SlowAssetMs: the page's asset is answered that late, so a worker acknowledges a pause only then
	DiskLowFirst [2]int `json:"disk_low_first,omitempty"`
	SlowAssetMs  int    `json:"slow_asset_ms,omitempty"`

	// LateFinisher: the finisher stage is started (its workers subscribe) while a Resume() is collecting the
	// acknowledgements of the other stages - or once the controllers are done, should that moment never come
	LateFinisher bool `json:"late_finisher,omitempty"`

	Anchors bool     `json:"anchors,omitempty"` // the page has anchors and --max-hops is 1: outlinks flow to the finisher
	Scripts []string `json:"scripts"`           // one per controller, over {P,R}
	Stop    bool     `json:"stop"`              // a shutdown thread runs the stop sequence once the controllers are done
	Seeds   int      `json:"seeds"`
	Workers int      `json:"workers"`
	P       int      `json:"p"`
}

func (s *scen) name() string {
	if s.Watchers {
		if s.DiskLowFirst[1] > 0 {
			return fmt.Sprintf("watchers disk-full=[%d,%d)s+from %ds slow-asset=%dms stop-at=%ds w%d", s.DiskLowFirst[0], s.DiskLowFirst[1], s.DiskFullFrom, s.SlowAssetMs, s.StopAt, s.Workers)
		}
		if s.DiskFullFrom > 0 {
			return fmt.Sprintf("watchers disk-full-from=%ds stop-at=%ds operator-at=%ds w%d", s.DiskFullFrom, s.StopAt, s.Operator, s.Workers)
		}
		return fmt.Sprintf("watchers stop-at=%ds operator-at=%ds w%d", s.StopAt, s.Operator, s.Workers)
	}
	if s.LateFinisher {
		return fmt.Sprintf("scripts=%s stop=%v seeds=%d w%d finisher-starts-during-resume", strings.Join(s.Scripts, "|"), s.Stop, s.Seeds, s.Workers)
	}
	if s.Anchors {
		return fmt.Sprintf("scripts=%s stop=%v seeds=%d w%d anchors", strings.Join(s.Scripts, "|"), s.Stop, s.Seeds, s.Workers)
	}
	return fmt.Sprintf("scripts=%s stop=%v seeds=%d w%d", strings.Join(s.Scripts, "|"), s.Stop, s.Seeds, s.Workers)
}

type call struct {
	Ctl    int
	Op     byte
	Inv    int
	Ret    int  // -1 = never returned
	Paused bool // manager state found at invocation (Resume only)
}

type obs struct {
	mu             hkit.Mutex
	calls          []*call
	wakeViolations []string
	stopReturned   bool
	pausedAtStop   bool
	ctlDone        int
}

func site() world.SiteDef {
	return world.SiteDef{Name: "page+asset", Seeds: []string{H + "/p1", H + "/p2"}, Nodes: []world.Node{
		{URL: H + "/p1", Kind: "html", Refs: []string{H + "/a.png"}}, {URL: H + "/a.png", Kind: "bin"},
		{URL: H + "/p2", Kind: "html", Refs: []string{H + "/b.png"}}, {URL: H + "/b.png", Kind: "bin"},
	}}
}

func scenario(s *scen) *vsched.Scenario {
	var w *world.World
	var o *obs
	sc := &vsched.Scenario{Name: s.name()}
	d := site()
	d.Seeds = d.Seeds[:s.Seeds]
	if s.SlowAssetMs > 0 {
		d.Nodes[1].DelayMs = s.SlowAssetMs
	}
	hops := 0
	if s.Anchors {
		// the page also has anchors: with --max-hops 1 the postprocessor feeds them downstream one by one
		d.Nodes[0].Links = []string{H + "/next1", "http://other.example/next2"}
		hops = 1
	}
	sc.Setup = func(x *vsched.Exec) {
		w = world.New(world.Options{Workers: s.Workers, MaxConcurrentAssets: 1, MaxRetry: 0, MaxRedirect: 1, MaxHops: hops, AsyncWARC: s.Watchers, Tmp: os.Getenv("VERIF_TMP")}, d.Build())
		o = &obs{}
		if s.Watchers {
			watchers.VerifC14Reset()
			config.Get().WARCPoolSize = 1
			config.Get().WARCQueueSize = -1
			config.Get().MinSpaceRequired = 1 // GiB
			vsched.StatfsAnswer = func(path string, st *syscall.Statfs_t) error {
				st.Bsize, st.Blocks = 4096, 1<<30
				st.Bavail = 1 << 29 // 2 TiB free
				if s.DiskFullFrom > 0 {
					now := vsched.Cur().Now()
					if now >= time.Duration(s.DiskFullFrom)*time.Second || (now >= time.Duration(s.DiskLowFirst[0])*time.Second && now < time.Duration(s.DiskLowFirst[1])*time.Second) {
						st.Bavail = 10
					}
				} else if vsched.Choose("h:the disk is almost full at this tick", 2) == 1 {
					st.Bavail = 10
				}
				return nil
			}
		}
		x.Data = o
	}
	sc.Body = func() {
		if s.LateFinisher {
			w.FinisherGate = func() bool {
				o.mu.Lock()
				done := o.ctlDone >= len(s.Scripts)
				o.mu.Unlock()
				if done {
					return true
				}
				for _, p := range vsched.Cur().Parked() {
					if strings.Contains(p, "WaitGroup.Wait") && strings.Contains(p, "controler/pause/pause.go") {
						return true // a Resume() has listed the subscribers and waits for their acknowledgements
					}
				}
				return false
			}
		}
		w.Start()
		// workers subscribe at start-up; Zeno's controllers cannot act before that
		// (first watchdog tick after 1-5 s): Subscribe concurrent with Pause is not in the alphabet
		need := 4 * s.Workers
		if s.LateFinisher {
			need = 3 * s.Workers
		}
		vsched.Block("h:wait until every stage worker has subscribed", nil, func() bool { return pause.VerifSubscribers() >= need })
		if s.Watchers {
			watcherBody(s, w, o)
			for i, u := range d.Seeds {
				if err := w.Insert(fmt.Sprintf("seed%d", i), u); err != nil {
					return
				}
			}
			return
		}
		ctlWG := make(chan struct{}, len(s.Scripts))
		for ci, script := range s.Scripts {
			ci, script := ci, script
			go func() { // controller
				for k := 0; k < len(script); k++ {
					c := &call{Ctl: ci, Op: script[k], Inv: vsched.Cur().StepIndex(), Ret: -1, Paused: pause.IsPaused()}
					o.mu.Lock()
					o.calls = append(o.calls, c)
					o.mu.Unlock()
					if script[k] == 'P' {
						pause.Pause("verif")
					} else {
						pause.Resume()
					}
					x := vsched.Cur()
					o.mu.Lock()
					c.Ret = x.StepIndex()
					o.mu.Unlock()
				}
				o.mu.Lock()
				o.ctlDone++
				o.mu.Unlock()
				ctlWG <- struct{}{}
			}()
		}
		if s.Stop {
			go func() { // shutdown
				for range s.Scripts {
					<-ctlWG
				}
				w.Stop()
				o.mu.Lock()
				o.stopReturned = true
				o.mu.Unlock()
			}()
		}
		for i, u := range d.Seeds {
			if err := w.Insert(fmt.Sprintf("seed%d", i), u); err != nil {
				if s.Stop {
					return // a frozen reactor refuses: fine during shutdown
				}
				panic(err)
			}
		}
	}
	sc.Done = func(x *vsched.Exec) bool { return false }
	sc.Idle = func(p string) bool { return world.IsIdlePoint(p) || strings.Contains(p, "recv ctlWG") }
	if s.Watchers {
		s.Stop = true
	}
	sc.Horizon = 10 * time.Minute
	sc.DelayBounding = true
	sc.OKEnds = []string{vsched.EndQuiescent, vsched.EndDeadlock, vsched.EndDone}
	if s.DiskFullFrom > 0 {
		sc.OKEnds = append(sc.OKEnds, vsched.EndHorizon) // judged below: a watchdog that ticks for ever never goes quiescent
	}
	sc.AtEnd = func(x *vsched.Exec) error {
		if x.End == vsched.EndHorizon {
			if !o.stopReturned {
				return fmt.Errorf("stop-blocked: the stop sequence had not returned after %v of virtual time (paused now: %v); parked: %s", sc.Horizon, pause.IsPaused(), strings.Join(x.Blocked(), "; "))
			}
			return fmt.Errorf("never-quiescent: threads still take steps %v after the stop returned", sc.Horizon)
		}
		return oracle(s, x, w, o)
	}
	sc.Outcome = func(x *vsched.Exec) string {
		return fmt.Sprintf("paused=%v finished=%d fetches=%d", pause.IsPaused(), w.FinishedCount(), len(w.Log))
	}
	sc.Cleanup = func(x *vsched.Exec) { w.Cleanup() }
	sc.Signature = sig
	sc.KnownSig = func(sg string) bool { return hkit.IsListed(propID, sg) }
	return sc
}

// watcherBody starts the real watchdogs, a WARC queue that fills at 3 s and drains at 8 s, the
// operator's toggle and the real stop order.
func watcherBody(s *scen, w *world.World, o *obs) {
	os.MkdirAll(w.JobDir(), 0o755)
	go watchers.WatchDiskSpace(w.JobDir(), 5*time.Second)
	watchers.StartWatchWARCWritingQueue(time.Second, 2*time.Second, 250*time.Millisecond)
	drained := make(chan struct{})
	go func() { // the WARC writers fall behind, then catch up
		time.Sleep(3 * time.Second)
		w.Client().WaitGroup.Add(3)
		time.Sleep(5 * time.Second)
		for i := 0; i < 3; i++ {
			w.Client().WaitGroup.Done()
		}
		close(drained)
	}()
	if s.Operator > 0 {
		go func() { // the operator's pause/unpause button (ui/menu.go)
			time.Sleep(time.Duration(s.Operator) * time.Second)
			c := &call{Ctl: 9, Op: 'P', Inv: vsched.Cur().StepIndex(), Ret: -1, Paused: pause.IsPaused()}
			if c.Paused {
				c.Op = 'R'
			}
			o.mu.Lock()
			o.calls = append(o.calls, c)
			o.mu.Unlock()
			if c.Paused {
				pause.Resume()
			} else {
				pause.Pause()
			}
			o.mu.Lock()
			c.Ret = vsched.Cur().StepIndex()
			o.mu.Unlock()
		}()
	}
	go func() { // controler.stopPipeline
		time.Sleep(time.Duration(s.StopAt) * time.Second)
		o.mu.Lock()
		o.pausedAtStop = pause.IsPaused()
		o.mu.Unlock()
		watchers.StopDiskWatcher()
		watchers.StopWARCWritingQueueWatcher()
		<-drained // archiver.Stop waits for the (uninstrumented) writers: model them as done by then
		w.Stop()
		o.mu.Lock()
		o.stopReturned = true
		o.mu.Unlock()
	}()
}

func isWorker(name string) bool { return strings.Contains(name, ".worker") }

func stageOf(name string) string {
	for _, st := range []string{"Preprocessor", "Archiver", "Postprocessor", "Finisher"} {
		if strings.Contains(name, "global"+st) {
			return strings.ToLower(st)
		}
	}
	return name
}

// oracle is C14 on one finished execution (all threads parked or finished).
func oracle(s *scen, x *vsched.Exec, w *world.World, o *obs) error {
	paused := pause.IsPaused()
	// (1) nobody is blocked forever: every controller call returned ...
	for _, c := range o.calls {
		if c.Ret < 0 {
			return fmt.Errorf("caller-blocked: controller %d never returned from %s (manager paused at call: %v; paused now: %v)", c.Ctl, opName(c.Op), c.Paused, paused)
		}
	}
	// the disk watchdog keeps the pipeline paused while the disk is full: two of its ticks after the disk
	// filled up for good the pipeline must be paused
	if diskMode && s.Watchers && s.DiskFullFrom > 0 && s.StopAt >= s.DiskFullFrom+11 && !o.pausedAtStop {
		return fmt.Errorf("running-although-disk-full: the disk has been full since t=%ds, at t=%ds (two watchdog ticks later) the pipeline is not paused", s.DiskFullFrom, s.StopAt)
	}
	if s.Stop && !o.stopReturned {
		return fmt.Errorf("stop-blocked: the stop sequence never returned (paused now: %v); parked: %s", paused, strings.Join(x.Blocked(), "; "))
	}
	// ... and every worker is either waiting for input, or (when the pipeline is
	// left paused) waiting to be resumed
	for _, t := range x.ParkedThreads() {
		if t.Idle {
			continue
		}
		if isWorker(t.Name) && strings.Contains(t.Point, "send controlChans.ResumeCh") {
			if paused {
				continue // legitimately paused: the last call of the history was a pause
			}
			return fmt.Errorf("worker-blocked: %s worker is parked at the resume handshake although the pipeline is not paused", stageOf(t.Name))
		}
		if isWorker(t.Name) && paused && strings.Contains(t.Point, "outputCh") {
			continue // back-pressure: the stage downstream is paused, this worker holds the item until it is resumed
		}
		return fmt.Errorf("thread-blocked: %s is blocked at %s", t.Name, t.Point)
	}
	// (2) a worker that acknowledged a pause takes no work until it is resumed
	acked := map[string]int{}
	ackStep := map[string]int{}
	for i, st := range x.Steps {
		if isWorker(st.Thread) && strings.Contains(st.Point, "recv controlChans.PauseCh") && strings.Contains(st.Point, "select") {
			if st.Case == 1 {
				acked[st.Thread] = 1
				ackStep[st.Thread] = i
			} else if st.Case == 2 && acked[st.Thread] == 1 {
				return fmt.Errorf("work-while-paused: %s worker took a seed at step %d after acknowledging the pause at step %d and before being resumed", stageOf(st.Thread), i, ackStep[st.Thread])
			}
		}
		if strings.Contains(st.Point, "send controlChans.ResumeCh") && isWorker(st.Thread) {
			acked[st.Thread] = 0
		}
	}
	// (3) a Resume() that found the pipeline paused wakes every worker that had acknowledged before it started
	for _, c := range o.calls {
		if c.Op != 'R' || !c.Paused || c.Ret < 0 {
			continue
		}
		ack := map[string]bool{}
		for i, st := range x.Steps {
			if i >= c.Ret {
				break
			}
			if isWorker(st.Thread) && strings.Contains(st.Point, "select") && strings.Contains(st.Point, "recv controlChans.PauseCh") && st.Case == 1 && i < c.Inv {
				ack[st.Thread] = true
			}
			if isWorker(st.Thread) && strings.Contains(st.Point, "send controlChans.ResumeCh") {
				delete(ack, st.Thread)
			}
		}
		for th := range ack {
			return fmt.Errorf("not-woken: Resume() of controller %d returned at step %d but the %s worker, which acknowledged the pause before the call, was not released", c.Ctl, c.Ret, stageOf(th))
		}
	}
	// liveness: a pipeline that is not paused and not stopped finishes its seeds
	if !paused && !s.Stop && w.FinishedCount() != s.Seeds {
		return fmt.Errorf("no-progress: pipeline not paused but only %d of %d seeds finished", w.FinishedCount(), s.Seeds)
	}
	return nil
}

func opName(b byte) string {
	if b == 'P' {
		return "Pause()"
	}
	return "Resume()"
}

func sig(v *vsched.Violation) string {
	m := v.Message
	switch {
	case strings.HasPrefix(m, "caller-blocked"):
		unmatched := strings.Contains(m, "manager paused at call: false")
		if strings.Contains(m, "Resume()") && unmatched {
			return "resume-without-pause-blocks-caller"
		}
		if strings.Contains(m, "Resume()") {
			return "resume-while-paused-blocks-caller"
		}
		return "pause-blocks-caller"
	case strings.HasPrefix(m, "stop-blocked"):
		if strings.Contains(m, "paused now: true") {
			return "stop-while-paused-never-returns"
		}
		return "stop-never-returns"
	case v.Kind == "crash":
		return vsched.DefaultSignature(v)
	}
	if i := strings.IndexByte(m, ':'); i > 0 {
		return m[:i]
	}
	return vsched.DefaultSignature(v)
}

func scripts(maxLen int) []string {
	out := []string{""}
	frontier := []string{""}
	for l := 0; l < maxLen; l++ {
		var next []string
		for _, f := range frontier {
			for _, c := range "PR" {
				next = append(next, f+string(c))
			}
		}
		out = append(out, next...)
		frontier = next
	}
	return out
}

func scenarios(tier string) []scen {
	var out []scen
	P := 1
	if tier == "thorough" {
		P = 2
	}
	// two controllers, all scripts of length <= 2 each (unordered pairs), plus one controller with length 3
	s2 := scripts(2)
	for i, a := range s2 {
		for _, b := range s2[i:] {
			if a == "" && b == "" {
				continue
			}
			// one worker per stage, one seed: one deviation more than elsewhere (a pause that lands
			// while a worker holds a seed AND a resume that overtakes a worker both need their own)
			sc := scen{Scripts: []string{a, b}, Seeds: 1, Workers: 1, P: P + 1}
			if a == "" {
				sc.Scripts = []string{b}
				if tier == "thorough" {
					sc.P = P + 2
				}
			}
			out = append(out, sc)
		}
	}
	for _, a := range scripts(3) {
		if len(a) == 3 {
			out = append(out, scen{Scripts: []string{a}, Seeds: 1, Workers: 1, P: P + 1})
		}
	}
	// a page with anchors (outlinks are fed downstream one by one): single controller, scripts up to length 2, and stop while paused
	for _, a := range []string{"P", "PR", "RP", "PP"} {
		out = append(out, scen{Scripts: []string{a}, Seeds: 1, Workers: 1, P: P, Anchors: true})
	}
	out = append(out, scen{Scripts: []string{"P"}, Stop: true, Seeds: 1, Workers: 1, P: P, Anchors: true})
	// the last stage starts while a Resume() is in flight (the window in which a new subscriber is neither listed
	// nor signalled): it must come up working
	for _, a := range []string{"PR", "PRPR"} {
		out = append(out, scen{Scripts: []string{a}, Seeds: 1, Workers: 1, P: P + 1, LateFinisher: true})
	}
	// the real watchdogs and the operator as independent controllers, then the real stop order
	for _, stopAt := range []int{4, 12, 23} {
		for _, op := range []int{0, 6, 11} {
			out = append(out, scen{Watchers: true, StopAt: stopAt, Operator: op, Seeds: 1, Workers: 1, P: P - 1, F: P})
		}
	}
	// the disk fills up for good: the stop request finds the pipeline paused by the disk watchdog
	for _, stopAt := range []int{12, 23} {
		for _, op := range []int{0, 11} {
			out = append(out, scen{Watchers: true, DiskFullFrom: 4, StopAt: stopAt, Operator: op, Seeds: 1, Workers: 1, P: P - 1, F: P})
		}
	}
	// the disk hovers around the threshold while a worker is busy with a slow fetch: full at the first
	// tick, free at the second, full again - before the busy worker has acknowledged - and for good
	out = append(out, scen{Watchers: true, DiskLowFirst: [2]int{4, 9}, DiskFullFrom: 14, SlowAssetMs: 17000, StopAt: 40, Seeds: 1, Workers: 1, P: P - 1, F: P})
	out = append(out, scen{Watchers: true, DiskLowFirst: [2]int{4, 9}, DiskFullFrom: 14, SlowAssetMs: 12000, StopAt: 40, Seeds: 1, Workers: 1, P: P - 1, F: P})
	// shutdown after the controllers: paused or not
	for _, a := range []string{"", "P", "PR", "PRP"} {
		out = append(out, scen{Scripts: []string{a}, Stop: true, Seeds: 1, Workers: 1, P: P})
	}
	// two workers per stage, two seeds
	for _, pr := range [][]string{{"PR"}, {"PR", "P"}, {"P", "R"}} {
		out = append(out, scen{Scripts: pr, Seeds: 2, Workers: 2, P: P})
	}
	return out
}

type jobResult struct {
	Name string         `json:"name"`
	Rep  *vsched.Report `json:"rep"`
}

func main() {
	a := hkit.ParseArgs()
	ss := scenarios(a.Tier)
	if diskMode {
		var f []scen
		for _, s := range ss {
			if s.Watchers && s.DiskFullFrom > 0 {
				f = append(f, s)
			}
		}
		ss = f
	}
	if stopMode {
		var f []scen
		for _, s := range ss {
			// ... and the scripts of two controllers: in Zeno a controller is a watchdog goroutine, and the stop order
			// begins by waiting for the watchdogs (StopDiskWatcher, StopWARCWritingQueueWatcher): a controller that
			// never returns from its call is a stop request that never returns
			if s.Stop || s.Watchers && s.StopAt > 0 || len(s.Scripts) == 2 {
				f = append(f, s)
			}
		}
		ss = f
	}
	if a.Replay != "" {
		replay(a.Replay)
		return
	}
	maxWall := 40 * time.Second
	if a.Tier == "thorough" {
		maxWall = 15 * time.Minute
	}
	if v, ok := a.Extra["only"]; ok {
		var f []scen
		for _, s := range ss {
			if strings.Contains(s.name(), v) {
				f = append(f, s)
			}
		}
		ss = f
	}
	if v, ok := a.Extra["p"]; ok {
		for i := range ss {
			fmt.Sscanf(v, "%d", &ss[i].P)
		}
	}
	res := hkit.Jobs(a, len(ss), func(j int) any {
		s := &ss[j]
		sc := scenario(s)
		if err := vsched.DeterminismCheck(sc); err != nil {
			hkit.EngineError("%v", err)
		}
		rep := vsched.Explore(sc, vsched.Bounds{P: s.P, F: s.F, MaxWall: maxWall})
		if len(rep.Sample) > 60 {
			rep.Sample = rep.Sample[:60]
		}
		return jobResult{s.name(), rep}
	})
	total := &vsched.Report{Exhaustive: true}
	seen := map[string]bool{}
	var per []map[string]any
	outcomes := map[string]bool{}
	for j, b := range res {
		var r jobResult
		if err := json.Unmarshal(b, &r); err != nil {
			hkit.EngineError("%v", err)
		}
		per = append(per, map[string]any{"scenario": r.Name, "p": ss[j].P, "executions": r.Rep.Executions, "states": r.Rep.States,
			"transitions": r.Rep.Transitions, "outcomes": len(r.Rep.Outcomes), "exhaustive": r.Rep.Exhaustive, "ends": r.Rep.Ends})
		for k := range r.Rep.Outcomes {
			outcomes[k] = true
		}
		for _, v := range r.Rep.Violations {
			if seen[v.Sig] {
				continue
			}
			if stopMode && !strings.HasPrefix(v.Sig, "stop") && !strings.Contains(v.Sig, "blocks-caller") && v.Kind != "crash" && v.Kind != "deadlock" {
				continue // what else goes wrong around a pause is C14's business
			}
			seen[v.Sig] = true
			if err := vsched.Confirm(scenario(&ss[j]), &v); err != nil {
				hkit.EngineError("violation did not replay: %v", err)
			}
			hkit.Report(propID, v.Sig, map[string]any{"engine": "explore", "harness": harnessName, "scenario": ss[j], "violation": v},
				fmt.Sprintf("%s: %s: %s", r.Name, v.Kind, firstLine(v.Message)))
		}
		total.Merge(r.Rep)
	}
	hkit.Evidence(propID, a.Tier, "model_checking", map[string]any{
		"states": total.States, "transitions": total.Transitions, "traces_validated_against_impl": total.Executions,
		"samples": []any{total.Sample}, "exhaustive": total.Exhaustive, "scenarios": len(ss), "distinct_outcomes": len(outcomes),
		"per_scenario": per,
		"explanation":  map[bool]string{true: "part C of C03: the C14 harness restricted to the scenarios that end with the real stop order, judged for the stop sequence returning (pause controllers that overlap before the stop) - ", false: ""}[stopMode] + "real pause manager and the four real stage workers (full pipeline on a fake site) with 1-2 controller threads running every Pause/Resume script up to length 2 each (3 for a single controller), optionally followed by the real stop sequence; every schedule with at most P deviations from the canonical scheduler and all select outcomes",
	}, []string{
		"workers subscribe at start-up; Subscribe concurrent with Pause is not in the alphabet",
		"sync.Map.Range of the subscriber table iterates in insertion order",
	}, hkit.Violations())
	fmt.Printf(propID+" %s"+map[bool]string{true: " (part B)", false: ""}[diskMode]+map[bool]string{true: " (part C)", false: ""}[stopMode]+": %d scenarios, %d executions, %d states, %d transitions, exhaustive=%v\n", a.Tier, len(ss), total.Executions, total.States, total.Transitions, total.Exhaustive)
	hkit.Exit()
}

func firstLine(s string) string {
	if i := strings.IndexByte(s, '\n'); i > 0 {
		s = s[:i]
	}
	if len(s) > 500 {
		s = s[:500]
	}
	return s
}

func replay(path string) {
	b, err := os.ReadFile(path)
	if err != nil {
		hkit.EngineError("%v", err)
	}
	var r struct {
		Scenario  scen             `json:"scenario"`
		Violation vsched.Violation `json:"violation"`
	}
	if err := json.Unmarshal(b, &r); err != nil {
		hkit.EngineError("%v", err)
	}
	v, x := vsched.Replay(scenario(&r.Scenario), r.Violation.Choices)
	for _, s := range x.Steps {
		fmt.Printf("  %-44s %-90s case=%d\n", s.Thread, s.Point, s.Case)
	}
	if v == nil {
		fmt.Println("replay: no violation")
		os.Exit(0)
	}
	fmt.Printf("replay: %s: %s\n", v.Kind, v.Message)
	fmt.Printf("VIOLATION property=%s replay=%s\n", propID, path)
	os.Exit(1)
}
