// Harness for C01: the real five-stage pipeline on a fake site under the
// controlled scheduler; every seed must be finished exactly once, after its
// whole tree.
package main

import (
	"encoding/json"
	"fmt"
	"github.com/internetarchive/Zeno/internal/pkg/controler/pause"
	"os"
	"sort"
	"strings"
	"time"

	"github.com/internetarchive/Zeno/internal/pkg/reactor"
	"github.com/internetarchive/Zeno/internal/verif/lib/world"
	"github.com/internetarchive/Zeno/internal/verif/vrt/hkit"
	"github.com/internetarchive/Zeno/internal/verif/vrt/vsched"
	"github.com/internetarchive/Zeno/pkg/models"
)

const propID = "C01"

type scen struct {
	Def   world.SiteDef `json:"site"`
	Opt   world.Options `json:"options"`
	After map[int]int   `json:"after,omitempty"` // seed index -> insert only after that many finishes
	P     int           `json:"p"`
	Stop  bool          `json:"stop,omitempty"` // a stop request (the real stop order) is a thread of the scenario
	// PauseResume: a controller pauses the pipeline and resumes it, anywhere in the run (the crawl goes on afterwards:
	// every seed must still be finished exactly once)
	PauseResume bool `json:"pause_resume,omitempty"`
}

// oracleStop: with a stop request somewhere in the run not every seed finishes, but one that is
// reported finished is reported once, and only with its whole tree done (a seed that is not finished
// stays in the queue and is crawled again; a finished one is deleted from it for good).
func oracleStop(s *scen, w *world.World) error {
	count := map[string]int{}
	for _, m := range w.Finished {
		count[m.ID]++
		if count[m.ID] > 1 {
			return fmt.Errorf("exactly-once: seed %s was reported finished %d times", m.ID, count[m.ID])
		}
		var bad []string
		m.Item.Traverse(func(n *models.Item) {
			switch n.GetStatus() {
			case models.ItemFresh, models.ItemPreProcessed, models.ItemArchived:
				bad = append(bad, n.GetURL().Raw+"="+n.GetStatus().String())
			}
		})
		if len(bad) > 0 {
			return fmt.Errorf("finished-too-early: %s was reported finished around the stop while nodes still await work: %v", m.ID, bad)
		}
		if err := failedByTheCrawler(w, m.ID, m.Item); err != nil {
			return err
		}
	}
	return nil
}

// failedByTheCrawler: "failed for good" is a verdict on the URL: a node whose last fetch was given up because the
// crawler cancelled its own request (the server was never heard) has not failed for good.
func failedByTheCrawler(w *world.World, id string, it *models.Item) error {
	last := map[string]*world.Fetch{}
	for _, f := range w.Log {
		last[f.URL] = f
	}
	var bad []string
	it.Traverse(func(n *models.Item) {
		if n.GetStatus() != models.ItemFailed || n.GetURL().GetParsed() == nil {
			return
		}
		if f := last[n.GetURL().String()]; f != nil && f.Canceled {
			bad = append(bad, n.GetURL().String())
		}
	})
	if len(bad) > 0 {
		return fmt.Errorf("finished-with-cancelled-fetches: %s was reported finished although the fetch of %v was cancelled by the crawler itself, not failed for good", id, bad)
	}
	return nil
}

func (s *scen) name() string {
	n := fmt.Sprintf("%s w%d a%d retry%d redirect%d", s.Def.Name, s.Opt.Workers, s.Opt.MaxConcurrentAssets, s.Opt.MaxRetry, s.Opt.MaxRedirect)
	if s.Opt.RateLimit {
		n += " limiter"
	}
	if s.Stop {
		n += " +stop"
	}
	if s.PauseResume {
		n += " +pause-resume"
	}
	return n
}

func scenario(s *scen) *vsched.Scenario {
	var w *world.World
	sc := &vsched.Scenario{Name: s.name()}
	tmp := os.Getenv("VERIF_TMP")
	if tmp == "" {
		tmp = "/dev/shm"
	}
	sc.Setup = func(x *vsched.Exec) {
		o := s.Opt
		o.Tmp = tmp
		w = world.New(o, s.Def.Build())
		x.Data = w
	}
	sc.Body = func() {
		w.Start()
		if s.Stop {
			go func() { // stop request: after the drain by default, every deviation moves it earlier
				vsched.Point("h:stop requested", nil)
				w.Stop()
			}()
		}
		if s.PauseResume {
			go func() { // controller: after the drain by default, every deviation moves it earlier
				vsched.Point("h:pause requested", nil)
				pause.Pause("verif")
				pause.Resume()
			}()
		}
		for i, u := range s.Def.Seeds {
			if n, ok := s.After[i]; ok {
				w.WaitFinished(n)
			}
			if err := w.Insert(fmt.Sprintf("seed%d", i), u); err != nil {
				if s.Stop {
					return // frozen reactor: the source gives up
				}
				panic(fmt.Sprintf("insert of seed %d refused: %v", i, err))
			}
		}
	}
	if !s.Stop {
		sc.Done = func(x *vsched.Exec) bool { return w.FinishedCount() >= len(s.Def.Seeds) }
	} else {
		sc.OKEnds = []string{vsched.EndQuiescent, vsched.EndDeadlock, vsched.EndDone, vsched.EndHorizon}
	}
	sc.Idle = world.IsIdlePoint
	sc.Visible = world.VisibleDefault
	sc.Horizon = 30 * time.Minute
	sc.DelayBounding = true
	sc.AtEnd = func(x *vsched.Exec) error {
		if s.Stop {
			return oracleStop(s, w)
		}
		return oracle(s, w)
	}
	sc.Outcome = func(x *vsched.Exec) string {
		var fs []string
		for _, m := range w.Finished {
			fs = append(fs, m.ID+"["+world.TreeStatuses(m.Item)+"]")
		}
		sort.Strings(fs)
		return strings.Join(fs, " ") + " | " + w.LogSummary()
	}
	sc.Cleanup = func(x *vsched.Exec) { w.Cleanup() }
	sc.Signature = vsched.DefaultSignature
	sc.KnownSig = func(sig string) bool { return hkit.IsListed(propID, sig) }
	return sc
}

// oracle is C01 on one execution.
func oracle(s *scen, w *world.World) error {
	// (a) exactly one finish message per inserted seed, none for anything else
	count := map[string]int{}
	for _, m := range w.Finished {
		count[m.ID]++
	}
	for i := range s.Def.Seeds {
		id := fmt.Sprintf("seed%d", i)
		if count[id] != 1 {
			return fmt.Errorf("exactly-once: seed %s (%s) was reported finished %d times", id, s.Def.Seeds[i], count[id])
		}
		delete(count, id)
	}
	for id := range count {
		return fmt.Errorf("exactly-once: finish message for %s which was never inserted", id)
	}
	// reference trees
	exp := make([]*world.Expect, len(s.Def.Seeds))
	owners := map[string]int{}
	for i, u := range s.Def.Seeds {
		exp[i] = s.Def.Reference(u, s.Opt)
		for k := range exp[i].Attempts {
			owners[k]++
		}
	}
	total := map[string]int{}
	for _, f := range w.Log {
		total[f.URL]++
		if owners[f.URL] == 0 {
			return fmt.Errorf("fetched %s which is in no seed's tree", f.URL)
		}
	}
	for i := range s.Def.Seeds {
		id := fmt.Sprintf("seed%d", i)
		var fin *world.Msg
		for k := range w.Finished {
			if w.Finished[k].ID == id {
				fin = &w.Finished[k]
			}
		}
		// (b1) no node of the finished tree still awaits fetching or post-processing
		// (GotChildren/GotRedirected nodes were fetched and expanded; their children are judged themselves)
		var bad []string
		fin.Item.Traverse(func(n *models.Item) {
			switch n.GetStatus() {
			case models.ItemFresh, models.ItemPreProcessed, models.ItemArchived:
				bad = append(bad, n.GetURL().Raw+"="+n.GetStatus().String())
			}
		})
		if len(bad) > 0 {
			return fmt.Errorf("finished-too-early: %s finished while nodes still await work: %v", id, bad)
		}
		// (b2) the reference tree is accounted for
		for u, att := range exp[i].Attempts {
			fs := w.FetchesOf(u)
			if owners[u] > 1 {
				// shared with another seed: requested by whichever came first (the other one is "seen")
				if len(fs) == 0 {
					return fmt.Errorf("dropped-url: %s (shared) of %s was never requested", u, id)
				}
				continue
			}
			if len(fs) != att {
				return fmt.Errorf("dropped-url: %s of %s was attempted %d times, reference says %d", u, id, len(fs), att)
			}
			for _, f := range fs {
				if f.End < 0 || f.End > fin.Step {
					return fmt.Errorf("finished-too-early: %s finished at step %d while the fetch of %s was still open (end %d)", id, fin.Step, u, f.End)
				}
				if f.Start > fin.Step {
					return fmt.Errorf("finished-too-early: %s fetched at step %d after %s finished at %d", u, f.Start, id, fin.Step)
				}
			}
		}
	}
	// (c) the reactor is empty again
	if t, k := reactor.VerifTracked(), reactor.VerifTokens(); t != 0 || k != 0 {
		return fmt.Errorf("reactor-not-empty: %d seeds tracked, %d tokens in use after every seed finished", t, k)
	}
	if w.BodiesOpen != 0 {
		return fmt.Errorf("bodies-open: %d response bodies still open at the end", w.BodiesOpen)
	}
	return nil
}

func scenarios(tier string) []scen {
	var out []scen
	sweepP, depthP := 1, 2
	if tier == "thorough" {
		sweepP, depthP = 2, 3
	}
	for _, d := range world.SweepSites(tier) {
		for _, ca := range [][2]int{{1, 1}, {1, 2}} {
			out = append(out, scen{Def: d, Opt: world.Options{Workers: ca[0], MaxConcurrentAssets: ca[1], MaxRetry: 1, MaxRedirect: 2, ExcludeHosts: []string{"excluded.example"}}, P: sweepP})
		}
		// the rate limiter on (the CLI default): its bucket operations around every request are further points at which
		// the concurrent fetches of one level interleave (between the answer and its storing on the item, for one)
		if len(d.Nodes) > 2 {
			out = append(out, scen{Def: d, Opt: world.Options{Workers: 1, MaxConcurrentAssets: 2, MaxRetry: 1, MaxRedirect: 2, RateLimit: true, RateCapacity: 10, ExcludeHosts: []string{"excluded.example"}}, P: sweepP})
		}
		// tight limits: no retry, one redirect (chains are cut short, the seed must still finish once), two workers per stage; outlink extraction on (max-hops 1)
		out = append(out, scen{Def: d, Opt: world.Options{Workers: 2, MaxConcurrentAssets: 1, MaxRetry: 0, MaxRedirect: 1, MaxHops: 1, ExcludeHosts: []string{"excluded.example"}}, P: sweepP})
	}
	for _, ds := range world.DepthSites() {
		s := scen{Def: ds.Def, After: ds.After}
		for _, ca := range [][2]int{{1, 1}, {2, 1}, {2, 2}} {
			s2 := s
			s2.Opt = world.Options{Workers: ca[0], MaxConcurrentAssets: ca[1], MaxRetry: 1, MaxRedirect: 2}
			s2.P = depthP
			if ca[0] > 1 {
				s2.P = depthP - 1 // two workers per stage: one deviation less keeps the bound completable
			}
			out = append(out, s2)
		}
	}
	// include filters: an asset's redirection leaves the scope while other URLs of that level are still pending
	{
		page := func(u string, refs ...string) world.Node { return world.Node{URL: u, Kind: "html", Refs: refs} }
		d := world.SiteDef{Name: "include-host: asset redirecting out of scope + asset redirecting within + playlist", Seeds: []string{world.H + "/page"},
			Nodes: []world.Node{page(world.H+"/page", world.H+"/ra", world.H+"/rb", world.H+"/pl.m3u8"),
				{URL: world.H + "/ra", Kind: "redirect", Location: "http://cdn.elsewhere.net/x.png"}, {URL: "http://cdn.elsewhere.net/x.png", Kind: "bin"},
				{URL: world.H + "/rb", Kind: "redirect", Code: 302, Location: world.H + "/ra.png"}, {URL: world.H + "/ra.png", Kind: "bin"},
				{URL: world.H + "/pl.m3u8", Kind: "m3u8", Refs: []string{"seg0.ts"}}, {URL: world.H + "/seg0.ts", Kind: "bin"}}}
		for _, ca := range [][2]int{{1, 1}, {1, 2}} {
			out = append(out, scen{Def: d, Opt: world.Options{Workers: ca[0], MaxConcurrentAssets: ca[1], MaxRetry: 1, MaxRedirect: 2, IncludeHosts: []string{"s.example"}}, P: depthP})
		}
		d2 := world.SiteDef{Name: "include-host: seed redirecting out of scope", Seeds: []string{world.H + "/r"}, Nodes: []world.Node{{URL: world.H + "/r", Kind: "redirect", Location: "http://cdn.elsewhere.net/x.png"}}}
		out = append(out, scen{Def: d2, Opt: world.Options{Workers: 1, MaxConcurrentAssets: 1, MaxRetry: 1, MaxRedirect: 2, IncludeHosts: []string{"s.example"}}, P: depthP})
	}
	// redirections under the configurations of a large crawl: no assets capture, no seen-store (what stops a loop
	// is then the in-tree de-duplication and --max-redirect alone)
	for _, sk := range []string{"loop", "loopb", "wall", "redir2"} {
		for _, o := range []world.Options{{Workers: 1, MaxConcurrentAssets: 1, MaxRetry: 0, MaxRedirect: 5, DisableAssets: true, NoSeencheck: true},
			{Workers: 1, MaxConcurrentAssets: 1, MaxRetry: 0, MaxRedirect: 5, DisableAssets: true}, {Workers: 1, MaxConcurrentAssets: 1, MaxRetry: 0, MaxRedirect: 5, NoSeencheck: true}} {
			d := world.MkSite("seed="+sk+" assets=bin", sk, []string{"bin"})
			d.Name += fmt.Sprintf(" disable-assets=%v seencheck=%v", o.DisableAssets, !o.NoSeencheck)
			out = append(out, scen{Def: d, Opt: o, P: sweepP})
		}
	}
	// a pause / resume cycle placed anywhere in the run: the crawl goes on and no seed is lost
	for _, name := range [][]string{{"page", "bin", "redir"}, {"redir1", "m3u8", "flaky"}} {
		d := world.MkSite("seed="+name[0]+" assets="+name[1]+"+"+name[2], name[0], name[1:])
		out = append(out, scen{Def: d, Opt: world.Options{Workers: 1, MaxConcurrentAssets: 1, MaxRetry: 1, MaxRedirect: 2}, P: sweepP + 1, PauseResume: true})
	}
	out = append(out, scen{Def: world.DepthSites()[0].Def, Opt: world.Options{Workers: 2, MaxConcurrentAssets: 1, MaxRetry: 1, MaxRedirect: 2}, P: sweepP, PauseResume: true})
	// the same sites with a stop request placed anywhere in the run
	for _, name := range [][]string{{"page", "bin", "redir"}, {"redir1", "m3u8", "flaky"}, {"page", "cut", "redirB"}} {
		d := world.MkSite("seed="+name[0]+" assets="+name[1]+"+"+name[2], name[0], name[1:])
		out = append(out, scen{Def: d, Opt: world.Options{Workers: 1, MaxConcurrentAssets: 1, MaxRetry: 1, MaxRedirect: 2}, P: sweepP, Stop: true})
	}
	for _, ds := range world.DepthSites()[:2] {
		out = append(out, scen{Def: ds.Def, Opt: world.Options{Workers: 1, MaxConcurrentAssets: 2, MaxRetry: 1, MaxRedirect: 2}, P: sweepP, Stop: true})
	}
	return out
}

type jobResult struct {
	Name string         `json:"name"`
	Rep  *vsched.Report `json:"rep"`
}

func main() {
	a := hkit.ParseArgs()
	ss := scenarios(a.Tier)
	if a.Replay != "" {
		replay(a.Replay)
		return
	}
	maxWall := 50 * time.Second
	if a.Tier == "thorough" {
		maxWall = 20 * time.Minute
	}
	if v, ok := a.Extra["only"]; ok {
		var f []scen
		for _, s := range ss {
			if strings.Contains(s.name(), v) {
				f = append(f, s)
			}
		}
		ss = f
	}
	if v, ok := a.Extra["p"]; ok {
		for i := range ss {
			fmt.Sscanf(v, "%d", &ss[i].P)
		}
	}
	res := hkit.Jobs(a, len(ss), func(j int) any {
		s := &ss[j]
		sc := scenario(s)
		if err := vsched.DeterminismCheck(sc); err != nil {
			hkit.EngineError("%v", err)
		}
		rep := vsched.Explore(sc, vsched.Bounds{P: s.P, MaxWall: maxWall})
		if len(rep.Sample) > 60 {
			rep.Sample = rep.Sample[:60]
		}
		return jobResult{s.name(), rep}
	})
	total := &vsched.Report{Exhaustive: true}
	seen := map[string]bool{}
	var per []map[string]any
	for j, b := range res {
		var r jobResult
		if err := json.Unmarshal(b, &r); err != nil {
			hkit.EngineError("%v", err)
		}
		per = append(per, map[string]any{"scenario": r.Name, "p": ss[j].P, "executions": r.Rep.Executions, "states": r.Rep.States,
			"transitions": r.Rep.Transitions, "outcomes": len(r.Rep.Outcomes), "exhaustive": r.Rep.Exhaustive, "ends": r.Rep.Ends})
		for _, v := range r.Rep.Violations {
			if seen[v.Sig] {
				continue
			}
			seen[v.Sig] = true
			sc := scenario(&ss[j])
			if err := vsched.Confirm(sc, &v); err != nil {
				hkit.EngineError("violation did not replay: %v", err)
			}
			hkit.Report(propID, v.Sig, map[string]any{"engine": "explore", "harness": "c01", "scenario": ss[j], "violation": v},
				fmt.Sprintf("%s: %s: %s", r.Name, v.Kind, firstLine(v.Message)))
		}
		total.Merge(r.Rep)
	}
	nOut := 0
	for _, p := range per {
		nOut += p["outcomes"].(int)
	}
	if len(per) > 400 {
		per = per[:400]
	}
	hkit.Evidence(propID, a.Tier, "model_checking", map[string]any{
		"states": total.States, "transitions": total.Transitions, "traces_validated_against_impl": total.Executions,
		"samples": []any{total.Sample}, "exhaustive": total.Exhaustive, "scenarios": len(ss), "distinct_outcomes_summed": nOut,
		"pruned_by_state_cache": total.Pruned, "per_scenario": per,
		"explanation": "real reactor, preprocessor, archiver workers, postprocessor and finisher wired as in controler.startPipeline over a fake transport; every schedule with at most P deviations (delay bounding: a deviation is any departure from the canonical run-to-block scheduler; all select outcomes are free) is executed; oracle: exactly-once finish, finished tree terminal, reference crawler's URL set fetched with the reference attempt counts and completed before the finish, reactor empty",
	}, []string{
		"fake transport answers immediately; the WARC write is a separate scheduled thread started when the body is closed",
		"points inside internal/pkg/stats, pkg/models, domainscrawl are not scheduling points (tree ownership argument, DESIGN 2.2)",
		"local seencheck on a real LevelDB store under /dev/shm, one per execution",
	}, hkit.Violations())
	fmt.Printf("C01 %s: %d scenarios, %d executions, %d states, %d transitions, exhaustive=%v\n", a.Tier, len(ss), total.Executions, total.States, total.Transitions, total.Exhaustive)
	hkit.Exit()
}

func firstLine(s string) string {
	if i := strings.IndexByte(s, '\n'); i > 0 {
		s = s[:i]
	}
	if len(s) > 500 {
		s = s[:500]
	}
	return s
}

func replay(path string) {
	b, err := os.ReadFile(path)
	if err != nil {
		hkit.EngineError("%v", err)
	}
	var r struct {
		Scenario  scen             `json:"scenario"`
		Violation vsched.Violation `json:"violation"`
	}
	if err := json.Unmarshal(b, &r); err != nil {
		hkit.EngineError("%v", err)
	}
	sc0 := scenario(&r.Scenario)
	out := ""
	inner := sc0.AtEnd
	sc0.AtEnd = func(x *vsched.Exec) error { out = sc0.Outcome(x); fmt.Println("outcome:", out); return inner(x) }
	v, x := vsched.Replay(sc0, r.Violation.Choices)
	defer func() { fmt.Println("outcome:", out) }()
	for _, s := range x.Steps {
		fmt.Printf("  %-44s %-90s case=%d\n", s.Thread, s.Point, s.Case)
	}
	if v == nil {
		fmt.Println("replay: no violation")
		os.Exit(0)
	}
	fmt.Printf("replay: %s: %s\n", v.Kind, v.Message)
	fmt.Printf("VIOLATION property=%s replay=%s\n", propID, path)
	os.Exit(1)
}
